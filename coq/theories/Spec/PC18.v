(* C18 — text and graph renderings encode the tree faithfully.
   Boolean predicates written from the property text.  They are evaluated on the model's output in
   the theorems (Props/C18.v) and on the implementation's output in the check (Corr/RenderCorr.v).
   Trees follow the input convention of Algo/Render.v (`is_hole`: empty BinaryNode slot). *)
From BT Require Import Base.Prelude Base.Str Base.Rose Algo.Render.

(* ============================================================================================== *)
(* generic helpers *)

Definition has_next {A} (r : list A) : bool := match r with [] => false | _ => true end.

Fixpoint nodup_str (l : list str) : bool :=
  match l with [] => true | x :: r => negb (existsb (str_eqb x) r) && nodup_str r end.

Definition pair_eqb (a b : str * str) : bool := str_eqb (fst a) (fst b) && str_eqb (snd a) (snd b).

Definition mk_named (n : str) (ks : list tree) : tree := T None n [] ks.

Definition all_eqb (c : N) (s : str) : bool := forallb (N.eqb c) s.

(* same names and same shape (tags and attributes play no role in a rendering) *)
Fixpoint same_names (a b : tree) : bool :=
  match a, b with
  | T _ n _ ks, T _ m _ ls =>
      str_eqb n m &&
      (fix go (x y : list tree) : bool :=
         match x, y with
         | [], [] => true
         | p :: x', q :: y' => same_names p q && go x' y'
         | _, _ => false
         end) ks ls
  end.

(* blanks at both ends cannot be recovered from a rendering: names are compared up to them *)
Definition blank : str := [32%N].
Definition trim (s : str) : str := strip s blank.

(* ============================================================================================== *)
(* 1. vertical rendering *)

(* For every node below the root, in pre-order: its depth below the root (>= 1), for each proper
   ancestor below the root (levels 1 .. depth-1) whether that ancestor has a following sibling,
   whether the node itself has one, and its name. *)
Record vrow := VR { vr_depth : nat; vr_anc : list bool; vr_sib : bool; vr_name : str }.

Fixpoint vrows (d : nat) (anc : list bool) (sib : bool) (t : tree) : list vrow :=
  match t with
  | T _ n _ ks =>
      VR d anc sib n ::
      (fix go (l : list tree) : list vrow :=
         match l with
         | [] => []
         | k :: r => vrows (S d) (anc ++ [sib]) (has_next r) k ++ go r
         end) ks
  end.

Definition vrows_root (t : tree) : list vrow :=
  (fix go (l : list tree) : list vrow :=
     match l with
     | [] => []
     | k :: r => vrows 1 [] (has_next r) k ++ go r
     end) (tkids t).

Definition vcell (st : vstyle) (b : bool) : str := if b then vs_stem st else vs_gap st.

(* (a) one line per node, in pre-order *)
Definition v_lines_preorder (t : tree) (out : list vline) : bool :=
  list_eqb str_eqb (map (fun l => snd l) out) (map tname (pre t)).

(* one output line against the row of the node it must describe *)
Definition v_indent_row (st : vstyle) (r : vrow) (l : vline) : bool :=
  let '(p, f, _) := l in
  Nat.eqb (length p) (vs_width st * (vr_depth r - 1)) && Nat.eqb (length f) (vs_width st).
Definition v_fill_row (st : vstyle) (r : vrow) (l : vline) : bool :=
  let '(_, f, _) := l in str_eqb f (if vr_sib r then vs_branch st else vs_final st).
Definition v_stems_row (st : vstyle) (r : vrow) (l : vline) : bool :=
  let '(p, _, _) := l in str_eqb p (concat (map (vcell st) (vr_anc r))).

Fixpoint all2 {A B} (f : A -> B -> bool) (a : list A) (b : list B) : bool :=
  match a, b with
  | [], [] => true
  | x :: a', y :: b' => f x y && all2 f a' b'
  | _, _ => false
  end.

Definition v_root_ok (out : list vline) : bool :=
  match out with
  | (p, f, _) :: _ => str_eqb p [] && str_eqb f []
  | [] => false
  end.

(* (b) indentation = width * (depth - 1) cells, then one connector of the same width *)
Definition v_indent (st : vstyle) (t : tree) (out : list vline) : bool :=
  v_root_ok out && all2 (v_indent_row st) (vrows_root t) (tl out).
(* (c) branch glyph iff a sibling follows *)
Definition v_fill (st : vstyle) (t : tree) (out : list vline) : bool :=
  all2 (v_fill_row st) (vrows_root t) (tl out).
(* (d) cell k is a stem iff the ancestor at level k has a following sibling *)
Definition v_stems (st : vstyle) (t : tree) (out : list vline) : bool :=
  all2 (v_stems_row st) (vrows_root t) (tl out).

(* (e) decoding.  From the triples: depth = (|pre| + |fill|) / width, then `forest_of_pre`. *)
Definition v_depth_of (w : nat) (l : vline) : nat * str :=
  let '(p, f, n) := l in ((length p + length f) / w, n).

Definition v_decode (w : nat) (out : list vline) : list tree :=
  forest_of_pre mk_named (S (length out)) 0 (map (v_depth_of w) out).

Definition v_decodable (st : vstyle) (t : tree) (out : list vline) : bool :=
  match v_decode (vs_width st) out with
  | [t'] => same_names t' t
  | _ => false
  end.

(* From the printed text alone (lines of print_tree).  The first line is the root; every other
   line is cut into cells of the style's width: stem-or-gap cells, then one connector.  The cut is
   unambiguous when a connector cannot be mistaken for a stem or a gap. *)
Definition vstyle_distinct (st : vstyle) : bool :=
  negb (Nat.eqb (vs_width st) 0)
  && negb (str_eqb (vs_branch st) (vs_stem st)) && negb (str_eqb (vs_branch st) (vs_gap st))
  && negb (str_eqb (vs_final st) (vs_stem st)) && negb (str_eqb (vs_final st) (vs_gap st)).

Fixpoint v_parse_line (fuel : nat) (st : vstyle) (cells : nat) (s : str) : option (nat * str) :=
  match fuel with
  | 0 => None
  | S f =>
      let w := vs_width st in
      let c := firstn w s in
      if str_eqb c (vs_branch st) || str_eqb c (vs_final st) then Some (S cells, skipn w s)
      else if str_eqb c (vs_stem st) || str_eqb c (vs_gap st) then v_parse_line f st (S cells) (skipn w s)
      else None
  end.

Fixpoint opt_all {A} (l : list (option A)) : option (list A) :=
  match l with
  | [] => Some []
  | None :: _ => None
  | Some x :: r => match opt_all r with Some r' => Some (x :: r') | None => None end
  end.

Definition v_decode_text (st : vstyle) (lines : list str) : option (list tree) :=
  match lines with
  | [] => None
  | root :: rest =>
      match opt_all (map (fun s => v_parse_line (S (length s)) st 0 s) rest) with
      | Some l => Some (forest_of_pre mk_named (S (length lines)) 0 ((0, root) :: l))
      | None => None
      end
  end.

Definition v_text_decodable (st : vstyle) (t : tree) (lines : list str) : bool :=
  negb (vstyle_distinct st) ||
  match v_decode_text st lines with
  | Some [t'] => same_names t' t
  | _ => false
  end.

(* the vertical clause: [t] is the tree that had to be drawn (existing nodes of the start node's
   subtree, cut at max_depth); the decoding clauses need a style of positive width *)
Definition prop_C18_v (st : vstyle) (t : tree) (out : list vline) : bool :=
  v_lines_preorder t out && v_indent st t out && v_fill st t out && v_stems st t out
  && (Nat.eqb (vs_width st) 0 || v_decodable st t out).

(* ============================================================================================== *)
(* 2. horizontal rendering *)

(* The seven icons are passed as plain numbers so that this file does not depend on the model. *)
Record hglyphs := HG { g_first : N; g_subseq : N; g_split : N; g_middle : N; g_last : N;
                       g_stem : N; g_branch : N }.

(* Column bands.  With intermediate names the band of depth d is as wide as the longest name of
   that depth (existing nodes only); a node cell is "b name b" inside the band plus one connector
   column.  Without intermediate names an inner node is drawn as three branch icons. *)
Definition band_widths (inter : bool) (t : tree) : list nat :=
  map (fun k => if inter then fold_right Nat.max 0 (map (fun x => length (tname x)) (level k (compact t))) else 0)
      (seq 0 (height (compact t))).

Inductive hcell :=
| HPad (g : N)                 (* blank cell followed by connector icon g *)
| HInt (name : str) (g : N)    (* inner node cell followed by connector icon g *)
| HLeaf (name : str).          (* leaf: the rest of the row *)

(* cut one row into cells, depth by depth; [ws] = widths of the bands still to come *)
Fixpoint h_parse_row (gl : hglyphs) (inter : bool) (ws : list nat) (s : str) : option (list hcell) :=
  match s with
  | [] => Some []
  | c :: _ =>
      match ws with
      | [] => None                                   (* text beyond the deepest band *)
      | w :: ws' =>
          let cw := if inter then w + 4 else 3 in
          if N.eqb c (g_branch gl) then
            if (if inter then Nat.leb (length s) (w + 2) else N.eqb (nth 1 s 32%N) 32%N) then
              (* leaf: branch icon, blank, name inside the band *)
              if N.eqb (nth 1 s 32%N) 32%N then Some [HLeaf (trim (skipn 2 s))] else None
            else
              let cell := firstn cw s in
              let okcell :=
                if inter then
                  Nat.eqb (length cell) cw
                  && N.eqb (nth 1 cell 0%N) 32%N && N.eqb (nth (w + 2) cell 0%N) 32%N
                  && N.eqb (nth (w + 3) cell 0%N) (g_branch gl)
                else list_eqb N.eqb cell [g_branch gl; g_branch gl; g_branch gl] in
              let name := if inter then trim (firstn w (skipn 2 cell)) else [] in
              match skipn cw s with
              | g :: rest =>
                  if okcell then
                    match h_parse_row gl inter ws' rest with
                    | Some r => Some (HInt name g :: r)
                    | None => None
                    end
                  else None
              | [] => None
              end
          else
            let cell := firstn cw s in
            match skipn cw s with
            | g :: rest =>
                if Nat.eqb (length cell) cw && all_eqb 32%N cell then
                  match h_parse_row gl inter ws' rest with
                  | Some r => Some (HPad g :: r)
                  | None => None
                  end
                else None
            | [] => None
            end
      end
  end.

(* the cell of depth d (from 0) on every row *)
Definition h_column (rows : list (list hcell)) (d : nat) : list (option hcell) :=
  map (fun r => nth_error r d) rows.

Definition is_node_cell (c : option hcell) : bool :=
  match c with Some (HInt _ _) | Some (HLeaf _) => true | _ => false end.

(* One pass down the connector column of depth d.  [col] = cells of depth d, [nxt] = whether a node
   of depth d+1 sits on the row.  Result: for every inner node of depth d, in row order, its row
   and the rows of its children.
   Two ways of knowing where a parent's connector ends:
   - guided ([counts] = Some l): l lists the number of children of the inner nodes of depth d of
     the tree that had to be drawn, top to bottom; works for every style and checks every icon;
   - free ([counts] = None): only from the text, a first-child icon opens and a last-child icon
     closes; needs these icons to be recognisable ([hglyphs_distinct]). *)
Record hrun := HR { hr_rem : option nat; hr_par : option nat; hr_kids : list nat }.

Fixpoint h_scan (gl : hglyphs) (counts : option (list nat)) (i : nat)
         (col : list (option hcell)) (nxt : list bool) (cur : option hrun)
  : option (list (nat * list nat)) :=
  match col, nxt with
  | [], [] => match cur, counts with
              | None, None | None, Some [] => Some []
              | _, _ => None
              end
  | c :: col', child :: nxt' =>
      match cur with
      | None =>
          match c with
          | None | Some (HLeaf _) => if child then None else h_scan gl counts (S i) col' nxt' None
          | Some (HPad g) =>
              if N.eqb g 32%N then (if child then None else h_scan gl counts (S i) col' nxt' None)
              else if child && N.eqb g (g_first gl) then
                match counts with
                | Some (n :: cs) =>
                    if Nat.leb 2 n then h_scan gl (Some cs) (S i) col' nxt' (Some (HR (Some (n - 1)) None [i]))
                    else None
                | Some [] => None
                | None => h_scan gl None (S i) col' nxt' (Some (HR None None [i]))
                end
              else None
          | Some (HInt _ g) =>
              (* an inner node outside a connector: it has exactly one child, on its own row *)
              if child && N.eqb g (g_branch gl) then
                match counts with
                | Some (n :: cs) =>
                    if Nat.eqb n 1 then
                      match h_scan gl (Some cs) (S i) col' nxt' None with
                      | Some r => Some ((i, [i]) :: r) | None => None end
                    else None
                | Some [] => None
                | None =>
                    match h_scan gl None (S i) col' nxt' None with
                    | Some r => Some ((i, [i]) :: r) | None => None end
                end
              else None
          end
      | Some run =>
          match c with
          | Some (HPad g) =>
              if child then
                let closes := match hr_rem run with
                              | Some rem => Nat.eqb rem 1
                              | None => N.eqb g (g_last gl)
                              end in
                if closes then
                  if N.eqb g (g_last gl) then
                    match hr_par run with
                    | Some p =>
                        match h_scan gl counts (S i) col' nxt' None with
                        | Some r => Some ((p, hr_kids run ++ [i]) :: r) | None => None end
                    | None => None
                    end
                  else None
                else if N.eqb g (g_subseq gl) then
                  h_scan gl counts (S i) col' nxt'
                         (Some (HR (option_map Nat.pred (hr_rem run)) (hr_par run) (hr_kids run ++ [i])))
                else None
              else if N.eqb g (g_stem gl) then h_scan gl counts (S i) col' nxt' cur
              else None
          | Some (HInt _ g) =>
              match hr_par run with
              | Some _ => None                       (* two inner nodes on one connector *)
              | None =>
                  if child then
                    if N.eqb g (g_middle gl) && negb (match hr_rem run with Some 1 => true | _ => false end) then
                      h_scan gl counts (S i) col' nxt'
                             (Some (HR (option_map Nat.pred (hr_rem run)) (Some i) (hr_kids run ++ [i])))
                    else None
                  else if N.eqb g (g_split gl) then
                    h_scan gl counts (S i) col' nxt' (Some (HR (hr_rem run) (Some i) (hr_kids run)))
                  else None
              end
          | _ => None                                (* connector interrupted *)
          end
      end
  | _, _ => None
  end.

Definition hglyphs_distinct (gl : hglyphs) : bool :=
  let ne a b := negb (N.eqb a b) in
  ne (g_first gl) (g_last gl)
  && ne (g_first gl) (g_stem gl) && ne (g_first gl) (g_subseq gl) && ne (g_first gl) 32%N
  && ne (g_last gl) (g_stem gl) && ne (g_last gl) (g_subseq gl) && ne (g_last gl) 32%N
  && ne (g_stem gl) 32%N && ne (g_subseq gl) 32%N && ne (g_branch gl) 32%N
  && ne (g_split gl) 32%N && ne (g_middle gl) 32%N.

(* what the guided pass needs from the tree: the child counts of the inner nodes of one depth,
   top to bottom (an empty slot counts as a child of a node that has at least one real child) *)
Definition drawn_kids (t : tree) : list tree :=
  if is_hole t then [] else if existsb (fun k => negb (is_hole k)) (tkids t) then tkids t else [].

Fixpoint drawn_level (k : nat) (t : tree) : list tree :=
  match k with 0 => [t] | S k' => flat_map (drawn_level k') (drawn_kids t) end.

Definition inner_counts (t : tree) (d : nat) : list nat :=
  filter (fun n => negb (Nat.eqb n 0)) (map (fun x => length (drawn_kids x)) (drawn_level d t)).

(* all connector columns: entry d = the parent/children rows found in column d *)
Fixpoint h_scan_all (gl : hglyphs) (guide : option tree) (rows : list (list hcell)) (d : nat) (n : nat)
  : option (list (list (nat * list nat))) :=
  match n with
  | 0 => Some []
  | S n' =>
      let col := h_column rows d in
      let nxt := map is_node_cell (h_column rows (S d)) in
      match h_scan gl (option_map (fun t => inner_counts t d) guide) 0 col nxt None with
      | Some runs => match h_scan_all gl guide rows (S d) n' with
                     | Some r => Some (runs :: r) | None => None end
      | None => None
      end
  end.

Fixpoint assoc_nat {A} (k : nat) (l : list (nat * A)) : option A :=
  match l with [] => None | (k', v) :: r => if Nat.eqb k k' then Some v else assoc_nat k r end.

(* rebuild the tree: node of depth d (from 0) on row r *)
Fixpoint h_build (fuel : nat) (rows : list (list hcell)) (runs : list (list (nat * list nat)))
         (d r : nat) : option tree :=
  match fuel with
  | 0 => None
  | S f =>
      match nth_error (nth r rows []) d with
      | Some (HLeaf n) => Some (mk_named n [])
      | Some (HInt n _) =>
          match assoc_nat r (nth d runs []) with
          | Some kids =>
              match opt_all (map (h_build f rows runs (S d)) kids) with
              | Some ks => Some (mk_named n ks)
              | None => None
              end
          | None => None
          end
      | _ => None
      end
  end.

(* the root: the only row that starts with a node cell *)
Fixpoint find_root (i : nat) (col : list (option hcell)) : list nat :=
  match col with
  | [] => []
  | c :: r => (if is_node_cell c then [i] else []) ++ find_root (S i) r
  end.

(* every node cell of depth d+1 is somebody's child *)
Definition h_all_claimed (rows : list (list hcell)) (runs : list (list (nat * list nat))) : bool :=
  forallb (fun d =>
             Nat.eqb (length (filter is_node_cell (h_column rows (S d))))
                     (length (flat_map snd (nth d runs []))))
          (seq 0 (length runs)).

Definition h_decode (gl : hglyphs) (inter : bool) (ws : list nat) (guide : option tree) (out : list str)
  : option tree :=
  match opt_all (map (h_parse_row gl inter ws) out) with
  | None => None
  | Some rows =>
      match h_scan_all gl guide rows 0 (length ws) with
      | None => None
      | Some runs =>
          if h_all_claimed rows runs then
            match find_root 0 (h_column rows 0) with
            | [r] => h_build (S (length ws)) rows runs 0 r
            | _ => None
            end
          else None
      end
  end.

(* the decoded tree against the tree that had to be drawn: empty slots come back as leaves without
   a name, names of inner nodes only when they are printed *)
Fixpoint h_match (inter : bool) (dec t : tree) : bool :=
  match dec, t with
  | T _ dn _ dks, T _ n _ ks =>
      if is_hole t then str_eqb dn [] && match dks with [] => true | _ => false end
      else if negb (existsb (fun k => negb (is_hole k)) ks)
      then str_eqb dn (trim n) && match dks with [] => true | _ => false end
      else str_eqb dn (if inter then trim n else [])
           && (fix go (a b : list tree) : bool :=
                 match a, b with
                 | [], [] => true
                 | x :: a', y :: b' => h_match inter x y && go a' b'
                 | _, _ => false
                 end) dks ks
  end.

(* the rows that end in a leaf list the leaves (and empty slots) top to bottom in pre-order *)
Fixpoint drawn_leaves (t : tree) : list str :=
  match t with
  | T _ n _ ks =>
      if is_hole t then [[]]
      else if negb (existsb (fun k => negb (is_hole k)) ks) then [trim n]
      else (fix go (l : list tree) : list str :=
              match l with [] => [] | k :: r => drawn_leaves k ++ go r end) ks
  end.

Definition row_leaf (r : list hcell) : list str :=
  match List.last r (HPad 32%N) with HLeaf n => [n] | _ => [] end.

Definition h_leaf_order (gl : hglyphs) (inter : bool) (t : tree) (out : list str) : bool :=
  match opt_all (map (h_parse_row gl inter (band_widths inter t)) out) with
  | Some rows => list_eqb str_eqb (flat_map row_leaf rows) (drawn_leaves t)
  | None => false
  end.

(* number of rows: a leaf (or an empty slot) takes one row, an inner node the rows of its children,
   plus one separating row exactly when it has two children of one row each *)
Fixpoint hrows (t : tree) : nat :=
  match t with
  | T _ _ _ ks =>
      if is_hole t || negb (existsb (fun k => negb (is_hole k)) ks) then 1
      else match (fix go (l : list tree) : list nat :=
                    match l with [] => [] | k :: r => hrows k :: go r end) ks with
           | [1; 1] => 3
           | rs => fold_right Nat.add 0 rs
           end
  end.
Definition h_rows (t : tree) (out : list str) : bool := Nat.eqb (length out) (hrows t).

(* geometry, every style: bands, icons, each parent strictly inside the connector that joins
   exactly its children *)
Definition h_geometry (gl : hglyphs) (inter : bool) (t : tree) (out : list str) : bool :=
  match h_decode gl inter (band_widths inter t) (Some t) out with
  | Some dec => h_match inter dec t
  | None => false
  end.

(* decoding from the text (and the band widths) alone, styles with recognisable icons *)
Definition h_decodable (gl : hglyphs) (inter : bool) (t : tree) (out : list str) : bool :=
  negb (hglyphs_distinct gl) ||
  match h_decode gl inter (band_widths inter t) None out with
  | Some dec => h_match inter dec t
  | None => false
  end.

Definition prop_C18_h (gl : hglyphs) (inter : bool) (t : tree) (out : list str) : bool :=
  negb (N.eqb (g_branch gl) 32%N) && h_rows t out &&
  h_leaf_order gl inter t out && h_geometry gl inter t out && h_decodable gl inter t out.

(* ============================================================================================== *)
(* 3. dot / mermaid: vertices and edges *)

(* parent link of every node below the root, as (pre-order index of the parent, pre-order index of
   the node), in pre-order of the node; [plinks i t]: t's root has pre-order index i, the second
   component is the first index after t *)
Fixpoint plinks (i : nat) (t : tree) : list (nat * nat) * nat :=
  match t with
  | T _ _ _ ks =>
      (fix go (l : list tree) (next : nat) : list (nat * nat) * nat :=
         match l with
         | [] => ([], next)
         | k :: r => let (a, n1) := plinks next k in
                     let (b, n2) := go r n1 in ((i, next) :: a ++ b, n2)
         end) ks (S i)
  end.
Definition parent_links (t : tree) : list (nat * nat) := fst (plinks 0 t).

(* [verts] = (id, label) of the emitted vertices, [edges] = (source id, destination id).
   Exactly one vertex per node (listed in pre-order) with pairwise distinct ids and the node's name
   as label; exactly one edge per parent-child link, between the ids of the two nodes. *)
Definition graph_vertices_ok (t : tree) (verts : list (str * str)) : bool :=
  list_eqb str_eqb (map snd verts) (map tname (pre t)).
Definition graph_ids_distinct (verts : list (str * str)) : bool := nodup_str (map fst verts).
Definition graph_edges_ok (t : tree) (verts edges : list (str * str)) : bool :=
  let ids := map fst verts in
  let want := map (fun pc => (nth (fst pc) ids [], nth (snd pc) ids [])) (parent_links t) in
  Nat.eqb (length edges) (length want)
  && forallb (fun e => existsb (pair_eqb e) edges) want.

(* guards under which tree_to_dot's id scheme (label ++ index among the equally labelled paths)
   is injective: no label ends in a decimal digit (else K2), the nodes have pairwise different
   path names (true for Node trees whose names do not contain the separator: sibling names differ),
   and no label contains a colon (else pydot cuts a port off the vertex name, K5) *)
Definition is_digit_b (c : N) : bool := N.leb 48 c && N.leb c 57.
Definition ends_in_digit (s : str) : bool :=
  match rev s with c :: _ => is_digit_b c | [] => false end.
Definition no_label_ends_in_digit (t : tree) : bool :=
  forallb (fun x => negb (ends_in_digit (tname x))) (pre (compact t)).
Definition no_label_has_colon (t : tree) : bool :=
  forallb (fun x => negb (existsb (N.eqb 58%N) (tname x))) (pre (compact t)).

(* (name, path name) of every node in pre-order; path name = sep ++ sep.join(names from the root) *)
Fixpoint label_paths (sep pp : str) (t : tree) : list (str * str) :=
  match t with
  | T _ n _ ks =>
      (n, pp ++ sep ++ n) ::
      (fix go (l : list tree) : list (str * str) :=
         match l with [] => [] | k :: r => label_paths sep (pp ++ sep ++ n) k ++ go r end) ks
  end.
Definition paths_distinct (sep : str) (t : tree) : bool :=
  nodup_str (map snd (label_paths sep [] (compact t))).

Definition prop_C18_g (t : tree) (verts edges : list (str * str)) : bool :=
  graph_vertices_ok (compact t) verts && graph_ids_distinct verts && graph_edges_ok (compact t) verts edges.

(* ============================================================================================== *)
(* 4. dot: attribute dictionaries.  Every vertex / edge carries exactly the attributes its own node
      prescribes: the node's own style entry for a key when custom styles are requested and the node
      has one, otherwise the default the options give for that key, and nothing else. *)

(* the default for key k *)
Definition node_default (o : dotopts) (k : str) : option str :=
  if str_eqb k s_shape then given (do_node_shape o)
  else if str_eqb k s_fillcolor then given (do_node_colour o)
  else if str_eqb k s_style then (match given (do_node_colour o) with Some _ => Some s_filled | None => None end)
  else None.
Definition edge_default (o : dotopts) (k : str) : option str :=
  if str_eqb k s_color then given (do_edge_colour o) else None.

Definition prescribed (own : sdict) (default : str -> option str) (k : str) : option str :=
  match slookup k own with Some v => Some v | None => default k end.

(* [obs] has each key once, gives every key the prescribed value, and misses no prescribed key
   ([keys] = the keys that can be prescribed at all) *)
Definition dict_exact (own : sdict) (default : str -> option str) (keys : list str) (obs : sdict) : bool :=
  nodup_str (map fst obs)
  && forallb (fun kv => opt_eqb str_eqb (prescribed own default (fst kv)) (Some (snd kv))) obs
  && forallb (fun k => match prescribed own default k with
                       | Some _ => existsb (fun kv => str_eqb (fst kv) k) obs
                       | None => true
                       end) keys.

Definition vertex_attrs_ok (o : dotopts) (x : tree) (obs : sdict) : bool :=
  (* the label, and then the style *)
  opt_eqb str_eqb (slookup s_label obs) (Some (tname x))
  && dict_exact (if do_node_attr o then node_sty x else []) (node_default o)
                ([s_shape; s_fillcolor; s_style] ++ map fst (node_sty x))
                (filter (fun kv => negb (str_eqb (fst kv) s_label)) obs).
Definition edge_attrs_ok (o : dotopts) (x : tree) (obs : sdict) : bool :=
  dict_exact (if do_edge_attr o then edge_sty x else []) (edge_default o)
             (s_color :: map fst (edge_sty x)) obs.

(* vertices in pre-order, edges in pre-order of the child *)
Definition prop_C18_attrs (o : dotopts) (t : tree) (vattrs eattrs : list sdict) : bool :=
  all2 (vertex_attrs_ok o) (pre (compact t)) vattrs
  && all2 (edge_attrs_ok o) (tl (pre (compact t))) eattrs.

(* well-formed style dictionaries (what a Python dict guarantees: every key once) and no `label`
   entry in a node style (pydot.Node would be given `label` twice: TypeError) *)
Definition styles_wf (t : tree) : bool :=
  forallb (fun x => nodup_str (map fst (node_sty x)) && nodup_str (map fst (edge_sty x))
                    && negb (existsb (str_eqb s_label) (map fst (node_sty x))))
          (pre (compact t)).

(* ============================================================================================== *)
(* 5. several trees in one dot graph; edge labels of the mermaid flowchart *)

(* parent links of a list of trees drawn one after the other: indices run on *)
Fixpoint forest_links (off : nat) (ts : list tree) : list (nat * nat) :=
  match ts with
  | [] => []
  | t :: r => fst (plinks off t) ++ forest_links (off + tsize t) r
  end.

Definition prop_C18_gf (ts : list tree) (verts edges : list (str * str)) : bool :=
  let cs := map compact ts in
  list_eqb str_eqb (map snd verts) (map tname (flat_map pre cs))
  && graph_ids_distinct verts
  && (let ids := map fst verts in
      let want := map (fun pc => (nth (fst pc) ids [], nth (snd pc) ids [])) (forest_links 0 cs) in
      Nat.eqb (length edges) (length want) && forallb (fun e => existsb (pair_eqb e) edges) want).

Definition prop_C18_attrs_f (o : dotopts) (ts : list tree) (vattrs eattrs : list sdict) : bool :=
  all2 (vertex_attrs_ok o) (flat_map (fun t => pre (compact t)) ts) vattrs
  && all2 (edge_attrs_ok o) (flat_map (fun t => tl (pre (compact t))) ts) eattrs.

(* the label written on the edge that leads to a node: the node's own `lbl` attribute when edge
   labels are requested and the attribute is a non-empty string, none otherwise *)
Definition s_lbl : str := [108; 98; 108]%N.
Definition own_edge_label (with_labels : bool) (x : tree) : option str :=
  if with_labels then
    match (fix look (d : list (str * val)) : option val :=
             match d with [] => None | (k, v) :: r => if str_eqb s_lbl k then Some v else look r end)
          (scalar_attrs x) with
    | Some (VStr (c :: s)) => Some (c :: s)
    | _ => None
    end
  else None.
Definition m_edge_labels_ok (with_labels : bool) (t : tree) (labels : list (option str)) : bool :=
  all2 (fun x l => opt_eqb str_eqb (own_edge_label with_labels x) l) (tl (pre t)) labels.

(* ============================================================================================== *)
(* 6. box-drawing styles: connectivity read from the arms of the characters.
   The Unicode names of the box-drawing characters say which arms a character has (BOX DRAWINGS
   LIGHT / HEAVY / DOUBLE ... UP, DOWN, LEFT, RIGHT, VERTICAL = UP+DOWN, HORIZONTAL = LEFT+RIGHT,
   ARC DOWN AND RIGHT ...).  [box_norm] maps every heavy, double and arc character the styles use to
   the LIGHT character with the same arms; nothing here is taken from bigtree's style tables.
   What a drawing needs: the connector of a first child has the arms DOWN+RIGHT, of a last child
   UP+RIGHT, of any other child UP+DOWN+RIGHT (plus LEFT when the child shares its parent's row);
   a parent's own connector UP+DOWN+LEFT; a stem UP+DOWN; a branch LEFT+RIGHT.  In the vertical
   form: stem = UP+DOWN, connector of a child with a following sibling UP+DOWN+RIGHT, of the last
   child UP+RIGHT, each followed by HORIZONTAL. *)

Definition box_norm (c : N) : N :=
  match c with
  | 9473%N | 9552%N => 9472%N                 (* HEAVY / DOUBLE HORIZONTAL        -> LIGHT HORIZONTAL *)
  | 9475%N | 9553%N => 9474%N                 (* HEAVY / DOUBLE VERTICAL          -> LIGHT VERTICAL *)
  | 9487%N | 9556%N | 9581%N => 9484%N        (* HEAVY / DOUBLE / ARC DOWN AND RIGHT *)
  | 9495%N | 9562%N | 9584%N => 9492%N        (* HEAVY / DOUBLE / ARC UP AND RIGHT *)
  | 9507%N | 9568%N => 9500%N                 (* HEAVY / DOUBLE VERTICAL AND RIGHT *)
  | 9515%N | 9571%N => 9508%N                 (* HEAVY / DOUBLE VERTICAL AND LEFT *)
  | 9547%N | 9580%N => 9532%N                 (* HEAVY / DOUBLE VERTICAL AND HORIZONTAL *)
  | _ => c
  end.

(* U+2500 .. U+257F *)
Definition is_box (c : N) : bool := N.leb 9472 c && N.leb c 9599.

(* the LIGHT characters by their arms: DOWN+RIGHT, VERTICAL+RIGHT, VERTICAL+LEFT,
   VERTICAL+HORIZONTAL, UP+RIGHT, VERTICAL, HORIZONTAL *)
Definition arm_glyphs : hglyphs := HG 9484 9500 9508 9532 9492 9474 9472.
Definition arm_vstyle : vstyle :=
  VS [9474; 32; 32; 32]%N [9500; 9472; 9472; 32]%N [9492; 9472; 9472; 32]%N.

Fixpoint map_names (f : str -> str) (t : tree) : tree :=
  match t with T g n a ks => T g (f n) a (map (map_names f) ks) end.

(* after replacing every character by the light one with the same arms, the drawing decodes with
   the light characters *)
Definition h_box_decodable (inter : bool) (t : tree) (out : list str) : bool :=
  let nt := map_names (map box_norm) t in
  match h_decode arm_glyphs inter (band_widths inter nt) None (map (map box_norm) out) with
  | Some dec => h_match inter dec nt
  | None => false
  end.

Definition v_box_decodable (t : tree) (printed : list str) : bool :=
  v_text_decodable arm_vstyle (map_names (map box_norm) t) (map (map box_norm) printed).
