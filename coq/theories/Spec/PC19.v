(* C19 — the coordinates written by reingold_tilford form a tidy, non-overlapping drawing.
   Boolean predicates over the coordinate tree (one (x, y) per node, same shape as the input),
   written from the property text, independent of the three passes of the algorithm.

   Every comparison takes a tolerance eps >= 0 (a <= b + eps, |a - b| <= eps): the theorems are
   stated for every eps >= 0 (in particular eps = 0, the exact statement); the correspondence
   check evaluates the predicates on the implementation's floats with eps = 1e-9. *)
From Coq Require Import QArith Qminmax Qabs.
From BT Require Import Base.Prelude Base.Rose Algo.Plot.

Definition leq_eps (eps a b : Q) : bool := Qle_bool a (b + eps).            (* a <= b (+ eps) *)
Definition eq_eps (eps a b : Q) : bool := Qle_bool (Qabs (a - b)) eps.      (* a = b (+- eps) *)

(* the nodes (= subtrees) in pre-order; the nodes at relative depth k, left to right *)
Fixpoint cpre (c : ctree) : list ctree :=
  match c with C _ _ ks => c :: flat_map cpre ks end.
Fixpoint clevel (k : nat) (c : ctree) : list ctree :=
  match k with O => [c] | S k' => flat_map (clevel k') (ckids c) end.
Fixpoint cheight (c : ctree) : nat :=
  match c with C _ _ ks => S (fold_right (fun k a => Nat.max (cheight k) a) 0%nat ks) end.

Fixpoint same_shape (t : tree) (c : ctree) : bool :=
  match t, c with
  | T _ _ _ ks, C _ _ cs =>
      (fix go (a : list tree) (b : list ctree) : bool :=
         match a, b with
         | [], [] => true
         | x :: a', y :: b' => same_shape x y && go a' b'
         | _, _ => false
         end) ks cs
  end.

(* P a b for every pair of list elements with a before b *)
Fixpoint ordpairs {A} (P : A -> A -> bool) (l : list A) : bool :=
  match l with
  | [] => true
  | a :: r => forallb (P a) r && ordpairs P r
  end.

(* 1. all nodes of one depth share the same y; consecutive depths differ by the level separation *)
Definition level_y_ok (eps ls : Q) (c : ctree) (k : nat) : bool :=
  match clevel k c with
  | [] => true
  | n0 :: _ =>
      forallb (fun n => eq_eps eps (cy n) (cy n0)) (clevel k c)
      && forallb (fun m => eq_eps eps (Qabs (cy n0 - cy m)) ls) (clevel (S k) c)
  end.
Definition levels_ok (eps ls : Q) (c : ctree) : bool :=
  forallb (level_y_ok eps ls c) (seq 0 (cheight c)).

(* 2. every parent's x is the midpoint of its first and last child *)
Definition midpoint_ok (eps : Q) (c : ctree) : bool :=
  forallb (fun n => match ckids n with
                    | [] => true
                    | f :: _ => eq_eps eps (cx n) ((cx f + cx (last (ckids n) f)) * (1 # 2))
                    end) (cpre c).

(* 3. children are ordered left to right, at least the sibling separation apart *)
Definition siblings_ok (eps ss : Q) (c : ctree) : bool :=
  forallb (fun n => ordpairs (fun a b => leq_eps eps (cx a + ss) (cx b)) (ckids n)) (cpre c).

(* 4. any two nodes of one depth are at least min(sibling, subtree separation) apart in their
      left-to-right tree order *)
Definition cousins_ok (eps ss sts : Q) (c : ctree) : bool :=
  forallb (fun k => ordpairs (fun a b => leq_eps eps (cx a + Qmin ss sts) (cx b)) (clevel k c))
          (seq 0 (cheight c)).

(* 5. no x coordinate is negative *)
Definition nonneg_ok (eps : Q) (c : ctree) : bool :=
  forallb (fun n => leq_eps eps 0 (cx n)) (cpre c).

(* everything except clause 4 (which the implementation violates: known finding K1) *)
Definition prop_C19_but_cousins (eps : Q) (p : params) (t : tree) (c : ctree) : bool :=
  same_shape t c && levels_ok eps (p_ls p) c && midpoint_ok eps c
  && siblings_ok eps (p_ss p) c && nonneg_ok eps c.

Definition prop_C19 (eps : Q) (p : params) (t : tree) (c : ctree) : bool :=
  prop_C19_but_cousins eps p t c && cousins_ok eps (p_ss p) (p_sts p) c.

(* the quantifier of the property: positive separations (offsets are unrestricted in the model;
   the harness generates non-negative ones) *)
Definition params_pos (p : params) : Prop := 0 < p_ss p /\ 0 < p_sts p /\ 0 < p_ls p.
Definition params_posb (p : params) : bool :=
  negb (Qle_bool (p_ss p) 0) && negb (Qle_bool (p_sts p) 0) && negb (Qle_bool (p_ls p) 0).

(* ---------------------------------------------------------------------------------------------
   The guard of the partial theorem C19_cousins_partial (clause 4 is false in general: K1).

   Shapes only.  hR s: number of levels reached by the walk that starts at s and repeatedly moves
   to the right-most child that itself has children (hL: left-most).  The guard asks of every node
   (a) that at most one of its children has children (then no two subtrees below it are ever
       compared: any fan-out), or
   (b) that it has exactly two children [a; b], the right-going walk from a reaches the deepest
       level of a, and the left-going walk from b reaches the deepest level of b.
   Under (b) the contour comparison of _get_subtree_shift really visits the facing extreme nodes
   of the two subtrees at every common level, and left_idx = 0, so the accumulated shift is
   counted correctly (for left_idx >= 1 it is not: that is the K1 witness). *)
Inductive sk := Sk (l : list sk).
Definition skids (s : sk) : list sk := match s with Sk l => l end.
Fixpoint sk_of (t : tree) : sk := match t with T _ _ _ ks => Sk (map sk_of ks) end.
Definition sleaf (s : sk) : bool := match s with Sk [] => true | _ => false end.

Definition maxh (h : sk -> nat) (l : list sk) : nat := fold_right (fun k a => Nat.max (h k) a) 0%nat l.
Fixpoint sheight (s : sk) : nat := match s with Sk l => S (maxh sheight l) end.

(* the first element with children decides; elements without children count one level *)
Definition chain (h : sk -> nat) (l : list sk) : nat :=
  fold_right (fun k acc => if sleaf k then Nat.max acc 1 else h k) 0%nat l.
Fixpoint hL (s : sk) : nat := match s with Sk l => S (chain hL l) end.
Fixpoint hR (s : sk) : nat :=
  match s with
  | Sk l => S (fold_left (fun acc k => if sleaf k then Nat.max acc 1 else hR k) l 0%nat)
  end.

Definition nonleaves (l : list sk) : nat := length (filter (fun k => negb (sleaf k)) l).

Fixpoint cguard_sk (s : sk) : bool :=
  match s with
  | Sk l => forallb cguard_sk l
            && (Nat.leb (nonleaves l) 1
                || match l with
                   | [a; b] => Nat.eqb (hR a) (sheight a) && Nat.eqb (hL b) (sheight b)
                   | _ => false
                   end)
  end.
Definition cousin_guard (t : tree) : bool := cguard_sk (sk_of t).

(* The wider guard of C19_cousins_partial2: additionally
   (c) a node may have any number of children with children as long as all its grandchildren are
       leaves (the subtrees below it are compared on a single level, where the division by
       1 - left_idx / right_idx is exact; the K1 miscount needs a second level). *)
Definition flat2 (l : list sk) : bool := forallb (fun k => forallb sleaf (skids k)) l.

Fixpoint cguard2_sk (s : sk) : bool :=
  match s with
  | Sk l => forallb cguard2_sk l
            && (Nat.leb (nonleaves l) 1
                || match l with
                   | [a; b] => Nat.eqb (hR a) (sheight a) && Nat.eqb (hL b) (sheight b)
                   | _ => false
                   end
                || flat2 l)
  end.
Definition cousin_guard2 (t : tree) : bool := cguard2_sk (sk_of t).

(* The widest class proved so far (C19_cousins_safe).  For every node and every two of its children
   a (at index j) before b that both have children:
     both are flat (all their children are leaves: one level of comparison, exact for any j), or
     j = 0 and the facing walks are complete (several levels, exact because left_idx = 0).
   Subsumes cousin_guard and cousin_guard2; the K1 witnesses are outside. *)
Definition sflat (s : sk) : bool := forallb sleaf (skids s).
Definition pair_ok (j : nat) (a b : sk) : bool :=
  (sflat a && sflat b) || (Nat.eqb j 0 && Nat.eqb (hR a) (sheight a) && Nat.eqb (hL b) (sheight b)).
Fixpoint node_pairs (j : nat) (l : list sk) : bool :=
  match l with
  | [] => true
  | a :: r => (sleaf a || forallb (fun b => sleaf b || pair_ok j a b) r) && node_pairs (S j) r
  end.
Fixpoint cguard3_sk (s : sk) : bool :=
  match s with Sk l => forallb cguard3_sk l && node_pairs 0 l end.
Definition cousin_safe (t : tree) : bool := cguard3_sk (sk_of t).
