(* C09 as a decision procedure on (input, observed output).

   Written from the property text, independently of the model's recursion scheme: nodes are
   *positions* (child-index routes from the real root) in the whole tree; "the searched subtree in
   pre-order" is `Rose.positions` shifted by the start position; a search result is a `filter` of
   that list; the relative-path semantics is the textbook denotational one, computed frontier by
   frontier (the set of current directories is transformed by one path component at a time), not by
   the depth-first recursion of search.py.

   Observed outputs are object numbers (`Some i`) / the Python None (`None`) / an exception code. *)
From BT Require Import Base.Prelude Base.Str Base.Rose Algo.Search.

Section Spec.
  Variable w : tree.        (* the whole tree, from its real root *)
  Variable sep : str.

  Definition tag_at (q : pos) : option nat :=
    match subtree_at w q with Some t => ttag t | None => None end.
  Definition name_at (q : pos) : str :=
    match subtree_at w q with Some t => tname t | None => [] end.
  Definition attrs_at (q : pos) : attrs :=
    match subtree_at w q with Some t => tattrs t | None => [] end.

  (* names on the route from the root to q, both ends included *)
  Fixpoint names_from (t : tree) (q : pos) : list str :=
    tname t :: match q with
               | [] => []
               | i :: q' => match nth_error (tkids t) i with
                            | Some k => names_from k q'
                            | None => []
                            end
               end.
  Definition names_to (q : pos) : list str := names_from w q.
  Definition path_of (q : pos) : str := sep ++ join sep (names_to q).
  Definition depth_of (q : pos) : nat := S (length q).

  (* all nodes of the subtree rooted at p, in pre-order, as absolute positions *)
  Definition under (p : pos) : list pos :=
    match subtree_at w p with
    | Some s => map (app p) (positions s)
    | None => []
    end.
  Definition all_nodes : list pos := under [].
  Definition children_of (q : pos) : list pos :=
    match subtree_at w q with
    | Some t => map (fun i => q ++ [i]) (seq 0 (length (tkids t)))
    | None => []
    end.
  Definition parent_of (q : pos) : option pos :=
    match q with [] => None | _ => Some (removelast q) end.

  (* max_depth = 0 means unbounded; depth is counted from the real root, which has depth 1 *)
  Definition within (md : nat) (q : pos) : bool := Nat.eqb md 0 || Nat.leb (depth_of q) md.

  (* suf is a suffix of s: s = x ++ suf for some x *)
  Definition is_suffix (s suf : str) : bool :=
    existsb (fun k => str_eqb (skipn k s) suf) (seq 0 (S (length s))).
  Definition is_prefix (s pre : str) : bool := str_eqb (firstn (length pre) s) pre.

  (* remove whole trailing / leading occurrences of the separator *)
  Fixpoint drop_trailing (fuel : nat) (s : str) : str :=
    match fuel with
    | 0 => s
    | S f => match sep with
             | [] => s
             | _ => if is_suffix s sep then drop_trailing f (firstn (length s - length sep) s) else s
             end
    end.
  Fixpoint drop_leading (fuel : nat) (s : str) : str :=
    match fuel with
    | 0 => s
    | S f => match sep with
             | [] => s
             | _ => if is_prefix s sep then drop_leading f (skipn (length sep) s) else s
             end
    end.
  Definition trim_right (s : str) : str := drop_trailing (length s) s.
  Definition trim (s : str) : str := let r := trim_right s in drop_leading (length r) r.

  (* ---- the conditions of the five searches over a subtree -------------------------------- *)
  Definition sat_tab (tab : list bool) (q : pos) : bool :=
    match tag_at q with Some i => nth i tab false | None => false end.
  Definition sat_name (nm : str) (q : pos) : bool := str_eqb (name_at q) nm.
  Definition sat_path (path : str) (q : pos) : bool := is_suffix (path_of q) (trim_right path).
  Definition sat_attr (k : str) (v : val) (q : pos) : bool := py_eqb (lookup_attr k (attrs_at q)) v.

  Definition matches (cond : pos -> bool) (md : nat) (p : pos) : list pos :=
    filter (fun q => within md q && cond q) (under p).
  Definition child_matches (cond : pos -> bool) (p : pos) : list pos := filter cond (children_of p).

  (* ---- result contracts --------------------------------------------------------------------- *)
  Definition is_search_error (o : sobs) : bool :=
    match o with OErr c => Nat.eqb c (exn_code SearchError) | _ => false end.
  Definition count_violated (len mn mx : nat) : bool :=
    (negb (Nat.eqb mn 0) && Nat.ltb len mn) || (negb (Nat.eqb mx 0) && Nat.ltb mx len).

  (* all matches, in order — or SearchError exactly when a count bound is violated *)
  Definition expect_multi (L : list pos) (mn mx : nat) (o : sobs) : bool :=
    if count_violated (length L) mn mx then is_search_error o
    else sobs_eqb o (ONodes (map tag_at L)).
  (* that node when exactly one matches, None when none does, SearchError when several do *)
  Definition expect_single (L : list pos) (o : sobs) : bool :=
    match L with
    | [] => sobs_eqb o (ONode None)
    | [q] => sobs_eqb o (ONode (tag_at q))
    | _ => is_search_error o
    end.

  (* ---- full paths ------------------------------------------------------------------------------ *)
  (* guards: separators cannot occur inside names and names are not empty (Node refuses an empty
     name); no two children of one node carry the same name (Node refuses that too, but a later
     `node.name = ...` can produce it) *)
  Definition name_safe (nm : str) : bool :=
    negb (contains nm sep) && negb (match nm with [] => true | _ => false end).
  Definition sep_safe : bool :=
    negb (match sep with [] => true | _ => false end)
    && forallb (fun t => name_safe (tname t)) (pre w).
  Definition uniq_names (ns : list str) : bool :=
    forallb (fun n => Nat.eqb (length (filter (str_eqb n) ns)) 1) ns.
  Definition sibling_names_unique : bool :=
    forallb (fun t => uniq_names (map tname (tkids t))) (pre w).

  (* the nodes whose full path is the query (with or without leading / trailing separator) *)
  Definition full_path_nodes (path : str) : list pos :=
    filter (fun q => str_eqb (join sep (names_to q)) (trim path)) all_nodes.

  Definition no_node (o : sobs) : bool :=      (* "nothing found", however it is expressed *)
    match o with
    | ONode None => true
    | ONodes l => forallb (fun x => match x with None => true | Some _ => false end) l
    | OErr _ => true
    | _ => false
    end.

  Definition expect_full_path (path : str) (single : bool) (o : sobs) : bool :=
    if sep_safe && sibling_names_unique then
      match full_path_nodes path with
      | [] => no_node o
      | [q] => sobs_eqb o (if single then ONode (tag_at q) else ONodes [tag_at q])
      | _ => true
      end
    else true.

  (* ---- relative paths: denotational file-system semantics, one component at a time ------------ *)
  Definition step1 (wild : bool) (c : str) (q : pos) : option (list pos) :=   (* None = error *)
    if str_eqb c s_dot then Some [q]
    else if str_eqb c s_dotdot then
      match parent_of q with Some u => Some [u] | None => None end
    else if str_eqb c s_star then Some (children_of q)
    else match filter (fun k => str_eqb (name_at k) c) (children_of q) with
         | [k] => Some [k]
         | [] => if wild then Some [] else None
         | _ => None          (* several children of that name: the single-result contract *)
         end.
  Fixpoint step (wild : bool) (c : str) (frontier : list pos) : option (list pos) :=
    match frontier with
    | [] => Some []
    | q :: r => match step1 wild c q, step wild c r with
                | Some a, Some b => Some (a ++ b)
                | _, _ => None
                end
    end.
  Definition denote (wild : bool) (comps : list str) (p : pos) : option (list pos) :=
    fold_left (fun fr c => match fr with Some l => step wild c l | None => None end)
              comps (Some [p]).

  Definition components (path : str) : list str := split (trim path) sep.
  Definition has_wildcard (comps : list str) : bool := existsb (str_eqb s_star) comps.
  (* a component that contains '*' without being "*" is outside the specified language *)
  Definition plain_components (comps : list str) : bool :=
    forallb (fun c => str_eqb c s_star || negb (contains c s_star)) comps.

  Definition expect_relative (p : pos) (path : str) (single : bool) (mn mx : nat) (o : sobs) : bool :=
    if is_prefix path sep then expect_full_path path single o
    else
      let comps := components path in
      if negb (plain_components comps) then true
      else match denote (has_wildcard comps) comps p with
           | None => is_search_error o
           | Some L => if single then expect_single L o else expect_multi L mn mx o
           end.

  (* ---- the property ------------------------------------------------------------------------------ *)
  Definition prop_query (p : pos) (q : query) (o : sobs) : bool :=
    match q with
    | QFindall tab md mn mx => expect_multi (matches (sat_tab tab) md p) mn mx o
    | QFind tab md => expect_single (matches (sat_tab tab) md p) o
    | QFindName nm md => expect_single (matches (sat_name nm) md p) o
    | QFindNames nm md => expect_multi (matches (sat_name nm) md p) 0 0 o
    | QFindPath path => expect_single (matches (sat_path path) 0 p) o
    | QFindPaths path => expect_multi (matches (sat_path path) 0 p) 0 0 o
    | QFindFullPath path => expect_full_path path true o
    | QFindRelPath path => expect_relative p path true 0 0 o
    | QFindRelPaths path mn mx => expect_relative p path false mn mx o
    | QFindAttr k v md => expect_single (matches (sat_attr k v) md p) o
    | QFindAttrs k v md => expect_multi (matches (sat_attr k v) md p) 0 0 o
    | QFindChildren tab mn mx => expect_multi (child_matches (sat_tab tab) p) mn mx o
    | QFindChild tab => expect_single (child_matches (sat_tab tab) p) o
    | QFindChildByName nm => expect_single (child_matches (sat_name nm) p) o
    end.
End Spec.

(* inputs the property speaks about: a non-empty separator and a start node that exists *)
Definition valid_input (i : sinput) : bool :=
  negb (match si_sep i with [] => true | _ => false end)
  && match subtree_at (si_tree i) (si_start i) with Some _ => true | None => false end.

Definition prop_C09 (i : sinput) (o : sobs) : bool :=
  if valid_input i then prop_query (si_tree i) (si_sep i) (si_start i) (si_query i) o else true.
