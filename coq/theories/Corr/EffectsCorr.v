(* Correspondence glue for the effects engine (C07): the case as observed by
   harness/engines/effects.py, the C07 predicate evaluated on the observation (F_PROPFAIL), and the
   comparison with what the effect-skeleton model of Heap/Effects.v computes on the same input
   (F_DISAGREE). *)
From BT Require Import Base.Prelude Base.Str Heap.Forest Heap.Effects Spec.PC07.
From BT Require Heap.Dag.

Inductive fnk :=
| FRaised                                   (* the call raised: only "input unchanged" applies       *)
| FReader                                   (* renderers: text / nothing                              *)
| FNodes                                    (* iterators, search: nodes of the input                  *)
| FExport (start : id)                      (* tree_to_dataframe/polars/dict/nested_dict: data        *)
| FDeepCopy (start : id)                    (* node.copy(), copy.deepcopy                             *)
| FShallowCopy (start : id)                 (* copy.copy                                              *)
| FClone (start : id)                       (* clone_tree                                             *)
| FSubtree (start found : id) (md : nat)    (* get_subtree                                            *)
| FPrune (start : id) (targets : list id) (exact : bool) (md : nat)     (* prune_tree                *)
| FDiff                                     (* get_tree_diff (either argument is the input)           *)
| FCopyOut                                  (* copy_nodes_from_tree_to_tree / copy_and_replace_...: the
                                               input is the source tree, the "result" the destination *)
| FCopyNodes (exact : bool)                 (* copy_nodes inside one tree: the input is the subtree that is
                                               copied, the result the copy found at the destination path *)
| FDagCopy (start : id)                     (* DAGNode.copy(), copy.deepcopy                          *)
| FDagShallow (start : id)                  (* copy.copy(dagnode)                                     *)
| FDagExport (start : id).                  (* dag_to_dict / dag_to_dataframe                         *)

Record ecase := EC {
  ec_cls : nat;                             (* 0 Node, 1 BinaryNode, 2 DAGNode                        *)
  ec_fn : fnk;
  ec_n : nat;                               (* nodes of the input: ids 0..n-1, anything else >= n     *)
  ec_before : sig;
  ec_after : sig;
  ec_in_lists : list nat;                   (* address of each input node's children list object      *)
  ec_in_vals : list nat;                    (* addresses of the mutable attribute values (deep)        *)
  ec_out_lists : list nat;
  ec_out_vals : list nat;
  ec_ret_nodes : option (list id);          (* iterators / search: what was returned                  *)
  ec_result : option (rt * id * list id);   (* tree handed back (from its root), the returned node, its ancestors *)
  ec_after_mr : option sig;                 (* input after the result was mutated                      *)
  ec_res12 : option (rt * rt);              (* result before / after the input was mutated            *)
  ec_data : option (nat * nat);             (* exporters: rendering of the data before / after the input was mutated *)
  ec_dres : option (list dnode * id);       (* DAG handed back: its nodes, the returned node           *)
  ec_dres12 : option (list dnode * list dnode);  (* ... before / after the input was mutated         *)
  ec_pairs : list (id * bool * rt);         (* multi-pair tree-to-tree copies: per (from, to) pair the source
                                               node, whether the whole subtree is expected, and the tree found at
                                               the destination path afterwards                              *)
  ec_expect_ok : bool;                      (* the call is valid by construction: it must not raise    *)
  ec_res_paths : option (nat * list nat * list nat);
                                            (* (sep, path_name) of the result's nodes in pre-order, interned like
                                               e_path: (mode, observed, expected).  mode 0: the result is rooted at a
                                               copy of the input root and complete - must equal the input's; 1: rooted
                                               there but pruned - every one must be an input node's; 2: rooted at a copy
                                               of an inner node / a clone - the new root falls back to its own
                                               separator: compared with the harness-side expectation (agreement only) *)
  ec_sepw : bool                            (* the input is get_tree_diff's other_tree and its separator differs
                                               from the first tree's: helper.py:336 overwrites it (sk_diff) *)
}.

(* ------------------------------------------------------------------------------------------ *)
(* the property on the observation *)

(* which part of the input the result has to equal: (anchor, exact) *)
Definition equal_mode (f : fnk) : option (id * bool) :=
  match f with
  | FDeepCopy _ | FClone _ => Some (0, true)
  | FShallowCopy st => Some (st, true)
  | FSubtree _ found md => Some (found, Nat.eqb md 0)
  | FPrune _ _ _ _ => Some (0, false)
  | FCopyNodes ex => Some (0, ex)
  | _ => None
  end.

Definition dag_start (f : fnk) : option id :=
  match f with FDagCopy st | FDagShallow st => Some st | _ => None end.

Definition result_ids (r : rt * id * list id) : list id :=
  let '(t, ret, up) := r in ret :: up ++ rt_ids t.

Record clauses := CL {
  c_unchanged : bool;      (* the call left the input as it was                                   *)
  c_fresh_nodes : bool;    (* no node object of the input in the returned tree                    *)
  c_fresh_lists : bool;    (* no children-list object shared                                      *)
  c_fresh_vals : bool;     (* no mutable attribute value object shared                            *)
  c_equal : bool;          (* the result equals the corresponding part of the input               *)
  c_indep_in : bool;       (* mutating the result does not show on the input                      *)
  c_indep_res : bool       (* mutating the input does not show on the result                      *)
}.

Definition observed (c : ecase) : clauses :=
  CL (sig_eqb (ec_before c) (ec_after c))
     (match ec_result c with
      | Some r => disjoint_ids (seq 0 (ec_n c)) (result_ids r)
      | None => true end
      && match ec_dres c with
         | Some (res, ret) => disjoint_ids (seq 0 (ec_n c)) (ret :: dres_ids res)
         | None => true end)
     (disjoint_ids (ec_in_lists c) (ec_out_lists c))
     (disjoint_ids (ec_in_vals c) (ec_out_vals c))
     (match ec_result c, equal_mode (ec_fn c) with
      | Some (t, _, _), Some (anchor, exact) => result_equal_part exact (ec_before c) anchor t
      | _, _ => true end
      && match ec_dres c, dag_start (ec_fn c) with
         | Some (res, ret), Some st => dag_equal_part (ec_before c) st res ret
         | _, _ => true end
      && forallb (fun q : id * bool * rt =>
                    let '(anchor, exact, t) := q in result_equal_part exact (ec_before c) anchor t)
                 (ec_pairs c)
      (* "equal to the corresponding part" includes sep / path_name of the nodes *)
      && match ec_res_paths c with
         | Some (0, obs, _) => list_eqb Nat.eqb obs (map e_path (sg_entries (ec_before c)))
         | Some (1, obs, _) => forallb (fun x => memb x (map e_path (sg_entries (ec_before c)))) obs
         | _ => true
         end)
     (match ec_after_mr c with Some s => sig_eqb (ec_before c) s | None => true end)
     (match ec_res12 c with Some (a, b) => rt_eqb a b | None => true end
      && match ec_dres12 c with Some (a, b) => dres_eqb a b | None => true end
      && match ec_data c with Some (a, b) => Nat.eqb a b | None => true end).

Definition all_clauses (k : clauses) : bool :=
  c_unchanged k && c_fresh_nodes k && c_fresh_lists k && c_fresh_vals k && c_equal k
  && c_indep_in k && c_indep_res k.

Definition prop_C07 (c : ecase) : bool := all_clauses (observed c).

(* ------------------------------------------------------------------------------------------ *)
(* the model on the same input *)

Definition dflt_entry : entry := E [] [] [] [] None 0.
Definition entry_of (s : sig) (x : id) : entry := nth x (sg_entries s) dflt_entry.

Definition max_list (l : list nat) : nat := fold_left Nat.max l 0.
Definition attr_addr (a : attr) : nat := let '(_, _, ad) := a in ad.

(* first address not used by the input *)
Definition vsz_of (c : ecase) : nat :=
  S (Nat.max (max_list (ec_in_lists c))
             (Nat.max (max_list (ec_in_vals c))
                      (max_list (flat_map (fun e => map attr_addr (e_attrs e)) (sg_entries (ec_before c)))))).

Definition heap_of (c : ecase) : eheap :=
  let b := ec_before c in
  EH (mk (ec_n c)
         (fun x => hd_error (e_pars (entry_of b x)))
         (fun x => somes (e_kids (entry_of b x)))
         (fun x => e_name (entry_of b x))
         (fun _ => [47%N]))
     (fun x => e_attrs (entry_of b x))
     (fun x => nth x (ec_in_lists c) 0)
     (vsz_of c).

(* the input is inside the modelled domain: Node class, links among 0..n-1, private = public *)
Definition clean_sig (n : nat) (s : sig) : bool :=
  Nat.eqb (length (sg_entries s)) n
  && forallb (fun e => Nat.leb (length (e_pars e)) 1 && forallb (fun p => Nat.ltb p n) (e_pars e)
                       && forallb (fun o => match o with Some k => Nat.ltb k n | None => false end) (e_kids e)
                       && match e_priv e with None => true | Some _ => false end) (sg_entries s).

Fixpoint walk (fuel : nat) (s : forest) (x : id) : list id :=
  match fuel with
  | 0 => [x]
  | S f => x :: flat_map (walk f s) (kids s x)
  end.

(* what the harness would record on the model state for the input nodes *)
Definition observe (n : nat) (h : eheap) : sig :=
  SG (walk n (fr h) 0)
     (map (fun x => E (match par (fr h) x with Some p => [p] | None => [] end) (map Some (kids (fr h) x)) (name (fr h) x) (att h x) None 0) (seq 0 n)).

(* the forest model does not carry path names *)
Definition strip_path (s : sig) : sig :=
  SG (sg_walk s) (map (fun e => E (e_pars e) (e_kids e) (e_name e) (e_attrs e) (e_priv e) 0) (sg_entries s)).

Fixpoint heap_rt (fuel : nat) (h : eheap) (x : id) : rt :=
  RT x (name (fr h) x) (att h x) (kl h x)
     (match fuel with
      | 0 => []
      | S f => map (fun k => Some (heap_rt f h k)) (kids (fr h) x)
      end).

(* the view the harness takes of a returned node: from its root, unless the node cannot be reached
   from there (then from the node itself) *)
Definition model_view (h : eheap) (r : id) : rt * id * list id :=
  let s := fr h in
  let fuel := size s in
  let top := root s r in
  let t := heap_rt fuel h top in
  if memb r (rt_ids t) then (t, r, ancestors s r) else (heap_rt fuel h r, r, ancestors s r).

Definition cfg0 : config := {| assertions := true; is_node := true |}.

Definition model (c : ecase) : option (eheap * option id) :=
  let h := heap_of c in
  match ec_fn c with
  | FRaised | FReader | FNodes => Some (sk_reader h, None)
  | FExport st => Some (sk_export h st, None)
  | FDeepCopy st => let '(h', r) := sk_copy h st in Some (h', Some r)
  | FShallowCopy st => let '(h', r) := sk_shallow h st in Some (h', Some r)
  | FClone st => let '(h', r) := sk_clone cfg0 h st in Some (h', Some r)
  | FSubtree st found md => let '(h', r) := sk_get_subtree cfg0 h st found md in Some (h', Some r)
  | FPrune st ts ex md => let '(h', r) := sk_prune cfg0 h st ts ex md in Some (h', Some r)
  | _ => None
  end.

(* identities / addresses up to the naming of fresh objects *)
Definition id_sim (n a b : nat) : bool := if Nat.ltb a n then Nat.eqb a b else Nat.leb n b.
Definition addr_sim (v a b : nat) : bool :=
  if Nat.eqb a 0 then Nat.eqb b 0 else if Nat.ltb a v then Nat.eqb a b else Nat.leb v b.
Definition attr_sim (v : nat) (a b : attr) : bool :=
  let '(k, c, ad) := a in let '(k', c', ad') := b in Nat.eqb k k' && Nat.eqb c c' && addr_sim v ad ad'.

Fixpoint rt_sim (n v : nat) (m o : rt) : bool :=
  match m, o with
  | RT i nm at_ l ks, RT i' nm' at' l' ks' =>
      id_sim n i i' && str_eqb nm nm' && list_eqb (attr_sim v) at_ at' && addr_sim v l l'
      && (fix go (a b : list (option rt)) : bool :=
            match a, b with
            | [], [] => true
            | Some x :: t, Some y :: t' => rt_sim n v x y && go t t'
            | None :: t, None :: t' => go t t'
            | _, _ => false
            end) ks ks'
  end.

Fixpoint rt_lists (t : rt) : list nat :=
  match t with
  | RT _ _ _ l ks => l :: flat_map (fun o => match o with Some k => rt_lists k | None => [] end) ks
  end.
Fixpoint rt_addrs (t : rt) : list nat :=
  match t with
  | RT _ _ at_ _ ks => map attr_addr at_ ++ flat_map (fun o => match o with Some k => rt_addrs k | None => [] end) ks
  end.

(* BinaryNode clone_tree at the level of the returned tree (helper.py:47-51 skips the empty slot and
   `child.parent = new_parent` fills the first free one): the children move to the front (K6-C07) *)
Fixpoint compact (t : rt) : rt :=
  match t with
  | RT i n a l ks =>
      let ks' := flat_map (fun o => match o with Some k => [Some (compact k)] | None => [] end) ks in
      RT i n a l (ks' ++ repeat None (length ks - length ks'))
  end.

(* what the model predicts for the seven clauses *)
Definition predicted (c : ecase) : clauses :=
  let n := ec_n c in
  let v := vsz_of c in
  (* mutable value objects anywhere inside the attribute values (inside tuples as well) *)
  let input_has_vals := match ec_in_vals c with [] => false | _ => true end in
  let all := CL true true true true true true true in
  match ec_fn c with
  | FShallowCopy _ | FDagShallow _ => CL true false false (negb input_has_vals) true false false
  | FClone _ =>
      (* attribute values are handed over by reference (K5-C07) *)
      let shared := input_has_vals in
      let slots_kept := match ec_result c with
                        | Some (t, _, _) =>
                            negb (Nat.eqb (ec_cls c) 1)
                            || same_tree (compact (sub_rt n (ec_before c) 0)) (sub_rt n (ec_before c) 0)
                        | None => true end in
      CL true true true (negb shared) slots_kept (negb shared) (negb shared)
  | _ => if ec_sepw c then CL false true true true true false true else all
  end.

Definition implc (p o : clauses) : bool :=
  implb (c_unchanged p) (c_unchanged o) && implb (c_fresh_nodes p) (c_fresh_nodes o)
  && implb (c_fresh_lists p) (c_fresh_lists o) && implb (c_fresh_vals p) (c_fresh_vals o)
  && implb (c_equal p) (c_equal o) && implb (c_indep_in p) (c_indep_in o)
  && implb (c_indep_res p) (c_indep_res o).

(* the run of the skeleton against the observation (Node trees inside the modelled domain) *)
Definition agree_run (c : ecase) : bool :=
  let n := ec_n c in
  let v := vsz_of c in
  if negb (Nat.eqb (ec_cls c) 0 && clean_sig n (ec_before c)) then true else
  match model c with
  | None => true
  | Some (h', r) =>
      (* the input nodes after the call *)
      sig_eqb (observe n h') (strip_path (ec_after c))
      && match r, ec_result c with
         | Some r, Some (t, ret, up) =>
             let '(mt, mret, mup) := model_view h' r in
             rt_sim n v mt t
             && Nat.eqb (index_of mret (rt_ids mt)) (index_of ret (rt_ids t))
             && Nat.eqb (length mup) (length up)
             (* the model's own result is fresh exactly where the prediction says so *)
             && implb (c_fresh_nodes (predicted c)) (forallb (Nat.leb n) (mret :: mup ++ rt_ids mt))
             && implb (c_fresh_lists (predicted c)) (forallb (Nat.leb v) (rt_lists mt))
             && implb (c_fresh_vals (predicted c))
                      (forallb (fun a => Nat.eqb a 0 || Nat.leb v a) (rt_addrs mt))
         | None, None => true
         | _, _ => false
         end
  end.

Definition agree_binary_clone (c : ecase) : bool :=
  match ec_fn c, ec_result c with
  | FClone _, Some (t, _, _) =>
      if Nat.eqb (ec_cls c) 1 then same_tree t (compact (sub_rt (ec_n c) (ec_before c) 0)) else true
  | _, _ => true
  end.

Definition agree_nodes (c : ecase) : bool :=
  match ec_ret_nodes c with
  | Some l => forallb (fun x => Nat.ltb x (ec_n c)) l      (* readers hand back nodes of the input *)
  | None => true
  end.

(* DAGNode: the DAG skeleton allocates one node per member of the connected part; a shallow copy
   allocates exactly one *)
Definition dag_of (c : ecase) : Dag.dag :=
  let b := ec_before c in
  Dag.mkdag (ec_n c) (fun x => e_pars (entry_of b x)) (fun x => somes (e_kids (entry_of b x)))
            (fun x => e_name (entry_of b x)).

Definition agree_dag (c : ecase) : bool :=
  match ec_fn c, ec_dres c with
  | FDagCopy st, Some (res, ret) =>
      let s := dag_of c in
      let '(s', r) := dsk_copy s st in
      Nat.eqb (length res) (Dag.dsize s' - Dag.dsize s)
      && Nat.leb (ec_n c) r
      && match find (fun d : dnode => Nat.eqb (fst d) ret) res with
         | Some d => Nat.eqb (length (e_pars (snd d))) (length (Dag.parents s' r))
                     && Nat.eqb (length (e_kids (snd d))) (length (Dag.children s' r))
                     && str_eqb (e_name (snd d)) (Dag.dname s' r)
         | None => false end
  | FDagShallow st, Some (res, ret) =>
      let '(s', r) := dshallow_copy (dag_of c) st in
      Nat.eqb (length res) 1
      && match res with
         | [d] => list_eqb Nat.eqb (e_pars (snd d)) (Dag.parents s' r)
                  && list_eqb Nat.eqb (somes (e_kids (snd d))) (Dag.children s' r)
         | _ => false end
  | (FDagCopy _ | FDagShallow _), None => false
  | _, _ => true
  end.

(* the skeletons have no failure path: a call that is valid by construction returns *)
Definition agree_paths (c : ecase) : bool :=
  match ec_res_paths c with
  | Some (2, obs, expd) => list_eqb Nat.eqb obs expd
  | _ => true
  end.

Definition agree_returns (c : ecase) : bool :=
  implb (ec_expect_ok c) (match ec_fn c with FRaised => false | _ => true end).

Definition agree_C07 (c : ecase) : bool :=
  implc (predicted c) (observed c) && agree_run c && agree_binary_clone c && agree_nodes c && agree_dag c
  && agree_returns c && agree_paths c.

Definition well_formed_case (c : ecase) : bool :=
  Nat.eqb (length (sg_entries (ec_before c))) (ec_n c)
  && Nat.eqb (length (sg_entries (ec_after c))) (ec_n c).

Definition check_C07 (c : ecase) : nat :=
  if negb (well_formed_case c) then F_DISAGREE else
  flag (negb (agree_C07 c)) F_DISAGREE + flag (negb (prop_C07 c)) F_PROPFAIL.
