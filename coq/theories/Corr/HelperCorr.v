(* Correspondence glue for the helper engine (C14): one case = tree, its separator, the call, and
   what the real prune_tree / get_subtree returned (pre-order labels of the returned tree, or the
   exception class). *)
From BT Require Import Base.Prelude Base.Str Base.Rose Algo.Helper Spec.PC14.

Record hcase := HC {
  hc_sep : str;          (* tree.sep *)
  hc_tree : tree;
  hc_call : hcall;
  hc_obs : hobs
}.

(* model against observation: same labels in the same order (= same ordered tree with the same
   names and attributes), or the same exception class *)
Definition agree (m : res tree) (o : hobs) : bool :=
  match m, o with
  | Ret t', OTree l => list_eqb lbl_eqb (obs_tree t') l
  | Raise e, OErr c => Nat.eqb (exn_code e) c
  | _, _ => false
  end.

(* nested prune targets are outside the claim of C14: nothing is compared there *)
Definition outside_claim (tsep : str) (t : tree) (c : hcall) : bool :=
  match c with
  | CPrune pp _ sep _ =>
      if is_nil tsep || is_nil sep then false else
      match locate tsep sep t (norm_paths pp) with
      | Ret targets => nested targets
      | Raise _ => false
      end
  | CSubtree _ _ => false
  end.

Definition check_C14 (c : hcase) : nat :=
  let m := run_call (hc_sep c) (hc_tree c) (hc_call c) in
  match m with
  | Raise Unmodelled => F_SKIP
  | _ =>
      if outside_claim (hc_sep c) (hc_tree c) (hc_call c) then F_SKIP else
      flag (negb (agree m (hc_obs c))) F_DISAGREE
      + flag (negb (prop_C14 (hc_sep c) (hc_tree c) (hc_call c) (hc_obs c))) F_PROPFAIL
  end.
