(* Correspondence glue for the helper engine (C14): one case = tree (Node tree, or BinaryNode tree
   encoded with HOLE placeholders), its separator, the start node's position, the call, and what the
   real prune_tree / get_subtree returned: pre-order labels of the returned node's subtree with
   depths counted from the returned node (empty BinaryNode slots appear as (depth, "", [])), the
   returned node's own `depth` attribute, or the exception class; optionally what print_tree showed
   for the same (node_name_or_path, max_depth). *)
From BT Require Import Base.Prelude Base.Str Base.Rose Algo.Helper Spec.PC14.

Record hcase := HC {
  hc_bin : bool;         (* BinaryNode tree *)
  hc_sep : str;          (* tree.sep *)
  hc_tree : tree;        (* the whole tree, from its root *)
  hc_start : pos;        (* the node the function is called on *)
  hc_call : hcall;
  hc_obs : hobs;
  hc_top : nat;          (* result.depth (0 when an exception was raised) *)
  hc_print : option hobs;(* print_tree lines as (depth, name, []) or its exception *)
  hc_whole : option (list lbl); (* prune_tree on an inner node of a Node tree: pre-order labels of result.root,
                            i.e. the whole copy the returned node is still attached to *)
  hc_inv : bool          (* side conditions the harness evaluates on the live objects (see helper.py
                            `_side_conditions`): input tree, its separators and the path argument
                            unchanged; result made of new objects of the input's node class whose
                            parent/children links agree; no attribute value object shared with the
                            input and the result unaffected by later changes of the input; a second
                            identical call gives the same result; hyield_tree shows the same node
                            names as print_tree *)
}.

(* model against observation: same labels in the same order (= same ordered tree with the same
   names, attributes and empty slots), or the same exception class *)
Definition agree (m : res tree) (o : hobs) : bool :=
  match m, o with
  | Ret t', OTree l => list_eqb lbl_eqb (obs_tree t') l
  | Raise e, OErr c => Nat.eqb (exn_code e) c
  | _, _ => false
  end.

Definition agree_print (m : res tree) (pr : option hobs) : bool :=
  match pr with
  | None => true
  | Some o =>
      match m, o with
      | Ret t', OTree l => list_eqb lbl_eqb (shown (obs_tree t')) l
      | Raise e, OErr c => Nat.eqb (exn_code e) c
      | _, _ => false
      end
  end.

(* the returned node's depth attribute is compared where the property speaks about it (get_subtree:
   "as a new root") and for calls on a root; for prune_tree on an inner node it is recorded only *)
Definition agree_top (st : pos) (c : hcall) (m : res tree) (top : nat) : bool :=
  match m with
  | Raise _ => true
  | Ret _ => match c, st with
             | CPrune _ _ _ _, _ :: _ => true
             | _, _ => Nat.eqb top (top_depth st c)
             end
  end.

(* what is above the returned node of prune_tree on an inner node: the whole copy after the surgery
   (C14_inner_result_in_whole_copy) *)
Definition agree_whole (bin : bool) (tsep : str) (t : tree) (st : pos) (c : hcall) (w : option (list lbl)) : bool :=
  match w, c with
  | Some l, CPrune pp exact sep d =>
      if bin then true else
      let paths := norm_paths pp in
      if is_nil paths then list_eqb lbl_eqb (obs_tree (whole_copy_at false [] exact st d t)) l else
      match locate_at bin tsep sep (copy_tree t) st paths with
      | Ret targets => list_eqb lbl_eqb (obs_tree (whole_copy_at true targets exact st d t)) l
      | Raise _ => true
      end
  | _, _ => true
  end.

(* nested prune targets are outside the claim of C14: nothing is compared there *)
Definition outside_claim (bin : bool) (tsep : str) (t : tree) (st : pos) (c : hcall) : bool :=
  match c with
  | CPrune pp _ sep _ =>
      if is_nil tsep || is_nil sep then false else
      match locate_at bin tsep sep t st (norm_paths pp) with
      | Ret targets => nested targets
      | Raise _ => false
      end
  | CSubtree _ _ => false
  end.

Definition check_C14 (c : hcase) : nat :=
  let m := run_call_at (hc_bin c) (hc_sep c) (hc_tree c) (hc_start c) (hc_call c) in
  match m with
  | Raise Unmodelled => F_SKIP
  | _ =>
      if outside_claim (hc_bin c) (hc_sep c) (hc_tree c) (hc_start c) (hc_call c) then F_SKIP else
      flag (negb (agree m (hc_obs c) && agree_top (hc_start c) (hc_call c) m (hc_top c)
                  && agree_print m (hc_print c)
                  && agree_whole (hc_bin c) (hc_sep c) (hc_tree c) (hc_start c) (hc_call c) (hc_whole c))) F_DISAGREE
      + flag (negb (prop_C14_at (hc_bin c) (hc_sep c) (hc_tree c) (hc_start c) (hc_call c) (hc_obs c)
                    && prop_C14_top (hc_call c) (hc_obs c) (hc_top c)
                    && prop_C14_print (hc_bin c) (hc_sep c) (hc_tree c) (hc_start c) (hc_call c) (hc_print c)
                    && hc_inv c))
             F_PROPFAIL
  end.
