(* Correspondence glue for the export engine (C06, tabular half): one case = a Node tree, a start
   node, one option set, and what the four exporters and the four export->constructor round trips of
   the implementation returned, canonicalised by harness/engines/export.py:
   * dict        : list of (path, items sorted by key) in insertion order
   * nested dict : pre-order list of (nesting depth, items sorted by key without child_key)
   * frames      : list of rows, each the items sorted by column (NaN/None -> VNone)
   * rebuilt tree: pre-order list of (depth, (name, attributes sorted by key))
   An exception is observed as `None`. *)
From BT Require Import Base.Prelude Base.Str Base.Rose Algo.Export Spec.PC06.

(* a second observation that is usually identical to the previous one is sent as `Same` *)
Inductive again (A : Type) := Same | Other (a : A).
Arguments Same {A}.
Arguments Other {A} a.
Definition resolve {A} (prev : A) (x : again A) : A := match x with Same => prev | Other a => a end.

Definition flat_obs := list (nat * (str * attrs)).
Definition nested_obs := list (nat * record).

Record xcase := XC {
  xc_tree : tree;  xc_sep : str;  xc_pos : pos;  xc_opts : opts;
  xc_dict : option (list (str * record));
  xc_nested : option nested_obs;
  xc_df : option (list record);
  xc_pl : again (option (list record));             (* Same = equal to xc_df *)
  xc_rt_dict : option flat_obs;
  xc_rt_nested : again (option flat_obs);           (* Same = equal to xc_rt_dict *)
  xc_rt_df : again (option flat_obs);               (* Same = equal to xc_rt_dict *)
  xc_rt_pl : again (option flat_obs);               (* Same = equal to xc_rt_df *)
  xc_nk : str;                 (* name_key used by the nested round trip *)
  xc_dup : bool;               (* duplicate_name_allowed of the three path constructors *)
  xc_rt_seps : list (option str)   (* root.sep of the rebuilt trees: dict, nested, df, pl (None = raised) *)
}.

(* decoding of pre-order observations *)
Definition decode1 {A} (mk : A -> list tree -> tree) (l : list (nat * A)) : res tree :=
  match forest_of_pre mk (S (length l)) 0 l with
  | [t] => Ret t
  | _ => Raise Unmodelled
  end.
Definition mk_node (na : str * attrs) (ks : list tree) : tree := T None (fst na) (snd na) ks.
Definition mk_nested (r : record) (ks : list tree) : tree := T None [] r ks.

Definition of_obs {A B} (f : A -> res B) (o : option A) : res B :=
  match o with Some a => f a | None => Raise OtherError end.

Definition res_eqb {A} (e : A -> A -> bool) (a b : res A) : bool :=
  match a, b with
  | Ret x, Ret y => e x y
  | Raise _, Raise _ => true              (* accepted / rejected only *)
  | _, _ => false
  end.

Definition unmodelled {A} (r : res A) : bool :=
  match r with Raise Unmodelled => true | _ => false end.

Definition check_C06 (c : xcase) : nat :=
  let t := xc_tree c in let sep := xc_sep c in let p := xc_pos c in let o := xc_opts c in
  (* implementation *)
  let i_dict := of_obs (fun x => Ret x) (xc_dict c) in
  let i_nested := of_obs (decode1 mk_nested) (xc_nested c) in
  let i_df := of_obs (fun x => Ret x) (xc_df c) in
  let i_pl := of_obs (fun x => Ret x) (resolve (xc_df c) (xc_pl c)) in
  let o_rt_dict := xc_rt_dict c in
  let o_rt_nested := resolve o_rt_dict (xc_rt_nested c) in
  let o_rt_df := resolve o_rt_dict (xc_rt_df c) in
  let o_rt_pl := resolve o_rt_df (xc_rt_pl c) in
  let i_rt_dict := of_obs (decode1 mk_node) o_rt_dict in
  let i_rt_nested := of_obs (decode1 mk_node) o_rt_nested in
  let i_rt_df := of_obs (decode1 mk_node) o_rt_df in
  let i_rt_pl := of_obs (decode1 mk_node) o_rt_pl in
  (* model *)
  let m_dict := res_map canon_dict (tree_to_dict t sep p o) in
  let m_nested := res_map canon_nested (tree_to_nested_dict t p o) in
  let m_df := res_map canon_rows (tree_to_dataframe t sep p o) in
  let m_pl := res_map canon_rows (tree_to_polars t sep p o) in
  let m_rt_dict := res_map sort_tree (if xc_dup c then rt_dict t sep else rt_dict_nd t sep) in
  let m_rt_nested := res_map sort_tree (rt_nested_with (xc_nk c) t) in
  let m_rt_frame := res_map sort_tree (if xc_dup c then rt_frame t sep else rt_frame_nd t sep) in
  (* separator of a rebuilt tree: the constructor's sep; nested_dict_to_tree has none (default "/") *)
  let seps_ok :=
    list_eqb (opt_eqb str_eqb) (xc_rt_seps c)
      [option_map (fun _ => sep) o_rt_dict; option_map (fun _ => s_slash) o_rt_nested;
       option_map (fun _ => sep) o_rt_df; option_map (fun _ => sep) o_rt_pl] in
  (* with duplicate_name_allowed=False a tree with a repeated name is refused: nothing to claim *)
  let claimed := xc_dup c || nodup_str (map tname (pre t)) in
  if unmodelled m_dict || negb (valid_tree t) then F_SKIP else
  (* an observation that is not a pre-order depth sequence of one tree *)
  if unmodelled i_nested || unmodelled i_rt_dict || unmodelled i_rt_nested
     || unmodelled i_rt_df || unmodelled i_rt_pl
  then F_DISAGREE else
  (* the path round trips are compared only where a name does not contain the separator: outside,
     duplicate paths appear and the outcome depends on pandas' string rendering of cells *)
  let in_alphabet := sep_safe sep t in
  let agree :=
    res_eqb (list_eqb pathrec_eqb) m_dict i_dict
    && res_eqb tree_eqb m_nested i_nested
    && res_eqb (list_eqb record_eqb) m_df i_df
    && res_eqb (list_eqb record_eqb) m_pl i_pl
    && res_eqb tree_eqb m_rt_nested i_rt_nested
    && seps_ok
    && (negb in_alphabet
        || (res_eqb tree_eqb m_rt_dict i_rt_dict
            && res_eqb tree_eqb m_rt_frame i_rt_df
            && res_eqb tree_eqb m_rt_frame i_rt_pl)) in
  let prop :=
    prop_C06_dict t sep p o i_dict
    && prop_C06_nested t p o i_nested
    && prop_C06_frame t sep p o i_df
    && prop_C06_frame t sep p o i_pl
    && (negb claimed || prop_rt_path false sep t i_rt_dict)
    && prop_rt_nested t i_rt_nested
    && (negb claimed || prop_rt_path true sep t i_rt_df)
    && (negb claimed || prop_rt_path true sep t i_rt_pl) in
  flag (negb agree) F_DISAGREE + flag (negb prop) F_PROPFAIL.
