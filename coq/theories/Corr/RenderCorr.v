(* Correspondence glue of the `render` engine (C18): a case = one call of yield_tree/print_tree,
   hyield_tree, tree_to_dot or tree_to_mermaid with what the implementation returned; check_C18
   compares with the models (Algo/Render.v, HRender.v, Dot.v) and evaluates the predicates of
   Spec/PC18.v on the implementation's own output. *)
From BT Require Import Base.Prelude Base.Str Base.Rose Algo.Render Algo.HRender Algo.Dot Spec.PC18.

(* short constructors for the literals written by the harness *)
Definition Nd (n : str) (ks : list tree) : tree := T None n [] ks.      (* a node *)
Definition Hole : tree := T (Some 0) [] [] [].                          (* empty BinaryNode slot *)

(* style arguments: a built-in name (index into the tables of constants.py, alphabetical as in the
   dictionaries: ansi, ascii, const, const_bold, rounded, double) or custom icons *)
Inductive vsel := VBuiltin (i : nat) | VCustom (stem branch final : str).
Inductive hsel := HBuiltin (i : nat) | HCustom (icons : list str).

Definition vstyle_of (s : vsel) : option vstyle :=
  match s with
  | VBuiltin i => nth_error [vs_ansi; vs_ascii; vs_const; vs_const_bold; vs_rounded; vs_double] i
  | VCustom a b c => Some (VS a b c)
  end.

Definition hstyle_of (s : hsel) : option hstyle :=
  match s with
  | HBuiltin i => nth_error [hs_ansi; hs_ascii; hs_const; hs_const_bold; hs_rounded; hs_double] i
  | HCustom l => hstyle_of_list l
  end.

(* the styles documented as box-drawing styles (const, const_bold, rounded, double) and custom
   styles made of box-drawing characters only: their output must decode from the characters' arms *)
Definition vbox (s : vsel) : bool :=
  match s with
  | VBuiltin i => Nat.leb 2 i
  | VCustom a b c => false
  end.
Definition hbox (s : hsel) : bool :=
  match s with
  | HBuiltin i => Nat.leb 2 i
  | HCustom l => match l with
                 | [_; _; _; _; _; _; _] => forallb (fun x => match x with [c] => is_box c | _ => false end) l
                 | _ => false
                 end
  end.

Definition glyphs_of (st : hstyle) : hglyphs :=
  HG (hs_first st) (hs_subseq st) (hs_split st) (hs_middle st) (hs_last st) (hs_stem st) (hs_branch st).

(* from_ref, from label, to_ref, to label, edge label *)
Definition mflow_obs := (str * option str * str * str * option str)%type.

Inductive rcase :=
| CV (t : tree) (binary : bool) (start : pos) (max_depth : nat) (st : vsel)
     (po : option printopts)             (* print_tree's attribute options, None = not passed *)
     (out : option (list vline))         (* yield_tree: the triples, None = exception *)
     (printed : option (list str))       (* print_tree: the printed lines, None = exception *)
| CH (t : tree) (start : pos) (max_depth : nat) (inter : bool) (st : hsel)
     (out : option (list str))           (* hyield_tree *)
| CD (t : tree) (more : list tree) (sep : str) (opts : dotopts)   (* tree_to_dot(t) or tree_to_dot([t] ++ more) *)
     (nodes : list (str * str)) (edges : list (str * str))   (* pydot: (name, label), (src, dst), creation order *)
     (vattrs eattrs : list sdict)        (* pydot: attribute dictionary of every vertex / edge, same order *)
| CM (t : tree) (start : pos) (max_depth : nat) (opts : mopts)
     (lines : list str) (flows : list mflow_obs).   (* mermaid: flow lines raw and parsed *)

Definition vline_eqb (a b : vline) : bool :=
  let '(p, f, n) := a in let '(p', f', n') := b in str_eqb p p' && str_eqb f f' && str_eqb n n'.
Definition pairs_eqb (a b : list (str * str)) : bool := list_eqb pair_eqb a b.
Definition flow_eqb (a b : mflow_obs) : bool :=
  let '(f, fl, t, tl, el) := a in let '(f', fl', t', tl', el') := b in
  str_eqb f f' && opt_eqb str_eqb fl fl' && str_eqb t t' && str_eqb tl tl' && opt_eqb str_eqb el el'.
(* the source's label is written exactly on the flows that start at the root *)
Definition flowx_of (root_label : str) (f : mflowx) : mflow_obs :=
  (mx_from f, match mx_from_name f with [] => None | _ => Some root_label end, mx_to f, mx_to_label f, mx_label f).

(* vertices and edges a reader takes from the parsed flows: the source of the first flow (which
   carries the root's label) and every destination; every labelled source must be that root vertex
   and every source must be a vertex *)
Definition mverts (flows : list mflow_obs) : list (str * str) :=
  match flows with
  | (f, Some l, _, _, _) :: _ => (f, l) :: map (fun x => let '(_, _, t, tl, _) := x in (t, tl)) flows
  | _ => map (fun x => let '(_, _, t, tl, _) := x in (t, tl)) flows
  end.
Definition medges (flows : list mflow_obs) : list (str * str) :=
  map (fun x => let '(f, _, t, _, _) := x in (f, t)) flows.
Definition mlabels (flows : list mflow_obs) : list (option str) :=
  map (fun x => let '(_, _, _, _, el) := x in el) flows.
Definition mflows_consistent (flows : list mflow_obs) : bool :=
  let vs := mverts flows in
  forallb (fun x => let '(f, fl, _, _, _) := x in
                    existsb (fun v => str_eqb (fst v) f) vs
                    && match fl with
                       | Some l => match vs with v :: _ => pair_eqb v (f, l) | [] => false end
                       | None => true
                       end) flows.

(* dictionaries are compared as sets of items (Python dict equality) *)
Definition same_dict (a b : sdict) : bool :=
  Nat.eqb (length a) (length b) && forallb (fun kv => existsb (pair_eqb kv) b) a
  && forallb (fun kv => existsb (pair_eqb kv) a) b.

(* a node with style dictionaries *)
Definition Na (n : str) (a : attrs) (ks : list tree) : tree := T None n a ks.
Definition no_opts : dotopts := DO None None None false false.
Definition po_default : printopts := PO false [] false [[91%N]; [93%N]].

Definition agree (c : rcase) : bool :=
  match c with
  | CV t binary start md sel po out printed =>
      match (match vstyle_of sel with Some st => yield_tree st t start md | None => Raise ValueError end), out with
      | Ret l, Some l' =>
          list_eqb vline_eqb l l'
          && match get_subtree t start md, vstyle_of sel with
             | Some s, Some st =>
                 match print_lines_opt st binary (match po with Some o => o | None => po_default end) (compact s),
                       printed with
                 | Ret pl, Some pl' => list_eqb str_eqb pl pl'
                 | Raise _, None => true
                 | _, _ => false
                 end
             | _, _ => false
             end
      | Raise _, None => match printed with None => true | Some _ => false end
      | _, _ => false
      end
  | CH t start md inter sel out =>
      match hyield_tree (hstyle_of sel) inter t start md, out with
      | Ret l, Some l' => list_eqb str_eqb l l'
      | Raise _, None => true
      | _, _ => false
      end
  | CD t more sep o nodes edges vattrs eattrs =>
      pairs_eqb (dot_forest_nodes sep (t :: more)) nodes && pairs_eqb (dot_forest_edges sep (t :: more)) edges
      && list_eqb same_dict (dot_forest_vertex_attrs o (t :: more)) vattrs
      && list_eqb same_dict (dot_forest_edge_attrs o (t :: more)) eattrs
  | CM t start md o lines flows =>
      match mermaid_call o t start md with
      | Ret (fx, ls) =>
          list_eqb str_eqb ls lines
          && list_eqb flow_eqb (map (flowx_of (match get_subtree t start md with Some s => tname s | None => [] end)) fx)
                      flows
      | Raise _ => false
      end
  end.

(* the property on the implementation's output.  An exception is a failure exactly when the call
   was valid (existing start node, well-formed style). *)
Definition prop_C18 (c : rcase) : bool :=
  match c with
  | CV t binary start md sel po out printed =>
      match get_subtree t start md, vstyle_of sel with
      | Some s, Some st =>
          if vstyle_ok st then
            match out with
            | Some l => prop_C18_v st (compact s) l
                        && match po, printed with
                           | None, Some pl => v_text_decodable st (compact s) pl   (* plain text: decode it *)
                                              && (negb (vbox sel) || v_box_decodable (compact s) pl)
                           | None, None => false
                           | Some _, _ => true       (* with attribute suffixes: compared with the model only *)
                           end
            | None => false
            end
          else match out with None => true | Some _ => false end
      | _, _ => match out with None => true | Some _ => false end
      end
  | CH t start md inter sel out =>
      match get_subtree t start md, hstyle_of sel with
      | Some s, Some st =>
          match out with
          | Some l => prop_C18_h (glyphs_of st) inter s l && (negb (hbox sel) || h_box_decodable inter s l)
          | None => false
          end
      | _, _ => match out with None => true | Some _ => false end
      end
  | CD t more sep o nodes edges vattrs eattrs =>
      prop_C18_gf (t :: more) nodes edges && prop_C18_attrs_f o (t :: more) vattrs eattrs
  | CM t start md o lines flows =>
      match get_subtree t start md with
      | Some s => mflows_consistent flows && prop_C18_g s (mverts flows) (medges flows)
                  && m_edge_labels_ok (mo_label o) (compact s) (mlabels flows)
      | None => false
      end
  end.

Definition check_C18 (c : rcase) : nat :=
  flag (negb (agree c)) F_DISAGREE + flag (negb (prop_C18 c)) F_PROPFAIL.
