(* Correspondence glue of the `render` engine (C18): a case = one call of yield_tree/print_tree,
   hyield_tree, tree_to_dot or tree_to_mermaid with what the implementation returned; check_C18
   compares with the models (Algo/Render.v, HRender.v, Dot.v) and evaluates the predicates of
   Spec/PC18.v on the implementation's own output. *)
From BT Require Import Base.Prelude Base.Str Base.Rose Algo.Render Algo.HRender Algo.Dot Spec.PC18.

(* short constructors for the literals written by the harness *)
Definition Nd (n : str) (ks : list tree) : tree := T None n [] ks.      (* a node *)
Definition Hole : tree := T (Some 0) [] [] [].                          (* empty BinaryNode slot *)

(* style arguments: a built-in name (index into the tables of constants.py, alphabetical as in the
   dictionaries: ansi, ascii, const, const_bold, rounded, double) or custom icons *)
Inductive vsel := VBuiltin (i : nat) | VCustom (stem branch final : str).
Inductive hsel := HBuiltin (i : nat) | HCustom (icons : list str).

Definition vstyle_of (s : vsel) : option vstyle :=
  match s with
  | VBuiltin i => nth_error [vs_ansi; vs_ascii; vs_const; vs_const_bold; vs_rounded; vs_double] i
  | VCustom a b c => Some (VS a b c)
  end.

Definition hstyle_of (s : hsel) : option hstyle :=
  match s with
  | HBuiltin i => nth_error [hs_ansi; hs_ascii; hs_const; hs_const_bold; hs_rounded; hs_double] i
  | HCustom l => hstyle_of_list l
  end.

Definition glyphs_of (st : hstyle) : hglyphs :=
  HG (hs_first st) (hs_subseq st) (hs_split st) (hs_middle st) (hs_last st) (hs_stem st) (hs_branch st).

Definition mflow_obs := (str * option str * str * str)%type.     (* from_ref, from label, to_ref, to label *)

Inductive rcase :=
| CV (t : tree) (start : pos) (max_depth : nat) (st : vsel)
     (out : option (list vline))         (* yield_tree: the triples, None = exception *)
     (printed : list str)                (* print_tree: the printed lines ([] on exception) *)
| CH (t : tree) (start : pos) (max_depth : nat) (inter : bool) (st : hsel)
     (out : option (list str))           (* hyield_tree *)
| CD (t : tree) (sep : str) (opts : dotopts)
     (nodes : list (str * str)) (edges : list (str * str))   (* pydot: (name, label), (src, dst), creation order *)
     (vattrs eattrs : list sdict)        (* pydot: attribute dictionary of every vertex / edge, same order *)
| CM (t : tree) (lines : list str) (flows : list mflow_obs). (* mermaid: flow lines raw and parsed *)

Definition vline_eqb (a b : vline) : bool :=
  let '(p, f, n) := a in let '(p', f', n') := b in str_eqb p p' && str_eqb f f' && str_eqb n n'.
Definition pairs_eqb (a b : list (str * str)) : bool := list_eqb pair_eqb a b.
Definition flow_eqb (a b : mflow_obs) : bool :=
  let '(f, fl, t, tl) := a in let '(f', fl', t', tl') := b in
  str_eqb f f' && opt_eqb str_eqb fl fl' && str_eqb t t' && str_eqb tl tl'.
Definition flow_of (f : mflow) : mflow_obs := (mf_from f, mf_from_label f, mf_to f, mf_to_label f).

(* vertices and edges a reader takes from the parsed flows: the source of the first flow (which
   carries the root's label) and every destination; every labelled source must be that root vertex
   and every source must be a vertex *)
Definition mverts (flows : list mflow_obs) : list (str * str) :=
  match flows with
  | (f, Some l, _, _) :: _ => (f, l) :: map (fun x => let '(_, _, t, tl) := x in (t, tl)) flows
  | _ => map (fun x => let '(_, _, t, tl) := x in (t, tl)) flows
  end.
Definition medges (flows : list mflow_obs) : list (str * str) :=
  map (fun x => let '(f, _, t, _) := x in (f, t)) flows.
Definition mflows_consistent (flows : list mflow_obs) : bool :=
  let vs := mverts flows in
  forallb (fun x => let '(f, fl, _, _) := x in
                    existsb (fun v => str_eqb (fst v) f) vs
                    && match fl with
                       | Some l => match vs with v :: _ => pair_eqb v (f, l) | [] => false end
                       | None => true
                       end) flows.

(* dictionaries are compared as sets of items (Python dict equality) *)
Definition same_dict (a b : sdict) : bool :=
  Nat.eqb (length a) (length b) && forallb (fun kv => existsb (pair_eqb kv) b) a
  && forallb (fun kv => existsb (pair_eqb kv) a) b.

(* a node with style dictionaries *)
Definition Na (n : str) (a : attrs) (ks : list tree) : tree := T None n a ks.
Definition no_opts : dotopts := DO None None None false false.

Definition agree (c : rcase) : bool :=
  match c with
  | CV t start md sel out printed =>
      match (match vstyle_of sel with Some st => yield_tree st t start md | None => Raise ValueError end), out with
      | Ret l, Some l' => list_eqb vline_eqb l l' && list_eqb str_eqb (map line_of l) printed
      | Raise _, None => true
      | _, _ => false
      end
  | CH t start md inter sel out =>
      match hyield_tree (hstyle_of sel) inter t start md, out with
      | Ret l, Some l' => list_eqb str_eqb l l'
      | Raise _, None => true
      | _, _ => false
      end
  | CD t sep o nodes edges vattrs eattrs =>
      pairs_eqb (dot_nodes sep t) nodes && pairs_eqb (dot_edges sep t) edges
      && list_eqb same_dict (dot_vertex_attrs o t) vattrs && list_eqb same_dict (dot_edge_attrs o t) eattrs
  | CM t lines flows =>
      list_eqb str_eqb (mermaid_lines t) lines && list_eqb flow_eqb (map flow_of (mermaid_flows t)) flows
  end.

(* the property on the implementation's output.  An exception is a failure exactly when the call
   was valid (existing start node, well-formed style). *)
Definition prop_C18 (c : rcase) : bool :=
  match c with
  | CV t start md sel out printed =>
      match get_subtree t start md, vstyle_of sel with
      | Some s, Some st =>
          if vstyle_ok st then
            match out with
            | Some l => prop_C18_v st (compact s) l && v_text_decodable st (compact s) printed
            | None => false
            end
          else match out with None => true | Some _ => false end
      | _, _ => match out with None => true | Some _ => false end
      end
  | CH t start md inter sel out =>
      match get_subtree t start md, hstyle_of sel with
      | Some s, Some st =>
          match out with
          | Some l => prop_C18_h (glyphs_of st) inter s l
          | None => false
          end
      | _, _ => match out with None => true | Some _ => false end
      end
  | CD t sep o nodes edges vattrs eattrs => prop_C18_g t nodes edges && prop_C18_attrs o t vattrs eattrs
  | CM t lines flows => mflows_consistent flows && prop_C18_g t (mverts flows) (medges flows)
  end.

Definition check_C18 (c : rcase) : nat :=
  flag (negb (agree c)) F_DISAGREE + flag (negb (prop_C18 c)) F_PROPFAIL.
