(* Correspondence glue for the modify engine (C08): a case is an input of one of the five public
   functions together with what the real bigtree left behind — the exception class (0 = none) and the
   pre-order (depth, tag, name, attrs) of the tree object(s) handed to the call — for the call with
   the whole pair list and, when there are at least two pairs, for the same pairs applied one call at a
   time to an identical tree. *)
From BT Require Import Base.Prelude Base.Str Base.Rose Algo.Modify Spec.PC08.

Record mcase := MC {
  mc_in : minput;
  mc_obs : mobs;
  mc_seq : option mobs;
  mc_listy : bool }.      (* false: from_paths / to_paths were handed over as a tuple or a generator *)

(* the model's outcome in the harness' observation format *)
Definition obs_of (i : minput) (o : outc) : mobs :=
  MO (code_of (snd o))
     (flatten 1 (piece (fst o) 0))
     (if is_tt (mi_op i) then flatten 1 (piece (fst o) 1) else []).

(* modify.py:1055 / 1271: anything but two lists is refused with ValueError before anything happens *)
Definition refused_obs (i : minput) : mobs :=
  MO (exn_code ValueError) (flatten 1 (mi_src i)) (if is_tt (mi_op i) then flatten 1 (mi_dst i) else []).

Definition check_C08 (c : mcase) : nat :=
  if negb (mc_listy c) then
    flag (negb (obs_eqb (refused_obs (mc_in c)) (mc_obs c))) (F_DISAGREE + F_PROPFAIL)
  else
  let i := mc_in c in
  let m := run i in
  let pf := flag (negb (prop_C08 i (mc_obs c) (mc_seq c))) F_PROPFAIL in
  match mc_seq c with
  | None =>
      if unmodelled m then F_SKIP + pf
      else flag (negb (obs_eqb (obs_of i m) (mc_obs c))) F_DISAGREE + pf
  | Some o2 =>
      let m2 := run_seq i in
      if unmodelled m || unmodelled m2 then F_SKIP + pf
      else flag (negb (obs_eqb (obs_of i m) (mc_obs c) && obs_eqb (obs_of i m2) o2)) F_DISAGREE + pf
  end.
