(* Constructor calls (cop) inherit the step theorems: a constructor is two steps. *)
From BT Require Import Base.Prelude Base.Str Heap.Forest Heap.ForestWF Heap.ForestOps Heap.ForestStep
     Heap.ForestRefl Heap.ForestNames Spec.PForest Corr.ForestCorr.

Theorem cstep_WF cfg s c : WF s -> WF (fst (cstep cfg s c)).
Proof.
  intros W. destruct c as [o|i pa cont cargs ftp ftc]; cbn [cstep]; [apply step_WF; exact W|].
  pose proof (step_WF cfg s (SetParent i pa ftp) W) as W1.
  destruct (step cfg s (SetParent i pa ftp)) as [s1 [|e]]; cbn [fst] in *; [|exact W1].
  apply step_WF. exact W1.
Qed.

Theorem crun_WF cfg ops : forall s, WF s -> WF (crun cfg s ops).
Proof.
  unfold crun. induction ops as [|o ops IH]; intros s W; cbn [fold_left]; [exact W|].
  apply IH, cstep_WF, W.
Qed.

(* a constructor whose parent assignment is refused changes nothing; one whose children assignment
   is refused leaves exactly the accepted parent assignment in place *)
Theorem construct_atomic_phases cfg s i pa cont cargs ftp ftc :
  WF s ->
  let r := cstep cfg s (Construct i pa cont cargs ftp ftc) in
  snd r <> Ok ->
  (snd (step cfg s (SetParent i pa ftp)) <> Ok /\ same (fst r) s)
  \/ (exists s1, step cfg s (SetParent i pa ftp) = (s1, Ok) /\ same (fst r) s1).
Proof.
  intros W r H. unfold r in *. cbn [cstep] in *.
  pose proof (step_WF cfg s (SetParent i pa ftp) W) as W1.
  destruct (step cfg s (SetParent i pa ftp)) as [s1 [|e]] eqn:E; cbn [fst snd] in *.
  - right. exists s1. split; [reflexivity|]. apply step_atomic; [exact W1|reflexivity|exact H].
  - left. split; [discriminate|].
    assert (G : same (fst (step cfg s (SetParent i pa ftp))) s).
    { apply step_atomic; [exact W|reflexivity|rewrite E; discriminate]. }
    rewrite E in G. exact G.
Qed.

Theorem model_cstep_C01 cfg s c :
  WF s -> let r := cstep cfg s c in prop_C01_cstep cfg s c (fst r) (is_ok (snd r)) = true.
Proof.
  intros W r. destruct c as [o|i pa cont cargs ftp ftc].
  - apply model_step_C01. exact W.
  - unfold prop_C01_cstep. rewrite (WF_wf_b (fst r)) by (apply cstep_WF; exact W). cbn [andb].
    destruct (is_ok (snd r)) eqn:E; [|reflexivity]. fold r. rewrite E. cbn [andb].
    apply same_same_links, same_refl.
Qed.

Theorem model_cstep_C02 cfg s c :
  WF s -> let r := cstep cfg s c in prop_C02_cstep cfg s c (fst r) (is_ok (snd r)) = true.
Proof.
  intros W r. destruct c as [o|i pa cont cargs ftp ftc].
  - apply model_step_C02. exact W.
  - unfold prop_C02_cstep. destruct (is_ok (snd r)); [reflexivity|]. apply same_same_links, same_refl.
Qed.
