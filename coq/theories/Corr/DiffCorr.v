(* Correspondence glue for the diff engine (C15): the case carries the two input trees (each with its own
   separator; dc_sep2 is the second tree's), the options and
   what bigtree's get_tree_diff returned; the check compares it with the model (as a multiset of
   (path_name, attributes)) and evaluates prop_C15 on the implementation's output. *)
From BT Require Import Base.Prelude Base.Str Base.Rose Algo.Diff Spec.PC15.

Record dcase := DC {
  dc_binary : bool;       (* both trees are BinaryNode trees *)
  dc_stable : bool;       (* harness: inputs unchanged by the call (apart from other_tree.sep), a second call on the
                             same objects returns the same, the result has the inputs' class and shares no node *)
  dc_sep : str;  dc_sep2 : str;  dc_t1 : tree;  dc_t2 : tree;  dc_only_diff : bool;  dc_attrs : list str;
  dc_obs : dobs
}.

Definition agree (m : res (option (list onode))) (o : dobs) : bool :=
  match m, o with
  | Raise e, DErr code => Nat.eqb (exn_code e) code
  | Ret None, DNone => true
  | Ret (Some l), DTree l' => ms_eqb onode_eqb l l'
  | _, _ => false
  end.

Definition model_of (c : dcase) : res (option (list onode)) :=
  get_tree_diff_cls (dc_binary c) (dc_sep c) (dc_sep2 c) (dc_t1 c) (dc_t2 c) (dc_only_diff c) (dc_attrs c).

(* F_SKIP: outside the domain (separator inside a name, different root names, ...).
   The property predicate is evaluated whenever no name already ends in a marker; the model is
   compared in any case. *)
Definition check_C15 (c : dcase) : nat :=
  if negb (domain_C15 (dc_sep c) (dc_t1 c) (dc_t2 c) (dc_attrs c)) then F_SKIP else
  flag (negb (agree (model_of c) (dc_obs c)) || negb (dc_stable c)) F_DISAGREE
  + flag (lookalike_free (dc_t1 c) (dc_t2 c)
          && negb (prop_C15 (dc_sep c) (dc_t1 c) (dc_t2 c) (dc_only_diff c) (dc_attrs c) (dc_obs c)))
         F_PROPFAIL.
