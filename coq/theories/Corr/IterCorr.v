(* Correspondence glue for the iter engine (C04): a case is a tree (ordered or binary) whose nodes
   are numbered by their tags, plus a list of runs; a run = start node (as a position), the
   filter / stop predicates as finite tables of node numbers (None = argument not passed),
   max_depth, and the sequences of node numbers the real iterators yielded. *)
From BT Require Import Base.Prelude Base.Rose Spec.PC04 Algo.Iter.

(* compact literals *)
Definition N (i : nat) (ks : list tree) : tree := T (Some i) [] [] ks.
Definition BN (i : nat) (l r : option btree) : btree := B (Some i) l r.

Definition table := option (list nat).
Definition pred_of (dflt : bool) (tb : table) (g : option nat) : bool :=
  match tb with
  | None => dflt
  | Some l => match g with Some i => memb i l | None => false end
  end.

Record irun := IR {
  r_start : list nat;            (* child indices from the root to the start node (binary: 0 = left, 1 = right) *)
  r_f : table;  r_s : table;  r_m : nat;
  r_obs : iobs;                  (* preorder, postorder, levelorder, zigzag, levelordergroup, zigzaggroup *)
  r_in : list nat                (* inorder_iter (binary cases; no stop condition) *)
}.

(* one tree with its runs; a case is a HISTORY: the tree as built, then the tree after each group of
   structural edits (computed by the harness' shadow and checked against the implementation's links),
   each with the runs performed at that point *)
Inductive icase1 := CRose (t : tree) (runs : list irun) | CBin (b : btree) (runs : list irun).
Definition icase := list icase1.

Fixpoint bsubtree_at (b : btree) (p : list nat) : option btree :=
  match p with
  | [] => Some b
  | i :: p' => match (if Nat.eqb i 0 then bleft b else bright b) with
               | Some x => bsubtree_at x p'
               | None => None
               end
  end.

(* result of one run: (model = implementation, property holds on the implementation's output) *)
Definition run_rose (root : tree) (r : irun) : option (bool * bool) :=
  match subtree_at root (r_start r) with
  | None => None
  | Some t =>
      let d0 := S (length (r_start r)) in
      let f := fun x => pred_of true (r_f r) (ttag x) in
      let s := fun x => pred_of false (r_s r) (ttag x) in
      let m := r_m r in
      let o := r_obs r in
      Some (same_seq (preorder f s m d0 t) (o_pre o)
            && same_seq (postorder f s m d0 t) (o_post o)
            && same_seq (levelorder f s m d0 t) (o_lo o)
            && same_seq (zigzag f s m d0 t) (o_zz o)
            && same_groups (levelordergroup f s m d0 t) (o_log o)
            && same_groups (zigzaggroup f s m d0 t) (o_zzg o),
            prop_C04_rose f s m d0 t o)
  end.

Definition same_bgroups (spec : list (list btree)) (obs : list (list nat)) : bool := all2 same_bseq spec obs.

Definition run_bin (root : btree) (r : irun) : option (bool * bool) :=
  match bsubtree_at root (r_start r) with
  | None => None
  | Some b =>
      let d0 := S (length (r_start r)) in
      let f := fun x => pred_of true (r_f r) (btag x) in
      let s := fun x => pred_of false (r_s r) (btag x) in
      let ft := fun x => pred_of true (r_f r) (ttag x) in
      let st := fun x => pred_of false (r_s r) (ttag x) in
      let m := r_m r in
      let o := r_obs r in
      Some (same_bseq (bpreorder f s m d0 b) (o_pre o)
            && same_bseq (bpostorder f s m d0 b) (o_post o)
            && same_bseq (blevelorder f s m d0 b) (o_lo o)
            && same_bseq (bzigzag f s m d0 b) (o_zz o)
            && same_bgroups (blevelordergroup f s m d0 b) (o_log o)
            && same_bgroups (bzigzaggroup f s m d0 b) (o_zzg o)
            && same_bseq (binorder f m d0 b) (r_in r),
            prop_C04_bin ft st f m d0 b o (r_in r))
  end.

Definition combine_runs (rs : list (option (bool * bool))) : nat :=
  if existsb (fun x => match x with None => true | Some _ => false end) rs then F_SKIP else
  flag (existsb (fun x => match x with Some (a, _) => negb a | None => false end) rs) F_DISAGREE
  + flag (existsb (fun x => match x with Some (_, p) => negb p | None => false end) rs) F_PROPFAIL.

Definition check1 (c : icase1) : nat :=
  match c with
  | CRose t runs => if tags_distinct t then combine_runs (map (run_rose t) runs) else F_SKIP
  | CBin b runs => if tags_distinct (img b) then combine_runs (map (run_bin b) runs) else F_SKIP
  end.

(* flags of a history: a disagreement / property failure at any point counts; skipped only if nothing else *)
Definition check_C04 (c : icase) : nat :=
  let fs := map check1 c in
  let bad := flag (existsb Nat.odd fs) F_DISAGREE + flag (existsb (fun f => Nat.odd (Nat.div2 f)) fs) F_PROPFAIL in
  if Nat.eqb bad 0 then flag (existsb (Nat.eqb F_SKIP) fs) F_SKIP else bad.
