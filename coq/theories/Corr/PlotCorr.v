(* Correspondence glue for the plot engine (C19): the harness passes the separation / offset
   parameters and the float coordinates the real reingold_tilford wrote as exact rationals
   (float.as_integer_ratio()); the model's coordinates are compared with tolerance 1e-9 (the
   algorithm is + - * / by non-zero constants, max and structural tests: continuous in its
   inputs), and the property predicates are evaluated on the implementation's own output with the
   same tolerance. *)
From Coq Require Import QArith Qminmax Qabs.
From BT Require Import Base.Prelude Base.Rose Algo.Plot Spec.PC19.

Record pcase := PC {
  pc_par : params;                    (* parameters of the first call *)
  pc_tree : tree;                     (* the shape of the fresh tree before the first call *)
  pc_steps : list (edit * params);    (* further calls on the same tree object: edit, then lay out *)
  pc_out : ctree                      (* shape and (x, y) attributes after the last call *)
}.

(* literal helpers used by the emitter *)
Definition q (n : Z) (d : positive) : Q := Qmake n d.
Definition c (xn : Z) (xd : positive) (yn : Z) (yd : positive) (ks : list ctree) : ctree :=
  C (Qmake xn xd) (Qmake yn yd) ks.
Definition n (ks : list tree) : tree := T None [] [] ks.

Definition tol : Q := 1 # 1000000000.

Fixpoint agree (a b : ctree) : bool :=
  match a, b with
  | C x y ks, C x' y' ks' =>
      eq_eps tol (Qred x) (Qred x') && eq_eps tol (Qred y) (Qred y')
      && (fix go (l l' : list ctree) : bool :=
            match l, l' with
            | [], [] => true
            | k :: r, k' :: r' => agree k k' && go r r'
            | _, _ => false
            end) ks ks'
  end.

Fixpoint cnorm (a : ctree) : ctree :=
  match a with C x y ks => C (Qred x) (Qred y) (map cnorm ks) end.

(* model: the first call on the fresh tree, then the further calls; the property is evaluated
   on the implementation's coordinates after the last call, with the parameters of the last call
   and the shape the tree has then *)
Definition check_C19 (k : pcase) : nat :=
  if negb (forallb params_posb (pc_par k :: map snd (pc_steps k))) then F_SKIP else
  let out := cnorm (pc_out k) in
  let st := run_steps (layout (pc_par k) (zero_d (pc_tree k))) (pc_steps k) in
  let plast := last (map snd (pc_steps k)) (pc_par k) in
  let tlast := tree_of_d (fst st) in
  flag (negb (agree (snd st) out)) F_DISAGREE
  + flag (negb (prop_C19 tol plast tlast out)) F_PROPFAIL.
