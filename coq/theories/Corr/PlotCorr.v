(* Correspondence glue for the plot engine (C19): the harness passes the separation / offset
   parameters and the float coordinates the real reingold_tilford wrote as exact rationals
   (float.as_integer_ratio()); the model's coordinates are compared with tolerance 1e-9 (the
   algorithm is + - * / by non-zero constants, max and structural tests: continuous in its
   inputs), and the property predicates are evaluated on the implementation's own output with the
   same tolerance. *)
From Coq Require Import QArith Qminmax Qabs.
From BT Require Import Base.Prelude Base.Rose Algo.Plot Spec.PC19.

Record pcase := PC {
  pc_par : params;                    (* parameters of the first call *)
  pc_tree : tree;                     (* the shape of the fresh (whole) tree before the first call *)
  pc_start : list nat;                (* the node the calls are made on ([] = the root) *)
  pc_steps : list (list edit * params);    (* further calls on the same tree object: edit, then lay out *)
  pc_out : ctree;                     (* shape and (x, y) attributes after the last call *)
  pc_binary : bool;                   (* the nodes are BinaryNode objects *)
  pc_raised : option nat              (* exception code when the (first) call raised *)
}.

(* literal helpers used by the emitter *)
Definition q (n : Z) (d : positive) : Q := Qmake n d.
Definition c (xn : Z) (xd : positive) (yn : Z) (yd : positive) (ks : list ctree) : ctree :=
  C (Qmake xn xd) (Qmake yn yd) ks.
Definition n (ks : list tree) : tree := T None [] [] ks.

Definition tol : Q := 1 # 1000000000.

Fixpoint agree (a b : ctree) : bool :=
  match a, b with
  | C x y ks, C x' y' ks' =>
      eq_eps tol (Qred x) (Qred x') && eq_eps tol (Qred y) (Qred y')
      && (fix go (l l' : list ctree) : bool :=
            match l, l' with
            | [], [] => true
            | k :: r, k' :: r' => agree k k' && go r r'
            | _, _ => false
            end) ks ks'
  end.

Fixpoint cnorm (a : ctree) : ctree :=
  match a with C x y ks => C (Qred x) (Qred y) (map cnorm ks) end.

(* model: the first call on the fresh tree, then the further calls; the property is evaluated
   on the implementation's coordinates after the last call, with the parameters of the last call
   and the shape the tree has then.  Calls on a node that is not the root: one call only; the
   coordinates of the subtree are compared and the property is evaluated on the subtree.
   F_SKIP: a non-positive separation; a non-root start node that has a left sibling, or combined
   with further calls (none of these is generated). *)
Definition check_root (k : pcase) : nat :=
  let out := cnorm (pc_out k) in
  let st := run_steps (layout (pc_par k) (zero_d (pc_tree k))) (pc_steps k) in
  let plast := last (map snd (pc_steps k)) (pc_par k) in
  let tlast := tree_of_d (fst st) in
  flag (negb (agree (snd st) out)) F_DISAGREE
  + flag (negb (prop_C19 tol plast tlast out)) F_PROPFAIL.

(* BinaryNode trees: the model predicts AttributeError; there are no coordinates, so the
   property ("for every tree ... the coordinates ...") is false on such a case (K5) *)
Definition check_binary (k : pcase) : nat :=
  let agree_exn :=
    match reingold_tilford_binary (pc_par k) (pc_tree k), pc_raised k with
    | Raise e, Some code => Nat.eqb (exn_code e) code
    | Ret c, None => agree c (cnorm (pc_out k))
    | _, _ => false
    end in
  flag (negb agree_exn) F_DISAGREE + F_PROPFAIL.

Definition check_C19 (k : pcase) : nat :=
  if negb (forallb params_posb (pc_par k :: map snd (pc_steps k))) then F_SKIP else
  if pc_binary k then check_binary k else
  match pc_raised k with Some _ => F_DISAGREE | None =>
  match pc_start k with
  | [] => check_root k
  | path =>
      match pc_steps k, rt_at (pc_par k) (pc_tree k) path, subtree_at (pc_tree k) path with
      | [], Some c, Some sub =>
          let out := cnorm (pc_out k) in
          flag (negb (agree c out)) F_DISAGREE
          + flag (negb (prop_C19 tol (pc_par k) sub out)) F_PROPFAIL
      | _, _, _ => F_SKIP
      end
  end end.
