(* Correspondence glue for the plot engine (C19): the harness passes the separation / offset
   parameters and the float coordinates the real reingold_tilford wrote as exact rationals
   (float.as_integer_ratio()); the model's coordinates are compared with tolerance 1e-9 (the
   algorithm is + - * / by non-zero constants, max and structural tests: continuous in its
   inputs), and the property predicates are evaluated on the implementation's own output with the
   same tolerance. *)
From Coq Require Import QArith Qminmax Qabs.
From BT Require Import Base.Prelude Base.Rose Algo.Plot Spec.PC19.

Record pcase := PC {
  pc_par : params;
  pc_tree : tree;        (* the shape before the call *)
  pc_out : ctree         (* shape and (x, y) attributes after the call *)
}.

(* literal helpers used by the emitter *)
Definition q (n : Z) (d : positive) : Q := Qmake n d.
Definition c (xn : Z) (xd : positive) (yn : Z) (yd : positive) (ks : list ctree) : ctree :=
  C (Qmake xn xd) (Qmake yn yd) ks.
Definition n (ks : list tree) : tree := T None [] [] ks.

Definition tol : Q := 1 # 1000000000.

Fixpoint agree (a b : ctree) : bool :=
  match a, b with
  | C x y ks, C x' y' ks' =>
      eq_eps tol (Qred x) (Qred x') && eq_eps tol (Qred y) (Qred y')
      && (fix go (l l' : list ctree) : bool :=
            match l, l' with
            | [], [] => true
            | k :: r, k' :: r' => agree k k' && go r r'
            | _, _ => false
            end) ks ks'
  end.

Fixpoint cnorm (a : ctree) : ctree :=
  match a with C x y ks => C (Qred x) (Qred y) (map cnorm ks) end.

Definition check_C19 (k : pcase) : nat :=
  if negb (params_posb (pc_par k)) then F_SKIP else
  let out := cnorm (pc_out k) in
  flag (negb (agree (reingold_tilford (pc_par k) (pc_tree k)) out)) F_DISAGREE
  + flag (negb (prop_C19 tol (pc_par k) (pc_tree k) out)) F_PROPFAIL.
