(* Correspondence glue for the dag engine: decode what the harness observed on the real DAGNode
   objects, compare with the model, and evaluate the property predicates on the implementation's
   own states. *)
From BT Require Import Base.Prelude Heap.Dag Spec.PC10.

Definition dlinks := list (list id * list id).   (* entry i: (parents, children) of object i *)

(* one observation, delta-encoded by the harness to keep the literals small: number of objects
   after the op, (object, its parents, its children) for every object whose lists differ from the
   previous observation, outcome (0 = accepted, else the exception code) *)
Definition dobs := (nat * list (id * (list id * list id)) * nat)%type.

Record dcase := DC {
  dc_assert : bool;                    (* checks on in the interpreter that produced dc_obs_raw    *)
  dc_n : nat;                          (* objects created (without arguments) before the history   *)
  dc_names : list str;
  dc_ops : list dop;
  dc_obs_raw : list dobs;              (* after each op: links of all objects so far, outcome      *)
  dc_anc : list (list id);             (* node.ancestors of every object after the history         *)
  dc_off_raw : list dobs;              (* C20 only: the same history with BIGTREE_CONF_ASSERTIONS="" *)
  dc_bat_on : list (list nat);         (* C20 only: per object, a digest of what a battery of read-only   *)
  dc_bat_off : list (list nat);        (* library calls returned on the final DAG, checks on / checks off *)
  dc_q : list (list (id * list id));   (* after each op: node.ancestors of a few objects (checks on)      *)
  dc_dig_on : list (list nat);         (* C20 only: after each op, a digest of the derived queries of a   *)
  dc_dig_off : list (list nat)         (* few objects and of the caller's argument lists, on / off        *)
}.

Definition apply_delta (prev : dlinks) (n : nat) (delta : list (id * (list id * list id))) : dlinks :=
  map (fun x => match find (fun e => Nat.eqb (fst e) x) delta with
                | Some e => snd e
                | None => nth x prev ([], [])
                end) (seq 0 n).

Fixpoint decode_obs (prev : dlinks) (l : list dobs) : list (dlinks * nat) :=
  match l with
  | [] => []
  | (n, delta, code) :: t => let cur := apply_delta prev n delta in (cur, code) :: decode_obs cur t
  end.

Definition dc_obs (c : dcase) : list (dlinks * nat) := decode_obs [] (dc_obs_raw c).
Definition dc_off (c : dcase) : list (dlinks * nat) := decode_obs [] (dc_off_raw c).

Definition tabn {A} (l : list A) (d : A) : id -> A := fun x => nth x l d.

(* the implementation's links as a state; names are taken from the state before (only the
   constructor sets a name, and it is an input) *)
Definition dstate_of (nm : id -> str) (l : dlinks) : dag :=
  mkdag (length l) (fun x => fst (nth x l ([], []))) (fun x => snd (nth x l ([], []))) nm.

Definition dinit_of (c : dcase) : dag := dinit (dc_n c) (tabn (dc_names c) []).
Definition dcfg (b : bool) : dconfig := {| dassertions := b |}.

Definition accepted (code : nat) : bool := Nat.eqb code 0.

(* names after an op: as the model sets them *)
Definition names_after (s : dag) (o : dop) : id -> str :=
  match o with DNew nm _ _ _ _ => upd (dname s) (dsize s) nm | _ => dname s end.

(* model trace against observed trace: same accept/reject decision, same objects and the same
   parents / children lists at every step *)
Fixpoint agree_dtrace (cfg : dconfig) (s : dag) (ops : list dop) (obs : list (dlinks * nat)) : bool :=
  match ops, obs with
  | [], [] => true
  | o :: ops', (l, code) :: obs' =>
      let r := dstep cfg s o in
      Bool.eqb (is_ok (snd r)) (accepted code)
      && same_dlinks (fst r) (dstate_of (dname (fst r)) l)
      && agree_dtrace cfg (fst r) ops' obs'
  | _, _ => false
  end.

Fixpoint unmodelled_dtrace (cfg : dconfig) (s : dag) (ops : list dop) : bool :=
  match ops with
  | [] => false
  | o :: t => let r := dstep cfg s o in
              match snd r with Err Unmodelled => true | _ => unmodelled_dtrace cfg (fst r) t end
  end.

(* a per-step predicate folded over the implementation's own trace *)
Fixpoint impl_dtrace_all (P : dag -> dop -> dag -> bool -> bool)
         (before : dag) (ops : list dop) (obs : list (dlinks * nat)) : bool :=
  match ops, obs with
  | o :: ops', (l, code) :: obs' =>
      let after := dstate_of (names_after before o) l in
      P before o after (accepted code) && impl_dtrace_all P after ops' obs'
  | _, _ => true
  end.

Definition subset_b (a b : list id) : bool := forallb (fun x => memb x b) a.
Definition seteq_b (a b : list id) : bool := subset_b a b && subset_b b a.

(* node.ancestors at the end: same set as the model's `ancestors` *)
Definition agree_anc (s : dag) (anc : list (list id)) : bool :=
  Nat.eqb (length anc) (dsize s)
  && forallb (fun x => seteq_b (dag_ancestors s x) (nth x anc [])) (dids (dsize s)).

(* "no node is its own ancestor", on what node.ancestors returned *)
Definition anc_prop (anc : list (list id)) : bool :=
  forallb (fun x => negb (memb x (nth x anc []))) (dids (length anc)).

(* node.ancestors of the sampled objects after each op: same set as the model's `ancestors` *)
Fixpoint agree_queries (cfg : dconfig) (s : dag) (ops : list dop) (qs : list (list (id * list id))) : bool :=
  match ops, qs with
  | o :: ops', q :: qs' =>
      let s' := fst (dstep cfg s o) in
      forallb (fun e => seteq_b (dag_ancestors s' (fst e)) (snd e)) q && agree_queries cfg s' ops' qs'
  | _, _ => true
  end.

Definition dcheck_with (c : dcase) (P : dag -> dop -> dag -> bool -> bool) : nat :=
  let cfg := dcfg (dc_assert c) in
  if unmodelled_dtrace cfg (dinit_of c) (dc_ops c) then F_SKIP else
  flag (negb (agree_dtrace cfg (dinit_of c) (dc_ops c) (dc_obs c)
              && agree_queries cfg (dinit_of c) (dc_ops c) (dc_q c)
              && agree_anc (drun cfg (dinit_of c) (dc_ops c)) (dc_anc c))) F_DISAGREE
  + flag (negb (impl_dtrace_all P (dinit_of c) (dc_ops c) (dc_obs c)
                && anc_prop (dc_anc c))) F_PROPFAIL.

Definition check_C10 (c : dcase) : nat := dcheck_with c (prop_C10_step (dcfg (dc_assert c))).
Definition check_C02_dag (c : dcase) : nat := dcheck_with c prop_C02_dag_step.

(* C20: dc_obs was produced with the checks on (in-process), dc_off by a child interpreter started
   with BIGTREE_CONF_ASSERTIONS="".  As long as no operation so far is refused by the checks, every
   operation has the same outcome (accepted / refused by a hook) and leaves identical links. *)
Definition dlinks_eqb (a b : dlinks) : bool :=
  list_eqb (fun x y => idl_eqb (fst x) (fst y) && idl_eqb (snd x) (snd y)) a b.

(* "valid with the checks enabled" = no operation is refused by the type/loop CHECKS.  Whether the
   checks refuse an operation is read off the model (state s, hooks that do not raise); a failing
   user hook or an ambiguous `del p[name]` is no check: there the two interpreters have to refuse
   alike and leave identical links as well. *)
Definition check_refused (s : dag) (o : dop) : bool :=
  match snd (dstep (dcfg true) s (strip_faults o)) with
  | Ok | Err SearchError => false
  | Err _ => true
  end.

(* an operation accepted with the checks on belongs to a "valid" history whatever the model thinks of
   it: it has to be accepted with the checks off too.  A refused one ends the comparison only when
   it is the checks that refuse it. *)
Fixpoint c20_same (s : dag) (ops : list dop) (on off : list (dlinks * nat)) (don doff : list (list nat)) : bool :=
  match ops, on, off with
  | [], [], [] => true
  | o :: ops', (l1, c1) :: on', (l2, c2) :: off' =>
      if negb (accepted c1) && check_refused s o then true else
      Bool.eqb (accepted c1) (accepted c2) && dlinks_eqb l1 l2
      && list_eqb Nat.eqb (hd [] don) (hd [] doff)
      && c20_same (fst (dstep (dcfg true) s o)) ops' on' off' (tl don) (tl doff)
  | _, _, _ => false
  end.

(* the model with the checks off against the child interpreter: up to the first operation outside
   the modelled domain (an argument the checks would have refused) *)
Fixpoint agree_dtrace_prefix (cfg : dconfig) (s : dag) (ops : list dop) (obs : list (dlinks * nat)) : bool :=
  match ops, obs with
  | [], [] => true
  | o :: ops', (l, code) :: obs' =>
      let r := dstep cfg s o in
      match snd r with
      | Err Unmodelled => true
      | _ => Bool.eqb (is_ok (snd r)) (accepted code)
             && same_dlinks (fst r) (dstate_of (dname (fst r)) l)
             && agree_dtrace_prefix cfg (fst r) ops' obs'
      end
  | _, _ => false
  end.

(* the read-only battery (ancestors, descendants, siblings, is_root/is_leaf, attributes, go_to incl.
   n.go_to(n), dag_iterator, dag_to_list/dict/dataframe, copy()) has to give the same results in the
   two interpreters whenever the two final DAGs are the same *)
Definition final_links (l : list (dlinks * nat)) : dlinks :=
  match rev l with (x, _) :: _ => x | [] => [] end.
(* some operation of the history is refused by the checks: from there on the two interpreters may
   legitimately differ (e.g. user hooks only run with the checks off) *)
Fixpoint any_check_refused (s : dag) (ops : list dop) (on : list (dlinks * nat)) : bool :=
  match ops, on with
  | o :: ops', (_, c1) :: on' =>
      (negb (accepted c1) && check_refused s o) || any_check_refused (fst (dstep (dcfg true) s o)) ops' on'
  | _, _ => false
  end.

Definition c20_battery (c : dcase) : bool :=
  any_check_refused (dinit_of c) (dc_ops c) (dc_obs c) ||
  negb (dlinks_eqb (final_links (dc_obs c)) (final_links (dc_off c))
        && Nat.eqb (length (dc_obs c)) (length (dc_off c)))
  || list_eqb (list_eqb Nat.eqb) (dc_bat_on c) (dc_bat_off c).

Definition check_C20_dag (c : dcase) : nat :=
  if unmodelled_dtrace (dcfg true) (dinit_of c) (dc_ops c) then F_SKIP else
  flag (negb (agree_dtrace (dcfg true) (dinit_of c) (dc_ops c) (dc_obs c)
              && agree_queries (dcfg true) (dinit_of c) (dc_ops c) (dc_q c)
              && Nat.eqb (length (dc_off c)) (length (dc_ops c))
              && agree_dtrace_prefix (dcfg false) (dinit_of c) (dc_ops c) (dc_off c))) F_DISAGREE
  + flag (negb (c20_same (dinit_of c) (dc_ops c) (dc_obs c) (dc_off c) (dc_dig_on c) (dc_dig_off c)
                && c20_battery c)) F_PROPFAIL.
