(* Correspondence glue for the construct engine (C05): decode the pre-order observations of the
   harness, run the model on the same input, compare, and evaluate prop_C05 on what the
   implementation produced. *)
From BT Require Import Base.Prelude Base.Str Base.Rose Algo.Construct Spec.PC05.

Definition onode := (option nat * str * attrs)%type.
Definition otree := list (nat * onode).           (* pre-order (depth, (tag, name, attrs)); root depth 1 *)

Definition mk_node (a : onode) (ks : list tree) : tree :=
  match a with (g, n, at_) => T g n at_ ks end.

Fixpoint depths (d : nat) (t : tree) : list nat :=
  match t with T _ _ _ ks => d :: flat_map (depths (S d)) ks end.

Definition decode (l : otree) : option tree :=
  match forest_of_pre mk_node (S (length l)) 1 l with
  | [t] => if list_eqb Nat.eqb (depths 1 t) (map fst l) then Some t else None
  | _ => None
  end.

(* what the harness saw for one entry point *)
Record cobs := CO {
  co_kind : kind;
  co_code : nat;              (* 0 = returned normally, else the exception code              *)
  co_sep : str;               (* root.sep afterwards                                         *)
  co_tree : otree;            (* whole tree afterwards ([] when nothing was built)            *)
  co_rets : list nat;         (* pre-order indices of the returned node(s)                    *)
  co_split : nat }.           (* > 0: the entry point was called twice on the same tree, first with
                                 the first co_split rows, then with the rest                   *)

(* a history on one or two trees: add_path_to_tree calls interleaved with structural edits made
   through the node API (nodes are addressed by their name path in the tree as it is then) *)
Inductive sop :=
| SAdd (ti : nat) (path : str) (na : attrs) (ob : cobs)   (* add_path_to_tree(root_ti, path, ...) and what was seen after it *)
| SDel (ti : nat) (p : list str)                           (* del parent[name]   : the node at p is detached               *)
| SMove (ti : nat) (src dst : list str)                    (* node(src).parent = node(dst)                                  *)
| SSort (ti : nat) (p : list str).                         (* node(p).sort(key=name)                                        *)

Record ccase := CC {
  cc_sep : str;  cc_dup : bool;
  cc_tsep : str;  cc_tree : otree;  cc_start : nat;     (* existing tree, tags = pre-order numbers *)
  cc_pcol : str;
  cc_rows : list row;
  cc_obs : list cobs;
  cc_tree2 : otree;                                     (* histories: the second tree ([] = none)  *)
  cc_ops : list sop }.                                  (* histories ([] = an ordinary case)       *)

Definition dummy_tree : tree := T None [] [] [].

Definition input_of (c : ccase) : option input :=
  match cc_tree c with
  | [] => Some (MkIn (cc_sep c) (cc_dup c) dummy_tree (cc_tsep c) [] (cc_pcol c) (cc_rows c))
  | l => match decode l with
         | Some t => Some (MkIn (cc_sep c) (cc_dup c) t (cc_tsep c) (nth (cc_start c) (all_pos t) [])
                              (cc_pcol c) (cc_rows c))
         | None => None
         end
  end.

Definition output_of (ob : cobs) : option output :=
  let r := if Nat.eqb (co_code ob) 0 then None else Some OtherError in
  match co_tree ob with
  | [] => Some (Out r None (co_sep ob) [])
  | l => match decode l with
         | Some t => Some (Out r (Some t) (co_sep ob) (map (fun n => nth n (all_pos t) [0; 0; 0; 0; 0; 0; 0; 0; 0; 0; 0; 0]) (co_rets ob)))
         | None => None
         end
  end.

Definition is_none {A} (x : option A) : bool := match x with None => true | _ => false end.

(* model against implementation: same accept / reject decision; the same node objects, names,
   shape and attribute maps afterwards (also after a refused call on an existing tree: what the
   earlier rows did stays, the refused row adds what the code adds before it raises); for an
   accepted call also the separator and the returned node(s) *)
Definition agree (m o : output) : bool :=
  Bool.eqb (is_none (o_res m)) (is_none (o_res o))
  && match o_tree m, o_tree o with
     | Some a, Some b => same_tree a b
     | None, None => true
     | _, _ => false
     end
  && (if is_none (o_res m)
      then str_eqb (o_sep m) (o_sep o)
           && list_eqb (list_eqb Nat.eqb) (o_rets m) (o_rets o)
      else true).

(* two calls on the same tree: rows[:n], then rows[n:] on the tree the first call left *)
Definition run_split (k : kind) (i0 : input) (n : nat) : output :=
  let m1 := run k (eff_input k (with_rows i0 (firstn n (i_rows i0)))) in
  match o_res m1, o_tree m1 with
  | None, Some t1 =>
      run k (eff_input k (MkIn (i_sep i0) (i_dup i0) t1 (i_tsep i0) (i_start i0) (i_pcol i0)
                               (skipn n (i_rows i0))))
  | _, _ => m1
  end.

(* per observed entry point: (skipped, disagree, property false) *)
Definition check_one (c : ccase) (ob : cobs) : bool * bool * bool :=
  match input_of c, output_of ob with
  | Some i0, Some o =>
      let k := co_kind ob in
      if Nat.eqb (co_split ob) 0 then
        let i := eff_input k i0 in
        let m := run k i in
        match o_res m with
        | Some Unmodelled => (true, false, false)
        | _ => (false, negb (agree m o), negb (prop_C05 k i o))
        end
      else
        (* the property predicate speaks about one call; a double call is compared with the model only *)
        let m := run_split k i0 (co_split ob) in
        match o_res m with
        | Some Unmodelled => (true, false, false)
        | _ => (false, negb (agree m o), false)
        end
  | _, _ => (false, true, false)
  end.

(* ---- histories ---------------------------------------------------------------------------- *)
Definition set_nth {A} (i : nat) (x : A) (l : list A) : list A := upd_nth i (fun _ => x) l.

(* a structural edit on tree ti (Algo/Construct.v hedit); a missing target is a harness error *)
Definition edit_op (c : ccase) (ts : list tree) (ti : nat) (op : hop)
           (k : list tree -> bool * bool) : bool * bool :=
  match nth_error ts ti with
  | Some t => match hedit t op with
              | Some t' => k (set_nth ti t' ts)
              | None => (true, false)
              end
  | None => (true, false)
  end.

(* flags of a history: (disagree, propfail); `ts` = the model's trees *)
Fixpoint run_ops (c : ccase) (ts : list tree) (ops : list sop) : bool * bool :=
  match ops with
  | [] => (false, false)
  | op :: rest =>
      match op with
      | SAdd ti path na ob =>
          match nth_error ts ti, output_of ob with
          | Some t, Some o =>
              let i := MkIn (cc_sep c) (cc_dup c) t (cc_tsep c) [] (cc_pcol c) [(path, na)] in
              let m := run KAddPath i in
              let t' := match o_tree m with Some x => x | None => t end in
              let r := run_ops c (set_nth ti t' ts) rest in
              (negb (agree m o) || fst r, negb (prop_C05 KAddPath i o) || snd r)
          | _, _ => (true, false)
          end
      | SDel ti p => edit_op c ts ti (HDel p) (fun ts' => run_ops c ts' rest)
      | SMove ti src dst => edit_op c ts ti (HMove src dst) (fun ts' => run_ops c ts' rest)
      | SSort ti p => edit_op c ts ti (HSort p) (fun ts' => run_ops c ts' rest)
      end
  end.

Definition check_ops (c : ccase) : nat :=
  match decode (cc_tree c) with
  | Some t0 =>
      let ts := match cc_tree2 c with
                | [] => [t0]
                | l => match decode l with Some t1 => [t0; t1] | None => [t0] end
                end in
      let r := run_ops c ts (cc_ops c) in
      flag (fst r) F_DISAGREE + flag (snd r) F_PROPFAIL
  | None => F_DISAGREE
  end.

Definition check_C05 (c : ccase) : nat :=
  if negb (is_nil (cc_ops c)) then check_ops c else
  let rs := map (check_one c) (cc_obs c) in
  if forallb (fun r => fst (fst r)) rs then F_SKIP else
  flag (existsb (fun r => snd (fst r)) rs) F_DISAGREE
  + flag (existsb (fun r => snd r) rs) F_PROPFAIL.

(* the property evaluated on the model's own output (used by sanity examples) *)
Definition model_satisfies (c : ccase) (k : kind) : bool :=
  match input_of c with
  | Some i0 => let i := eff_input k i0 in prop_C05 k i (run k i)
  | None => false
  end.
