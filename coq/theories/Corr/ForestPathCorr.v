(* Correspondence glue for C03 (paths identify nodes) and the forest share of C20. *)
From BT Require Import Base.Prelude Base.Str Heap.Forest Heap.ForestPath Spec.PForest Corr.ForestCorr.

(* ---------------- C03 ---------------- *)
(* lookup observation: Some (Some i) = node i returned, Some None = None returned, None = raised *)
Inductive c3case := C3 (c : fcase) (lookups : list (id * id * option (option id))).

Definition ostr_eqb (a b : str) := str_eqb a b.

Definition final_state (c : fcase) : forest := crun (cfg_of c) (init_of c) (fc_ops c).

Definition agree_final (c : fcase) : bool :=
  let s := final_state c in
  Nat.eqb (length (fc_final c)) (fc_n c) &&
  forallb (fun (xo : id * (str * str * nat)) =>
              let '(x, (sp, pn, d)) := xo in
              str_eqb (sep s x) sp && str_eqb (path_name s x) pn && Nat.eqb (depth s x) d)
          (combine (seq 0 (fc_n c)) (fc_final c)).

Definition lookup_res_eqb (a : res (option id)) (b : option (option id)) : bool :=
  match a, b with
  | Ret x, Some y => opt_eqb Nat.eqb x y
  | Raise _, None => true
  | _, _ => false
  end.

Definition agree_lookups (c : fcase) (lk : list (id * id * option (option id))) : bool :=
  let s := final_state c in
  forallb (fun e => let '(st, tg, r) := e in
                    lookup_res_eqb (find_full_path s st (path_name s tg)) r) lk.

(* the property on the implementation's own observations *)
Definition last_links (c : fcase) : links :=
  match rev (fc_obs c) with (l, _) :: _ => l | [] => map (fun _ => (None, [])) (seq 0 (fc_n c)) end.

Definition obs_sep (c : fcase) (x : id) : str := fst (fst (nth x (fc_final c) ([], [], 0))).
Definition obs_path (c : fcase) (x : id) : str := snd (fst (nth x (fc_final c) ([], [], 0))).
Definition obs_depth (c : fcase) (x : id) : nat := snd (nth x (fc_final c) ([], [], 0)).

Definition prop_C03_final (c : fcase) (lk : list (id * id * option (option id))) : bool :=
  let s := state_of c (last_links c) in
  let n := fc_n c in
  (* path_name = sep ++ join sep (names on the route), depth = length of the route, sep = root's *)
  forallb (fun x =>
     let rt := route s x in
     let r0 := hd x rt in
     str_eqb (obs_sep c x) (obs_sep c r0)
     && str_eqb (obs_path c x) (obs_sep c x ++ join (obs_sep c x) (map (name s) rt))
     && Nat.eqb (obs_depth c x) (length rt)) (seq 0 n)
  (* paths of two different nodes of one tree differ *)
  && forallb (fun x => forallb (fun y =>
        Nat.eqb x y || negb (Nat.eqb (root s x) (root s y)) || negb (str_eqb (obs_path c x) (obs_path c y)))
        (seq 0 n)) (seq 0 n)
  (* looking a node's path up from any node of its tree returns that very node *)
  && forallb (fun e => let '(st, tg, r) := e in
        negb (Nat.eqb (root s st) (root s tg))
        || match r with Some (Some i) => Nat.eqb i tg | _ => false end) lk.

(* per step: sibling names stay unique, and a refused attachment (also one refused inside a
   constructor call) leaves the tree unchanged *)
Definition prop_C03_step (cfg : config) (before : forest) (o : cop) (after : forest) (accepted : bool) : bool :=
  sibling_names_unique_b after && prop_C02_cstep cfg before o after accepted.

Definition check_C03 (k : c3case) : nat :=
  let '(C3 c lk) := k in
  if unmodelled_trace (cfg_of c) (init_of c) (fc_ops c) then F_SKIP else
  flag (negb (agree_trace c (init_of c) (fc_ops c) (fc_obs c) && agree_final c && agree_lookups c lk)) F_DISAGREE
  + flag (negb (impl_trace_all c (prop_C03_step (cfg_of c)) (init_of c) (fc_ops c) (fc_obs c) && prop_C03_final c lk)) F_PROPFAIL.

(* ---------------- C20 (forest share) ---------------- *)
(* the same history with the checks on (fc_obs) and off (obs_off, run in a child interpreter
   started with BIGTREE_CONF_ASSERTIONS=""); lib_equal: a battery of library calls gave the same
   results in both interpreters *)
Inductive c20case := C20 (c : fcase) (obs_off : list (links * nat)) (lib_equal : bool).

Definition with_assertions (c : fcase) (b : bool) : fcase :=
  FC (fc_node c) b (fc_n c) (fc_names c) (fc_seps c) (fc_ops c) (fc_obs c) (fc_final c).

Fixpoint same_obs (a b : list (links * nat)) : bool :=
  match a, b with
  | [], [] => true
  | (l1, c1) :: a', (l2, c2) :: b' =>
      Bool.eqb (accepted c1) (accepted c2)
      && list_eqb (fun x y => oid_eqb (fst x) (fst y) && ids_eqb (snd x) (snd y)) l1 l2
      && same_obs a' b'
  | _, _ => false
  end.

Definition check_C20_forest (k : c20case) : nat :=
  let '(C20 c off lib) := k in
  let con := with_assertions c true in
  let coff := with_assertions c false in
  if unmodelled_trace (cfg_of coff) (init_of c) (fc_ops c) then F_SKIP else
  flag (negb (agree_trace con (init_of c) (fc_ops c) (fc_obs c)
              && agree_trace coff (init_of c) (fc_ops c) off)) F_DISAGREE
  + flag (negb (same_obs (fc_obs c) off && lib)) F_PROPFAIL.
