(* Correspondence glue of the engine `dagalgo` (C16, C17): the case records hold the DAG (link lists
   as read back from the Python objects) together with everything the implementation returned;
   `check_C16` / `check_C17` compare with the model at the granularity the properties speak about
   (multisets of edges / nodes / paths / rows; accepted vs refused) and evaluate the property
   predicates of Spec/PC16.v, Spec/PC17.v on the implementation's own output. *)
From BT Require Import Base.Prelude Base.Str Base.Rose Algo.DagAlgo Algo.DagIO Spec.PC16 Spec.PC17.

(* ------------------------------------------------------------------------------------------- *)
(* C16 *)
Record c16case := C16 {
  c_g : dag;
  c_iter : list (list edge);                      (* dag_iterator from every node                *)
  c_anc  : list (list id);                        (* ancestors / descendants / siblings per node *)
  c_desc : list (list id);
  c_sib  : list (list id);
  c_goto : list (list (nat * list (list id)))     (* [a][b]: (0, paths) or (exception code, [])  *)
}.

Definition id_perm (a b : list id) : bool := perm_eqb Nat.eqb a b.
Definition edge_perm (a b : list edge) : bool := perm_eqb edge_eqb a b.
Definition path_perm (a b : list (list id)) : bool := perm_eqb path_eqb a b.

Definition for_ids {A} (g : dag) (l : list A) (d : A) (f : id -> A -> bool) : bool :=
  Nat.eqb (length l) (dsize g) && forallb (fun x => f x (nth x l d)) (ids g).

Definition agree_goto (g : dag) (a b : id) (o : nat * list (list id)) : bool :=
  match go_to g a b with
  | Ret ps => Nat.eqb (fst o) 0 && path_perm ps (snd o)
  | Raise _ => negb (Nat.eqb (fst o) 0)
  end.

Definition agree_C16 (c : c16case) : bool :=
  let g := c_g c in
  for_ids g (c_iter c) [] (fun x o => edge_perm (dag_iterator g x) o)
  && for_ids g (c_anc c) [] (fun x o => id_perm (ancestors g x) o)
  && for_ids g (c_desc c) [] (fun x o => id_perm (descendants g x) o)
  && for_ids g (c_sib c) [] (fun x o => id_perm (siblings g x) o)
  && for_ids g (c_goto c) [] (fun a row => for_ids g row (0, []) (fun b o => agree_goto g a b o)).

Definition prop_C16 (c : c16case) : bool :=
  let g := c_g c in
  for_ids g (c_iter c) [] (fun x o => prop_iter g x o)
  && for_ids g (c_anc c) [] (fun x o => prop_anc g x o)
  && for_ids g (c_desc c) [] (fun x o => prop_desc g x o)
  && for_ids g (c_sib c) [] (fun x o => prop_sib g x o)
  && for_ids g (c_goto c) [] (fun a row => for_ids g row (0, []) (fun b o => prop_goto g a b (fst o) (snd o))).

(* the harness only performs legal insertions: links that do not form a consistent acyclic structure
   are reported, not skipped *)
Definition check_C16 (c : c16case) : nat :=
  if negb (valid_dag (c_g c))
  then F_DISAGREE + flag (negb (prop_C16 c)) F_PROPFAIL     (* edges = the children lists, as everywhere *)
  else
  flag (negb (agree_C16 c)) F_DISAGREE + flag (negb (prop_C16 c)) F_PROPFAIL.

(* ------------------------------------------------------------------------------------------- *)
(* C17 *)
Inductive iocase :=
| IOExport (g : dag) (start : id) (md : amode)
           (ol : list (str * str)) (od : list dentry) (odf : list dfrow)      (* the three exports      *)
           (rl rd rdf : rebuilt)                                                (* rebuilt from each      *)
| IORawList (rel : list (str * str)) (r : rebuilt)                              (* list_to_dag(rel)       *)
| IORawDict (d : list dentry) (r : rebuilt)                                     (* dict_to_dag(d)         *)
| IORawDf (rows : list dfrow) (r : rebuilt).                                    (* dataframe_to_dag(rows) *)

(* what the harness would observe from the node a model constructor returned: the weakly connected
   component of that node (names, edges as name pairs, non-None attributes) *)
Definition obs_of_built (r : res built) : rebuilt :=
  match r with
  | Raise e => RB (exn_code e) [] [] []
  | Ret (b, None) => RB 0 [[]] [] [([], [])]               (* the placeholder DAGNode() *)
  | Ret (b, Some x) =>
      let g := b_dag b in
      let comp := ucomp g x in
      RB 0 (map (name g) comp)
         (map (fun e => (name g (fst e), name g (snd e)))
              (filter (fun e => memb (fst e) comp) (b_edges b)))
         (map (fun y => (name g y, non_null (nattrs g y))) comp)
  end.

Definition nattr_eqb (a b : str * attrs) : bool := str_eqb (fst a) (fst b) && attrs_sameb (snd a) (snd b).
Definition agree_rebuilt (m o : rebuilt) : bool :=
  if Nat.eqb (rb_code m) 0
  then Nat.eqb (rb_code o) 0
       && perm_eqb str_eqb (rb_names m) (rb_names o)
       && perm_eqb spair_eqb (rb_edges m) (rb_edges o)
       && perm_eqb nattr_eqb (rb_attrs m) (rb_attrs o)
  else negb (Nat.eqb (rb_code o) 0).

Definition dentry_eqb (a b : dentry) : bool :=
  str_eqb (de_name a) (de_name b)
  && perm_eqb str_eqb (match de_parents a with Some ps => ps | None => [] end)
                      (match de_parents b with Some ps => ps | None => [] end)
  && attrs_sameb (de_attrs a) (de_attrs b).
Definition dfrow_eqb (a b : dfrow) : bool :=
  str_eqb (dr_name a) (dr_name b) && opt_eqb str_eqb (dr_parent a) (dr_parent b)
  && attrs_sameb (dr_attrs a) (dr_attrs b).

Definition agree_C17 (c : iocase) : bool :=
  match c with
  | IOExport g s md ol od odf rl rd rdf =>
      perm_eqb spair_eqb (dag_to_list g s) ol
      && match dag_to_dict g s md with
         | Ret d => perm_eqb dentry_eqb d od
         | Raise _ => false
         end
      && perm_eqb dfrow_eqb (dag_to_dataframe g s md) odf
      && agree_rebuilt (obs_of_built (list_to_dag ol)) rl
      && agree_rebuilt (obs_of_built (dict_to_dag od)) rd
      && agree_rebuilt (obs_of_built (dataframe_to_dag odf)) rdf
  | IORawList rel r => agree_rebuilt (obs_of_built (list_to_dag rel)) r
  | IORawDict d r => agree_rebuilt (obs_of_built (dict_to_dag d)) r
  | IORawDf rows r => agree_rebuilt (obs_of_built (dataframe_to_dag rows)) r
  end.

Definition prop_C17 (c : iocase) : bool :=
  match c with
  | IOExport g s md ol od odf rl rd rdf => prop_C17_export g s md ol od odf rl rd rdf
  | IORawList rel r => prop_C17_cycle rel r
  | IORawDict d r => prop_C17_cycle (dict_relations d) r
  | IORawDf rows r => prop_C17_cycle (df_relations rows) r
  end.

(* export cases are generated with distinct names and legal insertions only *)
Definition skip_C17 (c : iocase) : bool :=
  match c with
  | IOExport g s md _ _ _ _ _ _ =>
      negb (valid_dag g && distinct_namesb g && Nat.ltb s (dsize g))
  | _ => false
  end.

Definition check_C17 (c : iocase) : nat :=
  if skip_C17 c then F_DISAGREE else
  flag (negb (agree_C17 c)) F_DISAGREE + flag (negb (prop_C17 c)) F_PROPFAIL.

(* ------------------------------------------------------------------------------------------- *)
(* C16 with queries interleaved with construction: one snapshot (links as they stand + everything
   the queries returned at that moment) per checkpoint, the last one after the final insertion.
   Every snapshot is checked against the model run on the links of that moment. *)
Definition check_C16s (snaps : list c16case) : nat :=
  fold_right (fun c acc => Nat.lor (check_C16 c) acc) 0 snaps.
