(* Correspondence glue for the relation engine (C13): a case = an input + what the real constructors returned;
   the model (Algo/Relation.v) is compared with it at the granularity the property uses (the returned tree:
   names, shape, sibling order, attributes; refused / accepted for errors - never the exception class), and the
   property predicates of Spec/PC13.v are evaluated on the implementation's own output. *)
From BT Require Import Base.Prelude Base.Str Base.Rose Algo.Relation Spec.PC13.

Inductive rcase :=
| CRel (allow_duplicates : bool) (rows : list row)
       (outs : list (nat * out tree))            (* entry point: 0 list, 1 pandas, 2 polars *)
| CNest (name_key : str) (d : nd) (o : out tree)
        (o2 : out tree)                          (* a second build from the very same dictionary object *)
        (unchanged : bool)                       (* the dictionary equals its deep copy taken before the calls *)
| CHeap (l : list Z) (o : out hbt).

Fixpoint hbt_eqb (a b : hbt) : bool :=
  match a, b with
  | BT v l r, BT w l' r' =>
      Z.eqb v w
      && match l, l' with
         | None, None => true
         | Some x, Some y => hbt_eqb x y
         | _, _ => false
         end
      && match r, r' with
         | None, None => true
         | Some x, Some y => hbt_eqb x y
         | _, _ => false
         end
  end.

Definition unmodelled {A} (m : res A) : bool :=
  match m with Raise Unmodelled => true | _ => false end.

Definition agree {A} (eqb : A -> A -> bool) (m : res A) (o : out A) : bool :=
  match m, o with
  | Ret a, Acc b => eqb a b
  | Raise _, Rej _ => true
  | _, _ => false
  end.

(* the list entry point has no attribute columns *)
Definition rows_for (entry : nat) (rows : list row) : list row :=
  match entry with 0 => strip_attrs rows | _ => rows end.

Definition check_C13 (c : rcase) : nat :=
  match c with
  | CRel ad rows outs =>
      flag (existsb (fun eo => negb (agree tree_equ (rel_to_tree ad (rows_for (fst eo) rows)) (snd eo))) outs)
           F_DISAGREE
      + flag (existsb (fun eo => negb (prop_rel ad (rows_for (fst eo) rows) (snd eo))) outs) F_PROPFAIL
  | CNest nk d o o2 unchanged =>
      (* the model is a function of the dictionary's value: the same value again gives the same result, and the
         caller's dictionary is not an output *)
      let m := nested_dict_to_tree nk d in
      if unmodelled m then F_SKIP
      else flag (negb (agree tree_equ m o && agree tree_equ m o2 && unchanged)) F_DISAGREE
           + flag (negb (prop_nested nk d o && prop_nested nk d o2)) F_PROPFAIL
  | CHeap l o =>
      flag (negb (agree hbt_eqb (list_to_binarytree l) o)) F_DISAGREE
      + flag (negb (prop_heap l o)) F_PROPFAIL
  end.
