(* Correspondence glue for the forest engine: decode what the harness observed on the real
   BaseNode / Node objects and compare with the model; evaluate the property predicates on the
   implementation's own states. *)
From BT Require Import Base.Prelude Heap.Forest Spec.PForest.

Definition links := list (option id * list id).       (* entry i: (parent, children) of node i *)

(* an operation as the harness issues it: a plain structural operation, or a constructor call
   Node(name, parent=..., children=...) on a node id that has not been used before, which is (see
   BaseNode.__init__) the parent assignment followed - if that succeeded - by the children
   assignment, each with its own hook fault point *)
Inductive cop :=
| P (o : op)
| Construct (i : id) (pa : arg) (cont : container) (cargs : list arg) (ftp ftc : fault).

Definition cstep (cfg : config) (s : forest) (c : cop) : forest * outcome :=
  match c with
  | P o => step cfg s o
  | Construct i pa cont cargs ftp ftc =>
      match step cfg s (SetParent i pa ftp) with
      | (s1, Ok) => step cfg s1 (SetChildren i cont cargs ftc)
      | r => r
      end
  end.

Definition crun (cfg : config) (s : forest) (ops : list cop) : forest :=
  fold_left (fun st o => fst (cstep cfg st o)) ops s.

Record fcase := FC {
  fc_node : bool;  fc_assert : bool;  fc_n : nat;
  fc_names : list str;  fc_seps : list str;
  fc_ops : list cop;
  fc_obs : list (links * nat);          (* after each op: links, outcome (0 = accepted, else exn code) *)
  fc_final : list (str * str * nat)     (* Node only: per node (sep, path_name, depth) at the end     *)
}.

Definition tab {A} (l : list A) (d : A) : id -> A := fun x => nth x l d.

Definition state_of (c : fcase) (l : links) : forest :=
  mk (fc_n c) (fun x => fst (nth x l (None, []))) (fun x => snd (nth x l (None, [])))
     (tab (fc_names c) []) (tab (fc_seps c) []).

Definition init_of (c : fcase) : forest := init (fc_n c) (tab (fc_names c) []) (tab (fc_seps c) []).
Definition cfg_of (c : fcase) : config := {| assertions := fc_assert c; is_node := fc_node c |}.

Definition accepted (code : nat) : bool := Nat.eqb code 0.

(* model trace against observed trace: same accept/reject decision and same links at every step *)
Fixpoint agree_trace (c : fcase) (s : forest) (ops : list cop) (obs : list (links * nat)) : bool :=
  match ops, obs with
  | [], [] => true
  | o :: ops', (l, code) :: obs' =>
      let r := cstep (cfg_of c) s o in
      Bool.eqb (is_ok (snd r)) (accepted code)
      && Nat.eqb (match snd r with Ok => 0 | Err e => exn_code e end) code   (* the same exception class *)
      && same_links (fst r) (state_of c l)
      && agree_trace c (fst r) ops' obs'
  | _, _ => false
  end.

Fixpoint unmodelled_trace (cfg : config) (s : forest) (ops : list cop) : bool :=
  match ops with
  | [] => false
  | o :: t => let r := cstep cfg s o in
              match snd r with Err Unmodelled => true | _ => unmodelled_trace cfg (fst r) t end
  end.

(* a per-step predicate folded over the implementation's own trace *)
Fixpoint impl_trace_all (c : fcase) (Q : forest -> cop -> forest -> bool -> bool)
         (before : forest) (ops : list cop) (obs : list (links * nat)) : bool :=
  match ops, obs with
  | o :: ops', (l, code) :: obs' =>
      let after := state_of c l in
      Q before o after (accepted code) && impl_trace_all c Q after ops' obs'
  | _, _ => true
  end.

(* the per-step predicates of Spec/PForest.v lifted to constructor calls: a constructor is two
   assignments; whatever its outcome, the links afterwards are those of "parent assignment, then -
   only if that was accepted - children assignment", each of them atomic *)
Definition prop_C01_cstep (cfg : config) (before : forest) (c : cop) (after : forest) (acc : bool) : bool :=
  match c with
  | P o => prop_C01_step cfg before o after acc
  | Construct _ _ _ _ _ _ =>
      wf_b after &&
      (if acc then let r := cstep cfg before c in is_ok (snd r) && same_links (fst r) after else true)
  end.

Definition prop_C02_cstep (cfg : config) (before : forest) (c : cop) (after : forest) (acc : bool) : bool :=
  match c with
  | P o => prop_C02_step before o after acc
  | Construct _ _ _ _ _ _ => if acc then true else same_links (fst (cstep cfg before c)) after
  end.

Definition check_with (c : fcase) (P : forest -> cop -> forest -> bool -> bool) : nat :=
  if unmodelled_trace (cfg_of c) (init_of c) (fc_ops c) then F_SKIP else
  flag (negb (agree_trace c (init_of c) (fc_ops c) (fc_obs c))) F_DISAGREE
  + flag (negb (impl_trace_all c P (init_of c) (fc_ops c) (fc_obs c))) F_PROPFAIL.

Definition check_C01 (c : fcase) : nat := check_with c (prop_C01_cstep (cfg_of c)).
Definition check_C02 (c : fcase) : nat := check_with c (prop_C02_cstep (cfg_of c)).
