(* Correspondence glue for the forest engine: decode what the harness observed on the real
   BaseNode / Node objects and compare with the model; evaluate the property predicates on the
   implementation's own states. *)
From BT Require Import Base.Prelude Heap.Forest Spec.PForest.

Definition links := list (option id * list id).       (* entry i: (parent, children) of node i *)

Record fcase := FC {
  fc_node : bool;  fc_assert : bool;  fc_n : nat;
  fc_names : list str;  fc_seps : list str;
  fc_ops : list op;
  fc_obs : list (links * nat);          (* after each op: links, outcome (0 = accepted, else exn code) *)
  fc_final : list (str * str * nat)     (* Node only: per node (sep, path_name, depth) at the end     *)
}.

Definition tab {A} (l : list A) (d : A) : id -> A := fun x => nth x l d.

Definition state_of (c : fcase) (l : links) : forest :=
  mk (fc_n c) (fun x => fst (nth x l (None, []))) (fun x => snd (nth x l (None, [])))
     (tab (fc_names c) []) (tab (fc_seps c) []).

Definition init_of (c : fcase) : forest := init (fc_n c) (tab (fc_names c) []) (tab (fc_seps c) []).
Definition cfg_of (c : fcase) : config := {| assertions := fc_assert c; is_node := fc_node c |}.

Definition accepted (code : nat) : bool := Nat.eqb code 0.

(* model trace against observed trace: same accept/reject decision and same links at every step *)
Fixpoint agree_trace (c : fcase) (s : forest) (ops : list op) (obs : list (links * nat)) : bool :=
  match ops, obs with
  | [], [] => true
  | o :: ops', (l, code) :: obs' =>
      let r := step (cfg_of c) s o in
      Bool.eqb (is_ok (snd r)) (accepted code)
      && same_links (fst r) (state_of c l)
      && agree_trace c (fst r) ops' obs'
  | _, _ => false
  end.

Fixpoint unmodelled_trace (cfg : config) (s : forest) (ops : list op) : bool :=
  match ops with
  | [] => false
  | o :: t => let r := step cfg s o in
              match snd r with Err Unmodelled => true | _ => unmodelled_trace cfg (fst r) t end
  end.

(* a per-step predicate folded over the implementation's own trace *)
Fixpoint impl_trace_all (c : fcase) (P : forest -> op -> forest -> bool -> bool)
         (before : forest) (ops : list op) (obs : list (links * nat)) : bool :=
  match ops, obs with
  | o :: ops', (l, code) :: obs' =>
      let after := state_of c l in
      P before o after (accepted code) && impl_trace_all c P after ops' obs'
  | _, _ => true
  end.

Definition check_with (c : fcase) (P : forest -> op -> forest -> bool -> bool) : nat :=
  if unmodelled_trace (cfg_of c) (init_of c) (fc_ops c) then F_SKIP else
  flag (negb (agree_trace c (init_of c) (fc_ops c) (fc_obs c))) F_DISAGREE
  + flag (negb (impl_trace_all c P (init_of c) (fc_ops c) (fc_obs c))) F_PROPFAIL.

Definition check_C01 (c : fcase) : nat := check_with c (prop_C01_step (cfg_of c)).
Definition check_C02 (c : fcase) : nat := check_with c prop_C02_step.
