(* Correspondence glue for the textio engine (textual half of C06).
   A case carries the input, the text the implementation exported (None = it raised) and the
   pre-order observation of the tree the implementation rebuilt from its own text (None = it raised).
   - F_DISAGREE: model writer <> exported text, or model parser (run on the implementation's text)
                 <> rebuilt tree / accept-reject decision;
   - F_PROPFAIL: inside the documented alphabet, the spec predicates of Spec/PC06Text.v are false on
                 the implementation's own outputs;
   - F_SKIP    : outside the documented alphabet (round trip not claimed; the model is still
                 compared), or the model declines (Unmodelled).  *)
From BT Require Import Base.Prelude Base.Str Base.Rose Algo.TextIO Spec.PC06Text.

Definition obs_tree := list (nat * str * attrs).   (* pre-order: (depth from 0, name, attrs sorted by key) *)

Inductive tcase :=
| CNewick (c : nwcfg) (isroot : bool) (t : tree) (out : option str) (back : option obs_tree)
| CNwParse (la pf s : str) (back : option obs_tree)
| CPrint (st : style_arg) (md : nat) (pl : list str) (t : tree) (out : option str) (back : option obs_tree)
      (* md = max_depth (0 = none); pl = tree_prefix_list given to str_to_tree *)
| CStParse (pl : list str) (s : str) (back : option obs_tree).

Fixpoint flat (d : nat) (t : tree) : obs_tree :=
  match t with T _ n a ks => (d, n, a) :: flat_map (flat (S d)) ks end.

Definition obs_eqb (a b : obs_tree) : bool :=
  list_eqb (fun x y : nat * str * attrs =>
              let '(d1, n1, a1) := x in let '(d2, n2, a2) := y in
              Nat.eqb d1 d2 && str_eqb n1 n2 && attrs_eqb a1 a2) a b.

Definition decode (l : obs_tree) : option tree :=
  match forest_of_pre (fun (na : str * attrs) ks => T None (fst na) (snd na) ks)
                      (S (length l)) 0
                      (map (fun x : nat * str * attrs => let '(d, n, a) := x in (d, (n, a))) l) with
  | [t] => if obs_eqb (flat 0 t) l then Some t else None
  | _ => None
  end.

Definition unmodelled {A} (r : res A) : bool :=
  match r with Raise Unmodelled => true | _ => false end.

(* model result against observation: both raise, or both return the same tree *)
Definition agree_tree (m : res tree) (o : option obs_tree) : bool :=
  match m, o with
  | Ret t, Some l => obs_eqb (flat 0 (sort_tree t)) l
  | Raise _, None => true
  | _, _ => false
  end.

Definition agree_str (m : res str) (o : option str) : bool :=
  match m, o with
  | Ret s, Some s' => str_eqb s s'
  | Raise _, None => true
  | _, _ => false
  end.

Definition colon : str := [58%N].
Definition opt_of (c : nwcfg) : nwopt :=
  NwOpt (nw_inter c) (nw_len c) (nw_attrs c) (nw_prefix c)
        (str_eqb (nw_lsep c) colon && str_eqb (nw_asep c) colon).

Definition check_C06_text (c : tcase) : nat :=
  match c with
  | CNewick cfg isroot t out back =>
      let o := opt_of cfg in
      let strict := newick_alphabet o isroot t in         (* export and round-trip clause claimed *)
      let inside := newick_alphabet_ext o isroot t in     (* round-trip clause claimed (float lengths) *)
      let m_out := nw_write cfg isroot t in
      let out_dis := negb (unmodelled m_out) && negb (agree_str m_out out) in
      match out with
      | None =>
          flag out_dis F_DISAGREE + (if inside then F_PROPFAIL else F_SKIP)
      | Some s =>
          let m_back := nw_parse (la_of o) (nw_prefix cfg) s in
          let dis := out_dis || (negb (unmodelled m_back) && negb (agree_tree m_back back)) in
          let ok := (negb strict || prop_newick_export o isroot t s)
                    && match back with
                       | Some l => match decode l with
                                   | Some bt => prop_newick_back o isroot t bt
                                   | None => false
                                   end
                       | None => false
                       end in
          flag dis F_DISAGREE + (if inside then flag (negb ok) F_PROPFAIL else F_SKIP)
      end
  | CNwParse la pf s back =>
      let m := nw_parse la pf s in
      if unmodelled m then F_SKIP else flag (negb (agree_tree m back)) F_DISAGREE
  | CPrint sa md pl t0 out back =>
      let st := style_of sa in
      let t := prune_depth md t0 in
      (* the round trip is claimed without prefix list, or with the style's own branch / final-stem
         glyphs (blank stripped) as prefix list *)
      let pl_ok := match pl with
                   | [] => true
                   | _ => let '(_, branch, final) := st in
                          list_eqb str_eqb pl [rstrip branch [32%N]; rstrip final [32%N]]
                   end in
      let inside := print_alphabet st t && pl_ok in
      let m_out := print_str st t in
      match out with
      | None =>
          flag (negb (agree_str m_out out)) F_DISAGREE + (if inside then F_PROPFAIL else F_SKIP)
      | Some s =>
          let m_back := str_to_tree_p pl s in
          let dis := negb (agree_str m_out out)
                     || (negb (unmodelled m_back) && negb (agree_tree m_back back)) in
          let export_ok := prop_print_export st t s in       (* claimed for every style and name *)
          let back_ok := match back with
                         | Some l => match decode l with
                                     | Some bt => prop_print_back t bt
                                     | None => false
                                     end
                         | None => false
                         end in
          flag dis F_DISAGREE
          + flag (negb export_ok || (inside && negb back_ok)) F_PROPFAIL
          + flag (negb inside) F_SKIP
      end
  | CStParse pl s back =>
      let m := str_to_tree_p pl s in
      if unmodelled m then F_SKIP else flag (negb (agree_tree m back)) F_DISAGREE
  end.
