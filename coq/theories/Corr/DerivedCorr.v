(* Correspondence glue for the derived engine (C12): decode what the harness observed on real
   BaseNode / Node / BinaryNode objects (nodes are named by their tags), compare with the model of
   Algo/Derived.v and evaluate the first-principles predicates of Spec/PC12.v on the
   implementation's own values. *)
From BT Require Import Base.Prelude Base.Rose Algo.Derived Spec.PC12.

(* what the implementation returned for one node; nodes are given by tag *)
Record nobs := NO {
  n_self : nat;
  n_anc : list nat;  n_desc : list nat;  n_leaves : list nat;  n_sibs : list nat;
  n_left : option nat;  n_right : option nat;  n_path : list nat;
  n_isroot : bool;  n_isleaf : bool;  n_root : nat;
  n_diam : nat;  n_depth : nat;  n_maxdepth : nat }.

(* argument of go_to: a node of the same tree / of the other tree / not a node *)
Inductive gtarget := TSame (g : nat) | TOther (g : nat) | TJunk.
(* self (tag, in the main tree), argument, outcome (0 = returned, else exception code), returned nodes *)
Record gobs := GO { g_self : nat; g_arg : gtarget; g_code : nat; g_path : list nat }.

(* BinaryNode: per node its tag, the two slots as node.children shows them, is_leaf, and optionally
   one inherited query: diameter (outcome code, value) or siblings (None = an empty slot came back) *)
Inductive bext := XNone | XDiam (code value : nat) | XSibs (l : list (option nat)).
Record bobs := BO { b_self : nat; b_slots : list (option nat); b_isleaf : bool; b_ext : bext }.

Inductive dcase :=
| DC (t : tree) (other : option tree) (nodes : list nobs) (gotos : list gobs)
| DB (b : btree) (nodes : list bobs).

Definition tag_at (t : tree) (p : pos) : option nat :=
  match subtree_at t p with Some s => ttag s | None => None end.

Definition bad_pos : pos := [1000].       (* not a position of any generated tree *)

Definition pos_of_tag (t : tree) (g : nat) : pos :=
  match find (fun q => opt_eqb Nat.eqb (tag_at t q) (Some g)) (positions t) with
  | Some q => q
  | None => bad_pos
  end.

Definition decode_nobs (t : tree) (o : nobs) : qvals :=
  let d := pos_of_tag t in
  {| q_anc := map d (n_anc o); q_desc := map d (n_desc o); q_leaves := map d (n_leaves o);
     q_sibs := map d (n_sibs o); q_left := option_map d (n_left o); q_right := option_map d (n_right o);
     q_path := map d (n_path o); q_isroot := n_isroot o; q_isleaf := n_isleaf o; q_root := d (n_root o);
     q_diam := n_diam o; q_depth := n_depth o; q_maxdepth := n_maxdepth o |}.

(* every query of the model on node p of t *)
Definition model_qvals (t : tree) (p : pos) : qvals :=
  {| q_anc := node_ancestors p; q_desc := node_descendants t p; q_leaves := node_leaves t p;
     q_sibs := node_siblings t p; q_left := node_left_sibling t p; q_right := node_right_sibling t p;
     q_path := node_path p; q_isroot := node_is_root p; q_isleaf := node_is_leaf t p;
     q_root := node_root p; q_diam := node_diameter t p; q_depth := node_depth p;
     q_maxdepth := node_max_depth t p |}.

Definition check_node (t : tree) (o : nobs) : nat :=
  let p := pos_of_tag t (n_self o) in
  let v := decode_nobs t o in
  flag (negb (qvals_eqb v (model_qvals t p))) F_DISAGREE
  + flag (negb (prop_C12_node t p v)) F_PROPFAIL.

Definition model_arg (t : tree) (other : option tree) (a : gtarget) : goarg :=
  match a with
  | TSame g => GNode (0, pos_of_tag t g)
  | TOther g => GNode (1, match other with Some u => pos_of_tag u g | None => bad_pos end)
  | TJunk => GJunk
  end.

Definition check_goto (t : tree) (other : option tree) (o : gobs) : nat :=
  let p := pos_of_tag t (g_self o) in
  let path := map (pos_of_tag t) (g_path o) in
  let agree :=
    match node_go_to (0, p) (model_arg t other (g_arg o)) with
    | Ret l => Nat.eqb (g_code o) 0 && lpos_eq path l
    | Raise e => Nat.eqb (g_code o) (exn_code e)
    end in
  let holds :=
    match g_arg o with
    | TSame g => Nat.eqb (g_code o) 0 && prop_C12_goto t p (pos_of_tag t g) path
    | TOther _ | TJunk => negb (Nat.eqb (g_code o) 0)          (* refused *)
    end in
  flag (negb agree) F_DISAGREE + flag (negb holds) F_PROPFAIL.

Definition or_flags (l : list nat) : nat :=
  let has b := existsb (fun f => Nat.eqb (Nat.land f b) b) l in
  flag (has 1) 1 + flag (has 2) 2 + flag (has 4) 4.

(* the tree a BinaryNode tree stands for: the occupied slots are the children *)
Fixpoint bt_to_rose (b : btree) : tree :=
  match b with
  | BT g l r =>
      T (Some g) [] []
        ((match l with Some x => [bt_to_rose x] | None => [] end)
         ++ (match r with Some x => [bt_to_rose x] | None => [] end))
  end.

Definition oid_eqb := opt_eqb Nat.eqb.

(* the slots of the node that holds g in one of its slots, as observed *)
Definition observed_parent_slots (nodes : list bobs) (g : nat) : option (list (option nat)) :=
  option_map b_slots (find (fun o => existsb (fun c => oid_eqb c (Some g)) (b_slots o)) nodes).

Definition check_bin (root : btree) (nodes : list bobs) (o : bobs) : nat :=
  let t := bt_to_rose root in
  let p := pos_of_tag t (b_self o) in
  match bt_find root (b_self o) with
  | None => F_DISAGREE
  | Some node =>
      let links_ok := list_eqb oid_eqb (map (option_map bt_tag) (bt_children node)) (b_slots o) in
      let '(agree, holds) :=
        match b_ext o with
        | XNone => (true, true)
        | XDiam code value =>
            (Nat.eqb code 0 && Nat.eqb value (bt_diameter node),
             prop_C12_binary_diameter t p code value)
        | XSibs l =>
            (list_eqb oid_eqb l (bt_siblings root (b_self o)),
             prop_C12_binary_siblings (observed_parent_slots nodes (b_self o)) (b_self o) l)
        end in
      flag (negb (links_ok && Bool.eqb (binary_is_leaf (b_slots o)) (b_isleaf o) && agree)) F_DISAGREE
      + flag (negb (prop_C12_binary_leaf (b_slots o) (b_isleaf o) && holds)) F_PROPFAIL
  end.

Definition check_C12 (c : dcase) : nat :=
  match c with
  | DC t other nodes gotos =>
      (* every node of the tree is observed exactly once, in pre-order *)
      let complete := lpos_eq (map (fun o => pos_of_tag t (n_self o)) nodes) (positions t) in
      or_flags (flag (negb complete) F_DISAGREE
                :: map (check_node t) nodes ++ map (check_goto t other) gotos)
  | DB root nodes => or_flags (map (check_bin root nodes) nodes)
  end.
