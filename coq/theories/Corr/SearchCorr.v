(* Correspondence glue of the search engine (C09): decode the harness literal (the whole tree as a
   pre-order list with depths, the separator, the number of the start node, the query, what bigtree
   returned), run the model, evaluate the property on the implementation's output. *)
From BT Require Import Base.Prelude Base.Str Base.Rose Algo.Search Spec.PC09.

Record scase := SC {
  sc_nodes : list (nat * (str * attrs));   (* pre-order: (depth from 0, (name, attrs sorted by key)) *)
  sc_sep : str;
  sc_start : nat;                          (* pre-order number of the node the search is called on *)
  sc_query : query;
  sc_obs : sobs
}.

(* number the entries: object i = i-th node in pre-order *)
Fixpoint number {A} (i : nat) (l : list (nat * A)) : list (nat * (nat * A)) :=
  match l with
  | [] => []
  | (d, a) :: r => (d, (i, a)) :: number (S i) r
  end.

Definition mk_node (x : nat * (str * attrs)) (ks : list tree) : tree :=
  T (Some (fst x)) (fst (snd x)) (snd (snd x)) ks.

Definition decode (c : scase) : list tree :=
  forest_of_pre mk_node (S (length (sc_nodes c))) 0 (number 0 (sc_nodes c)).

Definition input_of (c : scase) (w : tree) : sinput :=
  SI w (sc_sep c) (nth (sc_start c) (positions w) []) (sc_query c).

(* the decoded tree must reproduce the pre-order numbering the observation refers to *)
Definition well_numbered (c : scase) (w : tree) : bool :=
  list_eqb onat_eqb (map ttag (pre w)) (map Some (seq 0 (length (sc_nodes c))))
  && Nat.ltb (sc_start c) (length (sc_nodes c)).

Definition check_C09 (c : scase) : nat :=
  match decode c with
  | [w] =>
      if well_numbered c w && valid_input (input_of c w) then
        match model (input_of c w) with
        | Some m =>
            flag (negb (sobs_eqb m (sc_obs c))) F_DISAGREE
            + flag (negb (prop_C09 (input_of c w) (sc_obs c))) F_PROPFAIL
        | None => F_SKIP
        end
      else F_SKIP
  | _ => F_SKIP
  end.
