(* Correspondence glue for the binary engine: decode what the harness observed on the real
   BinaryNode objects and compare with the model; evaluate the property predicates on the
   implementation's own states.

   A case = a number of plain BinaryNode objects, an unobserved-per-step prefix history whose final
   state is observed once (`bc_pre`), and a list of branches, each replayed from a fresh copy of that
   state and observed after every operation.  (Random histories: empty prefix, one branch.  The
   small-scope enumeration: prefix = shortest history to a reachable state, one branch per operation.) *)
From BT Require Import Base.Prelude Heap.Forest Heap.Binary Spec.PC11.

(* per node: parent, children tuple as seen through `node.children`, (node.left, node.right) with
   None = the getter raised *)
Definition bnode_obs := (option id * list (option id) * (option (option id) * option (option id)))%type.
Definition blinks := list bnode_obs.
Definition btr := list (blinks * nat).       (* after each op: links, outcome (0 = accepted, else exn code) *)

Record bbranch := BB {
  bb_ops : list bop;
  bb_on  : btr;          (* trace in the harness process (checks as `bc_assert`)                    *)
  bb_off : btr           (* C20 only: trace of the child interpreter with BIGTREE_CONF_ASSERTIONS="" *)
}.

Record bcase := BC {
  bc_assert : bool;  bc_n : nat;
  bc_prefix : list bop;  bc_pre : blinks;  bc_pre_off : blinks;
  bc_branches : list bbranch;
  bc_lib : bool          (* C20 only: a battery of library calls (iterators, print_tree, exports, clone, copy,
                            prune, derived queries, name / val / extra attributes) on the final binary trees of
                            every branch gave equal results in the two interpreters; `true` otherwise *)
}.

(* abbreviation used by the emitter for the common shape (two slots, both getters returned the slot
   contents): codes 0 = None, k+1 = node k *)
Definition dec (k : nat) : option id := match k with 0 => None | S i => Some i end.
Definition o3 (a b c : nat) : bnode_obs := (dec a, [dec b; dec c], (Some (dec b), Some (dec c))).

Definition bdflt : bnode_obs := (None, [], (None, None)).

Definition state_of (l : blinks) : bheap :=
  bmk (length l) (fun x => fst (fst (nth x l bdflt))) (fun x => snd (fst (nth x l bdflt))).
Definition lr_of (l : blinks) : id -> option (option id) * option (option id) :=
  fun x => snd (nth x l bdflt).

Definition cfg_of (a : bool) : config := {| assertions := a; is_node := true |}.
Definition accepted (code : nat) : bool := Nat.eqb code 0.

(* the getters returned what the model's getters return *)
Definition getters_agree (s : bheap) (l : blinks) : bool :=
  forallb (fun p => opt_eqb boid_eqb (fst (lr_of l p)) (left_of s p)
                    && opt_eqb boid_eqb (snd (lr_of l p)) (right_of s p)) (bids (bsize s)).

Definition agree_state (s : bheap) (l : blinks) : bool :=
  bsame_links s (state_of l) && getters_agree s l.

(* model trace against observed trace: same accept/reject decision, same links, same getter results
   at every step *)
Fixpoint agree_trace (cfg : config) (s : bheap) (ops : list bop) (obs : btr) : bool :=
  match ops, obs with
  | [], [] => true
  | o :: ops', (l, code) :: obs' =>
      let r := bstep cfg s o in
      Bool.eqb (is_ok (snd r)) (accepted code)
      && agree_state (fst r) l
      && agree_trace cfg (fst r) ops' obs'
  | _, _ => false
  end.

Fixpoint unmodelled_trace (cfg : config) (s : bheap) (ops : list bop) : bool :=
  match ops with
  | [] => false
  | o :: t => let r := bstep cfg s o in
              match snd r with Err Unmodelled => true | _ => unmodelled_trace cfg (fst r) t end
  end.

(* a per-step predicate folded over the implementation's own trace *)
Fixpoint impl_trace_all (P : bheap -> bop -> bheap -> bool -> bool)
         (before : bheap) (ops : list bop) (obs : btr) : bool :=
  match ops, obs with
  | o :: ops', (l, code) :: obs' =>
      let after := state_of l in
      P before o after (accepted code) && getters_ok_b after (lr_of l)
      && impl_trace_all P after ops' obs'
  | _, _ => true
  end.

Definition check_with (c : bcase) (P : bheap -> bop -> bheap -> bool -> bool) : nat :=
  let cfg := cfg_of (bc_assert c) in
  let s0 := binit (bc_n c) in
  if unmodelled_trace cfg s0 (bc_prefix c) then F_SKIP else
  let sm := brun cfg s0 (bc_prefix c) in
  let si := state_of (bc_pre c) in
  let live := filter (fun b => negb (unmodelled_trace cfg sm (bb_ops b))) (bc_branches c) in
  flag (negb (agree_state sm (bc_pre c))
        || existsb (fun b => negb (agree_trace cfg sm (bb_ops b) (bb_on b))) live) F_DISAGREE
  + flag (negb (bwf_b si && getters_ok_b si (lr_of (bc_pre c)))
          || existsb (fun b => negb (impl_trace_all P si (bb_ops b) (bb_on b))) live) F_PROPFAIL
  + flag (Nat.ltb (length live) (length (bc_branches c))) F_SKIP.

Definition check_C11 (c : bcase) : nat := check_with c prop_C11_step.
Definition check_C02_binary (c : bcase) : nat := check_with c prop_C02_bstep.

(* ------------------------------------------------------------------------------------------ *)
(* C20: the same history in two interpreters (checks on: in-process; checks off: child started with
   BIGTREE_CONF_ASSERTIONS="").  Both traces are compared with the model under the corresponding
   setting of the switch; the property fails when no operation of the history is rejected by one of
   the checks (hook failures allowed: they are the same user-level event in both interpreters) and the
   two implementation traces differ. *)

Definition links_eqb (a b : blinks) : bool :=
  bsame_links (state_of a) (state_of b)
  && getters_agree (state_of a) b && getters_ok_b (state_of a) (lr_of a).

Fixpoint traces_eqb (a b : btr) : bool :=
  match a, b with
  | [], [] => true
  | (l, c) :: a', (m, d) :: b' => Bool.eqb (accepted c) (accepted d) && links_eqb l m && traces_eqb a' b'
  | _, _ => false
  end.

Definition all_accepted (t : btr) : bool := forallb (fun e => accepted (snd e)) t.

Definition check_C20_binary (c : bcase) : nat :=
  let on := cfg_of true in
  let off := cfg_of false in
  let s0 := binit (bc_n c) in
  if unmodelled_trace on s0 (bc_prefix c) || unmodelled_trace off s0 (bc_prefix c) then F_SKIP else
  let sm_on := brun on s0 (bc_prefix c) in
  let sm_off := brun off s0 (bc_prefix c) in
  let live := filter (fun b => negb (unmodelled_trace on sm_on (bb_ops b))
                               && negb (unmodelled_trace off sm_off (bb_ops b))) (bc_branches c) in
  flag (negb (agree_state sm_on (bc_pre c)) || negb (agree_state sm_off (bc_pre_off c))
        || existsb (fun b => negb (agree_trace on sm_on (bb_ops b) (bb_on b))
                             || negb (agree_trace off sm_off (bb_ops b) (bb_off b))) live) F_DISAGREE
  + flag (negb (bc_lib c)
          || negb (links_eqb (bc_pre c) (bc_pre_off c))
          (* every operation accepted with the checks on ... *)
          || existsb (fun b => all_accepted (bb_on b) && negb (traces_eqb (bb_on b) (bb_off b)))
                     (bc_branches c)
          (* ... or, more generally, no operation rejected by a type/loop CHECK (the model under
             `assertions := false` answers Unmodelled exactly there): hook failures and the refusals that are
             not under the switch (full parent, wrong length, wrong container) are user- / data-level and must
             leave the same links in both interpreters *)
          || existsb (fun b => negb (traces_eqb (bb_on b) (bb_off b))) live) F_PROPFAIL
  + flag (Nat.ltb (length live) (length (bc_branches c))) F_SKIP.
