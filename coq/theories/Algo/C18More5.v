(* C18, fifth round: tree_to_dot — the structural guard of round 4 (`sibs_wf c`: the children of one
   node have pairwise different names, none containing c) derives "path names pairwise different"
   for EVERY non-empty separator c :: rest, not only for the one-character separator [c]: only the
   FIRST character of the separator has to be absent from the non-root names (the other characters
   of the separator may occur in names).  The empty separator is refuted. *)
From BT Require Import Base.Prelude Base.Str Base.Rose Algo.Render Algo.Dot Spec.PC18 Algo.RenderProofs
     Algo.C18More3 Algo.C18More4.

(* every path name below a node starts with the node's path name, followed by nothing or by c *)
Lemma lp_prefix_sep (c : N) (rest : str) : forall t pp x,
  In x (map snd (label_paths (c :: rest) pp t)) ->
  exists s, x = pp ++ (c :: rest) ++ tname t ++ s /\ tail_ok c s.
Proof.
  induction t as [g n a ks IH] using tree_ind'. intros pp x H.
  rewrite label_paths_eq in H. cbn [map snd] in H. destruct H as [<-|H].
  - exists []. split; [cbn [tname]; rewrite app_nil_r; reflexivity|left; reflexivity].
  - apply lp_kids_in in H as [k [Hk Hx]]. rewrite Forall_forall in IH.
    destruct (IH k Hk _ x Hx) as [s [-> _]]. exists ((c :: rest) ++ tname k ++ s).
    split; [|right; eexists; cbn [app]; reflexivity]. cbn [tname]. rewrite <- !app_assoc. reflexivity.
Qed.

Lemma sibs_wf_paths_NoDup_sep (c : N) (rest : str) : forall t pp,
  sibs_wf c t = true -> NoDup (map snd (label_paths (c :: rest) pp t)).
Proof.
  induction t as [g n a ks IH] using tree_ind'. intros pp W.
  cbn [sibs_wf] in W. apply andb_prop in W as [W W3]. apply andb_prop in W as [W1 W2].
  apply nodup_str_NoDup in W1. rewrite forallb_forall in W2, W3. rewrite Forall_forall in IH.
  rewrite label_paths_eq. cbn [map snd]. constructor.
  - intros Hin. apply lp_kids_in in Hin as [k [Hk Hx]]. apply lp_prefix_sep in Hx as [s [E _]].
    apply (f_equal (@length N)) in E. repeat (rewrite app_length in E; cbn [length] in E). cbn [length] in E. lia.
  - set (path := pp ++ (c :: rest) ++ n).
    assert (G : forall l, (forall k, In k l -> In k ks) -> NoDup (map tname l) ->
                          NoDup (map snd (lp_kids (c :: rest) path l))).
    { induction l as [|k r IHl]; intros Sub ND; [constructor|].
      rewrite lp_kids_cons, map_app. cbn [map] in ND. inversion ND as [|? ? Hnot NDr]; subst.
      apply NoDup_app_intro.
      - apply IH; [apply Sub; left; reflexivity|]. apply W3. apply Sub. left. reflexivity.
      - apply IHl; [intros k' Hk'; apply Sub; right; exact Hk'|exact NDr].
      - intros x Hx Hx'. apply lp_kids_in in Hx' as [k' [Hk' Hx']].
        apply lp_prefix_sep in Hx as [s1 [E1 T1]]. apply lp_prefix_sep in Hx' as [s2 [E2 T2]].
        rewrite E1 in E2. apply app_inv_head in E2. apply app_inv_head in E2.
        apply Hnot. apply in_map_iff. exists k'. split; [|exact Hk']. symmetry.
        apply (split_unique c (tname k) (tname k') s1 s2); auto.
        + apply existsb_false_notin. apply Bool.negb_true_iff. apply W2. apply Sub. left. reflexivity.
        + apply existsb_false_notin. apply Bool.negb_true_iff. apply W2. apply Sub. right. exact Hk'. }
    apply G; [auto|exact W1].
Qed.

(* the structural guard implies the guard on the path strings, for every non-empty separator *)
Theorem sibs_wf_paths_distinct_sep c rest t :
  sibs_wf c (compact t) = true -> paths_distinct (c :: rest) t = true.
Proof.
  intros W. unfold paths_distinct. apply nodup_str_NoDup. apply sibs_wf_paths_NoDup_sep. exact W.
Qed.

(* stated on the separator itself: non-empty, its first character absent from the non-root names *)
Definition sibs_wf_sep (sep : str) (t : tree) : bool :=
  match sep with [] => false | c :: _ => sibs_wf c t end.

Theorem sibs_wf_sep_paths_distinct sep t :
  sibs_wf_sep sep (compact t) = true -> paths_distinct sep t = true.
Proof.
  destruct sep as [|c rest]; cbn [sibs_wf_sep]; [discriminate|]. apply sibs_wf_paths_distinct_sep.
Qed.

(* tree_to_dot: ids injective and the whole graph clause under structural guards only *)
Theorem dot_ids_injective_shape_sep sep t :
  labels_at_most_ten t = true -> sibs_wf_sep sep (compact t) = true -> no_label_has_colon t = true ->
  graph_ids_distinct (dot_nodes sep t) = true.
Proof.
  intros H1 H2 H3.
  apply dot_ids_injective_few; [exact H1|apply sibs_wf_sep_paths_distinct; exact H2|exact H3].
Qed.

Theorem dot_graph_shape_sep sep t :
  labels_at_most_ten t = true -> sibs_wf_sep sep (compact t) = true -> no_label_has_colon t = true ->
  prop_C18_g t (dot_nodes sep t) (dot_edges sep t) = true.
Proof.
  intros H1 H2 H3.
  apply dot_graph_few; [exact H1|apply sibs_wf_sep_paths_distinct; exact H2|exact H3].
Qed.

Theorem dot_graph_shape_nodigit_sep sep t :
  no_label_ends_in_digit t = true -> sibs_wf_sep sep (compact t) = true -> no_label_has_colon t = true ->
  prop_C18_g t (dot_nodes sep t) (dot_edges sep t) = true.
Proof.
  intros H1 H2 H3. pose proof (sibs_wf_sep_paths_distinct sep t H2) as HP. unfold prop_C18_g.
  rewrite (dot_ids_injective_partial sep t H1 HP H3), (dot_nodes_plain sep t H3).
  destruct (dot_vertices_edges_exact sep t) as [-> ->]. reflexivity.
Qed.

Theorem dot_graph_shape_small_trees_sep sep t :
  tsize (compact t) <= 10 -> sibs_wf_sep sep (compact t) = true -> no_label_has_colon t = true ->
  prop_C18_g t (dot_nodes sep t) (dot_edges sep t) = true.
Proof. intros H. apply dot_graph_shape_sep. apply small_tree_few. exact H. Qed.
