(* More of C17 (DAG exports / constructors), on top of Algo/DagAlgoProofs.v:
   (1) the dict / DataFrame round trips WITHOUT the guard "the exported keys of a node are pairwise
       distinct": the rebuilt node carries `attrs_update [] a` -- the exported attribute list a read as
       a Python dict (last value wins, a key keeps the place of its first occurrence) -- which is a
       itself when the keys are distinct;
   (2) the exact boundary of the other guard of the dict round trip: dict_to_dag of an export
       succeeds iff no node exports a reserved key (parent / parents / children), else ValueError;
   (3) exports are independent of the start node (list, dict, frame: as multisets);
   (4) a DAG without edges exports to nothing and the three constructors refuse that export;
   (5) the table rebuilt by each of the three round trips is itself a well-formed, acyclic, weakly
       connected DAG with distinct names, and exporting it again (from any of its nodes) gives the
       first export again (as a multiset);
   (6) all of this for the graphs `dabs s` of the states reachable through the DAGNode API (C10). *)
From BT Require Import Base.Prelude Base.Str Base.Rose Algo.DagAlgo Algo.DagIO Spec.PC16 Spec.PC17
                       Algo.DagAlgoProofs.
Require Import Permutation.

(* ------------------------------------------------------------------------------------------- *)
(** * 1. association lists as Python dicts *)

(* dict(a): what `d = {}; d.update(a)` holds *)
Definition norm (a : attrs) : attrs := attrs_update [] a.

Lemma attrs_update_cons l k v a : attrs_update l ((k, v) :: a) = attrs_update (attr_set l k v) a.
Proof. reflexivity. Qed.

Lemma attr_set_keys l k v s : In s (map fst (attr_set l k v)) <-> In s (map fst l) \/ s = k.
Proof.
  induction l as [|[k' v'] l IH]; cbn.
  - split; [intros [H|[]]; right; symmetry; exact H|intros [[]|H]; left; symmetry; exact H].
  - destruct (str_eqb k' k) eqn:E; cbn.
    + apply str_eqb_eq in E. subst k'. split; [intros [H|H]; [right; symmetry; exact H|left; right; exact H]|].
      intros [[H|H]|H]; [left; exact H|right; exact H|left; symmetry; exact H].
    + rewrite IH. tauto.
Qed.

Lemma attr_set_nodup l k v : NoDup (map fst l) -> NoDup (map fst (attr_set l k v)).
Proof.
  induction l as [|[k' v'] l IH]; cbn; intros ND.
  - constructor; [intros []|constructor].
  - inversion ND as [|? ? Hn Hd]; subst. destruct (str_eqb k' k) eqn:E; cbn.
    + apply str_eqb_eq in E. subst k'. constructor; assumption.
    + apply str_eqb_neq in E. constructor; [|apply IH; exact Hd].
      intros Hin. apply attr_set_keys in Hin as [Hin|Hin]; [contradiction|congruence].
Qed.

Lemma attrs_update_keys a : forall l s,
  In s (map fst (attrs_update l a)) <-> In s (map fst l) \/ In s (map fst a).
Proof.
  induction a as [|[k v] a IH]; intros l s.
  - cbn. tauto.
  - rewrite attrs_update_cons, IH, attr_set_keys. cbn. split.
    + intros [[H|H]|H]; [left; exact H|right; left; symmetry; exact H|right; right; exact H].
    + intros [H|[H|H]]; [left; left; exact H|left; right; symmetry; exact H|right; exact H].
Qed.

Lemma attrs_update_nodup a : forall l, NoDup (map fst l) -> NoDup (map fst (attrs_update l a)).
Proof.
  induction a as [|[k v] a IH]; intros l ND; [exact ND|].
  rewrite attrs_update_cons. apply IH. apply attr_set_nodup. exact ND.
Qed.

Lemma norm_nodup a : NoDup (map fst (norm a)).
Proof. apply attrs_update_nodup. constructor. Qed.

Lemma norm_keys a s : In s (map fst (norm a)) <-> In s (map fst a).
Proof. unfold norm. rewrite attrs_update_keys. cbn. tauto. Qed.

Lemma norm_id a : NoDup (map fst a) -> norm a = a.
Proof. apply attrs_update_nil. Qed.

Lemma attr_set_twice l k v v' : attr_set (attr_set l k v') k v = attr_set l k v.
Proof.
  induction l as [|[k' w] l IH]; cbn.
  - rewrite str_eqb_refl. reflexivity.
  - destruct (str_eqb k' k) eqn:E; cbn.
    + rewrite str_eqb_refl. reflexivity.
    + rewrite E, IH. reflexivity.
Qed.

(* updating a key that is already present commutes with setting another key *)
Lemma attr_set_comm l k v k2 v2 : In k (map fst l) -> k <> k2 ->
  attr_set (attr_set l k2 v2) k v = attr_set (attr_set l k v) k2 v2.
Proof.
  induction l as [|[k' w] l IH]; cbn; intros Hin Hne; [contradiction|].
  destruct (str_eqb k' k2) eqn:E2; destruct (str_eqb k' k) eqn:E1; cbn.
  - apply str_eqb_eq in E1, E2. congruence.
  - apply str_eqb_eq in E2. subst k'. rewrite E1, str_eqb_refl. reflexivity.
  - apply str_eqb_eq in E1. subst k'. rewrite str_eqb_refl, E2. reflexivity.
  - rewrite E1, E2. f_equal. apply IH; [|exact Hne].
    destruct Hin as [H|H]; [|exact H]. apply str_eqb_neq in E1. contradiction.
Qed.

Lemma attr_set_update_comm t : forall l k v, In k (map fst l) -> ~ In k (map fst t) ->
  attr_set (attrs_update l t) k v = attrs_update (attr_set l k v) t.
Proof.
  induction t as [|[k2 v2] t IH]; intros l k v Hin Hn; [reflexivity|].
  rewrite !attrs_update_cons. rewrite IH.
  - rewrite attr_set_comm; [reflexivity|exact Hin|]. intros E. apply Hn. left. symmetry. exact E.
  - apply attr_set_keys. left. exact Hin.
  - intros H. apply Hn. right. exact H.
Qed.

Lemma attrs_update_attr_set acc : forall old k v, NoDup (map fst acc) ->
  attrs_update old (attr_set acc k v) = attr_set (attrs_update old acc) k v.
Proof.
  induction acc as [|[k' v'] acc IH]; intros old k v ND; [reflexivity|].
  inversion ND as [|? ? Hn Hd]; subst. cbn [attr_set]. destruct (str_eqb k' k) eqn:E.
  - apply str_eqb_eq in E. subst k'. rewrite !attrs_update_cons.
    rewrite attr_set_update_comm; [rewrite attr_set_twice; reflexivity| |exact Hn].
    apply attr_set_keys. right. reflexivity.
  - rewrite !attrs_update_cons. apply IH. exact Hd.
Qed.

Lemma attrs_update_assoc a : forall acc old, NoDup (map fst acc) ->
  attrs_update old (attrs_update acc a) = attrs_update (attrs_update old acc) a.
Proof.
  induction a as [|[k v] a IH]; intros acc old ND; [reflexivity|].
  rewrite !attrs_update_cons. rewrite IH by (apply attr_set_nodup; exact ND).
  rewrite attrs_update_attr_set by exact ND. reflexivity.
Qed.

(* updating with dict(a) is updating with a *)
Lemma attrs_update_norm old a : attrs_update old (norm a) = attrs_update old a.
Proof. unfold norm. rewrite attrs_update_assoc by constructor. reflexivity. Qed.

Lemma norm_idem a : norm (norm a) = norm a.
Proof. unfold norm at 1. apply attrs_update_norm. Qed.

(* lookup in dict(a): the LAST binding of the key in a *)
Lemma get_attr_attr_set l k v k' :
  get_attr (attr_set l k v) k' = if str_eqb k k' then v else get_attr l k'.
Proof.
  induction l as [|[k0 v0] l IH]; cbn; [reflexivity|].
  destruct (str_eqb k0 k) eqn:E; cbn.
  - apply str_eqb_eq in E. subst k0. destruct (str_eqb k k'); reflexivity.
  - rewrite IH. destruct (str_eqb k0 k') eqn:E0; [|reflexivity].
    apply str_eqb_eq in E0. subst k0. rewrite str_eqb_neq in E.
    destruct (str_eqb k k') eqn:E1; [apply str_eqb_eq in E1; congruence|reflexivity].
Qed.

Lemma get_attr_app_ext x y y' k : get_attr y k = get_attr y' k -> get_attr (x ++ y) k = get_attr (x ++ y') k.
Proof.
  intros H. induction x as [|[k0 v0] x IH]; cbn; [exact H|]. destruct (str_eqb k0 k); [reflexivity|exact IH].
Qed.

Lemma get_attr_update a : forall l k, get_attr (attrs_update l a) k = get_attr (rev a ++ l) k.
Proof.
  induction a as [|[k0 v0] a IH]; intros l k; [reflexivity|].
  rewrite attrs_update_cons, IH. cbn [rev]. rewrite <- app_assoc. apply get_attr_app_ext.
  cbn. apply get_attr_attr_set.
Qed.

Lemma norm_get a k : get_attr (norm a) k = get_attr (rev a) k.
Proof. unfold norm. rewrite get_attr_update, app_nil_r. reflexivity. Qed.

(* the values of dict(a) are values of a *)
Lemma attr_set_in l k v kv : In kv (attr_set l k v) -> In kv l \/ kv = (k, v).
Proof.
  induction l as [|[k' v'] l IH]; cbn.
  - intros [H|[]]. right. symmetry. exact H.
  - destruct (str_eqb k' k); cbn.
    + intros [H|H]; [right; symmetry; exact H|left; right; exact H].
    + intros [H|H]; [left; left; exact H|]. destruct (IH H) as [H1|H1]; [left; right; exact H1|right; exact H1].
Qed.

Lemma attrs_update_in a : forall l kv, In kv (attrs_update l a) -> In kv l \/ In kv a.
Proof.
  induction a as [|[k v] a IH]; intros l kv H; [left; exact H|].
  rewrite attrs_update_cons in H. apply IH in H as [H|H]; [|right; right; exact H].
  apply attr_set_in in H as [H|H]; [left; exact H|right; left; symmetry; exact H].
Qed.

Lemma non_null_fix a : (forall kv, In kv a -> snd kv <> VNone) -> non_null a = a.
Proof.
  unfold non_null. induction a as [|[k v] a IH]; cbn; intros H; [reflexivity|].
  destruct v; try (rewrite IH; [reflexivity|intros kv Hkv; apply H; right; exact Hkv]).
  exfalso. apply (H (k, VNone)); [left; reflexivity|reflexivity].
Qed.

Lemma non_null_in a kv : In kv (non_null a) -> snd kv <> VNone.
Proof.
  unfold non_null. intros H. apply filter_In in H as [_ H]. intros E. rewrite E in H. discriminate.
Qed.

Lemma non_null_norm a : non_null (norm (non_null a)) = norm (non_null a).
Proof.
  apply non_null_fix. intros kv H. unfold norm in H. apply attrs_update_in in H as [[]|H].
  exact (non_null_in a kv H).
Qed.

(* ------------------------------------------------------------------------------------------- *)
(** * 2. the constructors do not see the difference between a and dict(a) *)

Definition res_key (kv : str * val) : bool := reserved (fst kv).

Lemma existsb_keys (p : str -> bool) (a a' : attrs) :
  (forall s, In s (map fst a) <-> In s (map fst a')) ->
  existsb (fun kv => p (fst kv)) a = existsb (fun kv => p (fst kv)) a'.
Proof.
  intros H. apply Bool.eq_iff_eq_true. rewrite !existsb_exists. split.
  - intros [kv [Hin Hp]]. assert (Hk : In (fst kv) (map fst a')) by (apply H, in_map, Hin).
    apply in_map_iff in Hk as [kv' [E Hin']]. exists kv'. split; [exact Hin'|rewrite E; exact Hp].
  - intros [kv [Hin Hp]]. assert (Hk : In (fst kv) (map fst a)) by (apply H, in_map, Hin).
    apply in_map_iff in Hk as [kv' [E Hin']]. exists kv'. split; [exact Hin'|rewrite E; exact Hp].
Qed.

Lemma reserved_norm a :
  existsb (fun kv => reserved (fst kv)) (norm a) = existsb (fun kv => reserved (fst kv)) a.
Proof. apply (existsb_keys reserved). intros s. apply norm_keys. Qed.

Lemma list_upd_ext {A} (l : list A) i f f' : (forall x, f x = f' x) -> list_upd l i f = list_upd l i f'.
Proof.
  intros H. revert i. induction l as [|x l IH]; intros [|i]; cbn; try reflexivity.
  - rewrite H. reflexivity.
  - rewrite IH. reflexivity.
Qed.

Lemma b_set_attrs_norm b i a : b_set_attrs b i (norm a) = b_set_attrs b i a.
Proof. unfold b_set_attrs. f_equal. apply list_upd_ext. intros x. apply attrs_update_norm. Qed.

Definition norm_entry (e : dentry) : dentry := DE (de_name e) (de_parents e) (norm (de_attrs e)).

Lemma dict_entry_step_norm acc e : dict_entry_step acc (norm_entry e) = dict_entry_step acc e.
Proof.
  unfold dict_entry_step. destruct acc as [[b last]|x]; [|reflexivity].
  cbn [norm_entry de_name de_parents de_attrs]. rewrite reserved_norm.
  destruct (existsb (fun kv => reserved (fst kv)) (de_attrs e)); [reflexivity|].
  fold (norm (norm (de_attrs e))). rewrite norm_idem.
  destruct (b_lookup b (de_name e)) as [i|]; [rewrite b_set_attrs_norm|]; reflexivity.
Qed.

Lemma fold_entry_norm d : forall acc,
  fold_left dict_entry_step (map norm_entry d) acc = fold_left dict_entry_step d acc.
Proof.
  induction d as [|e d IH]; intros acc; [reflexivity|]. cbn [map fold_left].
  rewrite dict_entry_step_norm. apply IH.
Qed.

Definition norm_row (r : dfrow) : dfrow := DR (dr_name r) (dr_parent r) (norm (non_null (dr_attrs r))).

Lemma df_row_step_norm acc r : df_row_step acc (norm_row r) = df_row_step acc r.
Proof.
  unfold df_row_step. destruct acc as [[b last]|x]; [|reflexivity].
  cbn [norm_row dr_name dr_parent dr_attrs]. rewrite non_null_norm.
  fold (norm (norm (non_null (dr_attrs r)))). rewrite norm_idem. fold (norm (non_null (dr_attrs r))).
  destruct (b_get_or_new b (dr_name r) (norm (non_null (dr_attrs r)))) as [b1 c].
  rewrite b_set_attrs_norm. reflexivity.
Qed.

Lemma fold_row_norm rows : forall acc,
  fold_left df_row_step (map norm_row rows) acc = fold_left df_row_step rows acc.
Proof.
  induction rows as [|r rows IH]; intros acc; [reflexivity|]. cbn [map fold_left].
  rewrite df_row_step_norm. apply IH.
Qed.

(* ------------------------------------------------------------------------------------------- *)
(** * 3. dag_to_dict / dict_to_dag without the distinct-keys guard; the reserved-key boundary *)

Lemma dict_export_facts g r x md :
  Wf g -> Ranked g r -> DistinctNames g -> WeaklyConnected g -> x < dsize g -> (exists p c, Edge g p c) ->
  exists d, dag_to_dict g x md = Ret d
    /\ NoDup (map de_name d)
    /\ (forall y, y < dsize g -> exists e, In e d /\ de_name e = name g y)
    /\ (forall e, In e d -> exists y, y < dsize g /\ de_name e = name g y
          /\ de_attrs e = export_attrs md (nattrs g y)
          /\ (forall pn, In pn (entry_parents e) <-> exists p, In p (parents g y) /\ pn = name g p))
    /\ (forall pn cn, In (pn, cn) (dict_relations d) -> exists p c, Edge g p c /\ pn = name g p /\ cn = name g c)
    /\ (forall p c, Edge g p c -> In (name g p, name g c) (dict_relations d)).
Proof.
  intros WF RK DN WC Hx HE.
  destruct (dict_nodes_edges_attrs g r x md WF RK DN WC Hx HE) as [d [ED [KD [KN EN]]]].
  exists d. split; [exact ED|]. split; [exact KD|].
  assert (EY : forall e, In e d -> exists y, y < dsize g /\ de_name e = name g y
              /\ de_attrs e = export_attrs md (nattrs g y)
              /\ (forall pn, In pn (entry_parents e) <-> exists p, In p (parents g y) /\ pn = name g p)).
  { intros e He. assert (Hk : In (de_name e) (map de_name d)) by (apply in_map; exact He).
    apply KN in Hk as [y [Hy Ny]]. destruct (EN y Hy) as [e' [He' [Ne' [Ae' [P1 P2]]]]].
    assert (e = e') by (apply (entry_unique d); try assumption; congruence). subst e'.
    exists y. split; [exact Hy|]. split; [exact Ne'|]. split; [exact Ae'|].
    intros pn. unfold entry_parents. destruct (parents g y) as [|q qs] eqn:EP.
    - rewrite (P1 eq_refl). split; [intros []|intros [p [[] _]]].
    - destruct (P2 ltac:(discriminate)) as [ps [E1 [_ E3]]]. rewrite E1. apply E3. }
  split.
  { intros y Hy. destruct (EN y Hy) as [e [He [Ne _]]]. exists e. split; assumption. }
  split; [exact EY|]. split.
  - intros pn cn H. unfold dict_relations in H. apply in_flat_map in H as [e [He H]].
    apply in_map_iff in H as [pn' [E Hpn]]. inversion E; subst pn' cn.
    destruct (EY e He) as [y [Hy [Ny [_ PP]]]]. fold (entry_parents e) in Hpn.
    apply PP in Hpn as [p [Hp ->]]. exists p, y. split; [apply (wf_sym g WF); exact Hp|]. split; [reflexivity|exact Ny].
  - intros p c He. destruct (edge_range g WF p c He) as [_ Rc].
    destruct (EN c Rc) as [e [Hin [Ne _]]]. destruct (EY e Hin) as [y [Hy [Ny [_ PP]]]].
    assert (y = c) by (apply DN; try assumption; congruence). subst y.
    unfold dict_relations. apply in_flat_map. exists e. split; [exact Hin|].
    apply in_map_iff. exists (name g p). split; [rewrite Ne; reflexivity|].
    fold (entry_parents e). apply PP. exists p. split; [apply (wf_sym g WF); exact He|reflexivity].
Qed.

(* the attributes the dictionary d gives to a name, read as a dict *)
Definition dict_attrs (d : list dentry) (s : str) : attrs :=
  match dget d s with Some e => norm (de_attrs e) | None => [] end.

Lemma dict_attrs_nodup d s : NoDup (map fst (dict_attrs d s)).
Proof. unfold dict_attrs. destruct (dget d s); [apply norm_nodup|constructor]. Qed.

Lemma RInv_empty g L A : RInv g L A [] b_empty.
Proof.
  split; [exact good_empty|]. split.
  - split; [intros e []|intros i Hi; unfold bsize in Hi; cbn in Hi; lia].
  - split; [reflexivity|]. split; [intros s []|intros i Hi; unfold bsize in Hi; cbn in Hi; lia].
Qed.

(* running dict_to_dag's loop over any duplicate-free part d1 of an exported dictionary d whose
   entries export no reserved key *)
Lemma dict_part_ok g r x md d d1 :
  Wf g -> Ranked g r -> DistinctNames g ->
  NoDup (map de_name d) ->
  (forall e, In e d -> exists y, y < dsize g /\ de_name e = name g y
        /\ de_attrs e = export_attrs md (nattrs g y)
        /\ (forall pn, In pn (entry_parents e) <-> exists p, In p (parents g y) /\ pn = name g p)) ->
  (forall pn cn, In (pn, cn) (dict_relations d) -> exists p c, Edge g p c /\ pn = name g p /\ cn = name g c) ->
  x < dsize g ->
  incl d1 d -> NoDup (map de_name d1) ->
  (forall e, In e d1 -> existsb (fun kv => reserved (fst kv)) (de_attrs e) = false) ->
  exists b last done, fold_left dict_entry_step d1 (Ret (b_empty, None)) = Ret (b, last)
    /\ RInv g (dict_relations d) (dict_attrs d) done b
    /\ (forall s, In s done <-> In s (map de_name d1))
    /\ ((exists e, In e d1 /\ entry_parents e <> []) -> exists p, last = Some p).
Proof.
  intros WF RK DN KD EY LG _ INC KD1 RES.
  set (L := dict_relations d). set (A := dict_attrs d).
  assert (KD1' : NoDup (map de_name (map norm_entry d1))).
  { rewrite map_map. cbn [norm_entry de_name]. exact KD1. }
  assert (HC : forall e, In e (map norm_entry d1) -> NodeName g (de_name e) /\ de_attrs e = A (de_name e)
        /\ existsb (fun kv => reserved (fst kv)) (de_attrs e) = false
        /\ forall pn, In pn (entry_parents e) -> In (pn, de_name e) L).
  { intros e' He'. apply in_map_iff in He' as [e [<- He]]. cbn [norm_entry de_name de_attrs].
    assert (Hd := INC e He). destruct (EY e Hd) as [y [Hy [Ny _]]].
    split; [exists y; split; [exact Hy|symmetry; exact Ny]|].
    split; [unfold A, dict_attrs; rewrite (dget_of_in d e KD Hd); reflexivity|].
    split; [rewrite reserved_norm; apply RES; exact He|].
    intros pn Hpn. unfold L, dict_relations. apply in_flat_map. exists e. split; [exact Hd|].
    apply in_map_iff. exists pn. split; [reflexivity|exact Hpn]. }
  destruct (fold_entry_ok g r WF RK DN L LG A (dict_attrs_nodup d) (map norm_entry d1) [] b_empty None
              (RInv_empty g L A) KD1' HC) as [b [last [done' [EF [R [EQ LS]]]]]].
  rewrite fold_entry_norm in EF.
  exists b, last, done'. split; [exact EF|]. split; [exact R|]. split.
  - intros s. rewrite EQ. rewrite map_map. cbn [norm_entry de_name]. cbn. tauto.
  - intros [e [He HP]]. apply LS. exists (norm_entry e). split; [apply in_map; exact He|exact HP].
Qed.

Theorem roundtrip_dict_general g r x md :
  Wf g -> Ranked g r -> DistinctNames g -> WeaklyConnected g -> x < dsize g -> (exists p c, Edge g p c) ->
  (forall y, y < dsize g -> existsb (fun kv => reserved (fst kv)) (export_attrs md (nattrs g y)) = false) ->
  exists d b ret, dag_to_dict g x md = Ret d /\ dict_to_dag d = Ret (b, Some ret)
    /\ Good b
    /\ SameNames g (b_names b)
    /\ NoDup (b_edges b)
    /\ (forall pn cn, HasEdge b pn cn <-> exists p c, Edge g p c /\ pn = name g p /\ cn = name g c)
    /\ length (b_attrs b) = bsize b
    /\ (forall i y, i < bsize b -> y < dsize g -> bname b i = name g y ->
          nth i (b_attrs b) [] = norm (export_attrs md (nattrs g y))).
Proof.
  intros WF RK DN WC Hx HE RES.
  destruct (dict_export_facts g r x md WF RK DN WC Hx HE) as [d [ED [KD [EN [EY [LG LE]]]]]].
  exists d.
  assert (RES' : forall e, In e d -> existsb (fun kv => reserved (fst kv)) (de_attrs e) = false).
  { intros e He. destruct (EY e He) as [y [Hy [_ [Ae _]]]]. rewrite Ae. apply RES. exact Hy. }
  destruct (dict_part_ok g r x md d d WF RK DN KD EY LG Hx (incl_refl d) KD RES')
    as [b [last [done' [EF [[G [Em [A1 [A2 A3]]]] [EQ LS]]]]]].
  destruct (fold_entry_spec d b_empty None b last good_empty EF) as [_ [_ HEd]].
  set (L := dict_relations d) in *.
  assert (LS' : exists p, last = Some p).
  { apply LS. destruct HE as [p [c He]]. destruct (edge_range g WF p c He) as [_ Rc].
    destruct (EN c Rc) as [e [Hin Ne]]. exists e. split; [exact Hin|].
    destruct (EY e Hin) as [y [Hy [Ny [_ PP]]]].
    assert (y = c) by (apply DN; try assumption; congruence). subst y.
    intros N. assert (Hp : In (name g p) (entry_parents e)).
    { apply PP. exists p. split; [apply (wf_sym g WF); exact He|reflexivity]. }
    rewrite N in Hp. exact Hp. }
  destruct LS' as [ret ->]. exists b, ret. split; [exact ED|].
  split.
  { unfold dict_to_dag. destruct d as [|e0 d0].
    - exfalso. destruct HE as [p [c He]]. destruct (edge_range g WF p c He) as [Rp _].
      destruct (EN p Rp) as [e [[] _]].
    - rewrite EF. reflexivity. }
  split; [exact G|].
  destruct G as [I AC]. destruct Em as [E1 E2].
  split.
  { split; [apply (bi_nodup_n b I)|]. intros s. split.
    - intros Hs. apply (In_nth _ _ []) in Hs as [i [Hi Es]]. fold (bsize b) in Hi. fold (bname b i) in Es.
      rewrite <- Es. apply E2. exact Hi.
    - intros [y [Hy <-]]. destruct (incident_edge g y WF WC HE Hy) as [p [c [He Hor]]].
      destruct (HEd _ (LE p c He)) as [i [j [_ [Hi [Hj [N1 N2]]]]]]. cbn in N1, N2.
      destruct Hor as [->| ->]; [rewrite <- N1|rewrite <- N2]; apply nth_In; assumption. }
  split; [apply (bi_nodup_e b I)|]. split.
  { intros pn cn. split.
    - intros [i [j [Hin [Hi [Hj [<- <-]]]]]]. apply LG. apply (E1 (i, j) Hin).
    - intros [p [c [He [-> ->]]]]. apply (HEd (name g p, name g c)). apply LE. exact He. }
  split; [exact A1|].
  intros i y Hi Hy Ni. destruct (A3 i Hi) as [B1 _].
  destruct (EN y Hy) as [e [Hin Ne]]. destruct (EY e Hin) as [y' [Hy' [Ny' [Ae _]]]].
  assert (y' = y) by (apply DN; try assumption; congruence). subst y'.
  rewrite B1.
  - rewrite Ni, <- Ne. unfold dict_attrs. rewrite (dget_of_in d e KD Hin), Ae. reflexivity.
  - apply EQ. rewrite Ni, <- Ne. apply in_map. exact Hin.
Qed.

Lemma NoDup_app_left {A} (l1 l2 : list A) : NoDup (l1 ++ l2) -> NoDup l1.
Proof.
  induction l1 as [|a l1 IH]; cbn; intros H; [constructor|].
  inversion H as [|? ? Hn Hd]; subst. constructor; [|apply IH; exact Hd].
  intros Hin. apply Hn. apply in_or_app. left. exact Hin.
Qed.

Lemma first_true {A} (p : A -> bool) l : existsb p l = true ->
  exists l1 x l2, l = l1 ++ x :: l2 /\ p x = true /\ forall y, In y l1 -> p y = false.
Proof.
  induction l as [|a l IH]; cbn; intros H; [discriminate|].
  destruct (p a) eqn:E.
  - exists [], a, l. split; [reflexivity|]. split; [exact E|intros y []].
  - destruct (IH H) as [l1 [x [l2 [-> [Px Hl1]]]]]. exists (a :: l1), x, l2.
    split; [reflexivity|]. split; [exact Px|]. intros y [<-|Hy]; [exact E|apply Hl1; exact Hy].
Qed.

(* a node that exports a reserved key: the export succeeds, the constructor refuses it (ValueError) *)
Theorem roundtrip_dict_reserved_refused g r x md :
  Wf g -> Ranked g r -> DistinctNames g -> WeaklyConnected g -> x < dsize g -> (exists p c, Edge g p c) ->
  (exists y, y < dsize g /\ existsb (fun kv => reserved (fst kv)) (export_attrs md (nattrs g y)) = true) ->
  exists d, dag_to_dict g x md = Ret d /\ dict_to_dag d = Raise ValueError.
Proof.
  intros WF RK DN WC Hx HE [y [Hy RY]].
  destruct (dict_export_facts g r x md WF RK DN WC Hx HE) as [d [ED [KD [EN [EY [LG LE]]]]]].
  exists d. split; [exact ED|].
  assert (EX : existsb (fun e => existsb (fun kv => reserved (fst kv)) (de_attrs e)) d = true).
  { apply existsb_exists. destruct (EN y Hy) as [e [Hin Ne]]. exists e. split; [exact Hin|].
    destruct (EY e Hin) as [y' [Hy' [Ny' [Ae _]]]].
    assert (y' = y) by (apply DN; try assumption; congruence). subst y'. rewrite Ae. exact RY. }
  destruct (first_true _ d EX) as [d1 [e [d2 [Ed [Pe Pd1]]]]].
  assert (INC : incl d1 d) by (intros z Hz; rewrite Ed; apply in_or_app; left; exact Hz).
  assert (KD1 : NoDup (map de_name d1)).
  { rewrite Ed, map_app in KD. apply NoDup_app_left in KD. exact KD. }
  destruct (dict_part_ok g r x md d d1 WF RK DN KD EY LG Hx INC KD1 Pd1) as [b [last [done' [EF _]]]].
  unfold dict_to_dag. destruct d as [|e0 d0]; [destruct d1; discriminate|].
  rewrite Ed, fold_left_app, EF. cbn [fold_left].
  assert (ST : dict_entry_step (Ret (b, last)) e = Raise ValueError).
  { unfold dict_entry_step. rewrite Pe. reflexivity. }
  rewrite ST, fold_entry_raise. reflexivity.
Qed.

(* the boundary: on an exported dictionary, dict_to_dag succeeds exactly when no reserved key is exported *)
Theorem roundtrip_dict_succeeds_iff g r x md :
  Wf g -> Ranked g r -> DistinctNames g -> WeaklyConnected g -> x < dsize g -> (exists p c, Edge g p c) ->
  exists d, dag_to_dict g x md = Ret d
    /\ ((exists bl, dict_to_dag d = Ret bl)
        <-> forall y, y < dsize g -> existsb (fun kv => reserved (fst kv)) (export_attrs md (nattrs g y)) = false).
Proof.
  intros WF RK DN WC Hx HE.
  destruct (dict_nodes_edges_attrs g r x md WF RK DN WC Hx HE) as [d [ED _]].
  exists d. split; [exact ED|]. split.
  - intros [bl Hbl] y Hy.
    destruct (existsb (fun kv => reserved (fst kv)) (export_attrs md (nattrs g y))) eqn:E; [|reflexivity].
    destruct (roundtrip_dict_reserved_refused g r x md WF RK DN WC Hx HE (ex_intro _ y (conj Hy E)))
      as [d' [ED' RF]].
    rewrite ED in ED'. inversion ED'; subst d'. rewrite RF in Hbl. discriminate.
  - intros RES. destruct (roundtrip_dict_general g r x md WF RK DN WC Hx HE RES) as [d' [b [ret [ED' [RT _]]]]].
    rewrite ED in ED'. inversion ED'; subst d'. exists (b, Some ret). exact RT.
Qed.

(* ------------------------------------------------------------------------------------------- *)
(** * 4. dag_to_dataframe / dataframe_to_dag without the distinct-keys guard *)

Theorem roundtrip_df_general g r x md :
  Wf g -> Ranked g r -> DistinctNames g -> WeaklyConnected g -> x < dsize g -> (exists p c, Edge g p c) ->
  exists b ret, dataframe_to_dag (dag_to_dataframe g x md) = Ret (b, Some ret)
    /\ Good b
    /\ SameNames g (b_names b)
    /\ NoDup (b_edges b)
    /\ (forall pn cn, HasEdge b pn cn <-> exists p c, Edge g p c /\ pn = name g p /\ cn = name g c)
    /\ length (b_attrs b) = bsize b
    /\ (forall i y, i < bsize b -> y < dsize g -> bname b i = name g y ->
          nth i (b_attrs b) [] = norm (non_null (export_attrs md (nattrs g y)))).
Proof.
  intros WF RK DN WC Hx HE.
  destruct (df_rows_exact g r x md WF RK DN WC Hx) as [_ [SND [F2 FR]]].
  set (rows := dag_to_dataframe g x md) in *.
  set (na := fun y => non_null (export_attrs md (nattrs g y))) in *.
  assert (F1 : forall rw, In rw rows -> exists y, y < dsize g /\ dr_name rw = name g y /\ dr_attrs rw = na y
                /\ forall pn, dr_parent rw = Some pn -> exists p, Edge g p y /\ pn = name g p).
  { intros rw H. destruct (SND rw H) as [y [Hy [Ny [Ay Hor]]]]. exists y.
    split; [exact Hy|]. split; [exact Ny|]. split; [exact Ay|]. intros pn EP.
    destruct Hor as [[N _]|[p [He EP']]]; [rewrite N in EP; discriminate|].
    rewrite EP' in EP. inversion EP. exists p. split; [exact He|reflexivity]. }
  assert (F3 : forall y, y < dsize g -> exists rw, In rw rows /\ dr_name rw = name g y).
  { intros y Hy. destruct (incident_edge g y WF WC HE Hy) as [p [c [He Hor]]].
    destruct Hor as [->| ->].
    - destruct (parents g p) as [|q qs] eqn:EP.
      + destruct (FR p c He EP) as [rw [H1 [H2 _]]]. exists rw. split; assumption.
      + assert (Hq : Edge g q p) by (apply (wf_sym g WF); rewrite EP; left; reflexivity).
        destruct (F2 q p Hq) as [rw [H1 [H2 _]]]. exists rw. split; assumption.
    - destruct (F2 p c He) as [rw [H1 [H2 _]]]. exists rw. split; assumption. }
  set (L := df_relations rows).
  assert (LG : forall pn cn, In (pn, cn) L -> exists p c, Edge g p c /\ pn = name g p /\ cn = name g c).
  { intros pn cn H. unfold L, df_relations in H. apply in_flat_map in H as [rw [Hrw H]].
    destruct (dr_parent rw) as [pn'|] eqn:EP; [|contradiction]. destruct H as [E|[]]. inversion E; subst pn' cn.
    destruct (F1 rw Hrw) as [y [Hy [Ny [_ PP]]]]. destruct (PP pn EP) as [p [He ->]].
    exists p, y. split; [exact He|]. split; [reflexivity|exact Ny]. }
  assert (LE : forall p c, Edge g p c -> In (name g p, name g c) L).
  { intros p c He. destruct (F2 p c He) as [rw [H1 [H2 H3]]]. unfold L, df_relations. apply in_flat_map.
    exists rw. split; [exact H1|]. rewrite H3. left. rewrite H2. reflexivity. }
  set (A := fun s => match find (fun z => str_eqb (name g z) s) (ids g) with Some y => norm (na y) | None => [] end).
  assert (AY : forall y, y < dsize g -> A (name g y) = norm (na y)).
  { intros y Hy. unfold A. rewrite (find_name g y DN Hy). reflexivity. }
  assert (AND : forall s, NoDup (map fst (A s))).
  { intros s. unfold A. destruct (find (fun z => str_eqb (name g z) s) (ids g)); [apply norm_nodup|constructor]. }
  assert (HC : forall rw, In rw (map norm_row rows) -> NodeName g (dr_name rw) /\ non_null (dr_attrs rw) = A (dr_name rw)
        /\ forall pn, dr_parent rw = Some pn -> In (pn, dr_name rw) L).
  { intros rw' Hrw'. apply in_map_iff in Hrw' as [rw [<- Hrw]]. cbn [norm_row dr_name dr_parent dr_attrs].
    destruct (F1 rw Hrw) as [y [Hy [Ny [Ay PP]]]].
    split; [exists y; split; [exact Hy|symmetry; exact Ny]|].
    split.
    { rewrite non_null_norm, Ny, (AY y Hy), Ay. unfold na. rewrite non_null_idem. reflexivity. }
    intros pn EP. unfold L, df_relations. apply in_flat_map. exists rw. split; [exact Hrw|].
    rewrite EP. left. reflexivity. }
  destruct (fold_row_ok g r WF RK DN L LG A AND (map norm_row rows) [] b_empty None (RInv_empty g L A) HC)
    as [b [last [done' [EF [[G [Em [A1 [A2 A3]]]] [EQ [_ LS]]]]]]].
  rewrite fold_row_norm in EF.
  destruct (fold_row_spec rows b_empty None b last good_empty EF) as [_ [_ HEd]]. fold L in HEd.
  assert (LS' : is_some last = true).
  { apply LS. destruct HE as [p [c He]]. destruct (F2 p c He) as [rw [H1 [_ H3]]].
    exists (norm_row rw). split; [apply in_map; exact H1|]. cbn [norm_row dr_parent]. rewrite H3. discriminate. }
  destruct last as [ret|]; [|discriminate]. exists b, ret. split.
  { unfold dataframe_to_dag. destruct rows as [|r0 rows0] eqn:ER.
    - exfalso. destruct HE as [p [c He]]. destruct (F2 p c He) as [rw [[] _]].
    - assert (CONS : df_consistent (r0 :: rows0) = true).
      { unfold df_consistent. apply forallb_forall. intros r1 H1. apply forallb_forall. intros r2 H2.
        destruct (str_eqb (dr_name r1) (dr_name r2)) eqn:E; [|reflexivity]. cbn.
        apply str_eqb_eq in E.
        destruct (F1 r1 H1) as [y1 [Hy1 [N1 [At1 _]]]]. destruct (F1 r2 H2) as [y2 [Hy2 [N2 [At2 _]]]].
        assert (y1 = y2) by (apply DN; try assumption; congruence). subst y2.
        rewrite At1, At2. apply attrs_eqb_refl. }
      rewrite CONS. cbn [negb]. exact EF. }
  split; [exact G|].
  destruct G as [I AC]. destruct Em as [E1 E2].
  split.
  { split; [apply (bi_nodup_n b I)|]. intros s. split.
    - intros Hs. apply (In_nth _ _ []) in Hs as [i [Hi Es]]. fold (bsize b) in Hi. fold (bname b i) in Es.
      rewrite <- Es. apply E2. exact Hi.
    - intros [y [Hy <-]]. destruct (incident_edge g y WF WC HE Hy) as [p [c [He Hor]]].
      destruct (HEd _ (LE p c He)) as [i [j [_ [Hi [Hj [N1 N2]]]]]]. cbn in N1, N2.
      destruct Hor as [->| ->]; [rewrite <- N1|rewrite <- N2]; apply nth_In; assumption. }
  split; [apply (bi_nodup_e b I)|]. split.
  { intros pn cn. split.
    - intros [i [j [Hin [Hi [Hj [<- <-]]]]]]. apply LG. apply (E1 (i, j) Hin).
    - intros [p [c [He [-> ->]]]]. apply (HEd (name g p, name g c)). apply LE. exact He. }
  split; [exact A1|].
  intros i y Hi Hy Ni. destruct (A3 i Hi) as [B1 _]. rewrite B1.
  - rewrite Ni. apply AY. exact Hy.
  - apply EQ. right. rewrite Ni. destruct (F3 y Hy) as [rw [H1 H2]]. rewrite <- H2.
    rewrite map_map. cbn [norm_row dr_name]. apply in_map. exact H1.
Qed.

(* ------------------------------------------------------------------------------------------- *)
(** * 5. the exports do not depend on the start node *)

Theorem list_start_independent g r x x' :
  Wf g -> Ranked g r -> DistinctNames g -> WeaklyConnected g -> x < dsize g -> x' < dsize g ->
  Permutation (dag_to_list g x) (dag_to_list g x').
Proof.
  intros WF RK DN WC Hx Hx'.
  destruct (list_edges_exact g r x WF RK DN WC Hx) as [L1 N1].
  destruct (list_edges_exact g r x' WF RK DN WC Hx') as [L2 N2].
  apply NoDup_Permutation; [exact N1|exact N2|]. intros [pn cn]. rewrite L1, L2. tauto.
Qed.

Lemma NoDup_of_map {A B} (f : A -> B) l : NoDup (map f l) -> NoDup l.
Proof.
  induction l as [|a l IH]; cbn; intros H; [constructor|]. inversion H as [|? ? Hn Hd]; subst.
  constructor; [|apply IH; exact Hd]. intros Hin. apply Hn. apply in_map. exact Hin.
Qed.

Lemma df_rows_same_set g r x x' md :
  Wf g -> Ranked g r -> DistinctNames g -> WeaklyConnected g -> x < dsize g -> x' < dsize g ->
  forall rw, In rw (dag_to_dataframe g x md) -> In rw (dag_to_dataframe g x' md).
Proof.
  intros WF RK DN WC Hx Hx' rw H.
  destruct (df_rows_exact g r x md WF RK DN WC Hx) as [_ [S1 _]].
  destruct (df_rows_exact g r x' md WF RK DN WC Hx') as [_ [S2 [F2 FR]]].
  destruct (S1 rw H) as [y [Hy [Ny [Ay Hor]]]].
  assert (K : exists rw', In rw' (dag_to_dataframe g x' md) /\ dr_name rw' = dr_name rw /\ dr_parent rw' = dr_parent rw).
  { destruct Hor as [[EP [Rt [c He]]]|[p [He EP]]].
    - destruct (FR y c He Rt) as [rw' [H1 [H2 H3]]]. exists rw'. split; [exact H1|]. split; congruence.
    - destruct (F2 p y He) as [rw' [H1 [H2 H3]]]. exists rw'. split; [exact H1|]. split; congruence. }
  destruct K as [rw' [H' [K1 K2]]].
  destruct (S2 rw' H') as [y' [Hy' [Ny' [Ay' _]]]].
  assert (y' = y) by (apply DN; try assumption; congruence). subst y'.
  assert (rw' = rw); [|subst; exact H'].
  destruct rw as [n1 p1 a1], rw' as [n2 p2 a2]. cbn in *. congruence.
Qed.

Theorem df_start_independent g r x x' md :
  Wf g -> Ranked g r -> DistinctNames g -> WeaklyConnected g -> x < dsize g -> x' < dsize g ->
  Permutation (dag_to_dataframe g x md) (dag_to_dataframe g x' md).
Proof.
  intros WF RK DN WC Hx Hx'.
  destruct (df_rows_exact g r x md WF RK DN WC Hx) as [N1 _].
  destruct (df_rows_exact g r x' md WF RK DN WC Hx') as [N2 _].
  apply NoDup_Permutation; [exact (NoDup_of_map _ _ N1)|exact (NoDup_of_map _ _ N2)|].
  intros rw. split; apply df_rows_same_set with (r := r); assumption.
Qed.

(* the parents value of two dictionary entries: both absent, or the same names in some order *)
Definition same_parents (o o' : option (list str)) : Prop :=
  match o, o' with
  | None, None => True
  | Some ps, Some ps' => Permutation ps ps'
  | _, _ => False
  end.

Theorem dict_start_independent g r x x' md :
  Wf g -> Ranked g r -> DistinctNames g -> WeaklyConnected g -> x < dsize g -> x' < dsize g ->
  (exists p c, Edge g p c) ->
  exists d d', dag_to_dict g x md = Ret d /\ dag_to_dict g x' md = Ret d'
    /\ Permutation (map de_name d) (map de_name d')
    /\ forall e e', In e d -> In e' d' -> de_name e = de_name e' ->
         de_attrs e = de_attrs e' /\ same_parents (de_parents e) (de_parents e').
Proof.
  intros WF RK DN WC Hx Hx' HE.
  destruct (dict_nodes_edges_attrs g r x md WF RK DN WC Hx HE) as [d [ED [KD [KN EN]]]].
  destruct (dict_nodes_edges_attrs g r x' md WF RK DN WC Hx' HE) as [d' [ED' [KD' [KN' EN']]]].
  exists d, d'. split; [exact ED|]. split; [exact ED'|]. split.
  { apply NoDup_Permutation; [exact KD|exact KD'|]. intros s. rewrite KN, KN'. tauto. }
  intros e e' He He' Ee.
  assert (Hk : In (de_name e) (map de_name d)) by (apply in_map; exact He).
  apply KN in Hk as [y [Hy Ny]].
  destruct (EN y Hy) as [e0 [H0 [N0 [A0 [P0 Q0]]]]].
  assert (e = e0) by (apply (entry_unique d); try assumption; congruence). subst e0.
  destruct (EN' y Hy) as [e1 [H1 [N1 [A1 [P1 Q1]]]]].
  assert (e' = e1) by (apply (entry_unique d'); try assumption; congruence). subst e1.
  split; [congruence|].
  destruct (parents g y) as [|q qs] eqn:EP.
  - rewrite (P0 eq_refl), (P1 eq_refl). exact I.
  - destruct (Q0 ltac:(discriminate)) as [ps [E0 [ND0 M0]]].
    destruct (Q1 ltac:(discriminate)) as [ps' [E1 [ND1 M1]]].
    rewrite E0, E1. cbn. apply NoDup_Permutation; [exact ND0|exact ND1|].
    intros s. rewrite M0, M1. tauto.
Qed.

(* ------------------------------------------------------------------------------------------- *)
(** * 6. a DAG without edges *)

Lemma iter_isolated g x : parents g x = [] -> children g x = [] -> dag_iterator g x = [].
Proof.
  intros EP EC. unfold dag_iterator. cbn [walk]. rewrite EP, EC. reflexivity.
Qed.

Lemma no_edge_isolated g x : Wf g -> (forall p c, ~ Edge g p c) -> parents g x = [] /\ children g x = [].
Proof.
  intros WF NE. split.
  - destruct (parents g x) as [|p l] eqn:E; [reflexivity|]. exfalso. apply (NE p x).
    apply (wf_sym g WF). rewrite E. left. reflexivity.
  - destruct (children g x) as [|c l] eqn:E; [reflexivity|]. exfalso. apply (NE x c).
    unfold Edge. rewrite E. left. reflexivity.
Qed.

(* weakly connected and no edge: at most one node *)
Lemma connected_no_edge_single g : WeaklyConnected g -> (forall p c, ~ Edge g p c) -> dsize g <= 1.
Proof.
  intros WC NE. destruct (Nat.le_gt_cases (dsize g) 1) as [H|H]; [exact H|]. exfalso.
  assert (HU := WC 0 1 ltac:(lia) ltac:(lia)).
  inversion HU as [a|a c b _ [Hadj|Hadj]]; subst; exact (NE _ _ Hadj).
Qed.

Theorem no_edge_exports_nothing g x md :
  Wf g -> (forall p c, ~ Edge g p c) ->
  dag_to_list g x = [] /\ dag_to_dict g x md = Ret [] /\ dag_to_dataframe g x md = []
  /\ list_to_dag (dag_to_list g x) = Raise ValueError
  /\ (forall d, dag_to_dict g x md = Ret d -> dict_to_dag d = Raise ValueError)
  /\ dataframe_to_dag (dag_to_dataframe g x md) = Raise ValueError.
Proof.
  intros WF NE. destruct (no_edge_isolated g x WF NE) as [EP EC].
  assert (IT := iter_isolated g x EP EC).
  unfold dag_to_list, dag_to_dict, dag_to_dataframe. rewrite IT. cbn.
  repeat split. intros d H. inversion H. reflexivity.
Qed.

(* ------------------------------------------------------------------------------------------- *)
(** * 7. the rebuilt table is a DAG like g, and exporting it again gives the first export *)

Lemma names_nodup g : DistinctNames g -> NoDup (map (name g) (ids g)).
Proof.
  intros DN. apply NoDup_map_inj_in; [|apply seq_NoDup].
  intros a b Ha Hb E. apply in_ids in Ha, Hb. apply DN; assumption.
Qed.

Lemma same_names_size g b : DistinctNames g -> SameNames g (b_names b) -> bsize b = dsize g.
Proof.
  intros DN [ND SN].
  assert (P : Permutation (b_names b) (map (name g) (ids g))).
  { apply NoDup_Permutation; [exact ND|apply names_nodup; exact DN|]. intros s. rewrite SN, in_map_iff. split.
    - intros [y [Hy E]]. exists y. split; [exact E|apply in_ids; exact Hy].
    - intros [y [E Hy]]. exists y. split; [apply in_ids; exact Hy|exact E]. }
  apply Permutation_length in P. rewrite map_length in P. unfold ids in P. rewrite seq_length in P. exact P.
Qed.

Section Rebuilt.
  Variable g : dag.
  Variable b : bld.
  Hypothesis WF : Wf g.
  Hypothesis DN : DistinctNames g.
  Hypothesis WC : WeaklyConnected g.
  Hypothesis GB : Good b.
  Hypothesis SN : SameNames g (b_names b).
  Hypothesis HE : forall pn cn, HasEdge b pn cn <-> exists p c, Edge g p c /\ pn = name g p /\ cn = name g c.

  Lemma rebuilt_name_of i : i < bsize b -> exists y, y < dsize g /\ name g y = bname b i.
  Proof. intros Hi. apply (proj2 SN). apply nth_In. exact Hi. Qed.

  Lemma rebuilt_edge_names i j :
    Edge (b_dag b) i j <-> i < bsize b /\ j < bsize b /\ HasEdge b (bname b i) (bname b j).
  Proof.
    destruct GB as [I _]. rewrite (b_edge b i j I). split.
    - intros H. destruct (bi_range b I i j H) as [Hi Hj]. split; [exact Hi|]. split; [exact Hj|].
      exists i, j. repeat split; assumption.
    - intros [Hi [Hj [i' [j' [H [Hi' [Hj' [E1 E2]]]]]]]].
      assert (i' = i) by (apply (bname_inj b _ _ I); assumption).
      assert (j' = j) by (apply (bname_inj b _ _ I); assumption). subst. exact H.
  Qed.

  Lemma rebuilt_ureach y z : UReach g y z -> forall i, i < bsize b -> bname b i = name g y ->
    exists k, k < bsize b /\ bname b k = name g z /\ UReach (b_dag b) i k.
  Proof.
    induction 1 as [a|a c z' _ IH Hadj]; intros i Hi Ni.
    - exists i. split; [exact Hi|]. split; [exact Ni|apply UReach0].
    - destruct (IH i Hi Ni) as [k [Hk [Nk HU]]].
      assert (AE : (exists j, j < bsize b /\ bname b j = name g z' /\ Adj (b_dag b) k j)).
      { destruct Hadj as [He|He].
        - assert (H : HasEdge b (name g c) (name g z')) by (apply HE; exists c, z'; tauto).
          destruct H as [i' [j' [H [Hi' [Hj' [E1 E2]]]]]].
          assert (i' = k) by (apply (bname_inj b _ _ (proj1 GB)); try assumption; congruence). subst i'.
          exists j'. split; [exact Hj'|]. split; [exact E2|]. left. apply (b_edge b k j' (proj1 GB)). exact H.
        - assert (H : HasEdge b (name g z') (name g c)) by (apply HE; exists z', c; tauto).
          destruct H as [i' [j' [H [Hi' [Hj' [E1 E2]]]]]].
          assert (j' = k) by (apply (bname_inj b _ _ (proj1 GB)); try assumption; congruence). subst j'.
          exists i'. split; [exact Hi'|]. split; [exact E1|]. right. apply (b_edge b i' k (proj1 GB)). exact H. }
      destruct AE as [j [Hj [Nj Ha]]]. exists j. split; [exact Hj|]. split; [exact Nj|].
      eapply UReachS; eauto.
  Qed.

  Theorem rebuilt_is_dag :
    Wf (b_dag b) /\ Acyclic (b_dag b) /\ DistinctNames (b_dag b) /\ WeaklyConnected (b_dag b)
    /\ dsize (b_dag b) = dsize g.
  Proof.
    destruct GB as [I AC].
    split; [apply b_wf; exact I|]. split; [exact AC|]. split.
    { intros i j Hi Hj E. rewrite b_dag_size in Hi, Hj. rewrite !b_dag_name in E by assumption.
      apply (bname_inj b _ _ I); assumption. }
    split.
    { intros i j Hi Hj. rewrite b_dag_size in Hi, Hj.
      destruct (rebuilt_name_of i Hi) as [y [Hy Ny]]. destruct (rebuilt_name_of j Hj) as [z [Hz Nz]].
      destruct (rebuilt_ureach y z (WC y z Hy Hz) i Hi (eq_sym Ny)) as [k [Hk [Nk HU]]].
      assert (k = j) by (apply (bname_inj b _ _ I); try assumption; congruence). subst k. exact HU. }
    rewrite b_dag_size. apply same_names_size; assumption.
  Qed.

  (* the list export of the rebuilt table, from any of its nodes *)
  Theorem reexport_list r x z :
    Ranked g r -> x < dsize g -> z < bsize b ->
    Permutation (dag_to_list (b_dag b) z) (dag_to_list g x).
  Proof.
    intros RK Hx Hz.
    destruct rebuilt_is_dag as [WF' [AC' [DN' [WC' SZ]]]].
    assert (Hz' : z < dsize (b_dag b)) by (rewrite b_dag_size; exact Hz).
    destruct (proj1 (acyclic_iff_ranked (b_dag b) WF' ltac:(lia)) AC') as [r' RK'].
    destruct (list_edges_exact (b_dag b) r' z WF' RK' DN' WC' Hz') as [L1 N1].
    destruct (list_edges_exact g r x WF RK DN WC Hx) as [L2 N2].
    apply NoDup_Permutation; [exact N1|exact N2|]. intros [pn cn]. rewrite L1, L2, <- HE. split.
    - intros [p [c [He [-> ->]]]]. apply rebuilt_edge_names in He as [Hp [Hc H]].
      rewrite !b_dag_name by assumption. exact H.
    - intros [i [j [H [Hi [Hj [E1 E2]]]]]]. exists i, j.
      split; [apply (b_edge b i j (proj1 GB)); exact H|]. rewrite !b_dag_name by assumption.
      split; symmetry; assumption.
  Qed.
End Rebuilt.

(* the three round trips, with what the rebuilt table is *)
Definition RebuiltLike (g : dag) (x : id) (b : bld) : Prop :=
  Wf (b_dag b) /\ Acyclic (b_dag b) /\ DistinctNames (b_dag b) /\ WeaklyConnected (b_dag b)
  /\ dsize (b_dag b) = dsize g
  /\ forall z, z < bsize b -> Permutation (dag_to_list (b_dag b) z) (dag_to_list g x).

Lemma rebuilt_like g r x b :
  Wf g -> Ranked g r -> DistinctNames g -> WeaklyConnected g -> x < dsize g ->
  Good b -> SameNames g (b_names b) ->
  (forall pn cn, HasEdge b pn cn <-> exists p c, Edge g p c /\ pn = name g p /\ cn = name g c) ->
  RebuiltLike g x b.
Proof.
  intros WF RK DN WC Hx GB SN HE.
  destruct (rebuilt_is_dag g b DN WC GB SN HE) as [H1 [H2 [H3 [H4 H5]]]].
  repeat (split; [assumption|]). intros z Hz. apply (reexport_list g b WF DN WC GB SN HE r x z RK Hx Hz).
Qed.

Theorem roundtrip_list_reexport g r x :
  Wf g -> Ranked g r -> DistinctNames g -> WeaklyConnected g -> x < dsize g -> (exists p c, Edge g p c) ->
  exists b ret, list_to_dag (dag_to_list g x) = Ret (b, Some ret) /\ RebuiltLike g x b.
Proof.
  intros WF RK DN WC Hx HE.
  destruct (roundtrip_list g r x WF RK DN WC Hx HE) as [b [ret [RT [SN [_ HH]]]]].
  exists b, ret. split; [exact RT|].
  assert (GB : Good b).
  { unfold list_to_dag in RT. destruct (dag_to_list g x) as [|q rel] eqn:E; [discriminate|].
    exact (proj1 (fold_list_spec (q :: rel) b_empty None b (Some ret) good_empty RT)). }
  apply (rebuilt_like g r x b WF RK DN WC Hx GB SN HH).
Qed.

Theorem roundtrip_dict_reexport g r x md :
  Wf g -> Ranked g r -> DistinctNames g -> WeaklyConnected g -> x < dsize g -> (exists p c, Edge g p c) ->
  (forall y, y < dsize g -> existsb (fun kv => reserved (fst kv)) (export_attrs md (nattrs g y)) = false) ->
  exists d b ret, dag_to_dict g x md = Ret d /\ dict_to_dag d = Ret (b, Some ret) /\ RebuiltLike g x b.
Proof.
  intros WF RK DN WC Hx HE RES.
  destruct (roundtrip_dict_general g r x md WF RK DN WC Hx HE RES) as [d [b [ret [ED [RT [GB [SN [_ [HH _]]]]]]]]].
  exists d, b, ret. split; [exact ED|]. split; [exact RT|].
  apply (rebuilt_like g r x b WF RK DN WC Hx GB SN HH).
Qed.

Theorem roundtrip_df_reexport g r x md :
  Wf g -> Ranked g r -> DistinctNames g -> WeaklyConnected g -> x < dsize g -> (exists p c, Edge g p c) ->
  exists b ret, dataframe_to_dag (dag_to_dataframe g x md) = Ret (b, Some ret) /\ RebuiltLike g x b.
Proof.
  intros WF RK DN WC Hx HE.
  destruct (roundtrip_df_general g r x md WF RK DN WC Hx HE) as [b [ret [RT [GB [SN [_ [HH _]]]]]]].
  exists b, ret. split; [exact RT|].
  apply (rebuilt_like g r x b WF RK DN WC Hx GB SN HH).
Qed.

(* ------------------------------------------------------------------------------------------- *)
(** * 8. bridge: the exports / round trips of the graphs that DAGNode operation histories build
   (`dabs s` of Heap/DagAbs.v, s reachable through the API of the heap model of C10).  The heap
   model carries no user attributes, so every node of `dabs s` exports `export_attrs md []`.
   Heap names are written `Dag.x`. *)
From BT Require Heap.Dag Heap.DagProofs Heap.DagAbs.

Definition heap_edge (s : Dag.dag) (pn cn : str) : Prop :=
  exists p c, In p (Dag.parents s c) /\ pn = Dag.dname s p /\ cn = Dag.dname s c.
Definition heap_names (s : Dag.dag) (names : list str) : Prop :=
  NoDup names /\ forall nm, In nm names <-> exists y, y < Dag.dsize s /\ Dag.dname s y = nm.

Lemma dabs_edge_names s pn cn : DagProofs.Links s ->
  ((exists p c, Edge (DagAbs.dabs s) p c /\ pn = name (DagAbs.dabs s) p /\ cn = name (DagAbs.dabs s) c)
   <-> heap_edge s pn cn).
Proof.
  intros L. assert (WF := DagAbs.Links_Wf s L). split.
  - intros [p [c [He [-> ->]]]]. destruct (edge_range _ WF p c He) as [Rp Rc].
    rewrite DagAbs.dabs_size in Rp, Rc. exists p, c.
    split; [apply (DagAbs.dabs_Edge s p c L); exact He|]. rewrite !DagAbs.dabs_name by assumption. split; reflexivity.
  - intros [p [c [H [-> ->]]]]. apply (DagAbs.dabs_Edge s p c L) in H.
    destruct (edge_range _ WF p c H) as [Rp Rc]. rewrite DagAbs.dabs_size in Rp, Rc.
    exists p, c. split; [exact H|]. rewrite !DagAbs.dabs_name by assumption. split; reflexivity.
Qed.

Lemma dabs_same_names s names : SameNames (DagAbs.dabs s) names <-> heap_names s names.
Proof.
  assert (K : forall nm, (exists y, y < dsize (DagAbs.dabs s) /\ name (DagAbs.dabs s) y = nm)
                         <-> exists y, y < Dag.dsize s /\ Dag.dname s y = nm).
  { intros nm. rewrite DagAbs.dabs_size. split; intros [y [Hy E]]; exists y; (split; [exact Hy|]).
    - rewrite <- DagAbs.dabs_name by exact Hy. exact E.
    - rewrite DagAbs.dabs_name by exact Hy. exact E. }
  unfold SameNames, heap_names. split; intros [ND H]; (split; [exact ND|]); intros nm.
  - rewrite H. apply K.
  - rewrite H. symmetry. apply K.
Qed.

Lemma dabs_nattrs s y : y < Dag.dsize s -> nattrs (DagAbs.dabs s) y = [].
Proof. intros Hy. unfold nattrs. rewrite DagAbs.dabs_node by exact Hy. reflexivity. Qed.

Lemma reachable_ready cfg n names ops x :
  let s := Dag.drun cfg (Dag.dinit n names) ops in
  x < Dag.dsize s ->
  DagProofs.Links s /\ Wf (DagAbs.dabs s) /\ (exists r, Ranked (DagAbs.dabs s) r) /\ x < dsize (DagAbs.dabs s).
Proof.
  intros s Hx.
  assert (W : DagProofs.DWF s) by (apply DagProofs.drun_DWF, DagProofs.DWF_init).
  split; [exact (proj1 W)|]. split; [apply DagAbs.dabs_Wf; exact W|].
  split; [apply DagAbs.dabs_Ranked; [exact W|lia]|]. rewrite DagAbs.dabs_size. exact Hx.
Qed.

Theorem reachable_list_roundtrip cfg n names ops x :
  let s := Dag.drun cfg (Dag.dinit n names) ops in
  let g := DagAbs.dabs s in
  DistinctNames g -> WeaklyConnected g -> x < Dag.dsize s -> (exists p c, In p (Dag.parents s c)) ->
  (forall pn cn, In (pn, cn) (dag_to_list g x) <-> heap_edge s pn cn)
  /\ NoDup (dag_to_list g x)
  /\ (forall x', x' < Dag.dsize s -> Permutation (dag_to_list g x) (dag_to_list g x'))
  /\ exists b ret, list_to_dag (dag_to_list g x) = Ret (b, Some ret)
       /\ heap_names s (b_names b) /\ NoDup (b_edges b)
       /\ (forall pn cn, HasEdge b pn cn <-> heap_edge s pn cn)
       /\ RebuiltLike g x b.
Proof.
  intros s g DN WC Hx [p0 [c0 HE0]].
  destruct (reachable_ready cfg n names ops x Hx) as [L [WF [[r RK] Hx']]]. fold s in L, WF, RK, Hx'. fold g in WF, RK, Hx'.
  assert (HE : exists p c, Edge g p c) by (exists p0, c0; apply (DagAbs.dabs_Edge s p0 c0 L); exact HE0).
  destruct (list_edges_exact g r x WF RK DN WC Hx') as [LE ND].
  split; [intros pn cn; rewrite LE; apply dabs_edge_names; exact L|]. split; [exact ND|]. split.
  { intros x' H'. apply (list_start_independent g r x x' WF RK DN WC Hx'). unfold g. rewrite DagAbs.dabs_size. exact H'. }
  destruct (roundtrip_list g r x WF RK DN WC Hx' HE) as [b [ret [RT [SN [NE HH]]]]].
  destruct (roundtrip_list_reexport g r x WF RK DN WC Hx' HE) as [b' [ret' [RT' RL]]].
  rewrite RT in RT'. inversion RT'; subst b' ret'.
  exists b, ret. split; [exact RT|]. split; [apply dabs_same_names; exact SN|]. split; [exact NE|].
  split; [intros pn cn; rewrite HH; apply dabs_edge_names; exact L|exact RL].
Qed.

Theorem reachable_dict_roundtrip cfg n names ops x md :
  let s := Dag.drun cfg (Dag.dinit n names) ops in
  let g := DagAbs.dabs s in
  DistinctNames g -> WeaklyConnected g -> x < Dag.dsize s -> (exists p c, In p (Dag.parents s c)) ->
  existsb (fun kv => reserved (fst kv)) (export_attrs md []) = false ->
  exists d b ret, dag_to_dict g x md = Ret d /\ dict_to_dag d = Ret (b, Some ret)
       /\ heap_names s (b_names b) /\ NoDup (b_edges b)
       /\ (forall pn cn, HasEdge b pn cn <-> heap_edge s pn cn)
       /\ length (b_attrs b) = bsize b
       /\ (forall i, i < bsize b -> nth i (b_attrs b) [] = norm (export_attrs md []))
       /\ RebuiltLike g x b.
Proof.
  intros s g DN WC Hx [p0 [c0 HE0]] RES0.
  destruct (reachable_ready cfg n names ops x Hx) as [L [WF [[r RK] Hx']]]. fold s in L, WF, RK, Hx'. fold g in WF, RK, Hx'.
  assert (HE : exists p c, Edge g p c) by (exists p0, c0; apply (DagAbs.dabs_Edge s p0 c0 L); exact HE0).
  assert (NA : forall y, y < dsize g -> nattrs g y = []).
  { intros y Hy. apply dabs_nattrs. unfold g in Hy. rewrite DagAbs.dabs_size in Hy. exact Hy. }
  assert (RES : forall y, y < dsize g -> existsb (fun kv => reserved (fst kv)) (export_attrs md (nattrs g y)) = false).
  { intros y Hy. rewrite (NA y Hy). exact RES0. }
  destruct (roundtrip_dict_general g r x md WF RK DN WC Hx' HE RES) as [d [b [ret [ED [RT [GB [SN [NE [HH [AL AT]]]]]]]]]].
  exists d, b, ret. split; [exact ED|]. split; [exact RT|]. split; [apply dabs_same_names; exact SN|]. split; [exact NE|].
  split; [intros pn cn; rewrite HH; apply dabs_edge_names; exact L|]. split; [exact AL|]. split.
  - intros i Hi. destruct SN as [_ SN]. destruct (proj1 (SN (bname b i)) (nth_In _ _ Hi)) as [y [Hy Ny]].
    rewrite (AT i y Hi Hy (eq_sym Ny)), (NA y Hy). reflexivity.
  - apply (rebuilt_like g r x b WF RK DN WC Hx' GB SN HH).
Qed.

Theorem reachable_df_roundtrip cfg n names ops x md :
  let s := Dag.drun cfg (Dag.dinit n names) ops in
  let g := DagAbs.dabs s in
  DistinctNames g -> WeaklyConnected g -> x < Dag.dsize s -> (exists p c, In p (Dag.parents s c)) ->
  exists b ret, dataframe_to_dag (dag_to_dataframe g x md) = Ret (b, Some ret)
       /\ heap_names s (b_names b) /\ NoDup (b_edges b)
       /\ (forall pn cn, HasEdge b pn cn <-> heap_edge s pn cn)
       /\ length (b_attrs b) = bsize b
       /\ (forall i, i < bsize b -> nth i (b_attrs b) [] = norm (non_null (export_attrs md [])))
       /\ RebuiltLike g x b.
Proof.
  intros s g DN WC Hx [p0 [c0 HE0]].
  destruct (reachable_ready cfg n names ops x Hx) as [L [WF [[r RK] Hx']]]. fold s in L, WF, RK, Hx'. fold g in WF, RK, Hx'.
  assert (HE : exists p c, Edge g p c) by (exists p0, c0; apply (DagAbs.dabs_Edge s p0 c0 L); exact HE0).
  assert (NA : forall y, y < dsize g -> nattrs g y = []).
  { intros y Hy. apply dabs_nattrs. unfold g in Hy. rewrite DagAbs.dabs_size in Hy. exact Hy. }
  destruct (roundtrip_df_general g r x md WF RK DN WC Hx' HE) as [b [ret [RT [GB [SN [NE [HH [AL AT]]]]]]]].
  exists b, ret. split; [exact RT|]. split; [apply dabs_same_names; exact SN|]. split; [exact NE|].
  split; [intros pn cn; rewrite HH; apply dabs_edge_names; exact L|]. split; [exact AL|]. split.
  - intros i Hi. destruct SN as [_ SN]. destruct (proj1 (SN (bname b i)) (nth_In _ _ Hi)) as [y [Hy Ny]].
    rewrite (AT i y Hi Hy (eq_sym Ny)), (NA y Hy). reflexivity.
  - apply (rebuilt_like g r x b WF RK DN WC Hx' GB SN HH).
Qed.

(* ------------------------------------------------------------------------------------------- *)
(** * 9. a concrete instance of the hypotheses (used by the non-vacuity examples of Props/C17_more.v):
   a -> b, a -> c, b -> d, c -> d, a -> d with attributes `step` and `lvl` on some nodes *)
Definition k_step : str := [115; 116; 101; 112]%N.
Definition k_lvl : str := [108; 118; 108]%N.
Definition ex17 : dag :=
  [ DN [97]%N [(k_step, VInt 1); (k_lvl, VInt 7)] [] [1; 2; 3];  DN [98]%N [(k_step, VInt 2)] [0] [3];
    DN [99]%N [] [0] [3];  DN [100]%N [(k_step, VInt 3); (k_lvl, VInt 9)] [1; 2; 0] [] ].
Definition ex17_rank (x : id) : nat := match x with 0 => 0 | 1 => 1 | 2 => 1 | _ => 2 end.

Lemma ex17_wf : Wf ex17.
Proof. apply wfb_Wf. vm_compute. reflexivity. Qed.
Lemma ex17_ranked : Ranked ex17 ex17_rank.
Proof.
  split.
  - intros p c He. unfold Edge in He.
    destruct (Nat.lt_ge_cases p 4) as [Hp|Hp].
    + destruct p as [|[|[|[|p]]]]; [| | | |lia]; cbn in He; intuition (subst; cbn; lia).
    + destruct (out_of_range ex17 p Hp) as [_ E]. rewrite E in He. contradiction.
  - intros x. destruct x as [|[|[|x]]]; cbn; lia.
Qed.
Lemma ex17_distinct : DistinctNames ex17.
Proof. apply distinct_namesb_ok. vm_compute. reflexivity. Qed.
Lemma ex17_connected : WeaklyConnected ex17.
Proof.
  assert (E : forall y, y < 4 -> UReach ex17 0 y).
  { intros y Hy. destruct y as [|y]; [apply UReach0|].
    apply UReachS with (c := 0); [apply UReach0|]. left. unfold Edge. cbn.
    destruct y as [|[|[|y]]]; [tauto|tauto|tauto|lia]. }
  assert (T : forall a b c, UReach ex17 a b -> UReach ex17 b c -> UReach ex17 a c).
  { intros a b c H1 H2. induction H2 as [|b c' d H2 IH Hadj]; [exact H1|].
    eapply UReachS; [apply IH; exact H1|exact Hadj]. }
  assert (Sym : forall x y, UReach ex17 x y -> UReach ex17 y x).
  { intros x y H. induction H as [|a c b H IH Hadj]; [apply UReach0|].
    apply T with (b := c); [|exact IH].
    apply UReachS with (c := b); [apply UReach0|]. destruct Hadj; [right|left]; assumption. }
  intros x y Hx Hy. apply T with (b := 0); [apply Sym, E; exact Hx|apply E; exact Hy].
Qed.
Lemma ex17_edge : exists p c, Edge ex17 p c.
Proof. exists 0, 1. unfold Edge. cbn. tauto. Qed.

(* a graph all of whose nodes are (undirectedly) reachable from one node is weakly connected *)
Lemma connected_from g a : (forall y, y < dsize g -> UReach g a y) -> WeaklyConnected g.
Proof.
  intros E.
  assert (T : forall u v w, UReach g u v -> UReach g v w -> UReach g u w).
  { intros u v w H1 H2. induction H2 as [|v c' d H2 IH Hadj]; [exact H1|].
    eapply UReachS; [apply IH; exact H1|exact Hadj]. }
  assert (Sym : forall x y, UReach g x y -> UReach g y x).
  { intros x y H. induction H as [|u c v H IH Hadj]; [apply UReach0|].
    apply T with (v := c); [|exact IH].
    apply UReachS with (c := v); [apply UReach0|]. destruct Hadj; [right|left]; assumption. }
  intros x y Hx Hy. apply T with (v := a); [apply Sym, E; exact Hx|apply E; exact Hy].
Qed.

(* the operation history of Props/C10.v / C16_bridge.v: 0 -> 1 -> 2 -> 3 plus 0 -> 2, names a..d *)
Definition ex17_state : Dag.dag :=
  Dag.drun {| Dag.dassertions := true |} (Dag.dinit 4 (fun i => [N.of_nat (97 + i)]))
    [Dag.DRShift 0 1 Dag.DNoFault; Dag.SetKids 1 Dag.DTuple [Dag.DNode 2] Dag.DNoFault;
     Dag.DLShift 3 2 Dag.DNoFault; Dag.SetParents 2 Dag.DList [Dag.DNode 1; Dag.DNode 0] Dag.DNoFault].

Lemma ex17_state_graph : DagAbs.dabs ex17_state =
  [ DN [97]%N [] [] [1; 2];  DN [98]%N [] [0] [2];  DN [99]%N [] [1; 0] [3];  DN [100]%N [] [2] [] ].
Proof. vm_compute. reflexivity. Qed.

Lemma ex17_state_hyps :
  DistinctNames (DagAbs.dabs ex17_state) /\ WeaklyConnected (DagAbs.dabs ex17_state)
  /\ 0 < Dag.dsize ex17_state /\ (exists p c, In p (Dag.parents ex17_state c)).
Proof.
  split; [apply distinct_namesb_ok; vm_compute; reflexivity|]. split.
  - rewrite ex17_state_graph. apply (connected_from _ 0). intros y Hy. cbn in Hy.
    destruct y as [|[|[|[|y]]]]; [apply UReach0| | | |lia].
    + apply UReachS with (c := 0); [apply UReach0|]. left. unfold Edge. cbn. tauto.
    + apply UReachS with (c := 0); [apply UReach0|]. left. unfold Edge. cbn. tauto.
    + apply UReachS with (c := 2); [|left; unfold Edge; cbn; tauto].
      apply UReachS with (c := 0); [apply UReach0|]. left. unfold Edge. cbn. tauto.
  - split; [vm_compute; lia|]. exists 0, 1. vm_compute. left. reflexivity.
Qed.
