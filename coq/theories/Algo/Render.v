(* Model of the vertical text rendering: bigtree/tree/export.py `yield_tree` (243-415) and the
   line assembly of `print_tree` (195-241, without attributes).

   Input convention of the whole `render` engine (C18): a `tree` of Base/Rose.v whose tag field is
   used only to mark the empty slots of a BinaryNode: `T (Some 0) _ _ _` is an empty slot (a `None`
   entry of `children`), every other tag is a node.  yield_tree / tree_to_dot / tree_to_mermaid skip
   falsy children (`preorder_iter`: `if tree and ...`, `right_sibling` returns `None`, `if child:`),
   so they work on `compact t`; hyield_tree replaces an empty slot by a leaf named two spaces.

   No proofs in this file. *)
From BT Require Import Base.Prelude Base.Str Base.Rose.

(* ---------------------------------------------------------------------------------------------- *)
(* empty slots *)

Definition is_hole (t : tree) : bool := match ttag t with Some 0 => true | _ => false end.

(* the tree of the nodes that exist: what every iterator that tests `if child` sees *)
Fixpoint compact (t : tree) : tree :=
  match t with
  | T g n a ks =>
      T g n a ((fix go (l : list tree) : list tree :=
                  match l with
                  | [] => []
                  | k :: r => if is_hole k then go r else compact k :: go r
                  end) ks)
  end.

(* ---------------------------------------------------------------------------------------------- *)
(* get_subtree(tree, node_name_or_path, max_depth)  — helper.py:58-107.  The start node is given
   as a position (child indices from the root; for a BinaryNode 0 = left, 1 = right; a position
   that runs into an empty slot is no node); the search by name/path itself belongs to C09/C14
   (calling the function on the inner node object itself has the same effect: the deep copy is
   detached from its parent, helper.py:95-103).  max_depth = 0 means "no limit";
   prune_tree(max_depth=m) deletes the children of every node of depth m (helper.py:226-233). *)

Fixpoint prune (m : nat) (t : tree) : tree :=
  match t with
  | T g n a ks =>
      match m with
      | 0 => T g n a []                  (* not reached from [prune_depth] *)
      | 1 => T g n a []
      | S m' => T g n a (map (prune m') ks)
      end
  end.

Definition prune_depth (max_depth : nat) (t : tree) : tree :=
  match max_depth with 0 => t | _ => prune max_depth t end.

Definition get_subtree (t : tree) (start : pos) (max_depth : nat) : option tree :=
  match subtree_at t start with
  | Some s => if is_hole s then None else Some (prune_depth max_depth s)
  | None => None
  end.

(* ---------------------------------------------------------------------------------------------- *)
(* styles: (stem, branch, stem_final) — constants.py PRINT_STYLES *)

Record vstyle := VS { vs_stem : str; vs_branch : str; vs_final : str }.

Definition vs_ansi   := VS [124;32;32;32]%N [124;45;45;32]%N [96;45;45;32]%N.
Definition vs_ascii  := VS [124;32;32;32]%N [124;45;45;32]%N [43;45;45;32]%N.
Definition vs_const  := VS [9474;32;32;32]%N [9500;9472;9472;32]%N [9492;9472;9472;32]%N.
Definition vs_const_bold := VS [9475;32;32;32]%N [9507;9473;9473;32]%N [9495;9473;9473;32]%N.
Definition vs_rounded := VS [9474;32;32;32]%N [9500;9472;9472;32]%N [9584;9472;9472;32]%N.
Definition vs_double := VS [9553;32;32;32]%N [9568;9552;9552;32]%N [9562;9552;9552;32]%N.

(* export.py:383-384: the three strings must have one length, else ValueError *)
Definition vstyle_ok (st : vstyle) : bool :=
  Nat.eqb (length (vs_stem st)) (length (vs_branch st))
  && Nat.eqb (length (vs_branch st)) (length (vs_final st)).

Definition vs_width (st : vstyle) : nat := length (vs_stem st).
Definition vs_gap (st : vstyle) : str := spaces (length (vs_stem st)).      (* export.py:386 *)

(* ---------------------------------------------------------------------------------------------- *)
(* what the loop reads from each node of `preorder_iter(tree)`: node_depth = depth - initial_depth
   (0 for the root), whether `right_sibling` is truthy, and the name *)

Record vnode := VN { vn_depth : nat; vn_sib : bool; vn_name : str }.

Fixpoint vnodes (d : nat) (sib : bool) (t : tree) : list vnode :=
  match t with
  | T _ n _ ks =>
      VN d sib n ::
      (fix go (l : list tree) : list vnode :=
         match l with
         | [] => []
         | k :: r => vnodes (S d) (match r with [] => false | _ => true end) k ++ go r
         end) ks
  end.

(* the Python set `unclosed_depth` *)
Definition uset := list nat.
Definition umem (k : nat) (u : uset) : bool := existsb (Nat.eqb k) u.
Definition uadd (k : nat) (u : uset) : uset := if umem k u then u else k :: u.
Definition uremove (k : nat) (u : uset) : uset := filter (fun x => negb (Nat.eqb k x)) u.

(* one (pre_str, fill_str, name) triple *)
Definition vline := (str * str * str)%type.

(* export.py:389-413: body of the loop for one node *)
Definition vstep (st : vstyle) (u : uset) (x : vnode) : uset * vline :=
  match vn_depth x with
  | 0 => (u, ([], [], vn_name x))                               (* _node.is_root *)
  | S _ =>
      let nd := vn_depth x in
      let u' := if vn_sib x then uadd nd u else uremove nd u in        (* 396-402 *)
      let fill := if vn_sib x then vs_branch st else vs_final st in
      let pre := concat (map (fun k => if umem k u' then vs_stem st else vs_gap st)
                             (seq 1 (nd - 1))) in                     (* 405-410 *)
      (u', (pre, fill, vn_name x))
  end.

Fixpoint vloop (st : vstyle) (u : uset) (l : list vnode) : list vline :=
  match l with
  | [] => []
  | x :: r => let (u', ln) := vstep st u x in ln :: vloop st u' r
  end.

(* yield_tree on a tree that has already been cut by get_subtree *)
Definition yield_lines (st : vstyle) (t : tree) : list vline := vloop st [] (vnodes 0 false t).

(* yield_tree(tree, node_name_or_path -> start, max_depth, style) *)
Definition yield_tree (st : vstyle) (t : tree) (start : pos) (max_depth : nat) : res (list vline) :=
  match get_subtree t start max_depth with
  | None => Raise ValueError
  | Some s => if vstyle_ok st then Ret (yield_lines st (compact s)) else Raise ValueError
  end.

(* print_tree without attributes: one printed line per triple (export.py:240-241) *)
Definition line_of (l : vline) : str := let '(p, f, n) := l in p ++ f ++ n.
Definition print_lines (st : vstyle) (t : tree) : list str := map line_of (yield_lines st t).

(* ---------------------------------------------------------------------------------------------- *)
(* input conventions for tree_to_dot's styling options (used by Algo/Dot.v and Spec/PC18.v).
   A node's custom style dictionaries (the dict-valued Node attributes named by `node_attr` /
   `edge_attr`, or returned by the callables) are stored in the tree's attribute list: key
   'n' ++ k with value VStr v for the node style entry k -> v, key 'e' ++ k for the edge style entry. *)

Definition sdict := list (str * str).

Fixpoint slookup (k : str) (d : sdict) : option str :=
  match d with [] => None | (k', v) :: r => if str_eqb k k' then Some v else slookup k r end.

Definition sty_of (tagc : N) (t : tree) : sdict :=
  flat_map (fun kv => match kv with
                      | (c :: k, VStr v) => if N.eqb c tagc then [(k, v)] else []
                      | _ => []
                      end) (tattrs t).
Definition node_sty := sty_of 110%N.     (* 'n' *)
Definition edge_sty := sty_of 101%N.     (* 'e' *)

Record dotopts := DO { do_node_colour : option str; do_node_shape : option str; do_edge_colour : option str;
                       do_node_attr : bool; do_edge_attr : bool }.

Definition s_style : str := [115; 116; 121; 108; 101]%N.
Definition s_filled : str := [102; 105; 108; 108; 101; 100]%N.
Definition s_fillcolor : str := [102; 105; 108; 108; 99; 111; 108; 111; 114]%N.
Definition s_shape : str := [115; 104; 97; 112; 101]%N.
Definition s_color : str := [99; 111; 108; 111; 114]%N.
Definition s_label : str := [108; 97; 98; 101; 108]%N.

(* an empty string counts as "not given" (the code tests truthiness) *)
Definition given (o : option str) : option str :=
  match o with Some [] => None | _ => o end.

(* ---------------------------------------------------------------------------------------------- *)
(* print_tree's attribute options (export.py:195-241): all_attrs, attr_list, attr_omit_null,
   attr_bracket.  A node's scalar attributes (the keyword arguments it was created with) are stored
   in the tree's attribute list under key 'a' ++ k, in ascending key order. *)

Definition scalar_attrs (t : tree) : list (str * val) :=
  flat_map (fun kv => match kv with
                      | (97%N :: k, v) => [(k, v)]
                      | _ => []
                      end) (tattrs t).

Fixpoint vlookup (k : str) (d : list (str * val)) : option val :=
  match d with [] => None | (k', v) :: r => if str_eqb k k' then Some v else vlookup k r end.

(* f"{v}" *)
Definition str_of_Z (z : Z) : str :=
  match z with
  | Z0 => [48%N]
  | Zpos p => str_of_nat (Pos.to_nat p)
  | Zneg p => 45%N :: str_of_nat (Pos.to_nat p)
  end.
Definition fmt_val (v : val) : str :=
  match v with
  | VNone => [78; 111; 110; 101]%N
  | VInt z => str_of_Z z
  | VStr s => s
  | VBool true => [84; 114; 117; 101]%N
  | VBool false => [70; 97; 108; 115; 101]%N
  | VFloat _ _ => []          (* not generated *)
  end.

Record printopts := PO { po_all : bool; po_list : list str; po_omit : bool; po_bracket : list str }.

(* sorted(self.__dict__.items()) without `name` and without the private fields: the keyword
   attributes, plus `val` for a BinaryNode (int(name) when the name is a decimal literal, else the
   name; both print like the name for canonical literals, the only ones generated) *)
Fixpoint insert_sorted (kv : str * val) (l : list (str * val)) : list (str * val) :=
  match l with
  | [] => [kv]
  | x :: r => if str_ltb (fst kv) (fst x) then kv :: l else x :: insert_sorted kv r
  end.
Definition s_val : str := [118; 97; 108]%N.
Definition s_name : str := [110; 97; 109; 101]%N.
Definition describe (binary : bool) (t : tree) : list (str * val) :=
  let base := fold_right insert_sorted [] (scalar_attrs t) in
  if binary then insert_sorted (s_val, VStr (tname t)) base else base.

Definition attr_item (kv : str * val) : str := fst kv ++ [61%N] ++ fmt_val (snd kv).

(* lines 209-238: the text appended to the node name *)
Definition attr_suffix (binary : bool) (o : printopts) (t : tree) : res str :=
  if po_all o || (match po_list o with [] => false | _ => true end) then
    match po_bracket o with
    | [bo; bc] =>
        (* hasattr / get_attr see every instance attribute, `name` included *)
        let own := (s_name, VStr (tname t)) ::
                   (if binary then (s_val, VStr (tname t)) :: scalar_attrs t else scalar_attrs t) in
        let items :=
          if po_all o then map attr_item (describe binary t)
          else flat_map (fun a => match vlookup a own with
                                  | Some VNone => if po_omit o then [] else [attr_item (a, VNone)]
                                  | Some v => [attr_item (a, v)]
                                  | None => []
                                  end) (po_list o) in
        match items with
        | [] => Ret []
        | _ => Ret (32%N :: bo ++ join [44; 32]%N items ++ bc)
        end
    | _ => Raise ValueError
    end
  else Ret [].

Fixpoint res_all {A} (l : list (res A)) : res (list A) :=
  match l with
  | [] => Ret []
  | Raise e :: _ => Raise e
  | Ret x :: r => match res_all r with Ret r' => Ret (x :: r') | Raise e => Raise e end
  end.

Fixpoint zip_lines (a b : list str) : list str :=
  match a, b with x :: a', y :: b' => (x ++ y) :: zip_lines a' b' | _, _ => [] end.

(* print_tree with attribute options on an already selected tree: one line per node in pre-order *)
Definition print_lines_opt (st : vstyle) (binary : bool) (o : printopts) (t : tree) : res (list str) :=
  match res_all (map (attr_suffix binary o) (pre t)) with
  | Ret sfx => Ret (zip_lines (map line_of (yield_lines st t)) sfx)
  | Raise e => Raise e
  end.
