(* Executable model of the DAG exporters and constructors of bigtree:
     bigtree/dag/export.py:28-181     dag_to_list / dag_to_dict / dag_to_dataframe (on top of dag_iterator)
     bigtree/dag/construct.py:20-221  list_to_dag / dict_to_dag / dataframe_to_dag (name-keyed node table)
     bigtree/node/dagnode.py:164-238  the `parents` setter with its loop guard (used as `child.parents = [p]`)
   No proofs in this file. *)
From BT Require Import Base.Prelude Base.Str Base.Rose Algo.DagAlgo.

(* ------------------------------------------------------------------------------------------- *)
(* attribute selection of the exporters *)

Inductive amode :=
| AttrDict (m : list (str * str))     (* attr_dict = {attribute name: exported key}, in dict order *)
| AllAttrs.                           (* all_attrs = True *)

Fixpoint get_attr (a : attrs) (k : str) : val :=          (* node.get_attr(k): None when absent *)
  match a with
  | [] => VNone
  | (k', v) :: t => if str_eqb k' k then v else get_attr t k
  end.

(* describe(exclude_attributes=["name"], exclude_prefix="_"): the attributes sorted by name (the
   case lists them sorted) without those starting with "_" *)
Definition describe (a : attrs) : attrs :=
  filter (fun kv => negb (startswith (fst kv) [95%N]) && negb (str_eqb (fst kv) [110; 97; 109; 101]%N)) a.

Definition export_attrs (md : amode) (a : attrs) : attrs :=
  match md with
  | AttrDict m => map (fun kv => (snd kv, get_attr a (fst kv))) m
  | AllAttrs => describe a
  end.

Definition is_root (g : dag) (x : id) : bool := match parents g x with [] => true | _ => false end.

(* ------------------------------------------------------------------------------------------- *)
(* dag_to_list (export.py:28-52) *)
Definition dag_to_list (g : dag) (x : id) : list (str * str) :=
  map (fun e => (name g (fst e), name g (snd e))) (dag_iterator g x).

(* ------------------------------------------------------------------------------------------- *)
(* dag_to_dict (export.py:55-114).  A Python dict = association list in insertion order. *)
Record dentry := DE { de_name : str; de_parents : option (list str); de_attrs : attrs }.

Fixpoint dget (d : list dentry) (k : str) : option dentry :=
  match d with
  | [] => None
  | e :: t => if str_eqb (de_name e) k then Some e else dget t k
  end.
Fixpoint dset (d : list dentry) (e : dentry) : list dentry :=       (* d[k] = e *)
  match d with
  | [] => [e]
  | e' :: t => if str_eqb (de_name e') (de_name e) then e :: t else e' :: dset t e
  end.
(* bool(entry): a non-empty dict *)
Definition truthy (e : dentry) : bool :=
  match de_parents e, de_attrs e with None, [] => false | _, _ => true end.

Definition dict_step (g : dag) (md : amode) (acc : res (list dentry)) (e : edge) : res (list dentry) :=
  match acc with
  | Raise x => Raise x
  | Ret d =>
      let p := fst e in let c := snd e in
      let d1 := if is_root g p
                then dset d (DE (name g p) None (export_attrs md (nattrs g p)))
                else d in
      match dget d1 (name g c) with
      | Some en =>
          if truthy en then
            match de_parents en with
            | Some ps => Ret (dset d1 (DE (de_name en) (Some (ps ++ [name g p])) (de_attrs en)))
            | None => Raise KeyError          (* data_dict[child][parent_key] on an entry without it *)
            end
          else Ret (dset d1 (DE (name g c) (Some [name g p]) (export_attrs md (nattrs g c))))
      | None => Ret (dset d1 (DE (name g c) (Some [name g p]) (export_attrs md (nattrs g c))))
      end
  end.
Definition dag_to_dict (g : dag) (x : id) (md : amode) : res (list dentry) :=
  fold_left (dict_step g md) (dag_iterator g x) (Ret []).

(* ------------------------------------------------------------------------------------------- *)
(* dag_to_dataframe (export.py:118-181): one row per yielded pair, preceded by a row for the parent
   when it is a root; then DataFrame(...).drop_duplicates().  A row = (name, parent, attributes);
   cells that are None/NaN are not listed (the harness drops them when it reads the frame). *)
Record dfrow := DR { dr_name : str; dr_parent : option str; dr_attrs : attrs }.

Definition non_null (a : attrs) : attrs :=
  filter (fun kv => match snd kv with VNone => false | _ => true end) a.

Definition row_eqb (a b : dfrow) : bool :=
  str_eqb (dr_name a) (dr_name b) && opt_eqb str_eqb (dr_parent a) (dr_parent b)
  && attrs_eqb (dr_attrs a) (dr_attrs b).
Fixpoint drop_duplicates_acc (seen : list dfrow) (l : list dfrow) : list dfrow :=
  match l with
  | [] => []
  | r :: t => if existsb (row_eqb r) seen then drop_duplicates_acc seen t
              else r :: drop_duplicates_acc (r :: seen) t
  end.
Definition drop_duplicates (l : list dfrow) : list dfrow := drop_duplicates_acc [] l.

Definition df_rows (g : dag) (md : amode) (e : edge) : list dfrow :=
  let p := fst e in let c := snd e in
  (if is_root g p then [DR (name g p) None (non_null (export_attrs md (nattrs g p)))] else [])
  ++ [DR (name g c) (Some (name g p)) (non_null (export_attrs md (nattrs g c)))].
Definition dag_to_dataframe (g : dag) (x : id) (md : amode) : list dfrow :=
  drop_duplicates (flat_map (df_rows g md) (dag_iterator g x)).

(* ------------------------------------------------------------------------------------------- *)
(* Constructors.  The node table `node_dict` maps names to node objects; the objects created so far
   are numbered in creation order.  All links are made by `child.parents = [parent]`, which appends
   to both private lists, so the link lists are determined by the edge insertion sequence. *)
Record bld := BLD { b_names : list str; b_attrs : list attrs; b_edges : list edge }.
Definition b_empty : bld := BLD [] [] [].

Fixpoint sindex (s : str) (l : list str) : option nat :=
  match l with
  | [] => None
  | x :: t => if str_eqb x s then Some 0 else option_map S (sindex s t)
  end.
Definition b_lookup (b : bld) (nm : str) : option id := sindex nm (b_names b).
Definition b_new (b : bld) (nm : str) (a : attrs) : bld * id :=
  (BLD (b_names b ++ [nm]) (b_attrs b ++ [a]) (b_edges b), length (b_names b)).
(* node_dict.get(nm) or a new node *)
Definition b_get_or_new (b : bld) (nm : str) (a : attrs) : bld * id :=
  match b_lookup b nm with Some i => (b, i) | None => b_new b nm a end.

Definition b_parents (b : bld) (x : id) : list id :=
  map fst (filter (fun e => Nat.eqb (snd e) x) (b_edges b)).
Definition b_children (b : bld) (x : id) : list id :=
  map snd (filter (fun e => Nat.eqb (fst e) x) (b_edges b)).
Definition b_dag (b : bld) : dag :=
  map (fun i => DN (nth i (b_names b) []) (nth i (b_attrs b) []) (b_parents b i) (b_children b i))
      (seq 0 (length (b_names b))).

(* __dict__.update(attrs) *)
Fixpoint attr_set (a : attrs) (k : str) (v : val) : attrs :=
  match a with
  | [] => [(k, v)]
  | (k', v') :: t => if str_eqb k' k then (k, v) :: t else (k', v') :: attr_set t k v
  end.
Definition attrs_update (a new : attrs) : attrs := fold_left (fun acc kv => attr_set acc (fst kv) (snd kv)) new a.
Fixpoint list_upd {A} (l : list A) (i : nat) (f : A -> A) : list A :=
  match l, i with
  | [], _ => []
  | x :: t, 0 => f x :: t
  | x :: t, S j => x :: list_upd t j f
  end.
Definition b_set_attrs (b : bld) (x : id) (a : attrs) : bld :=
  BLD (b_names b) (list_upd (b_attrs b) x (fun old => attrs_update old a)) (b_edges b).

(* child.parents = [parent]  (dagnode.py:164-238 with ASSERTIONS):
     parent is child                      -> LoopError
     child among parent.ancestors         -> LoopError
     parent already in child.__parents    -> nothing
     otherwise append to both lists *)
Definition set_parent1 (b : bld) (c p : id) : res bld :=
  if Nat.eqb p c then Raise LoopError
  else if memb c (ancestors (b_dag b) p) then Raise LoopError
  else if memb p (b_parents b c) then Ret b
  else Ret (BLD (b_names b) (b_attrs b) (b_edges b ++ [(p, c)])).

(* what a constructor returns: the table and the returned node (None: the placeholder DAGNode()) *)
Definition built := (bld * option id)%type.

(* list_to_dag (construct.py:20-60) *)
Definition list_step (acc : res built) (r : str * str) : res built :=
  match acc with
  | Raise x => Raise x
  | Ret (b, _) =>
      let '(b1, p) := b_get_or_new b (fst r) [] in
      let '(b2, c) := b_get_or_new b1 (snd r) [] in
      match set_parent1 b2 c p with
      | Raise x => Raise x
      | Ret b3 => Ret (b3, Some p)
      end
  end.
Definition list_to_dag (rel : list (str * str)) : res built :=
  match rel with
  | [] => Raise ValueError
  | _ => fold_left list_step rel (Ret (b_empty, None))
  end.

(* dict_to_dag (construct.py:63-125) *)
Definition reserved (k : str) : bool :=
  str_eqb k [112; 97; 114; 101; 110; 116]%N                      (* "parent"   *)
  || str_eqb k [112; 97; 114; 101; 110; 116; 115]%N              (* "parents"  *)
  || str_eqb k [99; 104; 105; 108; 100; 114; 101; 110]%N.        (* "children" *)

Definition dict_parent_step (c : id) (acc : res built) (pn : str) : res built :=
  match acc with
  | Raise x => Raise x
  | Ret (b, _) =>
      let '(b1, p) := b_get_or_new b pn [] in
      match set_parent1 b1 c p with
      | Raise x => Raise x
      | Ret b2 => Ret (b2, Some p)
      end
  end.
Definition dict_entry_step (acc : res built) (e : dentry) : res built :=
  match acc with
  | Raise x => Raise x
  | Ret (b, last) =>
      if existsb (fun kv => reserved (fst kv)) (de_attrs e) then Raise ValueError else
      let '(b1, c) := match b_lookup b (de_name e) with
                      | Some i => (b_set_attrs b i (de_attrs e), i)
                      | None => b_new b (de_name e) (attrs_update [] (de_attrs e))
                      end in
      fold_left (dict_parent_step c) (match de_parents e with Some ps => ps | None => [] end)
                (Ret (b1, last))
  end.
Definition dict_to_dag (d : list dentry) : res built :=
  match d with
  | [] => Raise ValueError
  | _ => match fold_left dict_entry_step d (Ret (b_empty, None)) with
         | Raise x => Raise x
         | Ret (b, None) => Raise ValueError          (* no parent key anywhere *)
         | Ret (b, Some p) => Ret (b, Some p)
         end
  end.

(* dataframe_to_dag (construct.py:129-221) on the rows of a frame with columns
   (child, parent, attribute columns...) *)
Definition df_row_step (acc : res built) (r : dfrow) : res built :=
  match acc with
  | Raise x => Raise x
  | Ret (b, last) =>
      let a := non_null (dr_attrs r) in
      let '(b1, c) := b_get_or_new b (dr_name r) (attrs_update [] a) in
      let b2 := b_set_attrs b1 c a in
      match dr_parent r with
      | None => Ret (b2, last)
      | Some pn =>
          let '(b3, p) := b_get_or_new b2 pn [] in
          match set_parent1 b3 c p with
          | Raise x => Raise x
          | Ret b4 => Ret (b4, Some p)
          end
      end
  end.
(* assert_dataframe_no_duplicate_attribute: one attribute tuple per child name *)
Definition df_consistent (rows : list dfrow) : bool :=
  forallb (fun r => forallb (fun r' => negb (str_eqb (dr_name r) (dr_name r'))
                                       || attrs_eqb (non_null (dr_attrs r)) (non_null (dr_attrs r'))) rows) rows.
Definition dataframe_to_dag (rows : list dfrow) : res built :=
  match rows with
  | [] => Raise ValueError
  | _ => if negb (df_consistent rows) then Raise ValueError
         else fold_left df_row_step rows (Ret (b_empty, None))
  end.
