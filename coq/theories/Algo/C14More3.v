(* C14 — the print_tree observation at the level of the printed TEXT; the newline boundary.

   Round 2 (Algo/C14More2.v) made the print_tree(node_name_or_path, max_depth) observation a theorem about
   the LIST of lines print_tree emits (`print_tree_at`, one line per node).  What the harness observes is
   one more step away: print_tree calls print() once per line (export.py:240), the harness captures
   stdout as ONE string, splits it at "\n" and drops a final empty piece (helper.py `_printed`:
   `lines = buf.getvalue().split("\n"); if lines and lines[-1] == "": lines.pop()`).  That step is the
   reason for the blind spot "names containing a newline on the print path" (the harness does not send
   such trees through print_tree).

   Here the step is modelled —
       text_of ls        = every line followed by "\n"                (what print() writes)
       split_nl s        = Python's s.split("\n")
       harness_lines s   = split_nl s without a final empty piece     (helper.py `_printed`)
   — and the boundary is exact:

       harness_lines (text_of ls) = ls   <->   no line contains a newline            (text_read_back_iff)

   and a printed line contains a newline iff a printed node's name does (the style strings of the six
   built-in styles do not).  Hence the total print outcome of round 2 holds of the TEXT for every tree
   whose names are newline-free (`print_text_total`), for Node and BinaryNode trees, any start node, any
   path, any depth limit, separators of any positive length; and for a tree with a newline in a shown
   name the harness reads strictly more rows than nodes were printed (`text_rows_too_many`). *)
From BT Require Import Algo.Render Spec.PC18 Algo.RenderProofs.
From BT Require Import Base.Prelude Base.Str Base.Rose Base.StrSep Algo.Helper Spec.PC14 Algo.HelperProofs
                       Algo.C14More Algo.C14More2.

(* ---- the text step ---- *)

Definition NL : N := 10%N.

Definition text_of (ls : list str) : str := flat_map (fun l => l ++ [NL]) ls.

Fixpoint split_nl (s : str) : list str :=
  match s with
  | [] => [[]]
  | c :: r => if N.eqb c NL then [] :: split_nl r
              else match split_nl r with
                   | h :: tl => (c :: h) :: tl
                   | [] => [[c]]
                   end
  end.

Definition pop_empty (l : list str) : list str :=
  match rev l with
  | [] :: r => rev r
  | _ => l
  end.

Definition harness_lines (s : str) : list str := pop_empty (split_nl s).

Definition nlf (s : str) : bool := forallb (fun c => negb (N.eqb c NL)) s.

Fixpoint count_nl (s : str) : nat :=
  match s with
  | [] => 0
  | c :: r => (if N.eqb c NL then 1 else 0) + count_nl r
  end.

Lemma nlf_app a b : nlf (a ++ b) = nlf a && nlf b.
Proof. apply forallb_app. Qed.

Lemma nlf_count s : nlf s = true <-> count_nl s = 0.
Proof.
  induction s as [|c r IH]; [split; reflexivity|].
  cbn [nlf forallb count_nl]. fold (nlf r). destruct (N.eqb c NL); cbn [negb andb Nat.add].
  - split; intros H; discriminate H.
  - exact IH.
Qed.

Lemma split_line l rest : nlf l = true -> split_nl (l ++ NL :: rest) = l :: split_nl rest.
Proof.
  induction l as [|c l IH]; intros H.
  - reflexivity.
  - cbn [nlf forallb] in H. apply andb_true_iff in H as [Hc Hl]. apply negb_true_iff in Hc.
    cbn [app split_nl]. rewrite Hc, (IH Hl). reflexivity.
Qed.

Lemma split_text ls : (forall l, In l ls -> nlf l = true) -> split_nl (text_of ls) = ls ++ [[]].
Proof.
  induction ls as [|l ls IH]; intros H; [reflexivity|].
  cbn [text_of flat_map]. rewrite <- app_assoc. cbn [app].
  rewrite (split_line l _ (H l (or_introl eq_refl))). fold (text_of ls).
  rewrite IH; [reflexivity|]. intros x Hx. apply H. right. exact Hx.
Qed.

Lemma pop_empty_snoc ls : pop_empty (ls ++ [[]]) = ls.
Proof. unfold pop_empty. rewrite rev_app_distr. cbn [rev app]. apply rev_involutive. Qed.

(* the captured text, split as the harness splits it, is the list of printed lines *)
Lemma harness_lines_text ls : (forall l, In l ls -> nlf l = true) -> harness_lines (text_of ls) = ls.
Proof. intros H. unfold harness_lines. rewrite (split_text ls H). apply pop_empty_snoc. Qed.

(* ---- the converse: a newline in a line gives more pieces than lines ---- *)

Lemma split_nl_length s : length (split_nl s) = S (count_nl s).
Proof.
  induction s as [|c r IH]; [reflexivity|].
  cbn [split_nl count_nl]. destruct (N.eqb c NL).
  - cbn [length Nat.add]. rewrite IH. reflexivity.
  - cbn [Nat.add]. destruct (split_nl r) as [|h tl]; [discriminate IH|exact IH].
Qed.

Lemma count_nl_app a b : count_nl (a ++ b) = count_nl a + count_nl b.
Proof. induction a as [|c a IH]; [reflexivity|]. cbn [app count_nl]. rewrite IH. lia. Qed.

Definition total_nl (ls : list str) : nat := fold_right (fun l n => count_nl l + n) 0 ls.

Lemma count_text ls : count_nl (text_of ls) = length ls + total_nl ls.
Proof.
  induction ls as [|l ls IH]; [reflexivity|].
  cbn [text_of flat_map total_nl fold_right length]. fold (text_of ls). fold (total_nl ls).
  rewrite !count_nl_app, IH. cbn [count_nl]. rewrite N.eqb_refl. lia.
Qed.

Lemma pop_empty_length l : length l <= S (length (pop_empty l)).
Proof.
  unfold pop_empty. destruct (rev l) as [|[|c h] r] eqn:E; try lia.
  rewrite rev_length. rewrite <- (rev_length l), E. cbn [length]. lia.
Qed.

Lemma total_nl_pos ls l : In l ls -> nlf l = false -> 0 < total_nl ls.
Proof.
  induction ls as [|x ls IH]; intros Hin Hl; [destruct Hin|].
  cbn [total_nl fold_right]. destruct Hin as [->|Hin].
  - destruct (count_nl l) eqn:E; [|lia]. apply nlf_count in E. rewrite E in Hl. discriminate Hl.
  - fold (total_nl ls). specialize (IH Hin Hl). lia.
Qed.

(* a line with a newline: the harness sees strictly more lines than were printed *)
Lemma harness_lines_too_many ls l :
  In l ls -> nlf l = false -> length ls < length (harness_lines (text_of ls)).
Proof.
  intros Hin Hl. unfold harness_lines.
  pose proof (pop_empty_length (split_nl (text_of ls))) as H.
  rewrite split_nl_length, count_text in H. pose proof (total_nl_pos ls l Hin Hl). lia.
Qed.

Theorem text_read_back_iff ls :
  harness_lines (text_of ls) = ls <-> (forall l, In l ls -> nlf l = true).
Proof.
  split; [|apply harness_lines_text].
  intros E l Hin. destruct (nlf l) eqn:Hl; [reflexivity|].
  pose proof (harness_lines_too_many ls l Hin Hl) as H. rewrite E in H. lia.
Qed.

(* ---- which printed lines contain a newline ---- *)

Definition vstyle_nlf (vst : vstyle) : bool := nlf (vs_stem vst) && nlf (vs_branch vst) && nlf (vs_final vst).

Lemma nlf_spaces n : nlf (spaces n) = true.
Proof. induction n as [|n IH]; [reflexivity|]. cbn. exact IH. Qed.

Lemma nlf_cells vst anc : nlf (vs_stem vst) = true -> nlf (concat (map (vcell vst) anc)) = true.
Proof.
  intros H. induction anc as [|b anc IH]; [reflexivity|].
  cbn [map concat]. rewrite nlf_app, IH, andb_true_r. destruct b; cbn [vcell]; [exact H|apply nlf_spaces].
Qed.

(* a line = (newline-free prefix) ++ name *)
Lemma line_nlf vst r : vstyle_nlf vst = true -> nlf (line_of (vline_of vst r)) = nlf (vr_name r).
Proof.
  intros H. unfold vstyle_nlf in H. apply andb_true_iff in H as [H Hf]. apply andb_true_iff in H as [Hs Hb].
  unfold vline_of, line_of. rewrite !nlf_app, (nlf_cells vst _ Hs).
  destruct (vr_sib r); [rewrite Hb|rewrite Hf]; reflexivity.
Qed.

Lemma lines_names vst c :
  vstyle_nlf vst = true -> map nlf (print_lines vst c) = map (fun x => nlf (snd x)) (plist 0 c).
Proof.
  intros H. unfold print_lines. rewrite yield_lines_spec. destruct c as [g n a ks].
  rewrite plist_eq, vrows_root_eq. cbn [map tkids tname snd line_of app]. f_equal.
  rewrite <- (vrows_kids_plist ks 0 []). rewrite !map_map. apply map_ext. intros r.
  cbn [snd]. apply line_nlf. exact H.
Qed.

Lemma map_forall {A} (g : A -> bool) : forall (l : list A),
  (forall x, In x l -> g x = true) -> forall (l' : list str) (h : str -> bool),
  map h l' = map g l -> forall y, In y l' -> h y = true.
Proof.
  intros l Hl l' h E y Hy. apply (in_map h) in Hy. rewrite E in Hy.
  apply in_map_iff in Hy as [x [<- Hx]]. apply Hl. exact Hx.
Qed.

(* the names of the printed tree (pre-order) decide *)
Definition shown_names_nlf (c : tree) : Prop := forall x, In x (plist 0 c) -> nlf (snd x) = true.

Lemma lines_nl_free vst c :
  vstyle_nlf vst = true -> shown_names_nlf c -> forall l, In l (print_lines vst c) -> nlf l = true.
Proof.
  intros H Hc. apply (map_forall (fun x => nlf (snd x)) (plist 0 c) Hc). apply lines_names. exact H.
Qed.

(* any tree: its text, split by the harness and parsed, = its pre-order (depth, name) rows *)
Theorem text_read_back_obs vst c :
  vstyle_ok vst = true -> vstyle_distinct vst = true -> vstyle_nlf vst = true -> shown_names_nlf c ->
  read_printed vst (harness_lines (text_of (print_lines vst c))) = map strip_lbl (obs_tree c).
Proof.
  intros Hok Hd Hn Hc. rewrite (harness_lines_text _ (lines_nl_free vst c Hn Hc)).
  apply read_printed_obs; assumption.
Qed.

(* a shown name with a newline: more rows are read than nodes were printed *)
Theorem text_rows_too_many vst c x :
  vstyle_nlf vst = true -> In x (plist 0 c) -> nlf (snd x) = false ->
  length (plist 0 c) < length (read_printed vst (harness_lines (text_of (print_lines vst c)))).
Proof.
  intros Hn Hx Hf.
  assert (L : length (print_lines vst c) = length (plist 0 c)).
  { rewrite <- (map_length nlf), (lines_names vst c Hn), map_length. reflexivity. }
  assert (Hl : exists l, In l (print_lines vst c) /\ nlf l = false).
  { pose proof (in_map (fun x => nlf (snd x)) _ _ Hx) as Hm. rewrite <- (lines_names vst c Hn) in Hm.
    apply in_map_iff in Hm as [l [E Hl]]. exists l. split; [exact Hl|]. rewrite E. exact Hf. }
  destruct Hl as [l [Hl Hlf]].
  pose proof (harness_lines_too_many _ l Hl Hlf) as H. rewrite L in H.
  destruct (harness_lines (text_of (print_lines vst c))) as [|root rest]; [cbn in H; lia|].
  cbn [read_printed length] in *. rewrite map_length. exact H.
Qed.

(* ---- the names of the expected outcome come from the tree ---- *)

Definition names_nl_free (t : tree) : bool := forallb (fun ps => nlf (tname (snd ps))) (pre_pos t).

Definition lbl_name (l : lbl) : str := snd (fst l).

Lemma expected_gen_names bin t q P l :
  names_nl_free t = true -> In l (expected_gen bin t q P) -> nlf (lbl_name l) = true.
Proof.
  intros Ht Hl. unfold names_nl_free in Ht. rewrite forallb_forall in Ht.
  unfold expected_gen in Hl. destruct bin.
  - apply in_flat_map in Hl as [ps [Hps Hl]].
    destruct (prefixb q (fst ps) && (pos_eqb (fst ps) q || P (removelast (fst ps)))); [|destruct Hl].
    destruct Hl as [<-|[]].
    destruct (Helper.is_hole (snd ps) || negb (P (fst ps))); [reflexivity|]. apply (Ht ps Hps).
  - apply in_map_iff in Hl as [ps [<- Hps]]. apply filter_In in Hps as [Hps _]. apply (Ht ps Hps).
Qed.

Lemma shown_x_names bin L l :
  (forall x, In x L -> nlf (lbl_name x) = true) -> In l (shown_x bin L) -> nlf (lbl_name l) = true.
Proof.
  intros HL Hl. unfold shown_x in Hl. destruct bin.
  - unfold shown in Hl. apply in_map_iff in Hl as [[[d n] a] [<- Hx]]. apply filter_In in Hx as [Hx _].
    apply (HL _ Hx).
  - apply in_map_iff in Hl as [[[d n] a] [<- Hx]]. apply (HL _ Hx).
Qed.

Lemma expected_print_names bin tsep t st s d L l :
  names_nl_free t = true -> expected_print_outcome bin tsep t st s d = OTree L -> In l L ->
  nlf (lbl_name l) = true.
Proof.
  intros Ht E Hl. unfold expected_print_outcome in E.
  assert (G : forall q, OTree (shown_x bin (expected_gen bin t q
                 (fun p => within_depth d (S (length p) - length q)))) = OTree L -> nlf (lbl_name l) = true).
  { intros q Eq. inversion Eq as [EL]. rewrite <- EL in Hl.
    apply (shown_x_names bin _ l (fun x Hx => expected_gen_names bin t q _ x Ht Hx) Hl). }
  destruct (is_nil s); [apply (G st E)|].
  destruct (addressed_at bin tsep t st s) as [|q [|q' r]]; [discriminate E|apply (G q E)|discriminate E].
Qed.

(* ---- print_tree as the harness observes it: text on stdout ---- *)

Definition print_text_at (vst : vstyle) (bin : bool) (tsep : str) (t : tree) (st : pos) (s : str) (d : nat)
  : res str :=
  match print_tree_at vst bin tsep t st s d with
  | Ret ls => Ret (text_of ls)
  | Raise e => Raise e
  end.

Definition text_obs (vst : vstyle) (m : res str) : hobs :=
  match m with Ret s => OTree (read_printed vst (harness_lines s)) | Raise e => OErr (exn_code e) end.

Theorem print_text_total vst bin tsep t st s d :
  vstyle_ok vst = true -> vstyle_distinct vst = true -> vstyle_nlf vst = true ->
  print_ok bin tsep t st s -> names_nl_free t = true ->
  text_obs vst (print_text_at vst bin tsep t st s d) = expected_print_outcome bin tsep t st s d.
Proof.
  intros Hok Hd Hn Hp Ht.
  pose proof (print_tree_at_total vst bin tsep t st s d Hok Hd Hp) as Tot.
  unfold print_text_at. unfold print_tree_at in *.
  destruct (get_subtree_at bin tsep t st s d) as [r|e]; [|exact Tot].
  rewrite Hok in *. cbn [text_obs print_obs] in *.
  rewrite harness_lines_text; [exact Tot|].
  apply (lines_nl_free vst _ Hn). intros x Hx.
  rewrite (read_printed_plist vst _ Hok Hd) in Tot.
  apply (expected_print_names bin tsep t st s d _ (S (fst x), snd x, (@nil (str * val))) Ht (eq_sym Tot)).
  apply (in_map (fun x : nat * str => (S (fst x), snd x, (@nil (str * val))))) in Hx. exact Hx.
Qed.

(* the text observation satisfies the property predicate *)
Theorem print_text_satisfies_prop vst bin tsep t st s d :
  vstyle_ok vst = true -> vstyle_distinct vst = true -> vstyle_nlf vst = true ->
  print_ok bin tsep t st s -> names_nl_free t = true -> named_ok bin t ->
  prop_C14_print bin tsep t st (CSubtree s d) (Some (text_obs vst (print_text_at vst bin tsep t st s d))) = true.
Proof.
  intros Hok Hd Hn Hp Ht Hnm. rewrite (print_text_total vst bin tsep t st s d Hok Hd Hn Hp Ht).
  apply expected_print_satisfies_prop. exact Hnm.
Qed.

(* text and line list give the same observation *)
Theorem print_text_is_print_lines vst bin tsep t st s d :
  vstyle_ok vst = true -> vstyle_distinct vst = true -> vstyle_nlf vst = true ->
  print_ok bin tsep t st s -> names_nl_free t = true ->
  text_obs vst (print_text_at vst bin tsep t st s d) = print_obs vst (print_tree_at vst bin tsep t st s d).
Proof.
  intros Hok Hd Hn Hp Ht. rewrite (print_text_total vst bin tsep t st s d Hok Hd Hn Hp Ht).
  symmetry. apply print_tree_at_total; assumption.
Qed.

Lemma builtin_styles_nlf :
  forallb vstyle_nlf [vs_ansi; vs_ascii; vs_const; vs_const_bold; vs_rounded; vs_double] = true.
Proof. vm_compute. reflexivity. Qed.
