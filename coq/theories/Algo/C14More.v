(* C14 — the TOTAL outcome of prune_tree / get_subtree.

   The predicate prop_C14_at (Spec/PC14.v) has three "no claim" exits: an ambiguous path, nested targets,
   and — for a missing path — "any exception".  This file closes them for the model: under the same guards
   as the umbrella (`case_ok`), the outcome of every call is *equal* to one expected outcome
   `expected_outcome`, written like prop_C14_at from the spec's vocabulary only (addressed_at, keep /
   lowest targets, within_depth, expected_gen):

     * the paths are looked up in the order given; the first path that does not address exactly one node
       decides: no node -> NotFoundError (get_subtree: ValueError), several nodes -> SearchError
       (`lookup`);
     * otherwise the result is the start node's subtree restricted to `keep_general targets exact` and the
       depth limit — for ANY target set, nested or not, and ANY depth limit (the existing
       C14_prune_kept_nested is the instance root start / Node tree / no depth limit, stated on the model's
       own `locate`); for non-nested targets keep_general = keep (keep_general_non_nested);
     * Node and BinaryNode trees, root and inner start nodes, separators of any positive length. *)
From BT Require Import Base.Prelude Base.Str Base.Rose Base.StrSep Algo.Helper Spec.PC14 Algo.HelperProofs.

(* ---- looking the paths up in order: the first path that is not a singleton decides ---- *)

Fixpoint lookup (hits : list (list pos)) : res (list pos) :=
  match hits with
  | [] => Ret []
  | [] :: _ => Raise NotFoundError
  | [p] :: rest => match lookup rest with Raise e => Raise e | Ret ps => Ret (p :: ps) end
  | (_ :: _ :: _) :: _ => Raise SearchError
  end.

Lemma lookup_all_found hits : singletons hits = true -> lookup hits = Ret (concat hits).
Proof.
  induction hits as [|[|p [|p' l]] hits IH]; cbn [singletons forallb lookup concat andb]; intros H;
    try discriminate; [reflexivity|].
  fold (singletons hits) in H. rewrite (IH H). reflexivity.
Qed.

Lemma lookup_ret hits : forall N, lookup hits = Ret N -> singletons hits = true /\ N = concat hits.
Proof.
  induction hits as [|[|p [|p' l]] hits IH]; intros N H; cbn [lookup] in H; try discriminate.
  - inversion H. split; reflexivity.
  - destruct (lookup hits) as [ps|e] eqn:E; [|discriminate]. inversion H; subst.
    destruct (IH ps eq_refl) as [H1 H2]. split.
    + cbn [singletons forallb andb]. exact H1.
    + cbn [concat app]. rewrite H2. reflexivity.
Qed.

Lemma lookup_first_missing pre post :
  singletons pre = true -> lookup (pre ++ [] :: post) = Raise NotFoundError.
Proof.
  induction pre as [|[|p [|p' l]] pre IH]; cbn [singletons forallb andb app lookup]; intros H;
    try discriminate; [reflexivity|].
  fold (singletons pre) in H. rewrite (IH H). reflexivity.
Qed.

Lemma lookup_first_ambiguous pre q1 q2 l post :
  singletons pre = true -> lookup (pre ++ (q1 :: q2 :: l) :: post) = Raise SearchError.
Proof.
  induction pre as [|[|p [|p' l']] pre IH]; cbn [singletons forallb andb app lookup]; intros H;
    try discriminate; [reflexivity|].
  fold (singletons pre) in H. rewrite (IH H). reflexivity.
Qed.

(* an exception of `lookup` is one of the two, and it says which kind of path came first *)
Lemma lookup_raise hits e :
  lookup hits = Raise e ->
  exists pre h post, hits = pre ++ h :: post /\ singletons pre = true /\
    ((h = [] /\ e = NotFoundError) \/ (2 <= length h /\ e = SearchError)).
Proof.
  induction hits as [|[|p [|p' l]] hits IH]; cbn [lookup]; intros H; try discriminate.
  - inversion H; subst. exists [], [], hits. split; [reflexivity|]. split; [reflexivity|]. left. split; reflexivity.
  - destruct (lookup hits) as [ps|e'] eqn:E; [discriminate|]. inversion H; subst.
    destruct (IH eq_refl) as [pre [h [post [H1 [H2 H3]]]]]. exists ([p] :: pre), h, post.
    split; [rewrite H1; reflexivity|]. split; [exact H2|exact H3].
  - inversion H; subst. exists [], (p :: p' :: l), hits. split; [reflexivity|]. split; [reflexivity|].
    right. split; [cbn; lia|reflexivity].
Qed.

(* ---- the model's search = the spec's addressing, uniformly in the node class ---- *)

Definition hits_x (bin : bool) (tsep sep : str) (t : tree) (st : pos) (paths : list str) : list (list pos) :=
  map (fun s => addressed_at bin tsep t st (replace s sep tsep)) paths.

Lemma find_paths_at_addressed_x bin tsep t st s0 s :
  subtree_at t st = Some s0 -> strip_ok tsep s ->
  find_paths_pos_at bin tsep (copy_tree t) st s = addressed_at bin tsep t st s.
Proof.
  intros H Hs. destruct bin.
  - apply (find_paths_at_addressed_bin tsep t st s0 s H Hs).
  - apply (find_paths_at_addressed_g tsep t st s0 s H Hs).
Qed.

(* locate_at, whatever happens: found, missing, ambiguous — in the order of the paths *)
Lemma locate_at_total bin tsep sep t st s0 paths :
  subtree_at t st = Some s0 -> paths_ok tsep sep paths ->
  locate_at bin tsep sep (copy_tree t) st paths = lookup (hits_x bin tsep sep t st paths).
Proof.
  intros Hst. induction paths as [|s paths IH]; intros Hok; cbn [hits_x map locate_at lookup]; [reflexivity|].
  inversion Hok as [|? ? Hs Hrest]; subst.
  unfold find_path_at. rewrite (find_paths_at_addressed_x bin tsep t st s0 _ Hst Hs).
  fold (hits_x bin tsep sep t st paths).
  destruct (addressed_at bin tsep t st (replace s sep tsep)) as [|p [|p' l]]; [reflexivity| |reflexivity].
  rewrite (IH Hrest). reflexivity.
Qed.

Lemma hits_x_below bin tsep sep t st paths q : In q (concat (hits_x bin tsep sep t st paths)) -> prefix st q.
Proof.
  intros H. apply in_concat in H as [l [Hl Hq]]. unfold hits_x in Hl. apply in_map_iff in Hl as [s [<- _]].
  apply (addressed_at_below _ _ _ _ _ _ Hq).
Qed.

(* ---- the surgery below an inner start node, for any target set ---- *)

Lemma keep_general_start N exact st :
  N <> [] -> (forall q, In q N -> prefix st q) -> keep_general N exact st = true.
Proof.
  intros H1 H3. apply keep_general_spec. left. destruct N as [|q N]; [contradiction|]. exists q.
  split; [left; reflexivity|]. apply H3. left. reflexivity.
Qed.

Lemma survive_below_general N exact st p :
  N <> [] -> (forall q, In q N -> prefix st q) ->
  survive (fun r => negb (detached N exact (st ++ r))) p = keep_general N exact (st ++ p).
Proof.
  intros H1 H3. rewrite <- (survive_eq_keep_general N exact (st ++ p) H1), survive_app.
  rewrite (survive_eq_keep_general N exact st H1), (keep_general_start N exact st H1 H3). reflexivity.
Qed.

Lemma inner_prune_then_cut_obs_general N exact st t s0 d :
  subtree_at t st = Some s0 -> N <> [] -> (forall q, In q N -> prefix st q) ->
  obs_tree (depth_cut_x false d (prune_paths_at false N exact st (copy_tree s0))) =
  expected_gen false t st (fun p => (false || keep_general N exact p) && within_depth d (S (length p) - length st)).
Proof.
  intros H H1 H3. rewrite (sub_sel st t s0 _ H), depth_cut_x_false, depth_cut_obs.
  unfold prune_paths_at. rewrite filter_tree_obs, sel_copy, filter_sel.
  unfold sel. f_equal. apply filter_ext_in'. intros [p x] _. cbn [fst orb].
  rewrite rel_depth. f_equal. exact (survive_below_general N exact st p H1 H3).
Qed.

(* both node classes at once *)
Lemma prune_then_cut_obs_x bin N exact st t s0 d :
  (bin = true -> wf2 t = true) ->
  subtree_at t st = Some s0 -> N <> [] -> (forall q, In q N -> prefix st q) ->
  obs_tree (depth_cut_x bin d (prune_paths_at bin N exact st (copy_tree s0))) =
  expected_gen bin t st (fun p => (false || keep_general N exact p) && within_depth d (S (length p) - length st)).
Proof.
  intros Hw Hst H1 H3. destruct bin.
  - unfold prune_paths_at.
    apply (bin_cut_obs st t s0 d (fun p => false || keep_general N exact p) _
             (wf2_subtree st t s0 (Hw eq_refl) Hst) Hst).
    intros p. cbn [orb]. apply survive_below_general; assumption.
  - apply inner_prune_then_cut_obs_general; assumption.
Qed.

Lemma cut_only_obs_x bin st t s0 d :
  (bin = true -> wf2 t = true) -> subtree_at t st = Some s0 ->
  obs_tree (depth_cut_x bin d (copy_tree s0)) =
  expected_gen bin t st (fun p => true && within_depth d (S (length p) - length st)).
Proof.
  intros Hw Hst. destruct bin.
  - rewrite <- (filter_b_true_copy s0).
    apply (bin_cut_obs st t s0 d (fun _ => true) (fun _ => true) (wf2_subtree st t s0 (Hw eq_refl) Hst) Hst).
    intros p. unfold survive. apply forallb_forall. intros; reflexivity.
  - apply (inner_cut_only_obs st t s0 d Hst).
Qed.

(* ---- prune_tree: the total outcome ---- *)

Definition kept_x (given : bool) (targets : list pos) (exact : bool) (st : pos) (d : nat) (p : pos) : bool :=
  (negb given || keep_general targets exact p) && within_depth d (S (length p) - length st).

Theorem prune_tree_at_total bin tsep t st s0 pp exact sep d :
  (bin = true -> wf2 t = true) -> subtree_at t st = Some s0 -> tsep <> [] -> sep <> [] ->
  paths_ok tsep sep (norm_paths pp) ->
  if is_nil (norm_paths pp) && Nat.eqb d 0
  then prune_tree_at bin tsep t st pp exact sep d = Raise ValueError
  else match lookup (hits_x bin tsep sep t st (norm_paths pp)) with
       | Raise e => prune_tree_at bin tsep t st pp exact sep d = Raise e
       | Ret targets =>
           exists r, prune_tree_at bin tsep t st pp exact sep d = Ret r /\
                     obs_tree r = expected_gen bin t st (kept_x (negb (is_nil (norm_paths pp))) targets exact st d)
       end.
Proof.
  intros Hw Hst Ht Hsep Hok. unfold prune_tree_at.
  destruct (is_nil (norm_paths pp) && Nat.eqb d 0) eqn:E0; [reflexivity|].
  destruct tsep as [|c0 tsep0]; [contradiction|]. destruct sep as [|x sep]; [contradiction|]. cbn [is_nil orb].
  rewrite subtree_at_copy, Hst. cbn [option_map].
  rewrite (locate_at_total bin _ _ t st s0 _ Hst Hok).
  destruct (norm_paths pp) as [|s paths] eqn:Ep.
  - cbn [hits_x map lookup is_nil negb]. eexists. split; [reflexivity|].
    unfold kept_x. cbn [negb orb]. apply (cut_only_obs_x bin st t s0 d Hw Hst).
  - cbn [is_nil negb].
    destruct (lookup (hits_x bin (c0 :: tsep0) (x :: sep) t st (s :: paths))) as [N|e] eqn:El; [|reflexivity].
    eexists. split; [reflexivity|]. unfold kept_x.
    destruct (lookup_ret _ _ El) as [H1 H2].
    apply (prune_then_cut_obs_x bin N exact st t s0 d Hw Hst).
    + rewrite H2. apply singletons_nonempty; [exact H1|discriminate].
    + intros q Hq. rewrite H2 in Hq. apply (hits_x_below _ _ _ _ _ _ _ Hq).
Qed.

(* ---- get_subtree: the total outcome ---- *)

Lemma subtree_tail_x bin t q x d :
  (bin = true -> wf2 t = true) -> subtree_at t q = Some x ->
  obs_of (if Nat.eqb d 0 then Ret (copy_tree x) else Ret (depth_cut_x bin d (copy_tree (copy_tree x)))) =
  OTree (expected_gen bin t q (fun p => within_depth d (S (length p) - length q))).
Proof.
  intros Hw Hq. destruct bin.
  - apply (bin_tail_obs t q x d (wf2_subtree q t x (Hw eq_refl) Hq) Hq).
  - rewrite subtree_tail_x_obs, expected_gen_subtree, (expected_subtree_spec q t x d Hq). reflexivity.
Qed.

Definition expected_subtree_outcome (bin : bool) (tsep : str) (t : tree) (st : pos) (s : str) (d : nat) : hobs :=
  let sub q := OTree (expected_gen bin t q (fun p => within_depth d (S (length p) - length q))) in
  if is_nil s then sub st else
  match addressed_at bin tsep t st s with
  | [] => OErr (exn_code ValueError)
  | [q] => sub q
  | _ :: _ :: _ => OErr (exn_code SearchError)
  end.

Theorem get_subtree_at_total bin tsep t st s0 s d :
  (bin = true -> wf2 t = true) -> subtree_at t st = Some s0 -> tsep <> [] -> strip_ok tsep s ->
  obs_of (get_subtree_at bin tsep t st s d) = expected_subtree_outcome bin tsep t st s d.
Proof.
  intros Hw Hst Ht Hs. unfold expected_subtree_outcome, get_subtree_at.
  destruct tsep as [|c0 tsep0]; [contradiction|]. cbn [is_nil]. destruct (is_nil s) eqn:Es.
  - rewrite subtree_at_copy, Hst. cbn [option_map]. apply (subtree_tail_x bin t st s0 d Hw Hst).
  - unfold find_path_at. rewrite (find_paths_at_addressed_x bin _ t st s0 s Hst Hs).
    destruct (addressed_at bin (c0 :: tsep0) t st s) as [|q [|q' l]] eqn:Ea; [reflexivity| |reflexivity].
    destruct (addressed_at_valid bin (c0 :: tsep0) t st s q) as [x Hx]; [rewrite Ea; left; reflexivity|].
    rewrite subtree_at_copy, Hx. cbn [option_map]. apply (subtree_tail_x bin t q x d Hw Hx).
Qed.

(* the exception itself (not only its code) for the two error cases of get_subtree *)
Theorem get_subtree_at_errors bin tsep t st s0 s d :
  subtree_at t st = Some s0 -> tsep <> [] -> s <> [] -> strip_ok tsep s ->
  (addressed_at bin tsep t st s = [] -> get_subtree_at bin tsep t st s d = Raise ValueError) /\
  (2 <= length (addressed_at bin tsep t st s) -> get_subtree_at bin tsep t st s d = Raise SearchError).
Proof.
  intros Hst Ht Hne Hs. unfold get_subtree_at.
  destruct tsep as [|c0 tsep0]; [contradiction|]. destruct s as [|y s]; [contradiction|]. cbn [is_nil].
  unfold find_path_at. rewrite (find_paths_at_addressed_x bin _ t st s0 _ Hst Hs).
  destruct (addressed_at bin (c0 :: tsep0) t st (y :: s)) as [|q [|q' l]]; split; intros H;
    try reflexivity; try discriminate; cbn [length] in H; lia.
Qed.

(* ---- one expected outcome for every call, and the model's outcome is equal to it ---- *)

Definition expected_outcome (bin : bool) (tsep : str) (t : tree) (st : pos) (c : hcall) : hobs :=
  match c with
  | CPrune pp exact sep d =>
      let paths := norm_paths pp in
      if is_nil paths && Nat.eqb d 0 then OErr (exn_code ValueError) else
      match lookup (hits_x bin tsep sep t st paths) with
      | Raise e => OErr (exn_code e)
      | Ret targets => OTree (expected_gen bin t st (kept_x (negb (is_nil paths)) targets exact st d))
      end
  | CSubtree s d => expected_subtree_outcome bin tsep t st s d
  end.

Theorem total_C14 bin tsep t st call :
  case_ok bin tsep t st call ->
  obs_of (run_call_at bin tsep t st call) = expected_outcome bin tsep t st call.
Proof.
  intros [[s0 Hst] [Ht [Hc Hw]]]. destruct call as [pp exact sep d|s d]; cbn [run_call_at expected_outcome].
  - destruct Hc as [Hsep Hok].
    pose proof (prune_tree_at_total bin tsep t st s0 pp exact sep d Hw Hst Ht Hsep Hok) as H.
    destruct (is_nil (norm_paths pp) && Nat.eqb d 0); [rewrite H; reflexivity|].
    destruct (lookup (hits_x bin tsep sep t st (norm_paths pp))) as [N|e].
    + destruct H as [r [Hr Ho]]. rewrite Hr. cbn [obs_of]. rewrite Ho. reflexivity.
    + rewrite H. reflexivity.
  - apply (get_subtree_at_total bin tsep t st s0 s d Hw Hst Ht Hc).
Qed.

(* the total outcome refines the property predicate: wherever prop_C14_at makes a claim, it is this one *)
Theorem expected_outcome_satisfies_prop bin tsep t st call :
  case_ok bin tsep t st call ->
  prop_C14_at bin tsep t st call (expected_outcome bin tsep t st call) = true.
Proof.
  intros H. rewrite <- (total_C14 bin tsep t st call H). apply (proj1 (umbrella_C14 bin tsep t st call H)).
Qed.

(* ---- the clauses in explicit form ---- *)

(* the first path that addresses no node, after paths that address one node each: NotFoundError *)
Theorem prune_missing_is_NotFoundError bin tsep t st s0 pre s post exact sep d :
  subtree_at t st = Some s0 -> tsep <> [] -> sep <> [] -> paths_ok tsep sep (pre ++ s :: post) ->
  singletons (hits_x bin tsep sep t st pre) = true ->
  addressed_at bin tsep t st (replace s sep tsep) = [] ->
  prune_tree_at bin tsep t st (PList (pre ++ s :: post)) exact sep d = Raise NotFoundError.
Proof.
  intros Hst Ht Hsep Hok Hpre Ha. unfold prune_tree_at. cbn [norm_paths].
  assert (En : is_nil (pre ++ s :: post) = false) by (destruct pre; reflexivity).
  rewrite En. cbn [andb].
  destruct tsep as [|c0 tsep0]; [contradiction|]. destruct sep as [|x sep]; [contradiction|]. cbn [is_nil orb].
  rewrite subtree_at_copy, Hst. cbn [option_map].
  rewrite (locate_at_total bin _ _ t st s0 _ Hst Hok).
  unfold hits_x. rewrite map_app. cbn [map]. rewrite Ha.
  rewrite (lookup_first_missing _ _ Hpre). reflexivity.
Qed.

(* the first path that addresses several nodes: SearchError — whatever the later paths are *)
Theorem prune_ambiguous_is_SearchError bin tsep t st s0 pre s post exact sep d :
  subtree_at t st = Some s0 -> tsep <> [] -> sep <> [] -> paths_ok tsep sep (pre ++ s :: post) ->
  singletons (hits_x bin tsep sep t st pre) = true ->
  2 <= length (addressed_at bin tsep t st (replace s sep tsep)) ->
  prune_tree_at bin tsep t st (PList (pre ++ s :: post)) exact sep d = Raise SearchError.
Proof.
  intros Hst Ht Hsep Hok Hpre Ha. unfold prune_tree_at. cbn [norm_paths].
  assert (En : is_nil (pre ++ s :: post) = false) by (destruct pre; reflexivity).
  rewrite En. cbn [andb].
  destruct tsep as [|c0 tsep0]; [contradiction|]. destruct sep as [|x sep]; [contradiction|]. cbn [is_nil orb].
  rewrite subtree_at_copy, Hst. cbn [option_map].
  rewrite (locate_at_total bin _ _ t st s0 _ Hst Hok).
  unfold hits_x. rewrite map_app. cbn [map].
  destruct (addressed_at bin (c0 :: tsep0) t st (replace s (x :: sep) (c0 :: tsep0))) as [|q1 [|q2 l]];
    [cbn in Ha; lia|cbn in Ha; lia|].
  rewrite (lookup_first_ambiguous _ q1 q2 l _ Hpre). reflexivity.
Qed.

(* every path addresses exactly one node: the kept-node set for ANY target set (nested or not), ANY depth
   limit, Node and BinaryNode trees, root and inner start nodes *)
Theorem prune_kept_general_spec bin tsep sep t st s0 paths exact d :
  (bin = true -> wf2 t = true) -> subtree_at t st = Some s0 -> tsep <> [] -> sep <> [] -> paths <> [] ->
  paths_ok tsep sep paths -> singletons (hits_x bin tsep sep t st paths) = true ->
  exists r, prune_tree_at bin tsep t st (PList paths) exact sep d = Ret r /\
            obs_tree r = expected_gen bin t st
                           (fun p => keep_general (concat (hits_x bin tsep sep t st paths)) exact p
                                     && within_depth d (S (length p) - length st)).
Proof.
  intros Hw Hst Ht Hsep Hp Hok Hs.
  pose proof (prune_tree_at_total bin tsep t st s0 (PList paths) exact sep d Hw Hst Ht Hsep Hok) as H.
  cbn [norm_paths] in H. destruct paths as [|s paths]; [contradiction|]. cbn [is_nil andb negb] in H.
  rewrite (lookup_all_found _ Hs) in H. exact H.
Qed.

(* on the root of a Node tree, in the vocabulary of the root-level theorems (hits_g, pre_pos) *)
Theorem prune_kept_general_root tsep sep t paths exact d :
  tsep <> [] -> sep <> [] -> paths <> [] -> paths_ok tsep sep paths ->
  singletons (hits_g tsep sep t paths) = true ->
  exists r, prune_tree tsep t (PList paths) exact sep d = Ret r /\
            obs_tree r =
            map lbl_of (filter (fun ps => keep_general (concat (hits_g tsep sep t paths)) exact (fst ps)
                                          && within_depth d (S (length (fst ps)))) (pre_pos t)).
Proof.
  intros Ht Hs Hp Hok H1. unfold prune_tree. cbn [norm_paths].
  destruct paths as [|s paths]; [contradiction|]. destruct tsep as [|c0 tsep0]; [contradiction|].
  destruct sep as [|y sep]; [contradiction|].
  cbn [is_nil andb orb]. rewrite (locate_found_g _ _ t (s :: paths) Hok H1).
  eexists. split; [reflexivity|].
  rewrite depth_cut_obs, prune_paths_kept_general, sel_copy, filter_sel; [reflexivity|].
  apply singletons_nonempty; [exact H1|discriminate].
Qed.
