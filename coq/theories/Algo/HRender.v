(* Model of the horizontal text rendering: bigtree/tree/export.py `hyield_tree` (691-799):
   per-depth padding from the level groups, the recursive block layout `_hprint_branch` with its
   three child-count cases and `mid`, intermediate_node_name on/off, the HPRINT_STYLES table
   (border_style is not modelled).  Trees follow the convention of Algo/Render.v (tag `Some 0` =
   empty slot of a BinaryNode).  No proofs in this file. *)
From BT Require Import Base.Prelude Base.Str Base.Rose Algo.Render.

(* ---------------------------------------------------------------------------------------------- *)
(* str methods used here *)

(* s.center(width): CPython pads left with marg/2 + (marg & width & 1) blanks *)
Definition center (s : str) (w : nat) : str :=
  let marg := w - length s in
  let left := Nat.div2 marg + (if Nat.odd marg && Nat.odd w then 1 else 0) in
  spaces left ++ s ++ spaces (marg - left).

(* s.rstrip() without argument strips every code point c with chr(c).isspace() *)
Definition py_ws : str :=
  [9;10;11;12;13;28;29;30;31;32;133;160;5760;8192;8193;8194;8195;8196;8197;8198;8199;8200;8201;
   8202;8232;8233;8239;8287;12288]%N.
Definition rstrip_ws (s : str) : str := rstrip s py_ws.

(* ---------------------------------------------------------------------------------------------- *)
(* styles: (first_child, subsequent_child, split_branch, middle_child, last_child, stem, branch)
   — constants.py HPRINT_STYLES; every icon is one character *)

Record hstyle := HS { hs_first : N; hs_subseq : N; hs_split : N; hs_middle : N; hs_last : N;
                      hs_stem : N; hs_branch : N }.

Definition hs_ansi   := HS 47 43 43 43 92 124 45.
Definition hs_ascii  := HS 43 43 43 43 43 124 45.
Definition hs_const  := HS 9484 9500 9508 9532 9492 9474 9472.
Definition hs_const_bold := HS 9487 9507 9515 9547 9495 9475 9473.
Definition hs_rounded := HS 9581 9500 9508 9532 9584 9474 9472.
Definition hs_double := HS 9556 9568 9571 9580 9562 9553 9552.

(* a custom style given as a list of strings: 7 entries of length 1 each, else ValueError
   (export.py:656-690) *)
Definition hstyle_of_list (l : list str) : option hstyle :=
  match l with
  | [[a]; [b]; [c]; [d]; [e]; [f]; [g]] => Some (HS a b c d e f g)
  | _ => None
  end.

(* ---------------------------------------------------------------------------------------------- *)
(* padding_depths (export.py:692-699): with intermediate names the longest name of every level of
   the existing nodes (levelordergroup_iter skips empty slots); without, the defaultdict stays 0 *)

Definition max_list (l : list nat) : nat := fold_right Nat.max 0 l.

Definition level_width (t : tree) (k : nat) : nat :=
  max_list (map (fun x => length (tname x)) (level k t)).

Definition padding_depths (inter : bool) (t : tree) : list nat :=
  if inter then map (level_width (compact t)) (seq 0 (height (compact t))) else [].

(* padding_depths[_cur_depth], depths counted from 1 *)
Definition pad_at (ws : list nat) (d : nat) : nat := nth (d - 1) ws 0.

(* ---------------------------------------------------------------------------------------------- *)
(* _hprint_branch (export.py:701-796) *)

Definition sum_list (l : list nat) : nat := fold_right Nat.add 0 l.

(* itertools.accumulate *)
Fixpoint accumulate (acc : nat) (l : list nat) : list nat :=
  match l with [] => [] | x :: r => (acc + x) :: accumulate (acc + x) r end.

Fixpoint zip_with {A B C} (f : A -> B -> C) (a : list A) (b : list B) : list C :=
  match a, b with
  | x :: a', y :: b' => f x y :: zip_with f a' b'
  | _, _ => []
  end.

(* l[i] = x (an index out of range would be an IndexError; the list is returned unchanged) *)
Fixpoint set_nth {A} (i : nat) (x : A) (l : list A) : list A :=
  match l, i with
  | [], _ => []
  | _ :: r, 0 => x :: r
  | y :: r, S j => y :: set_nth j x r
  end.

Definition real (t : tree) : bool := negb (is_hole t).

(* what one call returns: the rows, the index of the branch row, and whether no `assert` failed *)
Definition hblock := (list str * nat * bool)%type.

(* lines 725-795 for a node that has children, given the results of the recursive calls *)
Definition hassemble (st : hstyle) (inter : bool) (centered : str) (sub : list hblock) : hblock :=
  let b := hs_branch st in
  let node_str := if inter then [b; 32%N] ++ centered ++ [32%N; b] else [b; b; b] in
  let padding := spaces (length node_str) in
  let sp := padding ++ [32%N] in
  let stem := padding ++ [hs_stem st] in
  let result := concat (map (fun x => fst (fst x)) sub) in
  let nrow := map (fun x => length (fst (fst x))) sub in
  let idx := map (fun x => snd (fst x)) sub in
  let ok := forallb (fun x => snd x) sub in
  let first := hd 0 idx in
  let last := sum_list nrow + List.last idx 0 - List.last nrow 0 in
  let end_ := sum_list nrow - 1 in
  let mid := (first + last) / 2 in
  match sub with
  | [_] =>
      let prefix := repeat sp first ++ [node_str ++ [b]] ++ repeat sp (end_ - last) in
      (zip_with (@app N) prefix result, mid, ok)
  | [_; _] =>
      let gap := Nat.eqb (last - first) 1 in
      let ok' := ok && (negb gap || Nat.eqb (length result) 2) in      (* assert len(result) == 2 *)
      let result' := if gap then [nth 0 result []; []; nth 1 result []] else result in
      let last' := if gap then first + 2 else last in
      let end' := if gap then first + 2 else end_ in
      let mid' := if gap then (last' - first) / 2 else mid in
      let prefix :=
        repeat sp first ++ [padding ++ [hs_first st]] ++ repeat stem (mid' - first - 1)
        ++ [node_str ++ [hs_split st]] ++ repeat stem (last' - mid' - 1)
        ++ [padding ++ [hs_last st]] ++ repeat sp (end' - last') in
      (zip_with (@app N) prefix result', mid', ok')
  | _ =>
      let branch_idxs := zip_with Nat.add idx (0 :: accumulate 0 nrow) in
      let n_stems := zip_with (fun a b => b - a - 1) branch_idxs (tl branch_idxs) in
      let prefix :=
        repeat sp first ++ [padding ++ [hs_first st]]
        ++ concat (map (fun n => repeat stem n ++ [padding ++ [hs_subseq st]]) (removelast n_stems))
        ++ repeat stem (List.last n_stems 0) ++ [padding ++ [hs_last st]]
        ++ repeat sp (end_ - last) in
      let prefix1 := set_nth mid (node_str ++ [hs_split st]) prefix in
      let prefix2 := if existsb (Nat.eqb mid) branch_idxs
                     then set_nth mid (node_str ++ [hs_middle st]) prefix1 else prefix1 in
      (zip_with (@app N) prefix2 result, mid, ok)
  end.

Fixpoint hbranch (st : hstyle) (inter : bool) (ws : list nat) (d : nat) (t : tree) {struct t} : hblock :=
  match t with
  | T g n a ks =>
      let name := if is_hole t then [32; 32]%N else n in              (* node.Node("  ") *)
      let centered := center name (pad_at ws d) in
      let sub := (fix go (l : list tree) : list hblock :=
                    match l with
                    | [] => []
                    | k :: r => hbranch st inter ws (S d) k :: go r
                    end) ks in
      if is_hole t || negb (existsb real ks)                          (* any(list(children)) *)
      then ([hs_branch st :: 32%N :: rstrip_ws centered], 0, true)
      else hassemble st inter centered sub
  end.

(* hyield_tree on a tree already cut by get_subtree *)
Definition hyield_rows (st : hstyle) (inter : bool) (t : tree) : res (list str) :=
  match hbranch st inter (padding_depths inter t) 1 t with
  | (rows, _, true) => Ret rows
  | (_, _, false) => Raise OtherError                                  (* AssertionError *)
  end.

Definition hyield_tree (st : option hstyle) (inter : bool) (t : tree) (start : pos) (max_depth : nat)
  : res (list str) :=
  match get_subtree t start max_depth with
  | None => Raise ValueError
  | Some s => match st with
              | None => Raise ValueError
              | Some st' => hyield_rows st' inter s
              end
  end.
