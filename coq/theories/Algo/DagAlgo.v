(* Executable model of the DAG traversal and query code of bigtree:
     bigtree/utils/iterators.py:522-585   dag_iterator
     bigtree/node/dagnode.py:364-416      DAGNode.ancestors / descendants / siblings
     bigtree/node/dagnode.py:513-573      DAGNode.go_to
   A DAG is given purely: node i of the list is the Python object numbered i, with its name, its
   attributes and its `_DAGNode__parents` / `_DAGNode__children` lists *in the order the object holds
   them* (that order is what the iterator output depends on).  No proofs in this file. *)
From BT Require Import Base.Prelude Base.Str Base.Rose.

Record dnode := DN { dn_name : str; dn_attrs : attrs; dn_parents : list id; dn_children : list id }.
Definition dag := list dnode.

Definition dn_default : dnode := DN [] [] [] [].
Definition dsize (g : dag) : nat := length g.
Definition node (g : dag) (x : id) : dnode := nth x g dn_default.
Definition name (g : dag) (x : id) : str := dn_name (node g x).
Definition nattrs (g : dag) (x : id) : attrs := dn_attrs (node g x).
Definition parents (g : dag) (x : id) : list id := dn_parents (node g x).
Definition children (g : dag) (x : id) : list id := dn_children (node g x).

Definition edge := (id * id)%type.          (* (parent, child) *)

(* `name in visited_nodes` for the Python set of names *)
Definition smem (s : str) (l : list str) : bool := existsb (str_eqb s) l.

(* ---------------------------------------------------------------------------------------------
   dag_iterator (iterators.py:522-585).

     visited_nodes = set()
     def _dag_iterator(node):
         visited_nodes.add(node.node_name)
         for parent in node.parents:   if parent.node_name not in visited_nodes: yield parent, node
         for child in node.children:   if child.node_name  not in visited_nodes: yield node, child
         for parent in node.parents:   if parent.node_name not in visited_nodes: yield from _dag_iterator(parent)
         for child in node.children:   if child.node_name  not in visited_nodes: yield from _dag_iterator(child)

   The visited set only changes on entry of `_dag_iterator`, so the first two loops see the set
   `vis1`; the last two loops thread the set through the recursive calls (`visit_list`).
   A call returns (pairs yielded, visited set afterwards).  Recursion is on fuel; every call adds a
   name that was not in the set, so the depth is bounded by the number of nodes; the out-of-fuel
   value still records the name (it is shown unreachable in DagAlgoProofs.walk_fuel). *)

Fixpoint visit_list (W : id -> list str -> list edge * list str) (nm : id -> str)
         (l : list id) (vis : list str) : list edge * list str :=
  match l with
  | [] => ([], vis)
  | y :: t =>
      if smem (nm y) vis then visit_list W nm t vis
      else let r := W y vis in
           let r' := visit_list W nm t (snd r) in
           (fst r ++ fst r', snd r')
  end.

Fixpoint walk (fuel : nat) (g : dag) (x : id) (vis : list str) : list edge * list str :=
  let vis1 := name g x :: vis in
  match fuel with
  | 0 => ([], vis1)
  | S f =>
      let up   := map (fun p => (p, x)) (filter (fun p => negb (smem (name g p) vis1)) (parents g x)) in
      let down := map (fun c => (x, c)) (filter (fun c => negb (smem (name g c) vis1)) (children g x)) in
      let r3 := visit_list (walk f g) (name g) (parents g x) vis1 in
      let r4 := visit_list (walk f g) (name g) (children g x) (snd r3) in
      (up ++ down ++ fst r3 ++ fst r4, snd r4)
  end.

Definition dag_iterator (g : dag) (x : id) : list edge := fst (walk (S (dsize g)) g x []).

(* ---------------------------------------------------------------------------------------------
   dict.fromkeys(l): first occurrences, order kept *)
Fixpoint dedup_acc (seen : list id) (l : list id) : list id :=
  match l with
  | [] => []
  | x :: t => if memb x seen then dedup_acc seen t else x :: dedup_acc (x :: seen) t
  end.
Definition dedup (l : list id) : list id := dedup_acc [] l.

(* ancestors (dagnode.py:364-388):
     def _recursive_parent(node):
         for _node in node.parents: yield from _recursive_parent(_node); yield _node
     return list(dict.fromkeys(_recursive_parent(self)))          (() when there is no parent) *)
Fixpoint anc_raw (fuel : nat) (g : dag) (x : id) : list id :=
  match fuel with
  | 0 => []
  | S f => flat_map (fun p => anc_raw f g p ++ [p]) (parents g x)
  end.
Definition ancestors (g : dag) (x : id) : list id := dedup (anc_raw (dsize g) g x).

(* descendants (dagnode.py:390-400): preorder_iter(self, filter = (_node != self)) then dict.fromkeys;
   preorder_iter (iterators.py:137-145) on a DAGNode: yield tree; for child in children: recurse. *)
Fixpoint pre_raw (fuel : nat) (g : dag) (x : id) : list id :=
  match fuel with
  | 0 => []
  | S f => x :: flat_map (pre_raw f g) (children g x)
  end.
Definition descendants (g : dag) (x : id) : list id :=
  dedup (filter (fun y => negb (Nat.eqb y x)) (pre_raw (dsize g) g x)).

(* siblings (dagnode.py:402-416): () for a root, else
     tuple(child for parent in self.parents for child in parent.children if child is not self) *)
Definition siblings (g : dag) (x : id) : list id :=
  match parents g x with
  | [] => []
  | ps => flat_map (fun p => filter (fun c => negb (Nat.eqb c x)) (children g p)) ps
  end.

(* go_to (dagnode.py:513-573):
     if self == node: return [[self]]
     if node not in self.descendants: raise TreeError
     self.__path = []
     def _recursive_path(_node, _path):
         _path.append(_node)
         if _node == node: return _path
         for _child in _node.children:
             ans = _recursive_path(_child, _path.copy())
             if ans: self.__path.append(ans)
         return None
     _recursive_path(self, [])
   `rec_path f g t x path` is the list of paths appended to `self.__path` during the loop over the
   children of `x`, where `path` already ends with `x` and `x` is not the target: a child equal to
   the target returns its path (appended by the caller), another child appends what its own loop
   finds and returns None. *)
Fixpoint rec_path (fuel : nat) (g : dag) (t : id) (x : id) (path : list id) : list (list id) :=
  match fuel with
  | 0 => []
  | S f =>
      flat_map (fun c => if Nat.eqb c t then [path ++ [c]] else rec_path f g t c (path ++ [c]))
               (children g x)
  end.

Definition go_to (g : dag) (a b : id) : res (list (list id)) :=
  if Nat.eqb a b then Ret [[a]]
  else if negb (memb b (descendants g a)) then Raise TreeError
  else Ret (rec_path (dsize g) g b a [a]).
