(* Proofs about the exporter model (Algo/Export.v) against the specification Spec/PC06.v. *)
From BT Require Import Base.Prelude Base.Str Base.StrSep Base.Rose Algo.Export Spec.PC06.
From Coq Require Import Permutation.

(* ---------------------------------------------------------------------------------------------- *)
(* lists *)

Lemma flat_map_ext_Forall {A B} (f g : A -> list B) l :
  Forall (fun x => f x = g x) l -> flat_map f l = flat_map g l.
Proof.
  induction 1 as [|x l Hx _ IH]; [reflexivity|]. cbn [flat_map]. rewrite Hx, IH. reflexivity.
Qed.

Lemma map_flat_map {A B C} (f : A -> list B) (g : B -> C) l :
  map g (flat_map f l) = flat_map (fun x => map g (f x)) l.
Proof.
  induction l as [|x l IH]; [reflexivity|]. cbn [flat_map]. rewrite map_app, IH. reflexivity.
Qed.

Lemma filter_flat_map {A B} (f : A -> list B) (p : B -> bool) l :
  filter p (flat_map f l) = flat_map (fun x => filter p (f x)) l.
Proof.
  induction l as [|x l IH]; [reflexivity|]. cbn [flat_map]. rewrite filter_app, IH. reflexivity.
Qed.

Lemma combine_app {A B} (a1 a2 : list A) (b1 b2 : list B) :
  length a1 = length b1 -> combine (a1 ++ a2) (b1 ++ b2) = combine a1 b1 ++ combine a2 b2.
Proof.
  revert b1; induction a1 as [|x a1 IH]; intros [|y b1] H; try discriminate; [reflexivity|].
  cbn [app combine]. f_equal. apply IH. injection H as H. exact H.
Qed.

Lemma combine_flat_map {A B C} (f : A -> list B) (g : A -> list C) l :
  (forall x, length (f x) = length (g x)) ->
  combine (flat_map f l) (flat_map g l) = flat_map (fun x => combine (f x) (g x)) l.
Proof.
  intros H. induction l as [|x l IH]; [reflexivity|]. cbn [flat_map].
  rewrite combine_app by apply H. rewrite IH. reflexivity.
Qed.

Lemma flat_map_length_eq {A B C} (f : A -> list B) (g : A -> list C) l :
  Forall (fun x => length (f x) = length (g x)) l -> length (flat_map f l) = length (flat_map g l).
Proof.
  induction 1 as [|x l Hx _ IH]; [reflexivity|]. cbn [flat_map]. rewrite !app_length, Hx, IH. reflexivity.
Qed.

(* ---------------------------------------------------------------------------------------------- *)
(* nodes in context *)

Definition ctx_of (anc : list str) (t : tree) : cnode := (anc ++ [tname t], t).

Lemma paths_from_length t : forall p, length (paths_from p t) = length (pre t).
Proof.
  induction t as [g n a ks IH] using tree_ind'. intros p. cbn [paths_from pre length]. f_equal.
  apply flat_map_length_eq. eapply Forall_impl; [|exact IH]. intros k Hk. apply Hk.
Qed.

Lemma nodes_under_unfold anc g n a ks :
  nodes_under anc (T g n a ks)
  = ctx_of anc (T g n a ks) :: flat_map (nodes_under (anc ++ [n])) ks.
Proof.
  unfold nodes_under. cbn [paths_from pre combine]. unfold ctx_of. cbn [tname]. f_equal.
  apply combine_flat_map. intros k. apply paths_from_length.
Qed.

Lemma selected_ctx o anc t : selected o (ctx_of anc t) = gates o (S (length anc)) t.
Proof.
  unfold selected, gates, depth_gate, ctx_of, c_depth. cbn [fst snd].
  rewrite app_length. cbn [length]. rewrite Nat.add_1_r. reflexivity.
Qed.

(* the recursive walk emits exactly the selected nodes, in pre-order *)
Lemma walk_nodes {X} (emit : list str -> tree -> X) (semit : cnode -> X) o :
  (forall anc t, emit anc t = semit (ctx_of anc t)) ->
  forall t anc, walk emit o anc t = map semit (filter (selected o) (nodes_under anc t)).
Proof.
  intros He t. induction t as [g n a ks IH] using tree_ind'. intros anc.
  rewrite nodes_under_unfold. cbn [walk filter]. rewrite selected_ctx.
  assert (Hk : flat_map (walk emit o (anc ++ [n])) ks
               = map semit (filter (selected o) (flat_map (nodes_under (anc ++ [n])) ks))).
  { rewrite filter_flat_map, map_flat_map. apply flat_map_ext_Forall.
    eapply Forall_impl; [|exact IH]. intros k Hk. apply Hk. }
  rewrite Hk. destruct (gates o (S (length anc)) (T g n a ks)); cbn [map app]; [rewrite He|]; reflexivity.
Qed.

(* the start node *)
Lemma anc_names_cons root i p :
  anc_names root (i :: p)
  = tname root :: match nth_error (tkids root) i with
                  | Some k => anc_names k p
                  | None => map (fun _ => []) (seq 0 (length p))
                  end.
Proof.
  unfold anc_names. cbn [length seq map firstn subtree_at]. f_equal.
  rewrite <- seq_shift, map_map.
  destruct (nth_error (tkids root) i) as [k|] eqn:E.
  - apply map_ext. intros j. cbn [firstn subtree_at]. rewrite E. reflexivity.
  - apply map_ext. intros j. cbn [firstn subtree_at]. rewrite E. reflexivity.
Qed.

Lemma locate_spec p : forall t anc,
  locate anc t p = match subtree_at t p with
                   | Some s => Some (anc ++ anc_names t p, s)
                   | None => None
                   end.
Proof.
  induction p as [|i p IH]; intros t anc.
  - cbn. rewrite app_nil_r. reflexivity.
  - cbn [locate subtree_at]. rewrite anc_names_cons.
    destruct (nth_error (tkids t) i) as [k|]; [|reflexivity].
    rewrite IH. destruct (subtree_at k p); [|reflexivity]. rewrite <- app_assoc. reflexivity.
Qed.

(* ---------------------------------------------------------------------------------------------- *)
(* records *)

Lemma opt_item_field k v : opt_item k v = field k v.
Proof. destruct k; reflexivity. Qed.

Lemma attr_items_requested o t : attr_items o t = requested o t.
Proof. reflexivity. Qed.

Lemma parent_val_ctx anc t : parent_val anc = c_parent (ctx_of anc t).
Proof.
  unfold parent_val, c_parent, ctx_of. cbn [fst]. rewrite rev_app_distr. cbn [rev app].
  destruct (rev anc); reflexivity.
Qed.

Lemma dict_child_record o anc t : dict_child o anc t = dict_record o (ctx_of anc t).
Proof.
  unfold dict_child, dict_record. rewrite !opt_item_field, <- (parent_val_ctx anc t). reflexivity.
Qed.

Lemma frame_child_record o sep anc t : frame_child o sep anc t = frame_record o sep (ctx_of anc t).
Proof.
  unfold frame_child, frame_record. rewrite !opt_item_field, <- (parent_val_ctx anc t). reflexivity.
Qed.

(* C06_dict_records, general form: the dict built from one (path, record) item per selected node *)
Theorem tree_to_dict_spec root sep p o :
  tree_to_dict root sep p o
  = match spec_dict root sep p o with Some d => Ret d | None => Raise Unmodelled end.
Proof.
  unfold tree_to_dict, spec_dict, nodes_from. rewrite locate_spec.
  destruct (subtree_at root p) as [t|]; [|reflexivity]. cbn [app]. f_equal. f_equal.
  apply walk_nodes. intros anc n. rewrite dict_child_record. reflexivity.
Qed.

Theorem tree_to_dataframe_spec root sep p o :
  tree_to_dataframe root sep p o
  = match spec_frame root sep p o with Some d => Ret d | None => Raise Unmodelled end.
Proof.
  unfold tree_to_dataframe, spec_frame, nodes_from. rewrite locate_spec.
  destruct (subtree_at root p) as [t|]; [|reflexivity]. cbn [app]. f_equal. f_equal.
  apply walk_nodes. intros anc n. apply frame_child_record.
Qed.

(* ---------------------------------------------------------------------------------------------- *)
(* dicts with distinct keys *)

Section DictFacts.
  Context {V : Type}.
  Implicit Types d items : list (str * V).

  Lemma dict_set_fresh k (v : V) d : ~ In k (map fst d) -> dict_set k v d = d ++ [(k, v)].
  Proof.
    induction d as [|[k' v'] d IH]; intros H; [reflexivity|]. cbn [dict_set].
    destruct (str_eqb k k') eqn:E.
    - apply str_eqb_eq in E. subst. exfalso. apply H. left. reflexivity.
    - cbn [app]. f_equal. apply IH. intros Hin. apply H. right. exact Hin.
  Qed.

  Lemma dict_update_fresh items : forall d,
    NoDup (map fst (d ++ items)) -> dict_update d items = d ++ items.
  Proof.
    induction items as [|[k v] items IH]; intros d H.
    - cbn. rewrite app_nil_r. reflexivity.
    - unfold dict_update. cbn [fold_left fst snd]. fold (dict_update (dict_set k v d) items).
      assert (Hk : ~ In k (map fst d)).
      { rewrite map_app in H. cbn [map fst] in H. apply NoDup_remove_2 in H.
        intros Hin. apply H. apply in_or_app. left. exact Hin. }
      rewrite dict_set_fresh by exact Hk. rewrite IH.
      + rewrite <- app_assoc. reflexivity.
      + rewrite <- app_assoc. exact H.
  Qed.

  Lemma dict_of_nodup items : NoDup (map fst items) -> dict_of items = items.
  Proof. intros H. unfold dict_of. apply (dict_update_fresh items []). exact H. Qed.

  Lemma dict_set_present k (v : V) d : NoDup (map fst d) -> In (k, v) d -> dict_set k v d = d.
  Proof.
    induction d as [|[k' v'] d IH]; intros Hn Hin; [destruct Hin|]. cbn [dict_set].
    cbn [map fst] in Hn. inversion Hn as [|? ? Hk Hd]; subst.
    destruct (str_eqb k k') eqn:E.
    - apply str_eqb_eq in E. subst. destruct Hin as [Hin|Hin].
      + injection Hin as ->. reflexivity.
      + exfalso. apply Hk. apply in_map_iff. exists (k', v). split; [reflexivity|exact Hin].
    - destruct Hin as [Hin|Hin].
      + injection Hin as -> ->. rewrite str_eqb_refl in E. discriminate.
      + f_equal. apply IH; assumption.
  Qed.

  Lemma dict_update_present items : forall d,
    NoDup (map fst d) -> incl items d -> dict_update d items = d.
  Proof.
    induction items as [|[k v] items IH]; intros d Hn Hi; [reflexivity|].
    unfold dict_update. cbn [fold_left fst snd]. fold (dict_update (dict_set k v d) items).
    rewrite dict_set_present; [|exact Hn|apply Hi; left; reflexivity].
    apply IH; [exact Hn|]. intros x Hx. apply Hi. right. exact Hx.
  Qed.

  Lemma dict_get_in k (v : V) d : NoDup (map fst d) -> In (k, v) d -> dict_get k d = Some v.
  Proof.
    induction d as [|[k' v'] d IH]; intros Hn Hin; [destruct Hin|]. cbn [dict_get].
    cbn [map fst] in Hn. inversion Hn as [|? ? Hk Hd]; subst.
    destruct (str_eqb k k') eqn:E.
    - apply str_eqb_eq in E. subst. destruct Hin as [Hin|Hin]; [injection Hin as ->; reflexivity|].
      exfalso. apply Hk. apply in_map_iff. exists (k', v). split; [reflexivity|exact Hin].
    - destruct Hin as [Hin|Hin]; [injection Hin as -> ->; rewrite str_eqb_refl in E; discriminate|].
      apply IH; assumption.
  Qed.

  Lemma dict_get_none k d : ~ In k (map fst d) -> dict_get k d = None.
  Proof.
    induction d as [|[k' v'] d IH]; intros H; [reflexivity|]. cbn [dict_get].
    destruct (str_eqb k k') eqn:E.
    - apply str_eqb_eq in E. subst. exfalso. apply H. left. reflexivity.
    - apply IH. intros Hin. apply H. right. exact Hin.
  Qed.

  Lemma dict_del_absent k d : ~ In k (map fst d) -> dict_del k d = d.
  Proof.
    induction d as [|[k' v'] d IH]; intros H; [reflexivity|]. unfold dict_del. cbn [filter fst].
    destruct (str_eqb k' k) eqn:E.
    - apply str_eqb_eq in E. subst. exfalso. apply H. left. reflexivity.
    - cbn [negb]. f_equal. apply IH. intros Hin. apply H. right. exact Hin.
  Qed.
End DictFacts.

(* C06_dict_records in the "map" form: distinct paths (which hold for Node trees whose names do not
   contain the separator, see paths_nodup below) make the outer dict the plain list *)
Corollary tree_to_dict_map root sep p o ns :
  nodes_from root p = Some ns ->
  NoDup (map (c_path sep) (filter (selected o) ns)) ->
  tree_to_dict root sep p o
  = Ret (map (fun c => (c_path sep c, dict_record o c)) (filter (selected o) ns)).
Proof.
  intros Hn Hd. rewrite tree_to_dict_spec. unfold spec_dict. rewrite Hn. f_equal.
  apply dict_of_nodup. rewrite map_map. cbn [fst]. exact Hd.
Qed.

(* ---------------------------------------------------------------------------------------------- *)
(* nested dict mirrors the tree cut at max_depth *)

Lemma nested_child_record o t : nested_child o t = nested_record o t.
Proof. reflexivity. Qed.

Lemma map_tree_unfold f g n a ks :
  map_tree f (T g n a ks) = T None [] (f (T g n a ks)) (map (map_tree f) ks).
Proof. reflexivity. Qed.

Lemma flat_map_singleton {A B} (f : A -> B) l : flat_map (fun x => [f x]) l = map f l.
Proof. induction l as [|x l IH]; [reflexivity|]. cbn. rewrite IH. reflexivity. Qed.

Lemma nested_go_unlimited o t : o_max_depth o = 0 ->
  forall d, nested_go o d t = [map_tree (nested_record o) t].
Proof.
  intros H0. induction t as [g n a ks IH] using tree_ind'. intros d.
  cbn [nested_go]. rewrite H0. cbn [Nat.eqb orb]. rewrite map_tree_unfold.
  f_equal. f_equal. rewrite <- flat_map_singleton. apply flat_map_ext_Forall.
  eapply Forall_impl; [|exact IH]. intros k Hk. apply Hk.
Qed.

(* record of a node does not look at its children *)
Lemma nested_record_prune o k t : nested_record o (prune k t) = nested_record o t.
Proof. destruct t as [g n a ks]. destruct k; reflexivity. Qed.

Lemma prune_unfold k g n a ks :
  prune k (T g n a ks) = T g n a (match k with 0 => [] | S k' => map (prune k') ks end).
Proof. destruct k; reflexivity. Qed.

Lemma nested_go_limited o t : o_max_depth o <> 0 ->
  forall d, nested_go o d t
            = if Nat.leb d (o_max_depth o)
              then [map_tree (nested_record o) (prune (o_max_depth o - d) t)] else [].
Proof.
  intros H0. induction t as [g n a ks IH] using tree_ind'. intros d.
  cbn [nested_go]. destruct (Nat.eqb (o_max_depth o) 0) eqn:E0; [apply Nat.eqb_eq in E0; contradiction|].
  cbn [orb]. destruct (Nat.leb d (o_max_depth o)) eqn:Ed; [|reflexivity].
  apply Nat.leb_le in Ed. f_equal.
  rewrite prune_unfold.
  rewrite map_tree_unfold.
  f_equal.
  { destruct (o_max_depth o - d) as [|k'] eqn:Ek.
    + (* d = max: no child passes *)
      assert (Hd : d = o_max_depth o) by lia. cbn [map].
      rewrite <- (flat_map_ext_Forall (fun _ => [])).
      * induction ks; [reflexivity|]. cbn. inversion IH; subst. auto.
      * eapply Forall_impl; [|exact IH]. intros k Hk. rewrite Hk.
        destruct (Nat.leb (S d) (o_max_depth o)) eqn:E; [apply Nat.leb_le in E; lia|reflexivity].
    + rewrite map_map, <- flat_map_singleton. apply flat_map_ext_Forall.
      eapply Forall_impl; [|exact IH]. intros k Hk. rewrite Hk.
      destruct (Nat.leb (S d) (o_max_depth o)) eqn:E; [|apply Nat.leb_gt in E; lia].
      replace (o_max_depth o - S d) with k' by lia. reflexivity. }
Qed.

Lemma anc_names_length root p : length (anc_names root p) = length p.
Proof. unfold anc_names. rewrite map_length, seq_length. reflexivity. Qed.

Theorem tree_to_nested_dict_spec root p o :
  tree_to_nested_dict root p o
  = match subtree_at root p with
    | None => Raise Unmodelled
    | Some _ => match spec_nested root p o with Some d => Ret d | None => Raise KeyError end
    end.
Proof.
  unfold tree_to_nested_dict, spec_nested. rewrite locate_spec.
  destruct (subtree_at root p) as [t|]; [|reflexivity]. cbn [app]. rewrite anc_names_length.
  destruct (Nat.eqb (o_max_depth o) 0) eqn:E0.
  - apply Nat.eqb_eq in E0. rewrite nested_go_unlimited by exact E0. reflexivity.
  - apply Nat.eqb_neq in E0. rewrite nested_go_limited by exact E0.
    destruct (Nat.leb (S (length p)) (o_max_depth o)); reflexivity.
Qed.

(* ---------------------------------------------------------------------------------------------- *)
(* sorting is a permutation; keys stay distinct *)

Section SortFacts.
  Context {V : Type}.
  Implicit Types l : list (str * V).

  Lemma insert_key_perm x l : Permutation (insert_key x l) (x :: l).
  Proof.
    induction l as [|y l IH]; [apply Permutation_refl|]. cbn [insert_key].
    destruct (str_ltb (fst x) (fst y)); [apply Permutation_refl|].
    eapply Permutation_trans; [apply perm_skip; exact IH|apply perm_swap].
  Qed.

  Lemma sort_items_perm l : Permutation (sort_items l) l.
  Proof.
    induction l as [|x l IH]; [apply Permutation_refl|]. cbn [sort_items fold_right].
    eapply Permutation_trans; [apply insert_key_perm|]. apply perm_skip. exact IH.
  Qed.

  Lemma filter_keys_nodup (p : str * V -> bool) l :
    NoDup (map fst l) -> NoDup (map fst (filter p l)).
  Proof.
    induction l as [|x l IH]; intros H; [exact H|]. cbn [map] in H. inversion H as [|? ? Hx Hl]; subst.
    cbn [filter]. destruct (p x); [|apply IH; exact Hl]. cbn [map]. constructor; [|apply IH; exact Hl].
    intros Hin. apply Hx. apply in_map_iff in Hin as [y [Hy Hin]]. apply filter_In in Hin as [Hin _].
    apply in_map_iff. exists y. split; assumption.
  Qed.

  Lemma sort_keys_nodup l : NoDup (map fst l) -> NoDup (map fst (sort_items l)).
  Proof.
    intros H. eapply Permutation_NoDup; [|exact H]. apply Permutation_map. apply Permutation_sym.
    apply sort_items_perm.
  Qed.
End SortFacts.

Lemma nodup_str_NoDup l : nodup_str l = true -> NoDup l.
Proof.
  induction l as [|x l IH]; intros H; [constructor|]. cbn [nodup_str] in H.
  apply andb_true_iff in H as [H1 H2]. constructor; [|apply IH; exact H2].
  intros Hin. apply negb_true_iff in H1. assert (E : existsb (str_eqb x) l = true).
  { apply existsb_exists. exists x. split; [exact Hin|apply str_eqb_refl]. }
  congruence.
Qed.

Lemma describe_keys_nodup t : NoDup (map fst (tattrs t)) -> NoDup (map fst (describe t)).
Proof. intros H. unfold describe. apply filter_keys_nodup. apply sort_keys_nodup. exact H. Qed.

Lemma describe_public t k : In k (map fst (describe t)) -> public_key k = true.
Proof.
  intros H. apply in_map_iff in H as [[k' v] [Hk Hin]]. cbn [fst] in Hk. subst.
  unfold describe in Hin. apply filter_In in Hin as [_ Hp]. exact Hp.
Qed.

Lemma describe_no_name t : ~ In s_name (map fst (describe t)).
Proof.
  intros H. apply describe_public in H. unfold public_key in H. rewrite str_eqb_refl in H. discriminate.
Qed.

Lemma norm_attrs_false a : norm_attrs false a = filter (fun kv => public_key (fst kv)) (sort_items a).
Proof.
  unfold norm_attrs. apply filter_ext. intros kv. cbn [negb orb]. rewrite andb_true_r. reflexivity.
Qed.

Lemma norm_tree_name dn t : tname (norm_tree dn t) = tname t.
Proof. destruct t; reflexivity. Qed.

(* validity, one level *)
Lemma forallb_flat_map {A B} (p : B -> bool) (f : A -> list B) l :
  forallb p (flat_map f l) = forallb (fun x => forallb p (f x)) l.
Proof.
  induction l as [|x l IH]; [reflexivity|]. cbn [flat_map forallb]. rewrite forallb_app, IH. reflexivity.
Qed.

Lemma valid_tree_inv g n a ks : valid_tree (T g n a ks) = true ->
  node_ok (T g n a ks) = true /\ Forall (fun k => valid_tree k = true) ks.
Proof.
  unfold valid_tree. cbn [pre forallb]. intros H. apply andb_true_iff in H as [H1 H2]. split; [exact H1|].
  rewrite forallb_flat_map in H2. apply Forall_forall. intros k Hk.
  rewrite forallb_forall in H2. apply H2. exact Hk.
Qed.

Lemma node_ok_inv g n a ks : node_ok (T g n a ks) = true ->
  n <> [] /\ NoDup (map tname ks) /\ NoDup (map fst a).
Proof.
  unfold node_ok. cbn [tname tkids tattrs]. intros H.
  apply andb_true_iff in H as [H H3]. apply andb_true_iff in H as [H1 H2].
  split; [intros ->; discriminate|]. split; apply nodup_str_NoDup; assumption.
Qed.

(* ---------------------------------------------------------------------------------------------- *)
(* nested round trip *)

Definition nd_kids (name_key n : str) (fields : record) :=
  fix go (l : list tree) (acc : list tree) : res tree :=
    match l with
    | [] => Ret (T None n (dict_del name_key fields) (rev acc))
    | k :: r =>
        match nested_dict_to_tree name_key k with
        | Ret k' => if existsb (fun x => str_eqb (tname x) (tname k')) acc
                    then Raise TreeError else go r (k' :: acc)
        | Raise e => Raise e
        end
    end.

Lemma nested_dict_to_tree_unfold nk g m fields kids :
  nested_dict_to_tree nk (T g m fields kids)
  = match dict_get nk fields with
    | Some (VStr n) => if is_empty n then Raise TreeError else nd_kids nk n fields kids []
    | Some _ => Raise Unmodelled
    | None => Raise KeyError
    end.
Proof. reflexivity. Qed.

Lemma nd_kids_ok nk n fields (F : tree -> tree) (N : tree -> tree) :
  (forall k, tname (N k) = tname k) ->
  forall l acc,
    Forall (fun k => nested_dict_to_tree nk (F k) = Ret (N k)) l ->
    NoDup (map tname l) ->
    (forall x k, In x acc -> In k l -> tname x <> tname k) ->
    nd_kids nk n fields (map F l) acc = Ret (T None n (dict_del nk fields) (rev acc ++ map N l)).
Proof.
  intros HN. induction l as [|k l IH]; intros acc HF Hnd Hacc.
  - cbn. rewrite app_nil_r. reflexivity.
  - inversion HF as [|? ? Hk HF']; subst. cbn [map] in Hnd. inversion Hnd as [|? ? Hkl Hnd']; subst.
    cbn [map nd_kids]. rewrite Hk.
    destruct (existsb (fun x => str_eqb (tname x) (tname (N k))) acc) eqn:E.
    { apply existsb_exists in E as [x [Hx Ex]]. apply str_eqb_eq in Ex. rewrite HN in Ex.
      exfalso. apply (Hacc x k Hx (or_introl eq_refl)). exact Ex. }
    fold (nd_kids nk n fields). rewrite IH; [|exact HF'|exact Hnd'|].
    + cbn [rev]. rewrite <- app_assoc. reflexivity.
    + intros x k' [Hx|Hx] Hk'.
      * subst x. rewrite HN. intros Heq. apply Hkl. rewrite Heq. apply in_map. exact Hk'.
      * apply Hacc; [exact Hx|right; exact Hk'].
Qed.

Lemma nested_record_full t :
  NoDup (map fst (tattrs t)) ->
  nested_record full_opts t = (s_name, VStr (tname t)) :: describe t.
Proof.
  intros H. unfold nested_record, requested. cbn [full_opts o_all_attrs o_name_key].
  apply dict_of_nodup. cbn [map fst]. constructor; [apply describe_no_name|].
  apply describe_keys_nodup. exact H.
Qed.

Lemma nested_import t : valid_tree t = true ->
  nested_dict_to_tree s_name (map_tree (nested_record full_opts) t) = Ret (norm_tree false t).
Proof.
  induction t as [g n a ks IH] using tree_ind'. intros Hv.
  apply valid_tree_inv in Hv as [Hok Hks]. apply node_ok_inv in Hok as [Hn [Hnames Ha]].
  rewrite map_tree_unfold, nested_dict_to_tree_unfold.
  rewrite nested_record_full by exact Ha. cbn [tname dict_get]. rewrite str_eqb_refl.
  destruct n as [|c n]; [contradiction|]. cbn [is_empty nonempty negb].
  rewrite (nd_kids_ok s_name (c :: n) _ (map_tree (nested_record full_opts)) (norm_tree false)).
  - cbn [rev app norm_tree]. f_equal. f_equal.
    unfold dict_del. cbn [filter fst]. rewrite str_eqb_refl. cbn [negb].
    fold (dict_del s_name (describe (T g (c :: n) a ks))).
    rewrite dict_del_absent by apply describe_no_name. rewrite norm_attrs_false. reflexivity.
  - intros k. apply norm_tree_name.
  - rewrite Forall_forall in *. intros k Hk. apply IH; [exact Hk|]. apply Hks. exact Hk.
  - exact Hnames.
  - intros x k [].
Qed.

Theorem rt_nested_ok t : valid_tree t = true -> rt_nested t = Ret (norm_tree false t).
Proof.
  intros Hv. unfold rt_nested. rewrite tree_to_nested_dict_spec. cbn [subtree_at].
  unfold spec_nested. cbn [subtree_at full_opts o_max_depth Nat.eqb bind].
  apply nested_import. exact Hv.
Qed.

(* ---------------------------------------------------------------------------------------------- *)
(* str_ltb is a strict total order; sorted lists *)

Lemma str_ltb_irrefl a : str_ltb a a = false.
Proof.
  induction a as [|x a IH]; [reflexivity|]. cbn [str_ltb]. rewrite N.ltb_irrefl, N.eqb_refl, IH. reflexivity.
Qed.

Lemma str_ltb_trans a : forall b c, str_ltb a b = true -> str_ltb b c = true -> str_ltb a c = true.
Proof.
  induction a as [|x a IH]; intros [|y b] [|z c] H1 H2; cbn [str_ltb] in *; try discriminate; try reflexivity.
  apply orb_true_iff in H1. apply orb_true_iff in H2. apply orb_true_iff.
  destruct H1 as [H1|H1], H2 as [H2|H2].
  - left. apply N.ltb_lt in H1, H2. apply N.ltb_lt. lia.
  - apply andb_true_iff in H2 as [E2 _]. apply N.eqb_eq in E2. subst. left. exact H1.
  - apply andb_true_iff in H1 as [E1 _]. apply N.eqb_eq in E1. subst. left. exact H2.
  - apply andb_true_iff in H1 as [E1 L1]. apply andb_true_iff in H2 as [E2 L2].
    apply N.eqb_eq in E1, E2. subst. right. rewrite N.eqb_refl. cbn [andb]. eapply IH; eassumption.
Qed.

Lemma str_ltb_total a : forall b, str_ltb a b = false -> a <> b -> str_ltb b a = true.
Proof.
  induction a as [|x a IH]; intros [|y b] H Hne; cbn [str_ltb] in *; try discriminate; try reflexivity.
  - contradiction.
  - apply orb_false_iff in H as [H1 H2]. apply N.ltb_ge in H1.
    destruct (N.eqb x y) eqn:E.
    + apply N.eqb_eq in E. subst. cbn [andb] in H2. rewrite N.ltb_irrefl, N.eqb_refl. cbn [orb andb].
      apply IH; [exact H2|]. intros ->. apply Hne. reflexivity.
    + apply N.eqb_neq in E. apply orb_true_iff. left. apply N.ltb_lt. lia.
Qed.

Section Sorted.
  Context {V : Type}.
  Implicit Types l : list (str * V).
  Definition klt (x y : str * V) : Prop := str_ltb (fst x) (fst y) = true.

  Inductive ssorted : list (str * V) -> Prop :=
  | ss_nil : ssorted []
  | ss_cons x l : Forall (klt x) l -> ssorted l -> ssorted (x :: l).

  Lemma insert_key_sorted x l :
    ssorted l -> ~ In (fst x) (map fst l) -> ssorted (insert_key x l).
  Proof.
    induction 1 as [|y l Hy Hl IH]; intros Hx.
    - cbn. constructor; constructor.
    - cbn [insert_key]. destruct (str_ltb (fst x) (fst y)) eqn:E.
      + constructor; [|constructor; assumption]. constructor; [exact E|].
        eapply Forall_impl; [|exact Hy]. intros z Hz. unfold klt in *. eapply str_ltb_trans; eassumption.
      + assert (Hyx : klt y x).
        { apply str_ltb_total; [exact E|]. intros Heq. apply Hx. left. symmetry. exact Heq. }
        constructor.
        * eapply Permutation_Forall; [apply Permutation_sym; apply insert_key_perm|].
          constructor; assumption.
        * apply IH. intros Hin. apply Hx. right. exact Hin.
  Qed.

  Lemma sort_items_sorted l : NoDup (map fst l) -> ssorted (sort_items l).
  Proof.
    induction l as [|x l IH]; intros H; [constructor|]. cbn [map] in H. inversion H as [|? ? Hx Hl]; subst.
    cbn [sort_items fold_right]. apply insert_key_sorted; [apply IH; exact Hl|].
    intros Hin. apply Hx. eapply Permutation_in; [|exact Hin]. apply Permutation_map. apply sort_items_perm.
  Qed.

  Lemma sorted_sort_id l : ssorted l -> sort_items l = l.
  Proof.
    induction 1 as [|x l Hx Hl IH]; [reflexivity|]. cbn [sort_items fold_right].
    fold (sort_items l). rewrite IH. destruct l as [|y l]; [reflexivity|]. cbn [insert_key].
    inversion Hx as [|? ? Hxy _]; subst. unfold klt in Hxy. rewrite Hxy. reflexivity.
  Qed.

  Lemma filter_sorted (p : str * V -> bool) l : ssorted l -> ssorted (filter p l).
  Proof.
    induction 1 as [|x l Hx Hl IH]; [constructor|]. cbn [filter]. destruct (p x); [|exact IH].
    constructor; [|exact IH]. apply Forall_forall. intros y Hy. apply filter_In in Hy as [Hy _].
    rewrite Forall_forall in Hx. apply Hx. exact Hy.
  Qed.

  Lemma klt_irrefl x : ~ klt x x.
  Proof. unfold klt. rewrite str_ltb_irrefl. discriminate. Qed.

  (* a sorted list is determined by its elements *)
  Lemma sorted_perm_eq l1 : forall l2, ssorted l1 -> ssorted l2 -> Permutation l1 l2 -> l1 = l2.
  Proof.
    induction l1 as [|x l1 IH]; intros l2 H1 H2 Hp.
    - apply Permutation_nil in Hp. subst. reflexivity.
    - destruct l2 as [|y l2]; [apply Permutation_sym, Permutation_nil in Hp; discriminate|].
      inversion H1 as [|? ? Hx Hs1]; subst. inversion H2 as [|? ? Hy Hs2]; subst.
      assert (Exy : x = y).
      { assert (Hin1 : In x (y :: l2)) by (eapply Permutation_in; [exact Hp|left; reflexivity]).
        assert (Hin2 : In y (x :: l1)) by (eapply Permutation_in; [apply Permutation_sym; exact Hp|left; reflexivity]).
        destruct Hin1 as [E|Hin1]; [symmetry; exact E|]. destruct Hin2 as [E|Hin2]; [exact E|].
        rewrite Forall_forall in Hx, Hy. exfalso. apply (klt_irrefl x).
        unfold klt. eapply str_ltb_trans; [apply Hx; exact Hin2|apply Hy; exact Hin1]. }
      subst y. f_equal. apply IH; [exact Hs1|exact Hs2|]. eapply Permutation_cons_inv. exact Hp.
  Qed.
End Sorted.

Lemma attrs_eqb_refl a : attrs_eqb a a = true.
Proof.
  induction a as [|[k v] a IH]; [reflexivity|]. cbn [attrs_eqb]. rewrite str_eqb_refl, IH.
  rewrite andb_true_r. cbn [andb].
  destruct v; cbn [val_eqb]; try reflexivity.
  - apply Z.eqb_refl.
  - apply str_eqb_refl.
  - destruct b; reflexivity.
  - apply Z.eqb_refl.
Qed.

Lemma tree_eqb_refl t : tree_eqb t t = true.
Proof.
  induction t as [g n a ks IH] using tree_ind'. cbn [tree_eqb].
  rewrite str_eqb_refl, attrs_eqb_refl. cbn [andb].
  induction ks as [|k ks IHk]; [reflexivity|]. inversion IH as [|? ? Hk Hks]; subst.
  rewrite Hk. cbn [andb]. apply IHk. exact Hks.
Qed.

(* a normalised tree is its own sorted form *)
Lemma norm_attrs_sorted dn a : NoDup (map fst a) -> sort_items (norm_attrs dn a) = norm_attrs dn a.
Proof.
  intros H. apply sorted_sort_id. unfold norm_attrs. apply filter_sorted. apply sort_items_sorted. exact H.
Qed.

Lemma sort_norm_tree dn t : valid_tree t = true -> sort_tree (norm_tree dn t) = norm_tree dn t.
Proof.
  induction t as [g n a ks IH] using tree_ind'. intros Hv.
  apply valid_tree_inv in Hv as [Hok Hks]. apply node_ok_inv in Hok as [_ [_ Ha]].
  cbn [norm_tree sort_tree]. rewrite norm_attrs_sorted by exact Ha. f_equal.
  rewrite map_map. apply map_ext_in. intros k Hk. rewrite Forall_forall in IH, Hks.
  apply IH; [exact Hk|apply Hks; exact Hk].
Qed.

Lemma same_tree_norm dn t : valid_tree t = true -> same_tree dn t (Ret (norm_tree dn t)) = true.
Proof. intros Hv. unfold same_tree. rewrite sort_norm_tree by exact Hv. apply tree_eqb_refl. Qed.

(* ---------------------------------------------------------------------------------------------- *)
(* parsing a path string written with a separator of any positive length none of whose characters
   occurs in a name (Base/StrSep.v) *)

Lemma contains_char c w : contains w [c] = false -> ~ In c w.
Proof.
  induction w as [|x w IH]; intros H; [intros []|]. cbn [contains startswith] in H.
  apply orb_false_iff in H as [H1 H2]. rewrite andb_true_r in H1. apply N.eqb_neq in H1.
  intros [E|Hin]; [congruence|]. apply IH; assumption.
Qed.

Lemma split_join_any sp L : sp <> [] -> L <> [] -> Forall (sfree sp) L -> split (join sp L) sp = L.
Proof. intros Hsp. destruct sp as [|a sp']; [contradiction|]. apply split_join_multi. Qed.

Lemma is_empty_app sp x : sp <> [] -> is_empty (sp ++ x) = false.
Proof. intros H. destruct sp; [contradiction|reflexivity]. Qed.

Definition clean (sp w : str) : Prop := sgood sp w.

Lemma clean_sfree sp l : Forall (clean sp) l -> Forall (sfree sp) l.
Proof. intros H. eapply Forall_impl; [|exact H]. intros x [_ Hx]. exact Hx. Qed.

Lemma strip_path_ok sp w ws : Forall (clean sp) (w :: ws) ->
  strip_path (path_name sp (w :: ws)) sp = join sp (w :: ws).
Proof.
  intros HF. unfold strip_path, path_name. rewrite lstrip_sep_join by (try discriminate; exact HF).
  apply (rstrip_join_multi sp (w :: ws) []); [discriminate|exact HF].
Qed.

Lemma branch_of_path sp l : sp <> [] -> l <> [] -> Forall (clean sp) l -> branch_of (path_name sp l) sp = l.
Proof.
  intros Hsp Hne HF. destruct l as [|w ws]; [contradiction|].
  unfold branch_of. rewrite strip_path_ok by exact HF. apply split_join_any; [exact Hsp|discriminate|].
  apply clean_sfree. exact HF.
Qed.

Lemma path_name_inj sp l1 l2 : sp <> [] -> l1 <> [] -> l2 <> [] -> Forall (clean sp) l1 -> Forall (clean sp) l2 ->
  path_name sp l1 = path_name sp l2 -> l1 = l2.
Proof.
  intros Hsp N1 N2 H1 H2 E.
  rewrite <- (branch_of_path sp l1 Hsp N1 H1), <- (branch_of_path sp l2 Hsp N2 H2), E. reflexivity.
Qed.

Lemma add_branch_name names na t : tname (add_branch names na t) = tname t.
Proof. destruct names, t; reflexivity. Qed.

Lemma no_empty_component sp rest : Forall (clean sp) rest -> existsb is_empty rest = false.
Proof.
  induction rest as [|w rest IH]; intros HF; [reflexivity|]. inversion HF as [|? ? [Hw _] HF']; subst.
  cbn [existsb]. destruct w; [contradiction|]. cbn. apply IH. exact HF'.
Qed.

Lemma add_path_to_tree_ok sp t r rest na :
  sp <> [] -> tname t = r -> Forall (clean sp) (r :: rest) ->
  add_path_to_tree t (path_name sp (r :: rest)) sp na = Ret (add_branch rest na t).
Proof.
  intros Hsp Hr HF. unfold add_path_to_tree. rewrite branch_of_path by (try discriminate; assumption).
  unfold path_name at 1. rewrite is_empty_app by exact Hsp. rewrite Hr, str_eqb_refl. cbn [negb].
  inversion HF as [|? ? _ HF']; subst. rewrite (no_empty_component sp) by exact HF'. reflexivity.
Qed.

(* ---------------------------------------------------------------------------------------------- *)
(* the nodes with their name paths, presented inductively *)

Fixpoint rel_nodes (t : tree) : list (list str * tree) :=
  match t with
  | T _ n _ ks => ([n], t) :: flat_map (fun k => map (fun pr => (n :: fst pr, snd pr)) (rel_nodes k)) ks
  end.

Lemma nodes_under_rel t : forall anc,
  nodes_under anc t = map (fun pr => (anc ++ fst pr, snd pr)) (rel_nodes t).
Proof.
  induction t as [g n a ks IH] using tree_ind'. intros anc.
  rewrite nodes_under_unfold. cbn [rel_nodes map fst snd]. unfold ctx_of. cbn [tname]. f_equal.
  rewrite map_flat_map. apply flat_map_ext_Forall. eapply Forall_impl; [|exact IH].
  intros k Hk. cbn beta. rewrite Hk, map_map. apply map_ext. intros pr. cbn [fst snd].
  rewrite <- app_assoc. reflexivity.
Qed.

Lemma nodes_under_root t : nodes_under [] t = rel_nodes t.
Proof.
  rewrite nodes_under_rel. rewrite <- (map_id (rel_nodes t)) at 2. apply map_ext. intros [p x]. reflexivity.
Qed.

Lemma rel_nodes_head t : Forall (fun pr => exists r, fst pr = tname t :: r) (rel_nodes t).
Proof.
  destruct t as [g n a ks]. cbn [rel_nodes tname]. constructor; [exists []; reflexivity|].
  apply Forall_forall. intros pr Hin. apply in_flat_map in Hin as [k [_ Hin]].
  apply in_map_iff in Hin as [qr [E _]]. subst pr. cbn [fst]. eexists. reflexivity.
Qed.

Lemma NoDup_app_intro {A} (l1 l2 : list A) :
  NoDup l1 -> NoDup l2 -> (forall x, In x l1 -> ~ In x l2) -> NoDup (l1 ++ l2).
Proof.
  induction l1 as [|x l1 IH]; intros H1 H2 Hd; [exact H2|]. inversion H1 as [|? ? Hx H1']; subst.
  cbn [app]. constructor.
  - intros Hin. apply in_app_or in Hin as [Hin|Hin]; [contradiction|]. apply (Hd x); [left; reflexivity|exact Hin].
  - apply IH; [exact H1'|exact H2|]. intros y Hy. apply Hd. right. exact Hy.
Qed.

Lemma NoDup_map_inj_on {A B} (f : A -> B) l :
  (forall x y, In x l -> In y l -> f x = f y -> x = y) -> NoDup l -> NoDup (map f l).
Proof.
  induction l as [|x l IH]; intros Hinj Hn; [constructor|]. inversion Hn as [|? ? Hx Hl]; subst.
  cbn [map]. constructor.
  - intros Hin. apply in_map_iff in Hin as [y [E Hy]]. apply Hx.
    rewrite (Hinj x y); [exact Hy|left; reflexivity|right; exact Hy|symmetry; exact E].
  - apply IH; [|exact Hl]. intros a b Ha Hb. apply Hinj; right; assumption.
Qed.

Lemma rel_paths_nodup t : valid_tree t = true -> NoDup (map fst (rel_nodes t)).
Proof.
  induction t as [g n a ks IH] using tree_ind'. intros Hv.
  apply valid_tree_inv in Hv as [Hok Hks]. apply node_ok_inv in Hok as [_ [Hnames _]].
  cbn [rel_nodes map fst]. rewrite map_flat_map. constructor.
  - intros Hin. apply in_flat_map in Hin as [k [_ Hin]]. rewrite map_map in Hin. cbn [fst] in Hin.
    apply in_map_iff in Hin as [pr [E Hpr]].
    pose proof (rel_nodes_head k) as Hh. rewrite Forall_forall in Hh. destruct (Hh pr Hpr) as [r Er].
    rewrite Er in E. discriminate.
  - assert (IH' : Forall (fun k => NoDup (map fst (rel_nodes k))) ks).
    { rewrite Forall_forall in *. intros k Hk. apply IH; [exact Hk|apply Hks; exact Hk]. }
    clear IH Hks. induction ks as [|k ks IHk]; [constructor|].
    inversion IH' as [|? ? Hk IH'']; subst. cbn [map] in Hnames. inversion Hnames as [|? ? Hkn Hnames']; subst.
    cbn [flat_map]. apply NoDup_app_intro.
    + rewrite map_map. cbn [fst]. rewrite <- (map_map fst (cons n)).
      apply NoDup_map_inj_on; [|exact Hk]. intros x y _ _ E. injection E as E. exact E.
    + apply IHk; assumption.
    + intros x Hx Hx'. rewrite map_map in Hx. cbn [fst] in Hx. apply in_map_iff in Hx as [pr [E Hpr]].
      apply in_flat_map in Hx' as [k' [Hk' Hx']]. rewrite map_map in Hx'. cbn [fst] in Hx'.
      apply in_map_iff in Hx' as [pr' [E' Hpr']].
      pose proof (rel_nodes_head k) as Hh. rewrite Forall_forall in Hh. destruct (Hh pr Hpr) as [r Er].
      pose proof (rel_nodes_head k') as Hh'. rewrite Forall_forall in Hh'. destruct (Hh' pr' Hpr') as [r' Er'].
      rewrite Er in E. rewrite Er' in E'. subst x. injection E' as E'. 
      apply Hkn. rewrite <- E'. apply in_map. exact Hk'.
Qed.

(* names without the separator character *)
Definition names_clean (sp : str) (t : tree) : Prop := Forall (fun n => clean sp (tname n)) (pre t).

Lemma sep_free_nonempty sp t : sep_free sp t = true -> sp <> [].
Proof. unfold sep_free. intros H E. subst sp. discriminate. Qed.

Lemma names_clean_of sp t : valid_tree t = true -> sep_free sp t = true -> names_clean sp t.
Proof.
  unfold valid_tree, sep_free, names_clean. intros Hv Hs. apply andb_true_iff in Hs as [_ Hs].
  rewrite forallb_forall in Hv, Hs. apply Forall_forall. intros n Hn. split.
  - specialize (Hv n Hn). unfold node_ok in Hv. apply andb_true_iff in Hv as [Hv _].
    apply andb_true_iff in Hv as [Hv _]. intros E. rewrite E in Hv. discriminate.
  - specialize (Hs n Hn). rewrite forallb_forall in Hs. intros ch Hch Hin.
    specialize (Hs ch Hch). apply negb_true_iff in Hs. apply memN_false in Hs. contradiction.
Qed.

(* a one-character separator: "occurs in no name" as a substring is the same guard *)
Lemma sep_safe_free c t : sep_safe [c] t = true -> sep_free [c] t = true.
Proof.
  unfold sep_safe, sep_free. cbn [nonempty andb]. intros H. rewrite forallb_forall in H.
  apply forallb_forall. intros n Hn. specialize (H n Hn). apply negb_true_iff in H.
  apply contains_char in H. cbn [forallb]. rewrite andb_true_r. apply negb_true_iff.
  apply memN_false. exact H.
Qed.

Lemma names_clean_inv sp g n a ks : names_clean sp (T g n a ks) ->
  clean sp n /\ Forall (names_clean sp) ks.
Proof.
  unfold names_clean. cbn [pre]. intros H. inversion H as [|? ? Hn Hr]; subst. split; [exact Hn|].
  apply Forall_forall. intros k Hk. apply Forall_forall. intros x Hx.
  rewrite Forall_forall in Hr. apply Hr. apply in_flat_map. exists k. split; assumption.
Qed.

Lemma rel_nodes_clean sp t : names_clean sp t -> Forall (fun pr => Forall (clean sp) (fst pr)) (rel_nodes t).
Proof.
  induction t as [g n a ks IH] using tree_ind'. intros Hc.
  apply names_clean_inv in Hc as [Hn Hks]. cbn [rel_nodes]. constructor; [cbn [fst]; constructor; [exact Hn|constructor]|].
  apply Forall_forall. intros pr Hin. apply in_flat_map in Hin as [k [Hk Hin]].
  apply in_map_iff in Hin as [qr [E Hqr]]. subst pr. cbn [fst]. constructor; [exact Hn|].
  rewrite Forall_forall in IH, Hks. specialize (IH k Hk (Hks k Hk)). rewrite Forall_forall in IH. apply IH. exact Hqr.
Qed.

Lemma rel_nodes_nonempty t : Forall (fun pr => fst pr <> []) (rel_nodes t).
Proof.
  eapply Forall_impl; [|apply rel_nodes_head]. intros pr [r E]. rewrite E. discriminate.
Qed.

(* C06: distinct paths *)
Lemma paths_nodup sp t : valid_tree t = true -> sep_free sp t = true ->
  NoDup (map (c_path sp) (nodes_under [] t)).
Proof.
  intros Hv Hs. rewrite nodes_under_root.
  change (map (c_path sp) (rel_nodes t)) with (map (fun pr => path_name sp (fst pr)) (rel_nodes t)).
  rewrite <- (map_map fst (path_name sp)). apply NoDup_map_inj_on; [|apply rel_paths_nodup; exact Hv].
  intros x y Hx Hy E. apply in_map_iff in Hx as [px [Ex Hx]]. apply in_map_iff in Hy as [py [Ey Hy]].
  pose proof (rel_nodes_clean sp t (names_clean_of sp t Hv Hs)) as Hc. rewrite Forall_forall in Hc.
  pose proof (rel_nodes_nonempty t) as Hn. rewrite Forall_forall in Hn. subst x y.
  pose proof (sep_free_nonempty sp t Hs) as Hsp. apply (path_name_inj sp); auto.
Qed.

(* ---------------------------------------------------------------------------------------------- *)
(* inserting the records of a tree in pre-order rebuilds the tree *)

Definition ins_all (l : list (list str * record)) (t : tree) : tree :=
  fold_left (fun t pr => add_branch (fst pr) (snd pr) t) l t.

Fixpoint rel_recs (f : tree -> record) (t : tree) : list (list str * record) :=
  match t with
  | T _ n _ ks =>
      ([], f t) :: flat_map (fun k => map (fun qr => (tname k :: fst qr, snd qr)) (rel_recs f k)) ks
  end.

Fixpoint rebuild (f : tree -> record) (t : tree) : tree :=
  match t with T _ n _ ks => T None n (f t) (map (rebuild f) ks) end.

Lemma rebuild_name f t : tname (rebuild f t) = tname t.
Proof. destruct t; reflexivity. Qed.

Lemma rel_nodes_recs f t :
  map (fun pr => (fst pr, f (snd pr))) (rel_nodes t)
  = map (fun qr => (tname t :: fst qr, snd qr)) (rel_recs f t).
Proof.
  induction t as [g n a ks IH] using tree_ind'. cbn [rel_nodes rel_recs map fst snd tname]. f_equal.
  rewrite !map_flat_map. apply flat_map_ext_Forall. eapply Forall_impl; [|exact IH].
  intros k Hk. cbn beta. rewrite !map_map. cbn [fst snd].
  rewrite <- (map_map (fun pr => (fst pr, f (snd pr))) (fun qr => (n :: fst qr, snd qr))).
  rewrite Hk, map_map. reflexivity.
Qed.

Lemma rel_recs_clean sp f t : names_clean sp t ->
  Forall (fun qr => Forall (clean sp) (tname t :: fst qr)) (rel_recs f t).
Proof.
  intros Hc. pose proof (rel_nodes_clean sp t Hc) as H.
  assert (H' : Forall (fun pr => Forall (clean sp) (fst pr)) (map (fun pr => (fst pr, f (snd pr))) (rel_nodes t))).
  { apply Forall_forall. intros pr Hin. apply in_map_iff in Hin as [qr [E Hqr]]. subst pr. cbn [fst].
    rewrite Forall_forall in H. apply H. exact Hqr. }
  rewrite rel_nodes_recs in H'. apply Forall_forall. intros qr Hqr. rewrite Forall_forall in H'.
  apply (H' (tname t :: fst qr, snd qr)). apply in_map_iff. exists qr. split; [reflexivity|exact Hqr].
Qed.

Fixpoint upd_first (m : str) (F : tree -> tree) (l : list tree) : list tree :=
  match l with
  | [] => [F (new_node m)]
  | k :: r => if str_eqb (tname k) m then F k :: r else k :: upd_first m F r
  end.

Lemma add_branch_cons m p na g n a ks :
  add_branch (m :: p) na (T g n a ks) = T g n a (upd_first m (add_branch p na) ks).
Proof.
  cbn [add_branch]. f_equal. induction ks as [|k ks IH]; [reflexivity|]. cbn [upd_first].
  destruct (str_eqb (tname k) m); [reflexivity|]. f_equal. exact IH.
Qed.

Lemma upd_first_ext m F G l : (forall x, F x = G x) -> upd_first m F l = upd_first m G l.
Proof.
  intros H. induction l as [|k l IH]; cbn [upd_first]; [rewrite H; reflexivity|].
  destruct (str_eqb (tname k) m); [rewrite H; reflexivity|]. f_equal. exact IH.
Qed.

Lemma upd_first_twice m F G l : (forall x, tname (F x) = tname x) ->
  upd_first m G (upd_first m F l) = upd_first m (fun x => G (F x)) l.
Proof.
  intros HF. induction l as [|k l IH]; cbn [upd_first].
  - rewrite HF. cbn [new_node tname]. rewrite str_eqb_refl. reflexivity.
  - destruct (str_eqb (tname k) m) eqn:E; cbn [upd_first].
    + rewrite HF, E. reflexivity.
    + rewrite E. f_equal. exact IH.
Qed.

Lemma upd_first_fresh m F l : ~ In m (map tname l) -> upd_first m F l = l ++ [F (new_node m)].
Proof.
  induction l as [|k l IH]; intros H; [reflexivity|]. cbn [upd_first].
  destruct (str_eqb (tname k) m) eqn:E.
  - apply str_eqb_eq in E. exfalso. apply H. left. exact E.
  - cbn [app]. f_equal. apply IH. intros Hin. apply H. right. exact Hin.
Qed.

Lemma ins_all_name l : forall t, tname (ins_all l t) = tname t.
Proof.
  induction l as [|x l IH]; intros t; [reflexivity|]. unfold ins_all. cbn [fold_left].
  fold (ins_all l (add_branch (fst x) (snd x) t)). rewrite IH. apply add_branch_name.
Qed.

Lemma ins_all_app l1 l2 t : ins_all (l1 ++ l2) t = ins_all l2 (ins_all l1 t).
Proof. unfold ins_all. apply fold_left_app. Qed.

Lemma ins_all_cons x l t : ins_all (x :: l) t = ins_all l (add_branch (fst x) (snd x) t).
Proof. reflexivity. Qed.

(* a block of records below the child called m only touches that child *)
Lemma ins_block m L : forall x g n a cs,
  ins_all (map (fun qr => (m :: fst qr, snd qr)) (x :: L)) (T g n a cs)
  = T g n a (upd_first m (ins_all (x :: L)) cs).
Proof.
  induction L as [|y L IH]; intros x g n a cs.
  - cbn [map]. rewrite ins_all_cons. cbn [fst snd ins_all fold_left]. rewrite add_branch_cons. reflexivity.
  - change (map (fun qr => (m :: fst qr, snd qr)) (x :: y :: L))
      with ((m :: fst x, snd x) :: map (fun qr => (m :: fst qr, snd qr)) (y :: L)).
    rewrite ins_all_cons. cbn [fst snd]. rewrite add_branch_cons, IH. f_equal.
    rewrite upd_first_twice by (intros z; apply add_branch_name).
    apply upd_first_ext. intros z. reflexivity.
Qed.

Lemma rel_recs_cons f t : exists x L, rel_recs f t = x :: L.
Proof. destruct t. cbn [rel_recs]. eexists. eexists. reflexivity. Qed.

Lemma kids_loop f g n a ks : forall done,
  NoDup (map tname (done ++ ks)) ->
  Forall (fun k => ins_all (rel_recs f k) (new_node (tname k)) = rebuild f k) ks ->
  ins_all (flat_map (fun k => map (fun qr => (tname k :: fst qr, snd qr)) (rel_recs f k)) ks) (T g n a done)
  = T g n a (done ++ map (rebuild f) ks).
Proof.
  induction ks as [|k ks IH]; intros done Hnd HF.
  - cbn. rewrite app_nil_r. reflexivity.
  - inversion HF as [|? ? Hk HF']; subst. cbn [flat_map]. rewrite ins_all_app.
    destruct (rel_recs_cons f k) as [x [L E]]. rewrite E, ins_block, <- E.
    rewrite upd_first_fresh.
    + rewrite Hk, IH.
      * rewrite <- app_assoc. reflexivity.
      * rewrite <- app_assoc. cbn [app]. rewrite !map_app in *. cbn [map] in *. rewrite rebuild_name. exact Hnd.
      * exact HF'.
    + rewrite map_app in Hnd. cbn [map] in Hnd. apply NoDup_remove_2 in Hnd.
      intros Hin. apply Hnd. apply in_or_app. left. exact Hin.
Qed.

Lemma rebuild_from_records f t :
  valid_tree t = true ->
  (forall x, NoDup (map fst (tattrs x)) -> NoDup (map fst (f x))) ->
  forall a0, dict_update a0 (f t) = f t ->
  ins_all (rel_recs f t) (T None (tname t) a0 []) = rebuild f t.
Proof.
  intros Hv Hf. induction t as [g n a ks IH] using tree_ind'. intros a0 Ha0.
  apply valid_tree_inv in Hv as [Hok Hks]. apply node_ok_inv in Hok as [_ [Hnames _]].
  cbn [rel_recs tname]. rewrite ins_all_cons. cbn [fst snd add_branch set_attrs]. rewrite Ha0.
  rewrite kids_loop; [reflexivity|exact Hnames|].
  rewrite Forall_forall in *. intros k Hk. apply IH; [exact Hk|apply Hks; exact Hk|].
  pose proof (Hks k Hk) as Hvk. destruct k as [g' n' a' ks']. apply valid_tree_inv in Hvk as [Hok' _].
  apply node_ok_inv in Hok' as [_ [_ Ha']]. apply (dict_of_nodup (f (T g' n' a' ks'))). apply Hf. exact Ha'.
Qed.

Lemma norm_tree_rebuild dn t : norm_tree dn t = rebuild (fun x => norm_attrs dn (tattrs x)) t.
Proof.
  induction t as [g n a ks IH] using tree_ind'. cbn [norm_tree rebuild tattrs]. f_equal.
  apply map_ext_in. intros k Hk. rewrite Forall_forall in IH. apply IH. exact Hk.
Qed.

Lemma norm_attrs_keys_nodup dn a : NoDup (map fst a) -> NoDup (map fst (norm_attrs dn a)).
Proof. intros H. unfold norm_attrs. apply filter_keys_nodup. apply sort_keys_nodup. exact H. Qed.

(* the loop of dict_to_tree / dataframe_to_tree over well-formed path strings *)
Lemma add_paths_ok sp r items : sp <> [] -> forall t0,
  tname t0 = r -> Forall (fun qr => Forall (clean sp) (r :: fst qr)) items ->
  add_paths sp (map (fun qr => (path_name sp (r :: fst qr), snd qr)) items) t0 = Ret (ins_all items t0).
Proof.
  intros Hsp. induction items as [|x items IH]; intros t0 Hr HF; [reflexivity|].
  inversion HF as [|? ? Hx HF']; subst. cbn [map add_paths fst snd].
  rewrite (add_path_to_tree_ok sp t0 (tname t0)) by (try reflexivity; assumption).
  rewrite ins_all_cons. apply IH; [|exact HF']. apply add_branch_name.
Qed.

(* ---------------------------------------------------------------------------------------------- *)
(* dict round trip *)

Lemma filter_true {A} (p : A -> bool) l : (forall x, p x = true) -> filter p l = l.
Proof.
  intros H. induction l as [|x l IH]; [reflexivity|]. cbn [filter]. rewrite H, IH. reflexivity.
Qed.

Lemma selected_full cn : selected full_opts cn = true.
Proof. reflexivity. Qed.

Lemma rel_nodes_in_pre t pr : In pr (rel_nodes t) -> In (snd pr) (pre t).
Proof.
  rewrite <- nodes_under_root. unfold nodes_under. destruct pr as [p x]. intros H.
  apply in_combine_r in H. exact H.
Qed.

Lemma valid_node_attrs t x : valid_tree t = true -> In x (pre t) -> NoDup (map fst (tattrs x)).
Proof.
  unfold valid_tree. intros Hv Hx. rewrite forallb_forall in Hv. specialize (Hv x Hx).
  destruct x as [g n a ks]. apply node_ok_inv in Hv as [_ [_ Ha]]. exact Ha.
Qed.

Definition full_record (x : tree) : record := (s_name, VStr (tname x)) :: describe x.

Lemma dict_record_full cn : NoDup (map fst (tattrs (snd cn))) -> dict_record full_opts cn = full_record (snd cn).
Proof.
  intros H. unfold dict_record, full_record. cbn [full_opts o_name_key o_parent_key field app].
  unfold requested. cbn [o_all_attrs]. apply dict_of_nodup. cbn [map fst]. constructor.
  - apply describe_no_name.
  - apply describe_keys_nodup. exact H.
Qed.

Lemma tree_to_dict_full sp t : valid_tree t = true -> sep_free sp t = true ->
  tree_to_dict t sp [] full_opts
  = Ret (map (fun pr => (path_name sp (fst pr), full_record (snd pr))) (rel_nodes t)).
Proof.
  intros Hv Hs. rewrite (tree_to_dict_map t sp [] full_opts (nodes_under [] t)).
  - rewrite filter_true by apply selected_full. rewrite nodes_under_root. f_equal.
    apply map_ext_in. intros pr Hpr. unfold c_path, path_name. f_equal. apply dict_record_full.
    apply (valid_node_attrs t); [exact Hv|]. apply rel_nodes_in_pre. exact Hpr.
  - reflexivity.
  - rewrite filter_true by apply selected_full. apply paths_nodup; assumption.
Qed.

Lemma dict_del_full x : dict_del s_name (full_record x) = describe x.
Proof.
  unfold full_record, dict_del. cbn [filter fst]. rewrite str_eqb_refl. cbn [negb].
  apply (dict_del_absent s_name (describe x)). apply describe_no_name.
Qed.


Lemma get_or_none k d other : @dict_get record k d = None -> get_or k d other = other.
Proof. intros H. unfold get_or. rewrite H. reflexivity. Qed.

Lemma get_or_hit k d x r other : @dict_get record k d = Some (x :: r) -> get_or k d other = x :: r.
Proof. intros H. unfold get_or. rewrite H. reflexivity. Qed.

Lemma clean_not_prefixed sp r s : sp <> [] -> clean sp r -> r <> sp ++ s.
Proof.
  intros Hsp [_ Hf] E. destruct sp as [|a sp']; [contradiction|]. apply (Hf a (or_introl eq_refl)).
  rewrite E. left. reflexivity.
Qed.

Lemma dict_to_tree_gen sp r R0 d' :
  sp <> [] -> clean sp r -> R0 <> [] ->
  (forall k, In k (map fst d') -> exists s, k = sp ++ s) ->
  dict_to_tree ((path_name sp [r], R0) :: d') sp
  = add_paths sp (map (fun pa => (fst pa, dict_del s_name (snd pa))) ((path_name sp [r], R0) :: d'))
              (T None r (dict_del s_name R0) []).
Proof.
  intros Hsp Hr HR Hk. unfold dict_to_tree. cbv zeta.
  assert (Hb : branch_of (path_name sp [r]) sp = [r]).
  { apply branch_of_path; [exact Hsp|discriminate|]. constructor; [exact Hr|constructor]. }
  rewrite Hb.
  cbn [hd].
  assert (Hnone : dict_get r ((path_name sp [r], R0) :: d') = None).
  { apply dict_get_none. intros Hin. cbn [map fst] in Hin. destruct Hin as [E|Hin].
    - apply (clean_not_prefixed sp r r Hsp Hr). symmetry. exact E.
    - destruct (Hk r Hin) as [s E]. apply (clean_not_prefixed sp r s Hsp Hr). exact E. }
  rewrite get_or_none by exact Hnone. destruct Hr as [Hne Hcr].
  destruct R0 as [|x R0]; [contradiction|].
  rewrite (get_or_hit (sp ++ r) _ x R0).
  - destruct r as [|y r]; [contradiction|]. reflexivity.
  - cbn [dict_get]. change (path_name sp [r]) with (sp ++ r). rewrite str_eqb_refl. reflexivity.
Qed.

Lemma dict_to_tree_export sp t : valid_tree t = true -> sep_free sp t = true ->
  dict_to_tree (map (fun pr => (path_name sp (fst pr), full_record (snd pr))) (rel_nodes t)) sp
  = Ret (norm_tree false t).
Proof.
  intros Hv Hs. pose proof (names_clean_of sp t Hv Hs) as Hc. pose proof (sep_free_nonempty sp t Hs) as Hsp.
  assert (Hmap : map (fun pa => (fst pa, dict_del s_name (snd pa)))
                   (map (fun pr => (path_name sp (fst pr), full_record (snd pr))) (rel_nodes t))
                 = map (fun qr => (path_name sp (tname t :: fst qr), snd qr)) (rel_recs describe t)).
  { rewrite map_map. cbn [fst snd].
    rewrite (map_ext _ (fun pr => (path_name sp (fst pr), describe (snd pr)))) by (intros pr; rewrite dict_del_full; reflexivity).
    rewrite <- (map_map (fun pr => (fst pr, describe (snd pr))) (fun z => (path_name sp (fst z), snd z))).
    rewrite rel_nodes_recs, map_map. reflexivity. }
  assert (Ha : NoDup (map fst (tattrs t))) by (apply (valid_node_attrs t); [exact Hv|destruct t; left; reflexivity]).
  destruct t as [g r a ks].
  pose proof Hc as Hc'. apply names_clean_inv in Hc' as [Hr _].
  set (G := fun pr : list str * tree => (path_name sp (fst pr), full_record (snd pr))) in *.
  change (map G (rel_nodes (T g r a ks)))
    with ((path_name sp [r], full_record (T g r a ks))
            :: map G (flat_map (fun k => map (fun pr => (r :: fst pr, snd pr)) (rel_nodes k)) ks)) at 1.
  rewrite dict_to_tree_gen.
  - change ((path_name sp [r], full_record (T g r a ks))
            :: map G (flat_map (fun k => map (fun pr => (r :: fst pr, snd pr)) (rel_nodes k)) ks))
      with (map G (rel_nodes (T g r a ks))).
    rewrite Hmap, dict_del_full. cbn [tname]. rewrite (add_paths_ok sp r).
    + f_equal. cbn [tattrs] in Ha. rewrite (rebuild_from_records describe (T g r a ks)).
      * rewrite norm_tree_rebuild. clear. induction (T g r a ks) as [g' n' a' ks' IH] using tree_ind'.
        cbn [rebuild tattrs]. f_equal; [symmetry; apply norm_attrs_false|].
        apply map_ext_in. intros k Hk. rewrite Forall_forall in IH. apply IH. exact Hk.
      * exact Hv.
      * intros x. apply describe_keys_nodup.
      * apply dict_update_present; [apply describe_keys_nodup; exact Ha|apply incl_refl].
    + exact Hsp.
    + reflexivity.
    + apply (rel_recs_clean sp describe (T g r a ks)). exact Hc.
  - exact Hsp.
  - exact Hr.
  - discriminate.
  - intros k Hin. rewrite map_map in Hin. cbn [fst] in Hin. apply in_map_iff in Hin as [pr [E _]].
    subst k. eexists. reflexivity.
Qed.

Theorem rt_dict_ok sp t : valid_tree t = true -> sep_free sp t = true ->
  rt_dict t sp = Ret (norm_tree false t).
Proof.
  intros Hv Hs. unfold rt_dict. rewrite tree_to_dict_full by assumption. cbn [bind].
  apply dict_to_tree_export; assumption.
Qed.

(* ---------------------------------------------------------------------------------------------- *)
(* the boolean property on the model's (canonicalised) outputs *)

Lemma list_eqb_refl {A} (e : A -> A -> bool) l : (forall x, e x x = true) -> list_eqb e l l = true.
Proof. intros H. induction l as [|x l IH]; [reflexivity|]. cbn [list_eqb]. rewrite H, IH. reflexivity. Qed.

Lemma record_eqb_refl r : record_eqb r r = true.
Proof. apply (attrs_eqb_refl r). Qed.

Lemma pathrec_eqb_refl x : pathrec_eqb x x = true.
Proof. unfold pathrec_eqb. rewrite str_eqb_refl, record_eqb_refl. reflexivity. Qed.

Theorem prop_dict_model root sep p o :
  prop_C06_dict root sep p o (res_map canon_dict (tree_to_dict root sep p o)) = true.
Proof.
  unfold prop_C06_dict. rewrite tree_to_dict_spec. destruct (spec_dict root sep p o) as [d|]; [|reflexivity].
  cbn [option_map res_map opt_agree]. apply list_eqb_refl. apply pathrec_eqb_refl.
Qed.

Theorem prop_frame_model root sep p o :
  prop_C06_frame root sep p o (res_map canon_rows (tree_to_dataframe root sep p o)) = true.
Proof.
  unfold prop_C06_frame. rewrite tree_to_dataframe_spec. destruct (spec_frame root sep p o) as [d|]; [|reflexivity].
  cbn [option_map res_map opt_agree]. apply list_eqb_refl. apply record_eqb_refl.
Qed.

Theorem prop_nested_model root p o : subtree_at root p <> None ->
  prop_C06_nested root p o (res_map canon_nested (tree_to_nested_dict root p o)) = true.
Proof.
  intros Hp. unfold prop_C06_nested. rewrite tree_to_nested_dict_spec.
  destruct (subtree_at root p) as [t|]; [|contradiction].
  destruct (spec_nested root p o) as [d|]; [|reflexivity].
  cbn [option_map res_map opt_agree]. apply tree_eqb_refl.
Qed.

Theorem prop_rt_dict_multi sp t : sep_free sp t = true -> prop_rt_path false sp t (rt_dict t sp) = true.
Proof.
  intros Hs. unfold prop_rt_path. destruct (valid_tree t) eqn:Hv; [|reflexivity].
  rewrite rt_dict_ok by assumption. rewrite same_tree_norm by exact Hv.
  destruct (true && sep_safe sp t && (negb false || frame_safe t)); reflexivity.
Qed.

Theorem prop_rt_dict_model c t : prop_rt_path false [c] t (rt_dict t [c]) = true.
Proof.
  destruct (sep_safe [c] t) eqn:Hs; [apply prop_rt_dict_multi, sep_safe_free; exact Hs|].
  unfold prop_rt_path. rewrite Hs, andb_false_r. reflexivity.
Qed.

Theorem prop_rt_nested_model t : prop_rt_nested t (rt_nested t) = true.
Proof.
  unfold prop_rt_nested. destruct (valid_tree t) eqn:Hv; [|reflexivity].
  rewrite rt_nested_ok by exact Hv. apply same_tree_norm. exact Hv.
Qed.

(* ---------------------------------------------------------------------------------------------- *)
(* more dict facts: keys of dict_set / dict_update *)

Section DictKeys.
  Context {V : Type}.
  Implicit Types d items : list (str * V).

  Lemma dict_set_keys k (v : V) d x :
    In x (map fst (dict_set k v d)) <-> x = k \/ In x (map fst d).
  Proof.
    induction d as [|[k' v'] d IH]; cbn [dict_set map fst].
    - split; [intros [E|[]]; left; symmetry; exact E|intros [E|[]]; left; symmetry; exact E].
    - destruct (str_eqb k k') eqn:E; cbn [map fst In].
      + apply str_eqb_eq in E. subst k'. split.
        * intros [H|H]; [left; symmetry; exact H|right; right; exact H].
        * intros [H|[H|H]]; [left; symmetry; exact H|left; exact H|right; exact H].
      + rewrite IH. split.
        * intros [H|[H|H]]; [right; left; exact H|left; exact H|right; right; exact H].
        * intros [H|[H|H]]; [right; left; exact H|left; exact H|right; right; exact H].
  Qed.

  Lemma dict_set_nodup k (v : V) d : NoDup (map fst d) -> NoDup (map fst (dict_set k v d)).
  Proof.
    induction d as [|[k' v'] d IH]; intros H; cbn [dict_set map fst].
    - constructor; [intros []|constructor].
    - cbn [map fst] in H. inversion H as [|? ? Hk Hd]; subst. destruct (str_eqb k k') eqn:E; cbn [map fst].
      + apply str_eqb_eq in E. subst k'. constructor; assumption.
      + constructor; [|apply IH; exact Hd]. rewrite dict_set_keys. intros [H1|H1]; [|contradiction].
        subst k'. rewrite str_eqb_refl in E. discriminate.
  Qed.

  Lemma dict_update_keys items : forall d x,
    In x (map fst (dict_update d items)) <-> In x (map fst d) \/ In x (map fst items).
  Proof.
    induction items as [|[k v] items IH]; intros d x.
    - cbn. tauto.
    - unfold dict_update. cbn [fold_left fst snd]. fold (dict_update (dict_set k v d) items).
      rewrite IH, dict_set_keys. cbn [map fst]. split.
      + intros [[H|H]|H]; [right; left; symmetry; exact H|left; exact H|right; right; exact H].
      + intros [H|[H|H]]; [left; right; exact H|left; left; symmetry; exact H|right; exact H].
  Qed.

  Lemma dict_update_nodup items : forall d, NoDup (map fst d) -> NoDup (map fst (dict_update d items)).
  Proof.
    induction items as [|[k v] items IH]; intros d H; [exact H|].
    unfold dict_update. cbn [fold_left fst snd]. fold (dict_update (dict_set k v d) items).
    apply IH. apply dict_set_nodup. exact H.
  Qed.

  Lemma dict_set_head k (v : V) k0 v0 d : exists v1 d1, dict_set k v ((k0, v0) :: d) = (k0, v1) :: d1.
  Proof.
    cbn [dict_set]. destruct (str_eqb k k0) eqn:E.
    - apply str_eqb_eq in E. subst. eexists. eexists. reflexivity.
    - eexists. eexists. reflexivity.
  Qed.

  Lemma dict_update_head items : forall k0 (v0 : V) d,
    exists v1 d1, dict_update ((k0, v0) :: d) items = (k0, v1) :: d1.
  Proof.
    induction items as [|[k v] items IH]; intros k0 v0 d.
    - eexists. eexists. reflexivity.
    - unfold dict_update. cbn [fold_left fst snd]. destruct (dict_set_head k v k0 v0 d) as [v1 [d1 E]].
      rewrite E. apply IH.
  Qed.

  Lemma dict_get_some_in k (v : V) d : dict_get k d = Some v -> In (k, v) d.
  Proof.
    induction d as [|[k' v'] d IH]; intros H; [discriminate|]. cbn [dict_get] in H.
    destruct (str_eqb k k') eqn:E.
    - apply str_eqb_eq in E. injection H as ->. subst. left. reflexivity.
    - right. apply IH. exact H.
  Qed.
End DictKeys.

(* ---------------------------------------------------------------------------------------------- *)
(* frames *)

Definition lookup (col : str) (r : record) : val :=
  match dict_get col r with Some v => v | None => VNone end.
Definition fill (cols : list str) (r : record) : record := map (fun col => (col, lookup col r)) cols.

Lemma frame_of_fill rows : frame_columns rows <> [] -> frame_of rows = map (fill (frame_columns rows)) rows.
Proof. intros H. unfold frame_of. destruct (frame_columns rows) as [|c0 cs]; [contradiction|reflexivity]. Qed.

Lemma dict_get_fill k cols r : In k cols -> dict_get k (fill cols r) = Some (lookup k r).
Proof.
  induction cols as [|col cols IH]; intros H; [destruct H|]. cbn [fill map dict_get].
  destruct (str_eqb k col) eqn:E.
  - apply str_eqb_eq in E. subst. reflexivity.
  - apply IH. destruct H as [H|H]; [subst; rewrite str_eqb_refl in E; discriminate|exact H].
Qed.

Lemma dict_del_fill k cols r :
  dict_del k (fill cols r) = fill (filter (fun col => negb (str_eqb col k)) cols) r.
Proof.
  induction cols as [|col cols IH]; [reflexivity|]. unfold dict_del, fill in *. cbn [map filter fst].
  destruct (str_eqb col k); cbn [negb map]; [exact IH|]. f_equal. exact IH.
Qed.

Lemma fill_keys cols r : map fst (fill cols r) = cols.
Proof. unfold fill. rewrite map_map. cbn [fst]. apply map_id. Qed.

Lemma frame_columns_head k0 v0 r0 rest :
  exists cols', frame_columns (((k0, v0) :: r0) :: rest) = k0 :: cols'.
Proof.
  unfold frame_columns, dict_of. cbn [concat app]. unfold dict_update at 1. cbn [fold_left fst snd dict_set].
  destruct (dict_update_head (r0 ++ concat rest) k0 v0 []) as [v1 [d1 E]].
  unfold dict_update in E. rewrite E. eexists. reflexivity.
Qed.

Lemma frame_columns_nodup rows : NoDup (frame_columns rows).
Proof. unfold frame_columns, dict_of. apply dict_update_nodup. constructor. Qed.

Lemma frame_columns_in rows r k : In r rows -> In k (map fst r) -> In k (frame_columns rows).
Proof.
  intros Hr Hk. unfold frame_columns, dict_of. apply dict_update_keys. right.
  apply in_map_iff in Hk as [kv [E Hkv]]. apply in_map_iff. exists kv. split; [exact E|].
  apply in_concat. exists r. split; assumption.
Qed.

(* paths without the leading separator (what is left after pandas' str.lstrip) *)
Lemma strip_path_join sp w ws : Forall (clean sp) (w :: ws) ->
  strip_path (join sp (w :: ws)) sp = join sp (w :: ws).
Proof.
  intros HF. unfold strip_path. inversion HF as [|? ? Hw _]; subst.
  assert (E : lstrip (join sp (w :: ws)) sp = join sp (w :: ws)).
  { destruct ws as [|w2 ws].
    - cbn [join]. rewrite <- (app_nil_r w). apply lstrip_stop. exact Hw.
    - rewrite join_cons. apply lstrip_stop. exact Hw. }
  rewrite E. apply (rstrip_join_multi sp (w :: ws) []); [discriminate|exact HF].
Qed.

Lemma branch_of_join sp l : sp <> [] -> l <> [] -> Forall (clean sp) l -> branch_of (join sp l) sp = l.
Proof.
  intros Hsp Hne HF. destruct l as [|w ws]; [contradiction|].
  unfold branch_of. rewrite strip_path_join by exact HF. apply split_join_any; [exact Hsp|discriminate|].
  apply clean_sfree. exact HF.
Qed.

Lemma join_not_empty sp w ws : clean sp w -> is_empty (join sp (w :: ws)) = false.
Proof.
  intros [Hw _]. destruct w as [|x w]; [contradiction|]. destruct ws; [reflexivity|]. rewrite join_cons. reflexivity.
Qed.

Lemma join_inj sp l1 l2 : sp <> [] -> l1 <> [] -> l2 <> [] -> Forall (clean sp) l1 -> Forall (clean sp) l2 ->
  join sp l1 = join sp l2 -> l1 = l2.
Proof.
  intros Hsp N1 N2 H1 H2 E.
  rewrite <- (branch_of_join sp l1 Hsp N1 H1), <- (branch_of_join sp l2 Hsp N2 H2), E. reflexivity.
Qed.

Lemma add_path_join_ok sp t r rest na :
  sp <> [] -> tname t = r -> Forall (clean sp) (r :: rest) ->
  add_path_to_tree t (join sp (r :: rest)) sp na = Ret (add_branch rest na t).
Proof.
  intros Hsp Hr HF. unfold add_path_to_tree. rewrite branch_of_join by (try discriminate; assumption).
  inversion HF as [|? ? Hcr HF']; subst. rewrite join_not_empty by exact Hcr.
  rewrite str_eqb_refl. cbn [negb]. rewrite (no_empty_component sp) by exact HF'. reflexivity.
Qed.

Lemma add_paths_join_ok sp r items : sp <> [] -> forall t0,
  tname t0 = r -> Forall (fun qr => Forall (clean sp) (r :: fst qr)) items ->
  add_paths sp (map (fun qr => (join sp (r :: fst qr), snd qr)) items) t0 = Ret (ins_all items t0).
Proof.
  intros Hsp. induction items as [|x items IH]; intros t0 Hr HF; [reflexivity|].
  inversion HF as [|? ? Hx HF']; subst. cbn [map add_paths fst snd].
  rewrite (add_path_join_ok sp t0 (tname t0)) by (try reflexivity; assumption).
  rewrite ins_all_cons. apply IH; [|exact HF']. apply add_branch_name.
Qed.

(* ---------------------------------------------------------------------------------------------- *)
(* dataframe_to_tree on a frame whose first column holds well-formed paths *)

Definition stripped_of (pc sep : str) (rows : list record) : list (str * record) :=
  map (fun r => (match dict_get pc r with
                 | Some (VStr p) => strip_path p sep
                 | _ => []
                 end, dict_del pc r)) rows.

Definition df_body (pc sep : str) (rows : list record) : res tree :=
  if existsb (fun r => match dict_get pc r with Some (VStr _) => false | _ => true end) rows
  then Raise Unmodelled else
  if dup_conflict (stripped_of pc sep rows) then Raise ValueError else
  match stripped_of pc sep rows with
  | [] => Raise ValueError
  | (p0, _) :: _ =>
      let root_name := hd [] (split p0 sep) in
      let root_attrs :=
        match filter (fun pa => str_eqb (fst pa) root_name) (stripped_of pc sep rows) with
        | (_, a) :: _ => row_attrs pc a
        | [] => []
        end in
      if is_empty root_name then Raise TreeError else
      add_paths sep (map (fun pa => (fst pa, row_attrs pc (snd pa))) (stripped_of pc sep rows))
                (T None root_name root_attrs [])
  end.

Lemma dataframe_to_tree_unfold rows pc v0 r0 rest sep :
  rows = ((pc, v0) :: r0) :: rest -> dataframe_to_tree rows sep = df_body pc sep rows.
Proof. intros ->. reflexivity. Qed.

Lemma dup_conflict_nodup (l : list (str * record)) : NoDup (map fst l) -> dup_conflict l = false.
Proof.
  induction l as [|[p a] l IH]; intros H; [reflexivity|]. cbn [map fst] in H. inversion H as [|? ? Hp Hl]; subst.
  cbn [dup_conflict]. rewrite IH by exact Hl. rewrite orb_false_r.
  destruct (existsb (fun qb => str_eqb (fst qb) p && negb (record_eqb (snd qb) a)) l) eqn:E; [|reflexivity].
  apply existsb_exists in E as [[q b] [Hin Hq]]. cbn [fst snd] in Hq. apply andb_true_iff in Hq as [Hq _].
  apply str_eqb_eq in Hq. subst q. exfalso. apply Hp. apply in_map_iff. exists (p, b). split; [reflexivity|exact Hin].
Qed.

Lemma existsb_false_forall {A} (p : A -> bool) l : (forall x, In x l -> p x = false) -> existsb p l = false.
Proof.
  induction l as [|x l IH]; intros H; [reflexivity|]. cbn [existsb]. rewrite H by (left; reflexivity).
  apply IH. intros y Hy. apply H. right. exact Hy.
Qed.

Section FrameImport.
  Variable sp : str.
  Hypothesis Hsp : sp <> [].

  Lemma dataframe_to_tree_gen (F : list str * tree -> record) (f : tree -> record) r x0 xs' xs0 :
    xs0 = ([r], x0) :: xs' ->
    let xs := xs0 in
    (forall pr, In pr xs -> exists rest, F pr = (s_path, VStr (path_name sp (fst pr))) :: rest) ->
    (forall pr, In pr xs -> row_attrs s_path (dict_del s_path (F pr)) = f (snd pr)) ->
    (forall pr, In pr xs -> fst pr <> [] /\ Forall (clean sp) (fst pr)) ->
    NoDup (map fst xs) ->
    dataframe_to_tree (map F xs) sp
    = add_paths sp (map (fun pr => (join sp (fst pr), f (snd pr))) xs) (T None r (f x0) []).
  Proof.
    intros -> xs. intros HF Hf Hc Hnd.
    destruct (HF ([r], x0) (or_introl eq_refl)) as [rest0 E0].
    rewrite (dataframe_to_tree_unfold (map F xs) s_path (VStr (path_name sp [r])) rest0 (map F xs') sp)
      by (unfold xs; cbn [map]; rewrite E0; reflexivity).
    assert (Hs : stripped_of s_path sp (map F xs)
                 = map (fun pr => (join sp (fst pr), dict_del s_path (F pr))) xs).
    { unfold stripped_of. rewrite map_map. apply map_ext_in. intros pr Hpr.
      destruct (HF pr Hpr) as [rest E]. rewrite E. cbn [dict_get]. rewrite str_eqb_refl. rewrite <- E.
      destruct (Hc pr Hpr) as [Hne Hcl]. destruct (fst pr) as [|w ws] eqn:Ep; [contradiction|].
      rewrite strip_path_ok by exact Hcl. reflexivity. }
    unfold df_body. rewrite Hs.
    assert (He : existsb (fun r1 => match dict_get s_path r1 with Some (VStr _) => false | _ => true end) (map F xs) = false).
    { apply existsb_false_forall. intros r1 Hin.
      apply in_map_iff in Hin as [pr [Epr Hpr]]. destruct (HF pr Hpr) as [rest E]. subst r1. rewrite E.
      cbn [dict_get]. rewrite str_eqb_refl. reflexivity. }
    rewrite He.
    assert (Hd : dup_conflict (map (fun pr => (join sp (fst pr), dict_del s_path (F pr))) xs) = false).
    { apply dup_conflict_nodup. rewrite map_map. cbn [fst]. rewrite <- (map_map fst (join sp)).
      apply NoDup_map_inj_on; [|exact Hnd]. intros a b Ha Hb Eab.
      apply in_map_iff in Ha as [pa [Ea Ha]]. apply in_map_iff in Hb as [pb [Eb Hb]]. subst a b.
      destruct (Hc pa Ha) as [Na Ca]. destruct (Hc pb Hb) as [Nb Cb]. apply (join_inj sp); assumption. }
    rewrite Hd. unfold xs at 1. cbn [map fst snd join]. cbv zeta.
    destruct (Hc ([r], x0) (or_introl eq_refl)) as [_ Hr]. cbn [fst] in Hr. inversion Hr as [|? ? Hcr _]; subst.
    assert (Hspl : split r sp = [r]).
    { apply (split_join_any sp [r]); [exact Hsp|discriminate|]. constructor; [destruct Hcr as [_ H]; exact H|constructor]. }
    rewrite Hspl. cbn [hd].
    assert (Hfil : filter (fun pa : str * record => str_eqb (fst pa) r)
                     (map (fun pr : list str * tree => (join sp (fst pr), dict_del s_path (F pr))) xs)
                   = (r, dict_del s_path (F ([r], x0)))
                       :: filter (fun pa : str * record => str_eqb (fst pa) r)
                            (map (fun pr : list str * tree => (join sp (fst pr), dict_del s_path (F pr))) xs')).
    { unfold xs. cbn [map filter fst snd join]. rewrite str_eqb_refl. reflexivity. }
    rewrite Hfil. rewrite (Hf ([r], x0) (or_introl eq_refl)). cbn [snd].
    destruct Hcr as [Hne _]. destruct r as [|y r]; [contradiction|]. cbn [is_empty nonempty negb].
    f_equal. rewrite map_map. cbn [fst snd]. apply map_ext_in. intros pr Hpr. rewrite Hf by exact Hpr. reflexivity.
  Qed.
End FrameImport.

(* ---------------------------------------------------------------------------------------------- *)
(* frame round trip *)

Lemma describe_keys_sub x k : In k (map fst (describe x)) -> In k (map fst (tattrs x)).
Proof.
  intros H. apply in_map_iff in H as [kv [E Hin]]. unfold describe in Hin. apply filter_In in Hin as [Hin _].
  apply in_map_iff. exists kv. split; [exact E|]. eapply Permutation_in; [apply sort_items_perm|exact Hin].
Qed.

Lemma frame_safe_node t x : frame_safe t = true -> In x (pre t) -> ~ In s_path (map fst (tattrs x)).
Proof.
  unfold frame_safe. intros H Hx. rewrite forallb_forall in H. specialize (H x Hx). apply negb_true_iff in H.
  intros Hin. assert (E : existsb (str_eqb s_path) (map fst (tattrs x)) = true).
  { apply existsb_exists. exists s_path. split; [exact Hin|apply str_eqb_refl]. }
  congruence.
Qed.

Lemma rel_nodes_snd t : map snd (rel_nodes t) = pre t.
Proof.
  rewrite <- nodes_under_root. unfold nodes_under.
  assert (H : forall (l1 : list (list str)) (l2 : list tree), length l1 = length l2 -> map snd (combine l1 l2) = l2).
  { induction l1 as [|a l1 IH]; intros [|b l2] E; try discriminate; [reflexivity|]. cbn. f_equal. apply IH.
    injection E as E. exact E. }
  apply H. apply paths_from_length.
Qed.

Lemma row_attrs_fill_ext p cs r1 r2 :
  (forall k, In k cs -> k <> s_name -> k <> p -> lookup k r1 = lookup k r2) ->
  row_attrs p (fill cs r1) = row_attrs p (fill cs r2).
Proof.
  induction cs as [|k cs IH]; intros H; [reflexivity|]. unfold row_attrs, fill in *. cbn [map filter fst snd].
  rewrite IH by (intros k' Hk'; apply H; right; exact Hk').
  destruct (str_eqb k s_name) eqn:E1.
  { cbn [negb andb]. rewrite !andb_false_r. reflexivity. }
  destruct (str_eqb k p) eqn:E2.
  { cbn [negb andb]. rewrite !andb_false_r. reflexivity. }
  rewrite (H k) by (try (left; reflexivity); apply str_eqb_neq; assumption). reflexivity.
Qed.

Lemma rel_nodes_shape t : exists xs', rel_nodes t = ([tname t], t) :: xs'.
Proof. destruct t as [g n a ks]. cbn [rel_nodes tname]. eexists. reflexivity. Qed.

Section FrameRT.
  Variable sp : str.

  Definition frame_full (pr : list str * tree) : record :=
    (s_path, VStr (path_name sp (fst pr))) :: (s_name, VStr (tname (snd pr))) :: describe (snd pr).

  Lemma frame_record_full pr :
    NoDup (map fst (tattrs (snd pr))) -> ~ In s_path (map fst (tattrs (snd pr))) ->
    frame_record full_opts sp pr = frame_full pr.
  Proof.
    intros Hn Hp. unfold frame_record, frame_full. cbn [full_opts o_path_col o_name_key o_parent_key field app].
    unfold requested. cbn [o_all_attrs]. apply dict_of_nodup. cbn [map fst]. constructor.
    - intros [E|Hin]; [discriminate|]. apply Hp. apply describe_keys_sub. exact Hin.
    - constructor; [apply describe_no_name|apply describe_keys_nodup; exact Hn].
  Qed.

  Lemma tree_to_dataframe_full t : valid_tree t = true -> frame_safe t = true ->
    tree_to_dataframe t sp [] full_opts = Ret (frame_of (map frame_full (rel_nodes t))).
  Proof.
    intros Hv Hs. rewrite tree_to_dataframe_spec. unfold spec_frame, nodes_from. cbn [subtree_at].
    change (anc_names t []) with (@nil str). rewrite filter_true by apply selected_full.
    rewrite nodes_under_root. f_equal. f_equal. apply map_ext_in. intros pr Hpr.
    apply rel_nodes_in_pre in Hpr. apply frame_record_full.
    - apply (valid_node_attrs t); assumption.
    - apply (frame_safe_node t); assumption.
  Qed.

  Variable t : tree.
  Hypothesis Hv : valid_tree t = true.
  Hypothesis Hsafe : sep_free sp t = true.
  Hypothesis Hfs : frame_safe t = true.

  Let rows := map frame_full (rel_nodes t).
  Let cols := frame_columns rows.
  Let cols_np := filter (fun k => negb (str_eqb k s_path)) cols.
  Definition frame_attrs (x : tree) : record := row_attrs s_path (fill cols_np (describe x)).

  Lemma cols_head : exists cols', cols = s_path :: cols'.
  Proof.
    unfold cols, rows. destruct (rel_nodes_shape t) as [xs' E]. rewrite E. cbn [map]. unfold frame_full at 1.
    apply frame_columns_head.
  Qed.

  Lemma fill_full_head pr : exists rest,
    fill cols (frame_full pr) = (s_path, VStr (path_name sp (fst pr))) :: rest.
  Proof.
    destruct cols_head as [cols' E]. rewrite E. cbn [fill map]. eexists. f_equal.
  Qed.

  Lemma fill_full_attrs pr :
    row_attrs s_path (dict_del s_path (fill cols (frame_full pr))) = frame_attrs (snd pr).
  Proof.
    rewrite dict_del_fill. fold cols_np. unfold frame_attrs. apply row_attrs_fill_ext.
    intros k _ Hn Hp. unfold lookup, frame_full. cbn [dict_get].
    apply str_eqb_neq in Hn, Hp. rewrite Hn, Hp. reflexivity.
  Qed.

  Lemma frame_attrs_keys_nodup x : NoDup (map fst (frame_attrs x)).
  Proof.
    unfold frame_attrs, row_attrs. apply filter_keys_nodup. rewrite fill_keys. unfold cols_np.
    apply NoDup_filter. apply frame_columns_nodup.
  Qed.

  Lemma cols_cover x k : In x (pre t) -> In k (map fst (describe x)) -> In k cols_np.
  Proof.
    intros Hx Hk. unfold cols_np. apply filter_In. split.
    - rewrite <- rel_nodes_snd in Hx. apply in_map_iff in Hx as [pr [E Hpr]]. subst x.
      apply (frame_columns_in rows (frame_full pr)).
      + unfold rows. apply in_map. exact Hpr.
      + unfold frame_full. cbn [map fst]. right. right. exact Hk.
    - apply negb_true_iff. apply str_eqb_neq. intros ->. apply (frame_safe_node t x Hfs Hx).
      apply describe_keys_sub. exact Hk.
  Qed.

  Lemma frame_attrs_norm x : In x (pre t) -> sort_items (frame_attrs x) = norm_attrs true (tattrs x).
  Proof.
    intros Hx. pose proof (valid_node_attrs t x Hv Hx) as Ha.
    pose proof (describe_keys_nodup x Ha) as Hd.
    apply sorted_perm_eq.
    - apply sort_items_sorted. apply frame_attrs_keys_nodup.
    - unfold norm_attrs. apply filter_sorted. apply sort_items_sorted. exact Ha.
    - eapply Permutation_trans; [apply sort_items_perm|]. apply NoDup_Permutation.
      + eapply NoDup_map_inv. apply frame_attrs_keys_nodup.
      + eapply NoDup_map_inv. apply norm_attrs_keys_nodup. exact Ha.
      + intros [k v]. unfold frame_attrs, row_attrs, norm_attrs. rewrite !filter_In. cbn [fst snd]. split.
        * intros [Hin Hcond]. unfold fill in Hin. apply in_map_iff in Hin as [k' [E Hk']]. injection E as -> Ev.
          apply andb_true_iff in Hcond as [Hcond _]. apply andb_true_iff in Hcond as [Hnn Hname].
          unfold lookup in Ev. destruct (dict_get k (describe x)) as [v'|] eqn:Eg;
            [|subst v; discriminate]. subst v'. apply dict_get_some_in in Eg.
          unfold describe in Eg. apply filter_In in Eg as [Hin Hpub]. cbn [fst] in Hpub.
          split; [exact Hin|]. rewrite Hpub, Hnn. reflexivity.
        * intros [Hin Hcond]. apply andb_true_iff in Hcond as [Hpub Hnn]. cbn [negb orb] in Hnn.
          assert (Hdesc : In (k, v) (describe x)) by (unfold describe; apply filter_In; split; assumption).
          assert (Hk : In k (map fst (describe x))) by (apply in_map_iff; exists (k, v); split; [reflexivity|exact Hdesc]).
          pose proof (cols_cover x k Hx Hk) as Hc.
          split.
          -- unfold fill. apply in_map_iff. exists k. split; [|exact Hc]. f_equal.
             unfold lookup. rewrite (dict_get_in k v (describe x) Hd Hdesc). reflexivity.
          -- rewrite Hnn. cbn [andb]. unfold public_key in Hpub. apply andb_true_iff in Hpub as [Hn _].
             rewrite Hn. cbn [andb]. unfold cols_np in Hc. apply filter_In in Hc as [_ Hc]. exact Hc.
  Qed.

  Lemma sort_rebuild_frame : forall x, (forall y, In y (pre x) -> In y (pre t)) ->
    sort_tree (rebuild frame_attrs x) = norm_tree true x.
  Proof.
    intros x. induction x as [g n a ks IH] using tree_ind'. intros Hsub.
    cbn [rebuild sort_tree norm_tree]. f_equal.
    - apply (frame_attrs_norm (T g n a ks)). apply Hsub. left. reflexivity.
    - rewrite map_map. apply map_ext_in. intros k Hk. rewrite Forall_forall in IH. apply IH; [exact Hk|].
      intros y Hy. apply Hsub. cbn [pre]. right. apply in_flat_map. exists k. split; assumption.
  Qed.

  (* the exact tree: attribute order of every node = column order restricted to its non-null cells *)
  Theorem rt_frame_exact : rt_frame t sp = Ret (rebuild frame_attrs t).
  Proof.
    unfold rt_frame. rewrite tree_to_dataframe_full by assumption. cbn [bind]. fold rows.
    assert (Hcols : frame_columns rows <> []).
    { fold cols. destruct cols_head as [cols' E]. rewrite E. discriminate. }
    rewrite frame_of_fill by exact Hcols. fold cols. unfold rows. rewrite map_map.
    pose proof (names_clean_of sp t Hv Hsafe) as Hc. pose proof (sep_free_nonempty sp t Hsafe) as Hsp.
    pose proof (rel_nodes_clean sp t Hc) as Hcl. rewrite Forall_forall in Hcl.
    pose proof (rel_nodes_nonempty t) as Hne. rewrite Forall_forall in Hne.
    destruct (rel_nodes_shape t) as [xs' Exs].
    rewrite (dataframe_to_tree_gen sp Hsp (fun pr => fill cols (frame_full pr)) frame_attrs (tname t) t xs' (rel_nodes t) Exs).
    - rewrite <- (map_map (fun pr => (fst pr, frame_attrs (snd pr))) (fun z => (join sp (fst z), snd z))).
      rewrite rel_nodes_recs, map_map. cbn [fst snd].
      rewrite (add_paths_join_ok sp (tname t) _ Hsp) by (try reflexivity; apply rel_recs_clean; exact Hc).
      f_equal.
      apply (rebuild_from_records frame_attrs t Hv (fun x _ => frame_attrs_keys_nodup x)).
      apply dict_update_present; [apply frame_attrs_keys_nodup|apply incl_refl].
    - intros pr _. apply fill_full_head.
    - intros pr _. apply fill_full_attrs.
    - intros pr Hpr. split; [apply Hne; exact Hpr|apply Hcl; exact Hpr].
    - apply rel_paths_nodup. exact Hv.
  Qed.

  Theorem rt_frame_ok : res_map sort_tree (rt_frame t sp) = Ret (norm_tree true t).
  Proof.
    rewrite rt_frame_exact. cbn [res_map]. f_equal. apply sort_rebuild_frame. intros y Hy. exact Hy.
  Qed.
End FrameRT.

Theorem prop_rt_frame_multi sp t : sep_free sp t = true -> prop_rt_path true sp t (rt_frame t sp) = true.
Proof.
  intros Hs. unfold prop_rt_path. destruct (valid_tree t) eqn:Hv; [|reflexivity].
  destruct (frame_safe t) eqn:Hf; [|rewrite andb_false_r; reflexivity].
  pose proof (rt_frame_ok sp t Hv Hs Hf) as H. unfold same_tree.
  destruct (rt_frame t sp) as [t'|e]; cbn [res_map] in H; [|discriminate].
  injection H as H. rewrite H, tree_eqb_refl.
  destruct (true && sep_safe sp t && (negb true || true)); reflexivity.
Qed.

Theorem prop_rt_frame_model c t : prop_rt_path true [c] t (rt_frame t [c]) = true.
Proof.
  destruct (sep_safe [c] t) eqn:Hs; [apply prop_rt_frame_multi, sep_safe_free; exact Hs|].
  unfold prop_rt_path. rewrite Hs, andb_false_r. reflexivity.
Qed.

(* ---------------------------------------------------------------------------------------------- *)
(* exports from an inner start node of a Node tree: the paths of the exported nodes are distinct *)

Lemma subtree_pre_incl p : forall root t, subtree_at root p = Some t -> incl (pre t) (pre root).
Proof.
  induction p as [|i p IH]; intros root t H.
  - cbn in H. injection H as ->. apply incl_refl.
  - cbn [subtree_at] in H. destruct (nth_error (tkids root) i) as [k|] eqn:E; [|discriminate].
    intros x Hx. apply (IH k t H) in Hx. destruct root as [g n a ks]. cbn [pre tkids] in *. right.
    apply in_flat_map. exists k. split; [eapply nth_error_In; exact E|exact Hx].
Qed.

Lemma valid_subtree root p t : valid_tree root = true -> subtree_at root p = Some t -> valid_tree t = true.
Proof.
  unfold valid_tree. intros Hv Hs. apply forallb_forall. intros x Hx. rewrite forallb_forall in Hv.
  apply Hv. eapply subtree_pre_incl; eassumption.
Qed.

Lemma names_clean_subtree sp root p t : names_clean sp root -> subtree_at root p = Some t -> names_clean sp t.
Proof.
  unfold names_clean. intros Hc Hs. apply Forall_forall. intros x Hx. rewrite Forall_forall in Hc.
  apply Hc. eapply subtree_pre_incl; eassumption.
Qed.

Lemma anc_names_clean sp p : forall root t, names_clean sp root -> subtree_at root p = Some t ->
  Forall (clean sp) (anc_names root p).
Proof.
  induction p as [|i p IH]; intros root t Hc Hs; [constructor|].
  rewrite anc_names_cons. cbn [subtree_at] in Hs.
  destruct (nth_error (tkids root) i) as [k|] eqn:E; [|discriminate].
  destruct root as [g n a ks]. apply names_clean_inv in Hc as [Hn Hks]. cbn [tname tkids] in *.
  constructor; [exact Hn|]. apply (IH k t); [|exact Hs]. rewrite Forall_forall in Hks. apply Hks.
  eapply nth_error_In. exact E.
Qed.

Lemma NoDup_map_filter {A B} (f : A -> B) (p : A -> bool) l : NoDup (map f l) -> NoDup (map f (filter p l)).
Proof.
  induction l as [|x l IH]; intros H; [constructor|]. cbn [map] in H. inversion H as [|? ? Hx Hl]; subst.
  cbn [filter]. destruct (p x); [|apply IH; exact Hl]. cbn [map]. constructor; [|apply IH; exact Hl].
  intros Hin. apply Hx. apply in_map_iff in Hin as [y [E Hy]]. apply filter_In in Hy as [Hy _].
  apply in_map_iff. exists y. split; assumption.
Qed.

Lemma paths_nodup_from sp root p t :
  valid_tree root = true -> sep_free sp root = true -> subtree_at root p = Some t ->
  NoDup (map (c_path sp) (nodes_under (anc_names root p) t)).
Proof.
  intros Hv Hs Hp. pose proof (names_clean_of sp root Hv Hs) as Hc.
  pose proof (anc_names_clean sp p root t Hc Hp) as Hanc.
  pose proof (names_clean_subtree sp root p t Hc Hp) as Hct.
  pose proof (valid_subtree root p t Hv Hp) as Hvt.
  rewrite nodes_under_rel, map_map.
  change (map (fun x => c_path sp (anc_names root p ++ fst x, snd x)) (rel_nodes t))
    with (map (fun x => path_name sp (anc_names root p ++ fst x)) (rel_nodes t)).
  rewrite <- (map_map fst (fun l => path_name sp (anc_names root p ++ l))).
  apply NoDup_map_inj_on; [|apply rel_paths_nodup; exact Hvt].
  intros x y Hx Hy E. apply in_map_iff in Hx as [px [Ex Hx]]. apply in_map_iff in Hy as [py [Ey Hy]].
  pose proof (rel_nodes_clean sp t Hct) as Hcl. rewrite Forall_forall in Hcl.
  pose proof (rel_nodes_nonempty t) as Hn. rewrite Forall_forall in Hn. subst x y.
  apply (path_name_inj sp) in E.
  - apply app_inv_head in E. exact E.
  - exact (sep_free_nonempty sp root Hs).
  - intros E0. apply app_eq_nil in E0 as [_ E0]. apply (Hn px Hx). exact E0.
  - intros E0. apply app_eq_nil in E0 as [_ E0]. apply (Hn py Hy). exact E0.
  - apply Forall_app. split; [exact Hanc|apply Hcl; exact Hx].
  - apply Forall_app. split; [exact Hanc|apply Hcl; exact Hy].
Qed.

(* C06_dict_records for Node trees: exactly one (path, record) item per selected node, in pre-order *)
Theorem tree_to_dict_records sp root p o t :
  valid_tree root = true -> sep_free sp root = true -> subtree_at root p = Some t ->
  tree_to_dict root sp p o
  = Ret (map (fun x => (c_path sp x, dict_record o x))
             (filter (selected o) (nodes_under (anc_names root p) t))).
Proof.
  intros Hv Hs Hp. apply tree_to_dict_map.
  - unfold nodes_from. rewrite Hp. reflexivity.
  - apply NoDup_map_filter. apply paths_nodup_from; assumption.
Qed.

(* ---------------------------------------------------------------------------------------------- *)
(* the one-character special cases, with the substring guard sep_safe *)

Lemma paths_nodup_1 c t : valid_tree t = true -> sep_safe [c] t = true ->
  NoDup (map (c_path [c]) (nodes_under [] t)).
Proof. intros Hv Hs. apply paths_nodup; [exact Hv|apply sep_safe_free; exact Hs]. Qed.

Theorem tree_to_dict_records_1 c root p o t :
  valid_tree root = true -> sep_safe [c] root = true -> subtree_at root p = Some t ->
  tree_to_dict root [c] p o
  = Ret (map (fun x => (c_path [c] x, dict_record o x))
             (filter (selected o) (nodes_under (anc_names root p) t))).
Proof. intros Hv Hs Hp. apply tree_to_dict_records; [exact Hv|apply sep_safe_free; exact Hs|exact Hp]. Qed.

Theorem rt_dict_ok_1 c t : valid_tree t = true -> sep_safe [c] t = true ->
  rt_dict t [c] = Ret (norm_tree false t).
Proof. intros Hv Hs. apply rt_dict_ok; [exact Hv|apply sep_safe_free; exact Hs]. Qed.

Theorem rt_frame_ok_1 c t : valid_tree t = true -> sep_safe [c] t = true -> frame_safe t = true ->
  res_map sort_tree (rt_frame t [c]) = Ret (norm_tree true t).
Proof. intros Hv Hs Hf. apply rt_frame_ok; [exact Hv|apply sep_safe_free; exact Hs|exact Hf]. Qed.

(* the guard in its readable form *)
Lemma sep_free_spec sp t : sep_free sp t = true <->
  sp <> [] /\ forall n, In n (pre t) -> sfree sp (tname n).
Proof.
  unfold sep_free. split.
  - intros H. apply andb_true_iff in H as [H1 H2]. split; [intros ->; discriminate|].
    rewrite forallb_forall in H2. intros n Hn ch Hch Hin. specialize (H2 n Hn).
    rewrite forallb_forall in H2. specialize (H2 ch Hch). apply negb_true_iff, memN_false in H2. contradiction.
  - intros [H1 H2]. apply andb_true_iff. split; [destruct sp; [contradiction|reflexivity]|].
    apply forallb_forall. intros n Hn. apply forallb_forall. intros ch Hch.
    apply negb_true_iff, memN_false. apply (H2 n Hn ch Hch).
Qed.

(* ---------------------------------------------------------------------------------------------- *)
(* frames with nulls: the re-imported tree is the source tree without its null-valued attributes *)

Lemma filter_filter_and {A} (p q : A -> bool) l : filter (fun x => p x && q x) l = filter q (filter p l).
Proof.
  induction l as [|x l IH]; [reflexivity|]. cbn [filter]. destruct (p x); cbn [andb filter]; [|exact IH].
  destruct (q x); [f_equal|]; exact IH.
Qed.

Lemma norm_attrs_true_strip a :
  norm_attrs true a = filter (fun kv => negb (is_null (snd kv))) (norm_attrs false a).
Proof.
  unfold norm_attrs. rewrite <- filter_filter_and. apply filter_ext. intros kv. cbn [negb orb].
  rewrite andb_true_r. reflexivity.
Qed.

Lemma norm_true_strip t : norm_tree true t = strip_nulls (norm_tree false t).
Proof.
  induction t as [g n a ks IH] using tree_ind'. cbn [norm_tree strip_nulls]. f_equal.
  - apply norm_attrs_true_strip.
  - rewrite map_map. apply map_ext_in. intros k Hk. rewrite Forall_forall in IH. apply IH. exact Hk.
Qed.

Theorem rt_frame_nulls sp t : valid_tree t = true -> sep_free sp t = true -> frame_safe t = true ->
  res_map sort_tree (rt_frame t sp) = Ret (strip_nulls (norm_tree false t)).
Proof. intros Hv Hs Hf. rewrite rt_frame_ok by assumption. rewrite norm_true_strip. reflexivity. Qed.

(* ---------------------------------------------------------------------------------------------- *)
(* column order = order of first appearance *)

Lemma first_seen_ext l : forall s1 s2, (forall x, In x s1 <-> In x s2) -> first_seen s1 l = first_seen s2 l.
Proof.
  induction l as [|k l IH]; intros s1 s2 H; [reflexivity|]. cbn [first_seen].
  assert (E : existsb (str_eqb k) s1 = existsb (str_eqb k) s2).
  { destruct (existsb (str_eqb k) s1) eqn:E1; symmetry.
    - apply existsb_exists in E1 as [y [Hy Ey]]. apply existsb_exists. exists y. split; [apply H; exact Hy|exact Ey].
    - destruct (existsb (str_eqb k) s2) eqn:E2; [|reflexivity]. apply existsb_exists in E2 as [y [Hy Ey]].
      assert (E3 : existsb (str_eqb k) s1 = true) by (apply existsb_exists; exists y; split; [apply H; exact Hy|exact Ey]).
      congruence. }
  rewrite E. destruct (existsb (str_eqb k) s2); [apply IH; exact H|]. f_equal. apply IH.
  intros x. cbn [In]. rewrite H. tauto.
Qed.

Lemma dict_set_keys_same {V} k (v : V) d : In k (map fst d) -> map fst (dict_set k v d) = map fst d.
Proof.
  induction d as [|[k' v'] d IH]; intros H; [destruct H|]. cbn [dict_set].
  destruct (str_eqb k k') eqn:E; cbn [map fst].
  - apply str_eqb_eq in E. subst. reflexivity.
  - f_equal. apply IH. destruct H as [H|H]; [cbn in H; subst; rewrite str_eqb_refl in E; discriminate|exact H].
Qed.

Lemma existsb_str_in k l : existsb (str_eqb k) l = true <-> In k l.
Proof.
  split.
  - intros H. apply existsb_exists in H as [y [Hy E]]. apply str_eqb_eq in E. subst. exact Hy.
  - intros H. apply existsb_exists. exists k. split; [exact H|apply str_eqb_refl].
Qed.

Lemma dict_update_first_seen {V} (items : list (str * V)) : forall d,
  map fst (dict_update d items) = map fst d ++ first_seen (map fst d) (map fst items).
Proof.
  induction items as [|[k v] items IH]; intros d.
  - cbn. rewrite app_nil_r. reflexivity.
  - unfold dict_update. cbn [fold_left fst snd]. fold (dict_update (dict_set k v d) items).
    rewrite IH. cbn [map fst first_seen].
    destruct (existsb (str_eqb k) (map fst d)) eqn:E.
    + apply existsb_str_in in E. rewrite dict_set_keys_same by exact E. reflexivity.
    + assert (Hk : ~ In k (map fst d)) by (intros Hin; apply existsb_str_in in Hin; congruence).
      rewrite dict_set_fresh by exact Hk. rewrite map_app. cbn [map fst]. rewrite <- app_assoc. cbn [app].
      f_equal. f_equal. apply first_seen_ext. intros x. rewrite in_app_iff. cbn [In]. tauto.
Qed.

Theorem frame_columns_first_seen rows : frame_columns rows = first_seen [] (map fst (concat rows)).
Proof. unfold frame_columns, dict_of. apply (dict_update_first_seen (concat rows) []). Qed.

(* ---------------------------------------------------------------------------------------------- *)
(* attribute order after the frame round trip, exactly *)

Lemma retree_rebuild f t : retree f t = rebuild f t.
Proof.
  reflexivity.
Qed.

Lemma export_columns_full sp t : valid_tree t = true -> frame_safe t = true ->
  export_columns sp t = frame_columns (map (frame_full sp) (rel_nodes t)).
Proof.
  intros Hv Hf. unfold export_columns. rewrite nodes_under_root. f_equal. apply map_ext_in. intros pr Hpr.
  apply rel_nodes_in_pre in Hpr. apply (frame_record_full sp pr).
  - apply (valid_node_attrs t); assumption.
  - apply (frame_safe_node t); assumption.
Qed.

Lemma reimported_attrs_frame sp t x : valid_tree t = true -> frame_safe t = true ->
  reimported_attrs sp t x = frame_attrs sp t x.
Proof. intros Hv Hf. unfold reimported_attrs. rewrite export_columns_full by assumption. reflexivity. Qed.

Lemma rebuild_ext f1 f2 u : (forall x, f1 x = f2 x) -> rebuild f1 u = rebuild f2 u.
Proof.
  intros H. induction u as [g' n' a' ks' IHu] using tree_ind'. cbn [rebuild]. rewrite H. f_equal.
  apply map_ext_in. intros k Hk. rewrite Forall_forall in IHu. apply IHu. exact Hk.
Qed.

Theorem rt_frame_order sp t : valid_tree t = true -> sep_free sp t = true -> frame_safe t = true ->
  rt_frame t sp = Ret (retree (reimported_attrs sp t) t).
Proof.
  intros Hv Hs Hf. rewrite rt_frame_exact by assumption. f_equal.
  change (retree (reimported_attrs sp t) t) with (rebuild (reimported_attrs sp t) t).
  apply rebuild_ext. intros x. symmetry. apply reimported_attrs_frame; assumption.
Qed.

(* ---------------------------------------------------------------------------------------------- *)
(* umbrella *)

Theorem prop_all_model sp root p o : subtree_at root p <> None -> sep_free sp root = true ->
  prop_C06_all root sp p o
    (res_map canon_dict (tree_to_dict root sp p o)) (res_map canon_nested (tree_to_nested_dict root p o))
    (res_map canon_rows (tree_to_dataframe root sp p o)) (res_map canon_rows (tree_to_polars root sp p o))
    (rt_dict root sp) (rt_nested root) (rt_frame root sp) (rt_frame root sp) = true.
Proof.
  intros Hp Hs. unfold prop_C06_all, tree_to_polars.
  rewrite prop_dict_model, prop_nested_model by exact Hp. rewrite prop_frame_model.
  rewrite prop_rt_dict_multi, prop_rt_nested_model, prop_rt_frame_multi by exact Hs. reflexivity.
Qed.

Theorem prop_all_model_1 c root p o : subtree_at root p <> None ->
  prop_C06_all root [c] p o
    (res_map canon_dict (tree_to_dict root [c] p o)) (res_map canon_nested (tree_to_nested_dict root p o))
    (res_map canon_rows (tree_to_dataframe root [c] p o)) (res_map canon_rows (tree_to_polars root [c] p o))
    (rt_dict root [c]) (rt_nested root) (rt_frame root [c]) (rt_frame root [c]) = true.
Proof.
  intros Hp. unfold prop_C06_all, tree_to_polars.
  rewrite prop_dict_model, prop_nested_model by exact Hp. rewrite prop_frame_model.
  rewrite prop_rt_dict_model, prop_rt_nested_model, prop_rt_frame_model. reflexivity.
Qed.

(* ---------------------------------------------------------------------------------------------- *)
(* partial export with max_depth only, from the root: the records are those of the tree cut below
   max_depth, so re-importing them yields exactly that tree *)

Definition depth_opts (m : nat) : opts := Opts s_name [] s_path [] true (S m) 0 false.

Lemma nodes_under_deeper anc t c : In c (nodes_under anc t) -> length anc < c_depth c.
Proof.
  rewrite nodes_under_rel. intros H. apply in_map_iff in H as [pr [E Hpr]]. subst c. unfold c_depth. cbn [fst].
  rewrite app_length. pose proof (rel_nodes_nonempty t) as Hn. rewrite Forall_forall in Hn.
  specialize (Hn pr Hpr). destruct (fst pr); [contradiction|]. cbn [length]. lia.
Qed.

Lemma filter_none {A} (p : A -> bool) l : (forall x, In x l -> p x = false) -> filter p l = [].
Proof.
  induction l as [|x l IH]; intros H; [reflexivity|]. cbn [filter]. rewrite H by (left; reflexivity).
  apply IH. intros y Hy. apply H. right. exact Hy.
Qed.

Lemma flat_map_map {A B C} (f : B -> list C) (h : A -> B) l : flat_map f (map h l) = flat_map (fun x => f (h x)) l.
Proof. induction l as [|x l IH]; [reflexivity|]. cbn. rewrite IH. reflexivity. Qed.

Lemma selected_depth m c : selected (depth_opts m) c = Nat.leb (c_depth c) (S m).
Proof. unfold selected, depth_opts. cbn. rewrite !andb_true_r. reflexivity. Qed.

Lemma dict_record_prune o p k x : dict_record o (p, prune k x) = dict_record o (p, x).
Proof. destruct x as [g n a ks]. rewrite prune_unfold. reflexivity. Qed.

Lemma records_pruned sp m t : forall anc, length anc <= m ->
  map (fun c => (c_path sp c, dict_record full_opts c))
      (filter (selected (depth_opts m)) (nodes_under anc t))
  = map (fun c => (c_path sp c, dict_record full_opts c))
        (nodes_under anc (prune (m - length anc) t)).
Proof.
  induction t as [g n a ks IH] using tree_ind'. intros anc Hlen.
  rewrite prune_unfold, !nodes_under_unfold. cbn [filter]. rewrite selected_depth.
  assert (Hd : Nat.leb (c_depth (ctx_of anc (T g n a ks))) (S m) = true).
  { apply Nat.leb_le. unfold c_depth, ctx_of. cbn [fst]. rewrite app_length. cbn [length]. lia. }
  rewrite Hd. cbn [map]. f_equal.
  { rewrite filter_flat_map, map_flat_map.
    destruct (m - length anc) as [|k'] eqn:Ek.
    + cbn [flat_map map]. rewrite <- (flat_map_ext_Forall (fun _ => [])).
      * induction ks; [reflexivity|]. cbn. inversion IH; subst. auto.
      * apply Forall_forall. intros k Hk. rewrite filter_none; [reflexivity|].
        intros c Hc. rewrite selected_depth. apply nodes_under_deeper in Hc. rewrite app_length in Hc. cbn [length] in Hc.
        apply Nat.leb_gt. lia.
    + rewrite map_flat_map, flat_map_map.
      apply flat_map_ext_Forall. eapply Forall_impl; [|exact IH]. intros k Hk. cbn beta.
      rewrite Hk by (rewrite app_length; cbn [length]; lia).
      rewrite app_length. cbn [length]. replace (m - (length anc + 1)) with k' by lia. reflexivity. }
Qed.

Lemma prune_name k x : tname (prune k x) = tname x.
Proof. destruct x. rewrite prune_unfold. reflexivity. Qed.

Lemma pre_prune_forallb (P : tree -> bool) :
  (forall g n a ks ks', P (T g n a ks) = true -> ks' = [] \/ map tname ks' = map tname ks -> P (T g n a ks') = true) ->
  forall t k, forallb P (pre t) = true -> forallb P (pre (prune k t)) = true.
Proof.
  intros HP t. induction t as [g n a ks IH] using tree_ind'. intros k H.
  rewrite prune_unfold. cbn [pre forallb] in *. apply andb_true_iff in H as [H1 H2]. apply andb_true_iff. split.
  - apply (HP g n a ks); [exact H1|]. destruct k; [left; reflexivity|right].
    rewrite map_map. apply map_ext. intros x. apply prune_name.
  - destruct k as [|k']; [reflexivity|]. rewrite forallb_flat_map in *. rewrite forallb_forall in *.
    intros x Hx. apply in_map_iff in Hx as [y [E Hy]]. subst x. rewrite Forall_forall in IH.
    apply IH; [exact Hy|]. apply H2. exact Hy.
Qed.

Lemma valid_prune k t : valid_tree t = true -> valid_tree (prune k t) = true.
Proof.
  unfold valid_tree. apply pre_prune_forallb. intros g n a ks ks' H Hk. unfold node_ok in *.
  cbn [tname tkids tattrs] in *. apply andb_true_iff in H as [H H3]. apply andb_true_iff in H as [H1 H2].
  rewrite H1, H3. destruct Hk as [->|E]; [reflexivity|]. rewrite E, H2. reflexivity.
Qed.

Lemma sep_free_prune sp k t : sep_free sp t = true -> sep_free sp (prune k t) = true.
Proof.
  unfold sep_free. intros H. apply andb_true_iff in H as [H1 H2]. rewrite H1. cbn [andb].
  revert H2. apply pre_prune_forallb. intros g n a ks ks' H _. exact H.
Qed.

Lemma tree_to_dict_depth sp m t :
  tree_to_dict t sp [] (depth_opts m) = tree_to_dict (prune m t) sp [] full_opts.
Proof.
  rewrite !tree_to_dict_spec. unfold spec_dict, nodes_from. cbn [subtree_at].
  change (anc_names t []) with (@nil str). change (anc_names (prune m t) []) with (@nil str).
  f_equal. f_equal.
  rewrite (filter_true (selected full_opts)) by apply selected_full.
  change (map (fun c => (c_path sp c, dict_record (depth_opts m) c)))
    with (map (fun c => (c_path sp c, dict_record full_opts c))).
  rewrite (records_pruned sp m t []) by (cbn; lia). cbn [length]. rewrite Nat.sub_0_r. reflexivity.
Qed.

(* re-importing the max_depth export of the whole tree gives the tree cut below max_depth *)
Theorem rt_dict_depth sp m t : valid_tree t = true -> sep_free sp t = true ->
  bind (tree_to_dict t sp [] (depth_opts m)) (fun d => dict_to_tree d sp) = Ret (norm_tree false (prune m t)).
Proof.
  intros Hv Hs. rewrite tree_to_dict_depth. apply (rt_dict_ok sp (prune m t)).
  - apply valid_prune. exact Hv.
  - apply sep_free_prune. exact Hs.
Qed.
