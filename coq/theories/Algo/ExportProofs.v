(* Proofs about the exporter model (Algo/Export.v) against the specification Spec/PC06.v. *)
From BT Require Import Base.Prelude Base.Str Base.Rose Algo.Export Spec.PC06.
From Coq Require Import Permutation.

(* ---------------------------------------------------------------------------------------------- *)
(* lists *)

Lemma flat_map_ext_Forall {A B} (f g : A -> list B) l :
  Forall (fun x => f x = g x) l -> flat_map f l = flat_map g l.
Proof.
  induction 1 as [|x l Hx _ IH]; [reflexivity|]. cbn [flat_map]. rewrite Hx, IH. reflexivity.
Qed.

Lemma map_flat_map {A B C} (f : A -> list B) (g : B -> C) l :
  map g (flat_map f l) = flat_map (fun x => map g (f x)) l.
Proof.
  induction l as [|x l IH]; [reflexivity|]. cbn [flat_map]. rewrite map_app, IH. reflexivity.
Qed.

Lemma filter_flat_map {A B} (f : A -> list B) (p : B -> bool) l :
  filter p (flat_map f l) = flat_map (fun x => filter p (f x)) l.
Proof.
  induction l as [|x l IH]; [reflexivity|]. cbn [flat_map]. rewrite filter_app, IH. reflexivity.
Qed.

Lemma combine_app {A B} (a1 a2 : list A) (b1 b2 : list B) :
  length a1 = length b1 -> combine (a1 ++ a2) (b1 ++ b2) = combine a1 b1 ++ combine a2 b2.
Proof.
  revert b1; induction a1 as [|x a1 IH]; intros [|y b1] H; try discriminate; [reflexivity|].
  cbn [app combine]. f_equal. apply IH. injection H as H. exact H.
Qed.

Lemma combine_flat_map {A B C} (f : A -> list B) (g : A -> list C) l :
  (forall x, length (f x) = length (g x)) ->
  combine (flat_map f l) (flat_map g l) = flat_map (fun x => combine (f x) (g x)) l.
Proof.
  intros H. induction l as [|x l IH]; [reflexivity|]. cbn [flat_map].
  rewrite combine_app by apply H. rewrite IH. reflexivity.
Qed.

Lemma flat_map_length_eq {A B C} (f : A -> list B) (g : A -> list C) l :
  Forall (fun x => length (f x) = length (g x)) l -> length (flat_map f l) = length (flat_map g l).
Proof.
  induction 1 as [|x l Hx _ IH]; [reflexivity|]. cbn [flat_map]. rewrite !app_length, Hx, IH. reflexivity.
Qed.

(* ---------------------------------------------------------------------------------------------- *)
(* nodes in context *)

Definition ctx_of (anc : list str) (t : tree) : cnode := (anc ++ [tname t], t).

Lemma paths_from_length t : forall p, length (paths_from p t) = length (pre t).
Proof.
  induction t as [g n a ks IH] using tree_ind'. intros p. cbn [paths_from pre length]. f_equal.
  apply flat_map_length_eq. eapply Forall_impl; [|exact IH]. intros k Hk. apply Hk.
Qed.

Lemma nodes_under_unfold anc g n a ks :
  nodes_under anc (T g n a ks)
  = ctx_of anc (T g n a ks) :: flat_map (nodes_under (anc ++ [n])) ks.
Proof.
  unfold nodes_under. cbn [paths_from pre combine]. unfold ctx_of. cbn [tname]. f_equal.
  apply combine_flat_map. intros k. apply paths_from_length.
Qed.

Lemma selected_ctx o anc t : selected o (ctx_of anc t) = gates o (S (length anc)) t.
Proof.
  unfold selected, gates, depth_gate, ctx_of, c_depth. cbn [fst snd].
  rewrite app_length. cbn [length]. rewrite Nat.add_1_r. reflexivity.
Qed.

(* the recursive walk emits exactly the selected nodes, in pre-order *)
Lemma walk_nodes {X} (emit : list str -> tree -> X) (semit : cnode -> X) o :
  (forall anc t, emit anc t = semit (ctx_of anc t)) ->
  forall t anc, walk emit o anc t = map semit (filter (selected o) (nodes_under anc t)).
Proof.
  intros He t. induction t as [g n a ks IH] using tree_ind'. intros anc.
  rewrite nodes_under_unfold. cbn [walk filter]. rewrite selected_ctx.
  assert (Hk : flat_map (walk emit o (anc ++ [n])) ks
               = map semit (filter (selected o) (flat_map (nodes_under (anc ++ [n])) ks))).
  { rewrite filter_flat_map, map_flat_map. apply flat_map_ext_Forall.
    eapply Forall_impl; [|exact IH]. intros k Hk. apply Hk. }
  rewrite Hk. destruct (gates o (S (length anc)) (T g n a ks)); cbn [map app]; [rewrite He|]; reflexivity.
Qed.

(* the start node *)
Lemma anc_names_cons root i p :
  anc_names root (i :: p)
  = tname root :: match nth_error (tkids root) i with
                  | Some k => anc_names k p
                  | None => map (fun _ => []) (seq 0 (length p))
                  end.
Proof.
  unfold anc_names. cbn [length seq map firstn subtree_at]. f_equal.
  rewrite <- seq_shift, map_map.
  destruct (nth_error (tkids root) i) as [k|] eqn:E.
  - apply map_ext. intros j. cbn [firstn subtree_at]. rewrite E. reflexivity.
  - apply map_ext. intros j. cbn [firstn subtree_at]. rewrite E. reflexivity.
Qed.

Lemma locate_spec p : forall t anc,
  locate anc t p = match subtree_at t p with
                   | Some s => Some (anc ++ anc_names t p, s)
                   | None => None
                   end.
Proof.
  induction p as [|i p IH]; intros t anc.
  - cbn. rewrite app_nil_r. reflexivity.
  - cbn [locate subtree_at]. rewrite anc_names_cons.
    destruct (nth_error (tkids t) i) as [k|]; [|reflexivity].
    rewrite IH. destruct (subtree_at k p); [|reflexivity]. rewrite <- app_assoc. reflexivity.
Qed.

(* ---------------------------------------------------------------------------------------------- *)
(* records *)

Lemma opt_item_field k v : opt_item k v = field k v.
Proof. destruct k; reflexivity. Qed.

Lemma attr_items_requested o t : attr_items o t = requested o t.
Proof. reflexivity. Qed.

Lemma parent_val_ctx anc t : parent_val anc = c_parent (ctx_of anc t).
Proof.
  unfold parent_val, c_parent, ctx_of. cbn [fst]. rewrite rev_app_distr. cbn [rev app].
  destruct (rev anc); reflexivity.
Qed.

Lemma dict_child_record o anc t : dict_child o anc t = dict_record o (ctx_of anc t).
Proof.
  unfold dict_child, dict_record. rewrite !opt_item_field, <- (parent_val_ctx anc t). reflexivity.
Qed.

Lemma frame_child_record o sep anc t : frame_child o sep anc t = frame_record o sep (ctx_of anc t).
Proof.
  unfold frame_child, frame_record. rewrite !opt_item_field, <- (parent_val_ctx anc t). reflexivity.
Qed.

(* C06_dict_records, general form: the dict built from one (path, record) item per selected node *)
Theorem tree_to_dict_spec root sep p o :
  tree_to_dict root sep p o
  = match spec_dict root sep p o with Some d => Ret d | None => Raise Unmodelled end.
Proof.
  unfold tree_to_dict, spec_dict, nodes_from. rewrite locate_spec.
  destruct (subtree_at root p) as [t|]; [|reflexivity]. cbn [app]. f_equal. f_equal.
  apply walk_nodes. intros anc n. rewrite dict_child_record. reflexivity.
Qed.

Theorem tree_to_dataframe_spec root sep p o :
  tree_to_dataframe root sep p o
  = match spec_frame root sep p o with Some d => Ret d | None => Raise Unmodelled end.
Proof.
  unfold tree_to_dataframe, spec_frame, nodes_from. rewrite locate_spec.
  destruct (subtree_at root p) as [t|]; [|reflexivity]. cbn [app]. f_equal. f_equal.
  apply walk_nodes. intros anc n. apply frame_child_record.
Qed.

(* ---------------------------------------------------------------------------------------------- *)
(* dicts with distinct keys *)

Section DictFacts.
  Context {V : Type}.
  Implicit Types d items : list (str * V).

  Lemma dict_set_fresh k (v : V) d : ~ In k (map fst d) -> dict_set k v d = d ++ [(k, v)].
  Proof.
    induction d as [|[k' v'] d IH]; intros H; [reflexivity|]. cbn [dict_set].
    destruct (str_eqb k k') eqn:E.
    - apply str_eqb_eq in E. subst. exfalso. apply H. left. reflexivity.
    - cbn [app]. f_equal. apply IH. intros Hin. apply H. right. exact Hin.
  Qed.

  Lemma dict_update_fresh items : forall d,
    NoDup (map fst (d ++ items)) -> dict_update d items = d ++ items.
  Proof.
    induction items as [|[k v] items IH]; intros d H.
    - cbn. rewrite app_nil_r. reflexivity.
    - unfold dict_update. cbn [fold_left fst snd]. fold (dict_update (dict_set k v d) items).
      assert (Hk : ~ In k (map fst d)).
      { rewrite map_app in H. cbn [map fst] in H. apply NoDup_remove_2 in H.
        intros Hin. apply H. apply in_or_app. left. exact Hin. }
      rewrite dict_set_fresh by exact Hk. rewrite IH.
      + rewrite <- app_assoc. reflexivity.
      + rewrite <- app_assoc. exact H.
  Qed.

  Lemma dict_of_nodup items : NoDup (map fst items) -> dict_of items = items.
  Proof. intros H. unfold dict_of. apply (dict_update_fresh items []). exact H. Qed.

  Lemma dict_set_present k (v : V) d : NoDup (map fst d) -> In (k, v) d -> dict_set k v d = d.
  Proof.
    induction d as [|[k' v'] d IH]; intros Hn Hin; [destruct Hin|]. cbn [dict_set].
    cbn [map fst] in Hn. inversion Hn as [|? ? Hk Hd]; subst.
    destruct (str_eqb k k') eqn:E.
    - apply str_eqb_eq in E. subst. destruct Hin as [Hin|Hin].
      + injection Hin as ->. reflexivity.
      + exfalso. apply Hk. apply in_map_iff. exists (k', v). split; [reflexivity|exact Hin].
    - destruct Hin as [Hin|Hin].
      + injection Hin as -> ->. rewrite str_eqb_refl in E. discriminate.
      + f_equal. apply IH; assumption.
  Qed.

  Lemma dict_update_present items : forall d,
    NoDup (map fst d) -> incl items d -> dict_update d items = d.
  Proof.
    induction items as [|[k v] items IH]; intros d Hn Hi; [reflexivity|].
    unfold dict_update. cbn [fold_left fst snd]. fold (dict_update (dict_set k v d) items).
    rewrite dict_set_present; [|exact Hn|apply Hi; left; reflexivity].
    apply IH; [exact Hn|]. intros x Hx. apply Hi. right. exact Hx.
  Qed.

  Lemma dict_get_in k (v : V) d : NoDup (map fst d) -> In (k, v) d -> dict_get k d = Some v.
  Proof.
    induction d as [|[k' v'] d IH]; intros Hn Hin; [destruct Hin|]. cbn [dict_get].
    cbn [map fst] in Hn. inversion Hn as [|? ? Hk Hd]; subst.
    destruct (str_eqb k k') eqn:E.
    - apply str_eqb_eq in E. subst. destruct Hin as [Hin|Hin]; [injection Hin as ->; reflexivity|].
      exfalso. apply Hk. apply in_map_iff. exists (k', v). split; [reflexivity|exact Hin].
    - destruct Hin as [Hin|Hin]; [injection Hin as -> ->; rewrite str_eqb_refl in E; discriminate|].
      apply IH; assumption.
  Qed.

  Lemma dict_get_none k d : ~ In k (map fst d) -> dict_get k d = None.
  Proof.
    induction d as [|[k' v'] d IH]; intros H; [reflexivity|]. cbn [dict_get].
    destruct (str_eqb k k') eqn:E.
    - apply str_eqb_eq in E. subst. exfalso. apply H. left. reflexivity.
    - apply IH. intros Hin. apply H. right. exact Hin.
  Qed.

  Lemma dict_del_absent k d : ~ In k (map fst d) -> dict_del k d = d.
  Proof.
    induction d as [|[k' v'] d IH]; intros H; [reflexivity|]. unfold dict_del. cbn [filter fst].
    destruct (str_eqb k' k) eqn:E.
    - apply str_eqb_eq in E. subst. exfalso. apply H. left. reflexivity.
    - cbn [negb]. f_equal. apply IH. intros Hin. apply H. right. exact Hin.
  Qed.
End DictFacts.

(* C06_dict_records in the "map" form: distinct paths (which hold for Node trees whose names do not
   contain the separator, see paths_nodup below) make the outer dict the plain list *)
Corollary tree_to_dict_map root sep p o ns :
  nodes_from root p = Some ns ->
  NoDup (map (c_path sep) (filter (selected o) ns)) ->
  tree_to_dict root sep p o
  = Ret (map (fun c => (c_path sep c, dict_record o c)) (filter (selected o) ns)).
Proof.
  intros Hn Hd. rewrite tree_to_dict_spec. unfold spec_dict. rewrite Hn. f_equal.
  apply dict_of_nodup. rewrite map_map. cbn [fst]. exact Hd.
Qed.

(* ---------------------------------------------------------------------------------------------- *)
(* nested dict mirrors the tree cut at max_depth *)

Lemma nested_child_record o t : nested_child o t = nested_record o t.
Proof. reflexivity. Qed.

Lemma map_tree_unfold f g n a ks :
  map_tree f (T g n a ks) = T None [] (f (T g n a ks)) (map (map_tree f) ks).
Proof. reflexivity. Qed.

Lemma flat_map_singleton {A B} (f : A -> B) l : flat_map (fun x => [f x]) l = map f l.
Proof. induction l as [|x l IH]; [reflexivity|]. cbn. rewrite IH. reflexivity. Qed.

Lemma nested_go_unlimited o t : o_max_depth o = 0 ->
  forall d, nested_go o d t = [map_tree (nested_record o) t].
Proof.
  intros H0. induction t as [g n a ks IH] using tree_ind'. intros d.
  cbn [nested_go]. rewrite H0. cbn [Nat.eqb orb]. rewrite map_tree_unfold.
  f_equal. f_equal. rewrite <- flat_map_singleton. apply flat_map_ext_Forall.
  eapply Forall_impl; [|exact IH]. intros k Hk. apply Hk.
Qed.

(* record of a node does not look at its children *)
Lemma nested_record_prune o k t : nested_record o (prune k t) = nested_record o t.
Proof. destruct t as [g n a ks]. destruct k; reflexivity. Qed.

Lemma prune_unfold k g n a ks :
  prune k (T g n a ks) = T g n a (match k with 0 => [] | S k' => map (prune k') ks end).
Proof. destruct k; reflexivity. Qed.

Lemma nested_go_limited o t : o_max_depth o <> 0 ->
  forall d, nested_go o d t
            = if Nat.leb d (o_max_depth o)
              then [map_tree (nested_record o) (prune (o_max_depth o - d) t)] else [].
Proof.
  intros H0. induction t as [g n a ks IH] using tree_ind'. intros d.
  cbn [nested_go]. destruct (Nat.eqb (o_max_depth o) 0) eqn:E0; [apply Nat.eqb_eq in E0; contradiction|].
  cbn [orb]. destruct (Nat.leb d (o_max_depth o)) eqn:Ed; [|reflexivity].
  apply Nat.leb_le in Ed. f_equal.
  rewrite prune_unfold.
  rewrite map_tree_unfold.
  f_equal.
  { destruct (o_max_depth o - d) as [|k'] eqn:Ek.
    + (* d = max: no child passes *)
      assert (Hd : d = o_max_depth o) by lia. cbn [map].
      rewrite <- (flat_map_ext_Forall (fun _ => [])).
      * induction ks; [reflexivity|]. cbn. inversion IH; subst. auto.
      * eapply Forall_impl; [|exact IH]. intros k Hk. rewrite Hk.
        destruct (Nat.leb (S d) (o_max_depth o)) eqn:E; [apply Nat.leb_le in E; lia|reflexivity].
    + rewrite map_map, <- flat_map_singleton. apply flat_map_ext_Forall.
      eapply Forall_impl; [|exact IH]. intros k Hk. rewrite Hk.
      destruct (Nat.leb (S d) (o_max_depth o)) eqn:E; [|apply Nat.leb_gt in E; lia].
      replace (o_max_depth o - S d) with k' by lia. reflexivity. }
Qed.

Lemma anc_names_length root p : length (anc_names root p) = length p.
Proof. unfold anc_names. rewrite map_length, seq_length. reflexivity. Qed.

Theorem tree_to_nested_dict_spec root p o :
  tree_to_nested_dict root p o
  = match subtree_at root p with
    | None => Raise Unmodelled
    | Some _ => match spec_nested root p o with Some d => Ret d | None => Raise KeyError end
    end.
Proof.
  unfold tree_to_nested_dict, spec_nested. rewrite locate_spec.
  destruct (subtree_at root p) as [t|]; [|reflexivity]. cbn [app]. rewrite anc_names_length.
  destruct (Nat.eqb (o_max_depth o) 0) eqn:E0.
  - apply Nat.eqb_eq in E0. rewrite nested_go_unlimited by exact E0. reflexivity.
  - apply Nat.eqb_neq in E0. rewrite nested_go_limited by exact E0.
    destruct (Nat.leb (S (length p)) (o_max_depth o)); reflexivity.
Qed.

(* ---------------------------------------------------------------------------------------------- *)
(* sorting is a permutation; keys stay distinct *)

Section SortFacts.
  Context {V : Type}.
  Implicit Types l : list (str * V).

  Lemma insert_key_perm x l : Permutation (insert_key x l) (x :: l).
  Proof.
    induction l as [|y l IH]; [apply Permutation_refl|]. cbn [insert_key].
    destruct (str_ltb (fst x) (fst y)); [apply Permutation_refl|].
    eapply Permutation_trans; [apply perm_skip; exact IH|apply perm_swap].
  Qed.

  Lemma sort_items_perm l : Permutation (sort_items l) l.
  Proof.
    induction l as [|x l IH]; [apply Permutation_refl|]. cbn [sort_items fold_right].
    eapply Permutation_trans; [apply insert_key_perm|]. apply perm_skip. exact IH.
  Qed.

  Lemma filter_keys_nodup (p : str * V -> bool) l :
    NoDup (map fst l) -> NoDup (map fst (filter p l)).
  Proof.
    induction l as [|x l IH]; intros H; [exact H|]. cbn [map] in H. inversion H as [|? ? Hx Hl]; subst.
    cbn [filter]. destruct (p x); [|apply IH; exact Hl]. cbn [map]. constructor; [|apply IH; exact Hl].
    intros Hin. apply Hx. apply in_map_iff in Hin as [y [Hy Hin]]. apply filter_In in Hin as [Hin _].
    apply in_map_iff. exists y. split; assumption.
  Qed.

  Lemma sort_keys_nodup l : NoDup (map fst l) -> NoDup (map fst (sort_items l)).
  Proof.
    intros H. eapply Permutation_NoDup; [|exact H]. apply Permutation_map. apply Permutation_sym.
    apply sort_items_perm.
  Qed.
End SortFacts.

Lemma nodup_str_NoDup l : nodup_str l = true -> NoDup l.
Proof.
  induction l as [|x l IH]; intros H; [constructor|]. cbn [nodup_str] in H.
  apply andb_true_iff in H as [H1 H2]. constructor; [|apply IH; exact H2].
  intros Hin. apply negb_true_iff in H1. assert (E : existsb (str_eqb x) l = true).
  { apply existsb_exists. exists x. split; [exact Hin|apply str_eqb_refl]. }
  congruence.
Qed.

Lemma describe_keys_nodup t : NoDup (map fst (tattrs t)) -> NoDup (map fst (describe t)).
Proof. intros H. unfold describe. apply filter_keys_nodup. apply sort_keys_nodup. exact H. Qed.

Lemma describe_public t k : In k (map fst (describe t)) -> public_key k = true.
Proof.
  intros H. apply in_map_iff in H as [[k' v] [Hk Hin]]. cbn [fst] in Hk. subst.
  unfold describe in Hin. apply filter_In in Hin as [_ Hp]. exact Hp.
Qed.

Lemma describe_no_name t : ~ In s_name (map fst (describe t)).
Proof.
  intros H. apply describe_public in H. unfold public_key in H. rewrite str_eqb_refl in H. discriminate.
Qed.

Lemma norm_attrs_false a : norm_attrs false a = filter (fun kv => public_key (fst kv)) (sort_items a).
Proof.
  unfold norm_attrs. apply filter_ext. intros kv. cbn [negb orb]. rewrite andb_true_r. reflexivity.
Qed.

Lemma norm_tree_name dn t : tname (norm_tree dn t) = tname t.
Proof. destruct t; reflexivity. Qed.

(* validity, one level *)
Lemma forallb_flat_map {A B} (p : B -> bool) (f : A -> list B) l :
  forallb p (flat_map f l) = forallb (fun x => forallb p (f x)) l.
Proof.
  induction l as [|x l IH]; [reflexivity|]. cbn [flat_map forallb]. rewrite forallb_app, IH. reflexivity.
Qed.

Lemma valid_tree_inv g n a ks : valid_tree (T g n a ks) = true ->
  node_ok (T g n a ks) = true /\ Forall (fun k => valid_tree k = true) ks.
Proof.
  unfold valid_tree. cbn [pre forallb]. intros H. apply andb_true_iff in H as [H1 H2]. split; [exact H1|].
  rewrite forallb_flat_map in H2. apply Forall_forall. intros k Hk.
  rewrite forallb_forall in H2. apply H2. exact Hk.
Qed.

Lemma node_ok_inv g n a ks : node_ok (T g n a ks) = true ->
  n <> [] /\ NoDup (map tname ks) /\ NoDup (map fst a).
Proof.
  unfold node_ok. cbn [tname tkids tattrs]. intros H.
  apply andb_true_iff in H as [H H3]. apply andb_true_iff in H as [H1 H2].
  split; [intros ->; discriminate|]. split; apply nodup_str_NoDup; assumption.
Qed.

(* ---------------------------------------------------------------------------------------------- *)
(* nested round trip *)

Definition nd_kids (name_key n : str) (fields : record) :=
  fix go (l : list tree) (acc : list tree) : res tree :=
    match l with
    | [] => Ret (T None n (dict_del name_key fields) (rev acc))
    | k :: r =>
        match nested_dict_to_tree name_key k with
        | Ret k' => if existsb (fun x => str_eqb (tname x) (tname k')) acc
                    then Raise TreeError else go r (k' :: acc)
        | Raise e => Raise e
        end
    end.

Lemma nested_dict_to_tree_unfold nk g m fields kids :
  nested_dict_to_tree nk (T g m fields kids)
  = match dict_get nk fields with
    | Some (VStr n) => if is_empty n then Raise TreeError else nd_kids nk n fields kids []
    | Some _ => Raise Unmodelled
    | None => Raise KeyError
    end.
Proof. reflexivity. Qed.

Lemma nd_kids_ok nk n fields (F : tree -> tree) (N : tree -> tree) :
  (forall k, tname (N k) = tname k) ->
  forall l acc,
    Forall (fun k => nested_dict_to_tree nk (F k) = Ret (N k)) l ->
    NoDup (map tname l) ->
    (forall x k, In x acc -> In k l -> tname x <> tname k) ->
    nd_kids nk n fields (map F l) acc = Ret (T None n (dict_del nk fields) (rev acc ++ map N l)).
Proof.
  intros HN. induction l as [|k l IH]; intros acc HF Hnd Hacc.
  - cbn. rewrite app_nil_r. reflexivity.
  - inversion HF as [|? ? Hk HF']; subst. cbn [map] in Hnd. inversion Hnd as [|? ? Hkl Hnd']; subst.
    cbn [map nd_kids]. rewrite Hk.
    destruct (existsb (fun x => str_eqb (tname x) (tname (N k))) acc) eqn:E.
    { apply existsb_exists in E as [x [Hx Ex]]. apply str_eqb_eq in Ex. rewrite HN in Ex.
      exfalso. apply (Hacc x k Hx (or_introl eq_refl)). exact Ex. }
    fold (nd_kids nk n fields). rewrite IH; [|exact HF'|exact Hnd'|].
    + cbn [rev]. rewrite <- app_assoc. reflexivity.
    + intros x k' [Hx|Hx] Hk'.
      * subst x. rewrite HN. intros Heq. apply Hkl. rewrite Heq. apply in_map. exact Hk'.
      * apply Hacc; [exact Hx|right; exact Hk'].
Qed.

Lemma nested_record_full t :
  NoDup (map fst (tattrs t)) ->
  nested_record full_opts t = (s_name, VStr (tname t)) :: describe t.
Proof.
  intros H. unfold nested_record, requested. cbn [full_opts o_all_attrs o_name_key].
  apply dict_of_nodup. cbn [map fst]. constructor; [apply describe_no_name|].
  apply describe_keys_nodup. exact H.
Qed.

Lemma nested_import t : valid_tree t = true ->
  nested_dict_to_tree s_name (map_tree (nested_record full_opts) t) = Ret (norm_tree false t).
Proof.
  induction t as [g n a ks IH] using tree_ind'. intros Hv.
  apply valid_tree_inv in Hv as [Hok Hks]. apply node_ok_inv in Hok as [Hn [Hnames Ha]].
  rewrite map_tree_unfold, nested_dict_to_tree_unfold.
  rewrite nested_record_full by exact Ha. cbn [tname dict_get]. rewrite str_eqb_refl.
  destruct n as [|c n]; [contradiction|]. cbn [is_empty nonempty negb].
  rewrite (nd_kids_ok s_name (c :: n) _ (map_tree (nested_record full_opts)) (norm_tree false)).
  - cbn [rev app norm_tree]. f_equal. f_equal.
    unfold dict_del. cbn [filter fst]. rewrite str_eqb_refl. cbn [negb].
    fold (dict_del s_name (describe (T g (c :: n) a ks))).
    rewrite dict_del_absent by apply describe_no_name. rewrite norm_attrs_false. reflexivity.
  - intros k. apply norm_tree_name.
  - rewrite Forall_forall in *. intros k Hk. apply IH; [exact Hk|]. apply Hks. exact Hk.
  - exact Hnames.
  - intros x k [].
Qed.

Theorem rt_nested_ok t : valid_tree t = true -> rt_nested t = Ret (norm_tree false t).
Proof.
  intros Hv. unfold rt_nested. rewrite tree_to_nested_dict_spec. cbn [subtree_at].
  unfold spec_nested. cbn [subtree_at full_opts o_max_depth Nat.eqb bind].
  apply nested_import. exact Hv.
Qed.

(* ---------------------------------------------------------------------------------------------- *)
(* str_ltb is a strict total order; sorted lists *)

Lemma str_ltb_irrefl a : str_ltb a a = false.
Proof.
  induction a as [|x a IH]; [reflexivity|]. cbn [str_ltb]. rewrite N.ltb_irrefl, N.eqb_refl, IH. reflexivity.
Qed.

Lemma str_ltb_trans a : forall b c, str_ltb a b = true -> str_ltb b c = true -> str_ltb a c = true.
Proof.
  induction a as [|x a IH]; intros [|y b] [|z c] H1 H2; cbn [str_ltb] in *; try discriminate; try reflexivity.
  apply orb_true_iff in H1. apply orb_true_iff in H2. apply orb_true_iff.
  destruct H1 as [H1|H1], H2 as [H2|H2].
  - left. apply N.ltb_lt in H1, H2. apply N.ltb_lt. lia.
  - apply andb_true_iff in H2 as [E2 _]. apply N.eqb_eq in E2. subst. left. exact H1.
  - apply andb_true_iff in H1 as [E1 _]. apply N.eqb_eq in E1. subst. left. exact H2.
  - apply andb_true_iff in H1 as [E1 L1]. apply andb_true_iff in H2 as [E2 L2].
    apply N.eqb_eq in E1, E2. subst. right. rewrite N.eqb_refl. cbn [andb]. eapply IH; eassumption.
Qed.

Lemma str_ltb_total a : forall b, str_ltb a b = false -> a <> b -> str_ltb b a = true.
Proof.
  induction a as [|x a IH]; intros [|y b] H Hne; cbn [str_ltb] in *; try discriminate; try reflexivity.
  - contradiction.
  - apply orb_false_iff in H as [H1 H2]. apply N.ltb_ge in H1.
    destruct (N.eqb x y) eqn:E.
    + apply N.eqb_eq in E. subst. cbn [andb] in H2. rewrite N.ltb_irrefl, N.eqb_refl. cbn [orb andb].
      apply IH; [exact H2|]. intros ->. apply Hne. reflexivity.
    + apply N.eqb_neq in E. apply orb_true_iff. left. apply N.ltb_lt. lia.
Qed.

Section Sorted.
  Context {V : Type}.
  Implicit Types l : list (str * V).
  Definition klt (x y : str * V) : Prop := str_ltb (fst x) (fst y) = true.

  Inductive ssorted : list (str * V) -> Prop :=
  | ss_nil : ssorted []
  | ss_cons x l : Forall (klt x) l -> ssorted l -> ssorted (x :: l).

  Lemma insert_key_sorted x l :
    ssorted l -> ~ In (fst x) (map fst l) -> ssorted (insert_key x l).
  Proof.
    induction 1 as [|y l Hy Hl IH]; intros Hx.
    - cbn. constructor; constructor.
    - cbn [insert_key]. destruct (str_ltb (fst x) (fst y)) eqn:E.
      + constructor; [|constructor; assumption]. constructor; [exact E|].
        eapply Forall_impl; [|exact Hy]. intros z Hz. unfold klt in *. eapply str_ltb_trans; eassumption.
      + assert (Hyx : klt y x).
        { apply str_ltb_total; [exact E|]. intros Heq. apply Hx. left. symmetry. exact Heq. }
        constructor.
        * eapply Permutation_Forall; [apply Permutation_sym; apply insert_key_perm|].
          constructor; assumption.
        * apply IH. intros Hin. apply Hx. right. exact Hin.
  Qed.

  Lemma sort_items_sorted l : NoDup (map fst l) -> ssorted (sort_items l).
  Proof.
    induction l as [|x l IH]; intros H; [constructor|]. cbn [map] in H. inversion H as [|? ? Hx Hl]; subst.
    cbn [sort_items fold_right]. apply insert_key_sorted; [apply IH; exact Hl|].
    intros Hin. apply Hx. eapply Permutation_in; [|exact Hin]. apply Permutation_map. apply sort_items_perm.
  Qed.

  Lemma sorted_sort_id l : ssorted l -> sort_items l = l.
  Proof.
    induction 1 as [|x l Hx Hl IH]; [reflexivity|]. cbn [sort_items fold_right].
    fold (sort_items l). rewrite IH. destruct l as [|y l]; [reflexivity|]. cbn [insert_key].
    inversion Hx as [|? ? Hxy _]; subst. unfold klt in Hxy. rewrite Hxy. reflexivity.
  Qed.

  Lemma filter_sorted (p : str * V -> bool) l : ssorted l -> ssorted (filter p l).
  Proof.
    induction 1 as [|x l Hx Hl IH]; [constructor|]. cbn [filter]. destruct (p x); [|exact IH].
    constructor; [|exact IH]. apply Forall_forall. intros y Hy. apply filter_In in Hy as [Hy _].
    rewrite Forall_forall in Hx. apply Hx. exact Hy.
  Qed.

  Lemma klt_irrefl x : ~ klt x x.
  Proof. unfold klt. rewrite str_ltb_irrefl. discriminate. Qed.

  (* a sorted list is determined by its elements *)
  Lemma sorted_perm_eq l1 : forall l2, ssorted l1 -> ssorted l2 -> Permutation l1 l2 -> l1 = l2.
  Proof.
    induction l1 as [|x l1 IH]; intros l2 H1 H2 Hp.
    - apply Permutation_nil in Hp. subst. reflexivity.
    - destruct l2 as [|y l2]; [apply Permutation_sym, Permutation_nil in Hp; discriminate|].
      inversion H1 as [|? ? Hx Hs1]; subst. inversion H2 as [|? ? Hy Hs2]; subst.
      assert (Exy : x = y).
      { assert (Hin1 : In x (y :: l2)) by (eapply Permutation_in; [exact Hp|left; reflexivity]).
        assert (Hin2 : In y (x :: l1)) by (eapply Permutation_in; [apply Permutation_sym; exact Hp|left; reflexivity]).
        destruct Hin1 as [E|Hin1]; [symmetry; exact E|]. destruct Hin2 as [E|Hin2]; [exact E|].
        rewrite Forall_forall in Hx, Hy. exfalso. apply (klt_irrefl x).
        unfold klt. eapply str_ltb_trans; [apply Hx; exact Hin2|apply Hy; exact Hin1]. }
      subst y. f_equal. apply IH; [exact Hs1|exact Hs2|]. eapply Permutation_cons_inv. exact Hp.
  Qed.
End Sorted.

Lemma attrs_eqb_refl a : attrs_eqb a a = true.
Proof.
  induction a as [|[k v] a IH]; [reflexivity|]. cbn [attrs_eqb]. rewrite str_eqb_refl, IH.
  rewrite andb_true_r. cbn [andb].
  destruct v; cbn [val_eqb]; try reflexivity.
  - apply Z.eqb_refl.
  - apply str_eqb_refl.
  - destruct b; reflexivity.
  - apply Z.eqb_refl.
Qed.

Lemma tree_eqb_refl t : tree_eqb t t = true.
Proof.
  induction t as [g n a ks IH] using tree_ind'. cbn [tree_eqb].
  rewrite str_eqb_refl, attrs_eqb_refl. cbn [andb].
  induction ks as [|k ks IHk]; [reflexivity|]. inversion IH as [|? ? Hk Hks]; subst.
  rewrite Hk. cbn [andb]. apply IHk. exact Hks.
Qed.

(* a normalised tree is its own sorted form *)
Lemma norm_attrs_sorted dn a : NoDup (map fst a) -> sort_items (norm_attrs dn a) = norm_attrs dn a.
Proof.
  intros H. apply sorted_sort_id. unfold norm_attrs. apply filter_sorted. apply sort_items_sorted. exact H.
Qed.

Lemma sort_norm_tree dn t : valid_tree t = true -> sort_tree (norm_tree dn t) = norm_tree dn t.
Proof.
  induction t as [g n a ks IH] using tree_ind'. intros Hv.
  apply valid_tree_inv in Hv as [Hok Hks]. apply node_ok_inv in Hok as [_ [_ Ha]].
  cbn [norm_tree sort_tree]. rewrite norm_attrs_sorted by exact Ha. f_equal.
  rewrite map_map. apply map_ext_in. intros k Hk. rewrite Forall_forall in IH, Hks.
  apply IH; [exact Hk|apply Hks; exact Hk].
Qed.

Lemma same_tree_norm dn t : valid_tree t = true -> same_tree dn t (Ret (norm_tree dn t)) = true.
Proof. intros Hv. unfold same_tree. rewrite sort_norm_tree by exact Hv. apply tree_eqb_refl. Qed.

(* ---------------------------------------------------------------------------------------------- *)
(* parsing a path string written with a single-character separator that occurs in no name *)

Section Parse.
  Variable c : N.
  Definition clean (w : str) : Prop := w <> [] /\ ~ In c w.

  Lemma contains_char w : contains w [c] = false -> ~ In c w.
  Proof.
    induction w as [|x w IH]; intros H; [intros []|]. cbn [contains startswith] in H.
    apply orb_false_iff in H as [H1 H2]. rewrite andb_true_r in H1. apply N.eqb_neq in H1.
    intros [E|Hin]; [congruence|]. apply IH; assumption.
  Qed.

  Lemma split_go_word w : ~ In c w -> forall fuel cur rest,
    split_go (length w + fuel) [c] cur (w ++ rest) = split_go fuel [c] (rev w ++ cur) rest.
  Proof.
    induction w as [|x w IH]; intros Hw fuel cur rest; [reflexivity|].
    cbn [length Nat.add app split_go startswith].
    assert (E : N.eqb c x = false) by (apply N.eqb_neq; intros ->; apply Hw; left; reflexivity).
    rewrite E. cbn [andb]. rewrite IH by (intros Hin; apply Hw; right; exact Hin).
    cbn [rev]. rewrite <- app_assoc. reflexivity.
  Qed.

  Lemma split_go_nil fuel cur : split_go fuel [c] cur [] = [rev cur].
  Proof. destruct fuel; reflexivity. Qed.

  Lemma split_go_join ws : forall w cur fuel,
    Forall (fun w => ~ In c w) (w :: ws) -> length (join [c] (w :: ws)) < fuel ->
    split_go fuel [c] cur (join [c] (w :: ws)) = (rev cur ++ w) :: ws.
  Proof.
    induction ws as [|w2 ws IH]; intros w cur fuel HF Hlen; inversion HF as [|? ? Hw HF']; subst.
    - cbn [join] in *. pose proof (split_go_word w Hw (fuel - length w) cur []) as E.
      rewrite app_nil_r in E. replace (length w + (fuel - length w)) with fuel in E by lia.
      rewrite E, split_go_nil, rev_app_distr, rev_involutive. reflexivity.
    - rewrite join_cons in *. unfold str in *. rewrite !app_length in Hlen. cbn [length] in Hlen.
      pose proof (split_go_word w Hw (S (fuel - length w - 1)) cur ([c] ++ join [c] (w2 :: ws))) as E.
      replace (length w + S (fuel - length w - 1)) with fuel in E by lia. eapply eq_trans; [exact E|]. clear E.
      cbn [app split_go startswith]. rewrite N.eqb_refl. cbn [andb length skipn].
      rewrite rev_app_distr, rev_involutive. f_equal.
      rewrite IH; [reflexivity|exact HF'|lia].
  Qed.

  Lemma split_join w ws : Forall (fun w => ~ In c w) (w :: ws) -> split (join [c] (w :: ws)) [c] = w :: ws.
  Proof. intros H. unfold split. rewrite split_go_join; [reflexivity|exact H|lia]. Qed.

  Lemma join_head x w ws : exists s, join [c] ((x :: w) :: ws) = x :: s.
  Proof. destruct ws; [exists w; reflexivity|]. rewrite join_cons. eexists. reflexivity. Qed.

  Lemma join_last ws : forall w, Forall clean (w :: ws) -> exists s y, join [c] (w :: ws) = s ++ [y] /\ y <> c.
  Proof.
    induction ws as [|w2 ws IH]; intros w HF; inversion HF as [|? ? [Hne Hc] HF']; subst.
    - cbn [join]. destruct (exists_last Hne) as [s [y E]]. exists s, y. split; [exact E|].
      intros ->. apply Hc. rewrite E. apply in_or_app. right. left. reflexivity.
    - destruct (IH w2 HF') as [s [y [E Hy]]]. rewrite join_cons, E. exists (w ++ [c] ++ s), y.
      split; [|exact Hy]. rewrite <- !app_assoc. reflexivity.
  Qed.

  Lemma memN_single x : memN x [c] = N.eqb x c.
  Proof. unfold memN. cbn. apply orb_false_r. Qed.

  Lemma lstrip_sep s : lstrip (c :: s) [c] = lstrip s [c].
  Proof. cbn [lstrip]. rewrite memN_single, N.eqb_refl. reflexivity. Qed.

  Lemma lstrip_other x s : x <> c -> lstrip (x :: s) [c] = x :: s.
  Proof. intros H. cbn [lstrip]. rewrite memN_single. apply N.eqb_neq in H. rewrite H. reflexivity. Qed.

  Lemma rstrip_other s y : y <> c -> rstrip (s ++ [y]) [c] = s ++ [y].
  Proof.
    intros H. unfold rstrip. rewrite rev_app_distr. cbn [rev app]. rewrite lstrip_other by exact H.
    cbn [rev]. rewrite rev_involutive. reflexivity.
  Qed.

  Lemma strip_path_ok w ws : Forall clean (w :: ws) ->
    strip_path (path_name [c] (w :: ws)) [c] = join [c] (w :: ws).
  Proof.
    intros HF. unfold strip_path, path_name. change ([c] ++ join [c] (w :: ws)) with (c :: join [c] (w :: ws)).
    rewrite lstrip_sep. destruct (join_last ws w HF) as [s' [y [E Hy]]].
    inversion HF as [|? ? [Hw Hc] _]; subst. destruct w as [|x w]; [contradiction|].
    destruct (join_head x w ws) as [s Es].
    assert (Hx : x <> c) by (intros ->; apply Hc; left; reflexivity).
    unfold str in *. rewrite Es, lstrip_other by exact Hx. rewrite <- Es, E. apply rstrip_other. exact Hy.
  Qed.

  Lemma branch_of_path l : l <> [] -> Forall clean l -> branch_of (path_name [c] l) [c] = l.
  Proof.
    intros Hne HF. destruct l as [|w ws]; [contradiction|].
    unfold branch_of. rewrite strip_path_ok by exact HF. apply split_join.
    eapply Forall_impl; [|exact HF]. intros x [_ H]. exact H.
  Qed.

  Lemma path_name_inj l1 l2 : l1 <> [] -> l2 <> [] -> Forall clean l1 -> Forall clean l2 ->
    path_name [c] l1 = path_name [c] l2 -> l1 = l2.
  Proof.
    intros N1 N2 H1 H2 E. rewrite <- (branch_of_path l1 N1 H1), <- (branch_of_path l2 N2 H2), E. reflexivity.
  Qed.

  Lemma add_branch_name names na t : tname (add_branch names na t) = tname t.
  Proof. destruct names, t; reflexivity. Qed.

  Lemma add_path_to_tree_ok t r rest na :
    tname t = r -> Forall clean (r :: rest) ->
    add_path_to_tree t (path_name [c] (r :: rest)) [c] na = Ret (add_branch rest na t).
  Proof.
    intros Hr HF. unfold add_path_to_tree. rewrite branch_of_path by (try discriminate; exact HF).
    cbn [path_name app is_empty nonempty negb]. rewrite Hr, str_eqb_refl. cbn [negb].
    inversion HF as [|? ? _ HF']; subst.
    assert (E : existsb is_empty rest = false).
    { clear HF. induction rest as [|w rest IH]; [reflexivity|]. inversion HF' as [|? ? [Hw _] HF'']; subst.
      cbn [existsb]. destruct w; [contradiction|]. cbn. apply IH. exact HF''. }
    rewrite E. reflexivity.
  Qed.
End Parse.

(* ---------------------------------------------------------------------------------------------- *)
(* the nodes with their name paths, presented inductively *)

Fixpoint rel_nodes (t : tree) : list (list str * tree) :=
  match t with
  | T _ n _ ks => ([n], t) :: flat_map (fun k => map (fun pr => (n :: fst pr, snd pr)) (rel_nodes k)) ks
  end.

Lemma nodes_under_rel t : forall anc,
  nodes_under anc t = map (fun pr => (anc ++ fst pr, snd pr)) (rel_nodes t).
Proof.
  induction t as [g n a ks IH] using tree_ind'. intros anc.
  rewrite nodes_under_unfold. cbn [rel_nodes map fst snd]. unfold ctx_of. cbn [tname]. f_equal.
  rewrite map_flat_map. apply flat_map_ext_Forall. eapply Forall_impl; [|exact IH].
  intros k Hk. cbn beta. rewrite Hk, map_map. apply map_ext. intros pr. cbn [fst snd].
  rewrite <- app_assoc. reflexivity.
Qed.

Lemma nodes_under_root t : nodes_under [] t = rel_nodes t.
Proof.
  rewrite nodes_under_rel. rewrite <- (map_id (rel_nodes t)) at 2. apply map_ext. intros [p x]. reflexivity.
Qed.

Lemma rel_nodes_head t : Forall (fun pr => exists r, fst pr = tname t :: r) (rel_nodes t).
Proof.
  destruct t as [g n a ks]. cbn [rel_nodes tname]. constructor; [exists []; reflexivity|].
  apply Forall_forall. intros pr Hin. apply in_flat_map in Hin as [k [_ Hin]].
  apply in_map_iff in Hin as [qr [E _]]. subst pr. cbn [fst]. eexists. reflexivity.
Qed.

Lemma NoDup_app_intro {A} (l1 l2 : list A) :
  NoDup l1 -> NoDup l2 -> (forall x, In x l1 -> ~ In x l2) -> NoDup (l1 ++ l2).
Proof.
  induction l1 as [|x l1 IH]; intros H1 H2 Hd; [exact H2|]. inversion H1 as [|? ? Hx H1']; subst.
  cbn [app]. constructor.
  - intros Hin. apply in_app_or in Hin as [Hin|Hin]; [contradiction|]. apply (Hd x); [left; reflexivity|exact Hin].
  - apply IH; [exact H1'|exact H2|]. intros y Hy. apply Hd. right. exact Hy.
Qed.

Lemma NoDup_map_inj_on {A B} (f : A -> B) l :
  (forall x y, In x l -> In y l -> f x = f y -> x = y) -> NoDup l -> NoDup (map f l).
Proof.
  induction l as [|x l IH]; intros Hinj Hn; [constructor|]. inversion Hn as [|? ? Hx Hl]; subst.
  cbn [map]. constructor.
  - intros Hin. apply in_map_iff in Hin as [y [E Hy]]. apply Hx.
    rewrite (Hinj x y); [exact Hy|left; reflexivity|right; exact Hy|symmetry; exact E].
  - apply IH; [|exact Hl]. intros a b Ha Hb. apply Hinj; right; assumption.
Qed.

Lemma rel_paths_nodup t : valid_tree t = true -> NoDup (map fst (rel_nodes t)).
Proof.
  induction t as [g n a ks IH] using tree_ind'. intros Hv.
  apply valid_tree_inv in Hv as [Hok Hks]. apply node_ok_inv in Hok as [_ [Hnames _]].
  cbn [rel_nodes map fst]. rewrite map_flat_map. constructor.
  - intros Hin. apply in_flat_map in Hin as [k [_ Hin]]. rewrite map_map in Hin. cbn [fst] in Hin.
    apply in_map_iff in Hin as [pr [E Hpr]].
    pose proof (rel_nodes_head k) as Hh. rewrite Forall_forall in Hh. destruct (Hh pr Hpr) as [r Er].
    rewrite Er in E. discriminate.
  - assert (IH' : Forall (fun k => NoDup (map fst (rel_nodes k))) ks).
    { rewrite Forall_forall in *. intros k Hk. apply IH; [exact Hk|apply Hks; exact Hk]. }
    clear IH Hks. induction ks as [|k ks IHk]; [constructor|].
    inversion IH' as [|? ? Hk IH'']; subst. cbn [map] in Hnames. inversion Hnames as [|? ? Hkn Hnames']; subst.
    cbn [flat_map]. apply NoDup_app_intro.
    + rewrite map_map. cbn [fst]. rewrite <- (map_map fst (cons n)).
      apply NoDup_map_inj_on; [|exact Hk]. intros x y _ _ E. injection E as E. exact E.
    + apply IHk; assumption.
    + intros x Hx Hx'. rewrite map_map in Hx. cbn [fst] in Hx. apply in_map_iff in Hx as [pr [E Hpr]].
      apply in_flat_map in Hx' as [k' [Hk' Hx']]. rewrite map_map in Hx'. cbn [fst] in Hx'.
      apply in_map_iff in Hx' as [pr' [E' Hpr']].
      pose proof (rel_nodes_head k) as Hh. rewrite Forall_forall in Hh. destruct (Hh pr Hpr) as [r Er].
      pose proof (rel_nodes_head k') as Hh'. rewrite Forall_forall in Hh'. destruct (Hh' pr' Hpr') as [r' Er'].
      rewrite Er in E. rewrite Er' in E'. subst x. injection E' as E'. 
      apply Hkn. rewrite <- E'. apply in_map. exact Hk'.
Qed.

(* names without the separator character *)
Definition names_clean (c : N) (t : tree) : Prop := Forall (fun n => clean c (tname n)) (pre t).

Lemma names_clean_of c t : valid_tree t = true -> sep_safe [c] t = true -> names_clean c t.
Proof.
  unfold valid_tree, sep_safe, names_clean. cbn [nonempty andb]. intros Hv Hs.
  rewrite forallb_forall in Hv, Hs. apply Forall_forall. intros n Hn. split.
  - specialize (Hv n Hn). unfold node_ok in Hv. apply andb_true_iff in Hv as [Hv _].
    apply andb_true_iff in Hv as [Hv _]. intros E. rewrite E in Hv. discriminate.
  - apply contains_char. specialize (Hs n Hn). apply negb_true_iff in Hs. exact Hs.
Qed.

Lemma names_clean_inv c g n a ks : names_clean c (T g n a ks) ->
  clean c n /\ Forall (names_clean c) ks.
Proof.
  unfold names_clean. cbn [pre]. intros H. inversion H as [|? ? Hn Hr]; subst. split; [exact Hn|].
  apply Forall_forall. intros k Hk. apply Forall_forall. intros x Hx.
  rewrite Forall_forall in Hr. apply Hr. apply in_flat_map. exists k. split; assumption.
Qed.

Lemma rel_nodes_clean c t : names_clean c t -> Forall (fun pr => Forall (clean c) (fst pr)) (rel_nodes t).
Proof.
  induction t as [g n a ks IH] using tree_ind'. intros Hc.
  apply names_clean_inv in Hc as [Hn Hks]. cbn [rel_nodes]. constructor; [cbn [fst]; constructor; [exact Hn|constructor]|].
  apply Forall_forall. intros pr Hin. apply in_flat_map in Hin as [k [Hk Hin]].
  apply in_map_iff in Hin as [qr [E Hqr]]. subst pr. cbn [fst]. constructor; [exact Hn|].
  rewrite Forall_forall in IH, Hks. specialize (IH k Hk (Hks k Hk)). rewrite Forall_forall in IH. apply IH. exact Hqr.
Qed.

Lemma rel_nodes_nonempty t : Forall (fun pr => fst pr <> []) (rel_nodes t).
Proof.
  eapply Forall_impl; [|apply rel_nodes_head]. intros pr [r E]. rewrite E. discriminate.
Qed.

(* C06: distinct paths *)
Lemma paths_nodup c t : valid_tree t = true -> sep_safe [c] t = true ->
  NoDup (map (c_path [c]) (nodes_under [] t)).
Proof.
  intros Hv Hs. rewrite nodes_under_root.
  change (map (c_path [c]) (rel_nodes t)) with (map (fun pr => path_name [c] (fst pr)) (rel_nodes t)).
  rewrite <- (map_map fst (path_name [c])). apply NoDup_map_inj_on; [|apply rel_paths_nodup; exact Hv].
  intros x y Hx Hy E. apply in_map_iff in Hx as [px [Ex Hx]]. apply in_map_iff in Hy as [py [Ey Hy]].
  pose proof (rel_nodes_clean c t (names_clean_of c t Hv Hs)) as Hc. rewrite Forall_forall in Hc.
  pose proof (rel_nodes_nonempty t) as Hn. rewrite Forall_forall in Hn. subst x y.
  apply (path_name_inj c); auto.
Qed.

(* ---------------------------------------------------------------------------------------------- *)
(* inserting the records of a tree in pre-order rebuilds the tree *)

Definition ins_all (l : list (list str * record)) (t : tree) : tree :=
  fold_left (fun t pr => add_branch (fst pr) (snd pr) t) l t.

Fixpoint rel_recs (f : tree -> record) (t : tree) : list (list str * record) :=
  match t with
  | T _ n _ ks =>
      ([], f t) :: flat_map (fun k => map (fun qr => (tname k :: fst qr, snd qr)) (rel_recs f k)) ks
  end.

Fixpoint rebuild (f : tree -> record) (t : tree) : tree :=
  match t with T _ n _ ks => T None n (f t) (map (rebuild f) ks) end.

Lemma rebuild_name f t : tname (rebuild f t) = tname t.
Proof. destruct t; reflexivity. Qed.

Lemma rel_nodes_recs f t :
  map (fun pr => (fst pr, f (snd pr))) (rel_nodes t)
  = map (fun qr => (tname t :: fst qr, snd qr)) (rel_recs f t).
Proof.
  induction t as [g n a ks IH] using tree_ind'. cbn [rel_nodes rel_recs map fst snd tname]. f_equal.
  rewrite !map_flat_map. apply flat_map_ext_Forall. eapply Forall_impl; [|exact IH].
  intros k Hk. cbn beta. rewrite !map_map. cbn [fst snd].
  rewrite <- (map_map (fun pr => (fst pr, f (snd pr))) (fun qr => (n :: fst qr, snd qr))).
  rewrite Hk, map_map. reflexivity.
Qed.

Lemma rel_recs_clean c f t : names_clean c t ->
  Forall (fun qr => Forall (clean c) (tname t :: fst qr)) (rel_recs f t).
Proof.
  intros Hc. pose proof (rel_nodes_clean c t Hc) as H.
  assert (H' : Forall (fun pr => Forall (clean c) (fst pr)) (map (fun pr => (fst pr, f (snd pr))) (rel_nodes t))).
  { apply Forall_forall. intros pr Hin. apply in_map_iff in Hin as [qr [E Hqr]]. subst pr. cbn [fst].
    rewrite Forall_forall in H. apply H. exact Hqr. }
  rewrite rel_nodes_recs in H'. apply Forall_forall. intros qr Hqr. rewrite Forall_forall in H'.
  apply (H' (tname t :: fst qr, snd qr)). apply in_map_iff. exists qr. split; [reflexivity|exact Hqr].
Qed.

Fixpoint upd_first (m : str) (F : tree -> tree) (l : list tree) : list tree :=
  match l with
  | [] => [F (new_node m)]
  | k :: r => if str_eqb (tname k) m then F k :: r else k :: upd_first m F r
  end.

Lemma add_branch_cons m p na g n a ks :
  add_branch (m :: p) na (T g n a ks) = T g n a (upd_first m (add_branch p na) ks).
Proof.
  cbn [add_branch]. f_equal. induction ks as [|k ks IH]; [reflexivity|]. cbn [upd_first].
  destruct (str_eqb (tname k) m); [reflexivity|]. f_equal. exact IH.
Qed.

Lemma upd_first_ext m F G l : (forall x, F x = G x) -> upd_first m F l = upd_first m G l.
Proof.
  intros H. induction l as [|k l IH]; cbn [upd_first]; [rewrite H; reflexivity|].
  destruct (str_eqb (tname k) m); [rewrite H; reflexivity|]. f_equal. exact IH.
Qed.

Lemma upd_first_twice m F G l : (forall x, tname (F x) = tname x) ->
  upd_first m G (upd_first m F l) = upd_first m (fun x => G (F x)) l.
Proof.
  intros HF. induction l as [|k l IH]; cbn [upd_first].
  - rewrite HF. cbn [new_node tname]. rewrite str_eqb_refl. reflexivity.
  - destruct (str_eqb (tname k) m) eqn:E; cbn [upd_first].
    + rewrite HF, E. reflexivity.
    + rewrite E. f_equal. exact IH.
Qed.

Lemma upd_first_fresh m F l : ~ In m (map tname l) -> upd_first m F l = l ++ [F (new_node m)].
Proof.
  induction l as [|k l IH]; intros H; [reflexivity|]. cbn [upd_first].
  destruct (str_eqb (tname k) m) eqn:E.
  - apply str_eqb_eq in E. exfalso. apply H. left. exact E.
  - cbn [app]. f_equal. apply IH. intros Hin. apply H. right. exact Hin.
Qed.

Lemma ins_all_name l : forall t, tname (ins_all l t) = tname t.
Proof.
  induction l as [|x l IH]; intros t; [reflexivity|]. unfold ins_all. cbn [fold_left].
  fold (ins_all l (add_branch (fst x) (snd x) t)). rewrite IH. apply add_branch_name.
Qed.

Lemma ins_all_app l1 l2 t : ins_all (l1 ++ l2) t = ins_all l2 (ins_all l1 t).
Proof. unfold ins_all. apply fold_left_app. Qed.

Lemma ins_all_cons x l t : ins_all (x :: l) t = ins_all l (add_branch (fst x) (snd x) t).
Proof. reflexivity. Qed.

(* a block of records below the child called m only touches that child *)
Lemma ins_block m L : forall x g n a cs,
  ins_all (map (fun qr => (m :: fst qr, snd qr)) (x :: L)) (T g n a cs)
  = T g n a (upd_first m (ins_all (x :: L)) cs).
Proof.
  induction L as [|y L IH]; intros x g n a cs.
  - cbn [map]. rewrite ins_all_cons. cbn [fst snd ins_all fold_left]. rewrite add_branch_cons. reflexivity.
  - change (map (fun qr => (m :: fst qr, snd qr)) (x :: y :: L))
      with ((m :: fst x, snd x) :: map (fun qr => (m :: fst qr, snd qr)) (y :: L)).
    rewrite ins_all_cons. cbn [fst snd]. rewrite add_branch_cons, IH. f_equal.
    rewrite upd_first_twice by (intros z; apply add_branch_name).
    apply upd_first_ext. intros z. reflexivity.
Qed.

Lemma rel_recs_cons f t : exists x L, rel_recs f t = x :: L.
Proof. destruct t. cbn [rel_recs]. eexists. eexists. reflexivity. Qed.

Lemma kids_loop f g n a ks : forall done,
  NoDup (map tname (done ++ ks)) ->
  Forall (fun k => ins_all (rel_recs f k) (new_node (tname k)) = rebuild f k) ks ->
  ins_all (flat_map (fun k => map (fun qr => (tname k :: fst qr, snd qr)) (rel_recs f k)) ks) (T g n a done)
  = T g n a (done ++ map (rebuild f) ks).
Proof.
  induction ks as [|k ks IH]; intros done Hnd HF.
  - cbn. rewrite app_nil_r. reflexivity.
  - inversion HF as [|? ? Hk HF']; subst. cbn [flat_map]. rewrite ins_all_app.
    destruct (rel_recs_cons f k) as [x [L E]]. rewrite E, ins_block, <- E.
    rewrite upd_first_fresh.
    + rewrite Hk, IH.
      * rewrite <- app_assoc. reflexivity.
      * rewrite <- app_assoc. cbn [app]. rewrite !map_app in *. cbn [map] in *. rewrite rebuild_name. exact Hnd.
      * exact HF'.
    + rewrite map_app in Hnd. cbn [map] in Hnd. apply NoDup_remove_2 in Hnd.
      intros Hin. apply Hnd. apply in_or_app. left. exact Hin.
Qed.

Lemma rebuild_from_records f t :
  valid_tree t = true ->
  (forall x, NoDup (map fst (tattrs x)) -> NoDup (map fst (f x))) ->
  forall a0, dict_update a0 (f t) = f t ->
  ins_all (rel_recs f t) (T None (tname t) a0 []) = rebuild f t.
Proof.
  intros Hv Hf. induction t as [g n a ks IH] using tree_ind'. intros a0 Ha0.
  apply valid_tree_inv in Hv as [Hok Hks]. apply node_ok_inv in Hok as [_ [Hnames _]].
  cbn [rel_recs tname]. rewrite ins_all_cons. cbn [fst snd add_branch set_attrs]. rewrite Ha0.
  rewrite kids_loop; [reflexivity|exact Hnames|].
  rewrite Forall_forall in *. intros k Hk. apply IH; [exact Hk|apply Hks; exact Hk|].
  pose proof (Hks k Hk) as Hvk. destruct k as [g' n' a' ks']. apply valid_tree_inv in Hvk as [Hok' _].
  apply node_ok_inv in Hok' as [_ [_ Ha']]. apply (dict_of_nodup (f (T g' n' a' ks'))). apply Hf. exact Ha'.
Qed.

Lemma norm_tree_rebuild dn t : norm_tree dn t = rebuild (fun x => norm_attrs dn (tattrs x)) t.
Proof.
  induction t as [g n a ks IH] using tree_ind'. cbn [norm_tree rebuild tattrs]. f_equal.
  apply map_ext_in. intros k Hk. rewrite Forall_forall in IH. apply IH. exact Hk.
Qed.

Lemma norm_attrs_keys_nodup dn a : NoDup (map fst a) -> NoDup (map fst (norm_attrs dn a)).
Proof. intros H. unfold norm_attrs. apply filter_keys_nodup. apply sort_keys_nodup. exact H. Qed.

(* the loop of dict_to_tree / dataframe_to_tree over well-formed path strings *)
Lemma add_paths_ok c r items : forall t0,
  tname t0 = r -> Forall (fun qr => Forall (clean c) (r :: fst qr)) items ->
  add_paths [c] (map (fun qr => (path_name [c] (r :: fst qr), snd qr)) items) t0 = Ret (ins_all items t0).
Proof.
  induction items as [|x items IH]; intros t0 Hr HF; [reflexivity|].
  inversion HF as [|? ? Hx HF']; subst. cbn [map add_paths fst snd].
  rewrite (add_path_to_tree_ok c t0 (tname t0)) by (try reflexivity; exact Hx).
  rewrite ins_all_cons. apply IH; [|exact HF']. apply add_branch_name.
Qed.

(* ---------------------------------------------------------------------------------------------- *)
(* dict round trip *)

Lemma filter_true {A} (p : A -> bool) l : (forall x, p x = true) -> filter p l = l.
Proof.
  intros H. induction l as [|x l IH]; [reflexivity|]. cbn [filter]. rewrite H, IH. reflexivity.
Qed.

Lemma selected_full c : selected full_opts c = true.
Proof. reflexivity. Qed.

Lemma rel_nodes_in_pre t pr : In pr (rel_nodes t) -> In (snd pr) (pre t).
Proof.
  rewrite <- nodes_under_root. unfold nodes_under. destruct pr as [p x]. intros H.
  apply in_combine_r in H. exact H.
Qed.

Lemma valid_node_attrs t x : valid_tree t = true -> In x (pre t) -> NoDup (map fst (tattrs x)).
Proof.
  unfold valid_tree. intros Hv Hx. rewrite forallb_forall in Hv. specialize (Hv x Hx).
  destruct x as [g n a ks]. apply node_ok_inv in Hv as [_ [_ Ha]]. exact Ha.
Qed.

Definition full_record (x : tree) : record := (s_name, VStr (tname x)) :: describe x.

Lemma dict_record_full c : NoDup (map fst (tattrs (snd c))) -> dict_record full_opts c = full_record (snd c).
Proof.
  intros H. unfold dict_record, full_record. cbn [full_opts o_name_key o_parent_key field app].
  unfold requested. cbn [o_all_attrs]. apply dict_of_nodup. cbn [map fst]. constructor.
  - apply describe_no_name.
  - apply describe_keys_nodup. exact H.
Qed.

Lemma tree_to_dict_full c t : valid_tree t = true -> sep_safe [c] t = true ->
  tree_to_dict t [c] [] full_opts
  = Ret (map (fun pr => (path_name [c] (fst pr), full_record (snd pr))) (rel_nodes t)).
Proof.
  intros Hv Hs. rewrite (tree_to_dict_map t [c] [] full_opts (nodes_under [] t)).
  - rewrite filter_true by apply selected_full. rewrite nodes_under_root. f_equal.
    apply map_ext_in. intros pr Hpr. unfold c_path, path_name. f_equal. apply dict_record_full.
    apply (valid_node_attrs t); [exact Hv|]. apply rel_nodes_in_pre. exact Hpr.
  - reflexivity.
  - rewrite filter_true by apply selected_full. apply paths_nodup; assumption.
Qed.

Lemma dict_del_full x : dict_del s_name (full_record x) = describe x.
Proof.
  unfold full_record, dict_del. cbn [filter fst]. rewrite str_eqb_refl. cbn [negb].
  apply (dict_del_absent s_name (describe x)). apply describe_no_name.
Qed.


Lemma get_or_none k d other : @dict_get record k d = None -> get_or k d other = other.
Proof. intros H. unfold get_or. rewrite H. reflexivity. Qed.

Lemma get_or_hit k d x r other : @dict_get record k d = Some (x :: r) -> get_or k d other = x :: r.
Proof. intros H. unfold get_or. rewrite H. reflexivity. Qed.

Lemma dict_to_tree_gen c r R0 d' :
  clean c r -> R0 <> [] ->
  (forall k, In k (map fst d') -> exists s, k = c :: s) ->
  dict_to_tree ((path_name [c] [r], R0) :: d') [c]
  = add_paths [c] (map (fun pa => (fst pa, dict_del s_name (snd pa))) ((path_name [c] [r], R0) :: d'))
              (T None r (dict_del s_name R0) []).
Proof.
  intros Hr HR Hk. unfold dict_to_tree. cbv zeta.
  assert (Hb : branch_of (path_name [c] [r]) [c] = [r]).
  { apply branch_of_path; [discriminate|]. constructor; [exact Hr|constructor]. }
  rewrite Hb.
  cbn [hd]. destruct Hr as [Hne Hcr].
  assert (Hnone : dict_get r ((path_name [c] [r], R0) :: d') = None).
  { apply dict_get_none. intros Hin. cbn [map fst] in Hin. destruct Hin as [E|Hin].
    - apply Hcr. rewrite <- E. left. reflexivity.
    - destruct (Hk r Hin) as [s E]. apply Hcr. rewrite E. left. reflexivity. }
  rewrite get_or_none by exact Hnone.
  destruct R0 as [|x R0]; [contradiction|].
  rewrite (get_or_hit ([c] ++ r) _ x R0).
  - destruct r as [|y r]; [contradiction|]. reflexivity.
  - cbn [dict_get]. change (path_name [c] [r]) with ([c] ++ r). rewrite str_eqb_refl. reflexivity.
Qed.

Lemma dict_to_tree_export c t : valid_tree t = true -> sep_safe [c] t = true ->
  dict_to_tree (map (fun pr => (path_name [c] (fst pr), full_record (snd pr))) (rel_nodes t)) [c]
  = Ret (norm_tree false t).
Proof.
  intros Hv Hs. pose proof (names_clean_of c t Hv Hs) as Hc.
  assert (Hmap : map (fun pa => (fst pa, dict_del s_name (snd pa)))
                   (map (fun pr => (path_name [c] (fst pr), full_record (snd pr))) (rel_nodes t))
                 = map (fun qr => (path_name [c] (tname t :: fst qr), snd qr)) (rel_recs describe t)).
  { rewrite map_map. cbn [fst snd].
    rewrite (map_ext _ (fun pr => (path_name [c] (fst pr), describe (snd pr)))) by (intros pr; rewrite dict_del_full; reflexivity).
    rewrite <- (map_map (fun pr => (fst pr, describe (snd pr))) (fun z => (path_name [c] (fst z), snd z))).
    rewrite rel_nodes_recs, map_map. reflexivity. }
  assert (Ha : NoDup (map fst (tattrs t))) by (apply (valid_node_attrs t); [exact Hv|destruct t; left; reflexivity]).
  destruct t as [g r a ks].
  pose proof Hc as Hc'. apply names_clean_inv in Hc' as [Hr _].
  set (G := fun pr : list str * tree => (path_name [c] (fst pr), full_record (snd pr))) in *.
  change (map G (rel_nodes (T g r a ks)))
    with ((path_name [c] [r], full_record (T g r a ks))
            :: map G (flat_map (fun k => map (fun pr => (r :: fst pr, snd pr)) (rel_nodes k)) ks)) at 1.
  rewrite dict_to_tree_gen.
  - change ((path_name [c] [r], full_record (T g r a ks))
            :: map G (flat_map (fun k => map (fun pr => (r :: fst pr, snd pr)) (rel_nodes k)) ks))
      with (map G (rel_nodes (T g r a ks))).
    rewrite Hmap, dict_del_full. cbn [tname]. rewrite (add_paths_ok c r).
    + f_equal. cbn [tattrs] in Ha. rewrite (rebuild_from_records describe (T g r a ks)).
      * rewrite norm_tree_rebuild. clear. induction (T g r a ks) as [g' n' a' ks' IH] using tree_ind'.
        cbn [rebuild tattrs]. f_equal; [symmetry; apply norm_attrs_false|].
        apply map_ext_in. intros k Hk. rewrite Forall_forall in IH. apply IH. exact Hk.
      * exact Hv.
      * intros x. apply describe_keys_nodup.
      * apply dict_update_present; [apply describe_keys_nodup; exact Ha|apply incl_refl].
    + reflexivity.
    + apply (rel_recs_clean c describe (T g r a ks)). exact Hc.
  - exact Hr.
  - discriminate.
  - intros k Hin. rewrite map_map in Hin. cbn [fst] in Hin. apply in_map_iff in Hin as [pr [E _]].
    subst k. eexists. reflexivity.
Qed.

Theorem rt_dict_ok c t : valid_tree t = true -> sep_safe [c] t = true ->
  rt_dict t [c] = Ret (norm_tree false t).
Proof.
  intros Hv Hs. unfold rt_dict. rewrite tree_to_dict_full by assumption. cbn [bind].
  apply dict_to_tree_export; assumption.
Qed.

(* ---------------------------------------------------------------------------------------------- *)
(* the boolean property on the model's (canonicalised) outputs *)

Lemma list_eqb_refl {A} (e : A -> A -> bool) l : (forall x, e x x = true) -> list_eqb e l l = true.
Proof. intros H. induction l as [|x l IH]; [reflexivity|]. cbn [list_eqb]. rewrite H, IH. reflexivity. Qed.

Lemma record_eqb_refl r : record_eqb r r = true.
Proof. apply (attrs_eqb_refl r). Qed.

Lemma pathrec_eqb_refl x : pathrec_eqb x x = true.
Proof. unfold pathrec_eqb. rewrite str_eqb_refl, record_eqb_refl. reflexivity. Qed.

Theorem prop_dict_model root sep p o :
  prop_C06_dict root sep p o (res_map canon_dict (tree_to_dict root sep p o)) = true.
Proof.
  unfold prop_C06_dict. rewrite tree_to_dict_spec. destruct (spec_dict root sep p o) as [d|]; [|reflexivity].
  cbn [option_map res_map opt_agree]. apply list_eqb_refl. apply pathrec_eqb_refl.
Qed.

Theorem prop_frame_model root sep p o :
  prop_C06_frame root sep p o (res_map canon_rows (tree_to_dataframe root sep p o)) = true.
Proof.
  unfold prop_C06_frame. rewrite tree_to_dataframe_spec. destruct (spec_frame root sep p o) as [d|]; [|reflexivity].
  cbn [option_map res_map opt_agree]. apply list_eqb_refl. apply record_eqb_refl.
Qed.

Theorem prop_nested_model root p o : subtree_at root p <> None ->
  prop_C06_nested root p o (res_map canon_nested (tree_to_nested_dict root p o)) = true.
Proof.
  intros Hp. unfold prop_C06_nested. rewrite tree_to_nested_dict_spec.
  destruct (subtree_at root p) as [t|]; [|contradiction].
  destruct (spec_nested root p o) as [d|]; [|reflexivity].
  cbn [option_map res_map opt_agree]. apply tree_eqb_refl.
Qed.

Theorem prop_rt_dict_model c t : prop_rt_path false [c] t (rt_dict t [c]) = true.
Proof.
  unfold prop_rt_path. destruct (valid_tree t) eqn:Hv; [|reflexivity].
  destruct (sep_safe [c] t) eqn:Hs; [|reflexivity]. cbn [andb negb orb].
  rewrite rt_dict_ok by assumption. apply same_tree_norm. exact Hv.
Qed.

Theorem prop_rt_nested_model t : prop_rt_nested t (rt_nested t) = true.
Proof.
  unfold prop_rt_nested. destruct (valid_tree t) eqn:Hv; [|reflexivity].
  rewrite rt_nested_ok by exact Hv. apply same_tree_norm. exact Hv.
Qed.
