(* C06, partial exports re-imported.  tree_to_dict with any gate combination (max_depth, skip_depth,
   leaf_only), any start node and any record options, fed to dict_to_tree: the result is the tree
   INDUCED by the ancestor closure of the selected nodes -- a node is kept iff it or one of its
   descendants is selected, sibling order is the source order, a selected node carries its exported
   record (minus "name"), a node kept only as an ancestor is bare, and the proper ancestors of an inner
   start node form a bare chain above it.  Nothing selected: dict_to_tree raises ValueError.
   The same for the frame pair (tree_to_dataframe / tree_to_polars -> dataframe_to_tree / polars_to_tree,
   full records, any gates, any start node: reimport_frame_exact / reimport_frame_sorted) and the nested
   pair (only max_depth exists there: reimport_nested_partial).
   Model: Algo/Export.v; existing proofs: Algo/ExportProofs.v (not copied). *)
From BT Require Import Base.Prelude Base.Str Base.StrSep Base.Rose Algo.Export Spec.PC06 Algo.ExportProofs.
From Coq Require Import Permutation.

(* ---------------------------------------------------------------------------------------------- *)
(* the specification: induced tree *)

Definition olist {A} (x : option A) : list A := match x with Some a => [a] | None => [] end.

(* sel anc t: is the node t, whose proper ancestors are called anc (top down), selected;
   f anc t: the attributes a selected node gets *)
Fixpoint induced (sel : list str -> tree -> bool) (f : list str -> tree -> record)
         (anc : list str) (t : tree) : option tree :=
  match t with
  | T _ n _ ks =>
      let kids := flat_map (fun k => olist (induced sel f (anc ++ [n]) k)) ks in
      if sel anc t then Some (T None n (f anc t) kids)
      else match kids with [] => None | _ => Some (T None n [] kids) end
  end.

(* bare nodes named l, one below the other, above x *)
Fixpoint chain (l : list str) (x : tree) : tree :=
  match l with [] => x | a :: l' => T None a [] [chain l' x] end.

(* selection and attributes of tree_to_dict / dict_to_tree *)
Definition dict_sel (o : opts) (anc : list str) (t : tree) : bool := selected o (anc ++ [tname t], t).
Definition dict_attrs (o : opts) (anc : list str) (t : tree) : record :=
  dict_del s_name (dict_record o (anc ++ [tname t], t)).

Definition reimport_dict (root : tree) (sp : str) (p : pos) (o : opts) : res tree :=
  bind (tree_to_dict root sp p o) (fun d => dict_to_tree d sp).

Definition spec_reimport_dict (root : tree) (p : pos) (o : opts) : res tree :=
  match subtree_at root p with
  | None => Raise Unmodelled
  | Some t => match induced (dict_sel o) (dict_attrs o) (anc_names root p) t with
              | Some x => Ret (chain (anc_names root p) x)
              | None => Raise ValueError
              end
  end.

(* ---------------------------------------------------------------------------------------------- *)
(* the records of the selected nodes, with paths relative to the start node (its own name left out) *)

Fixpoint sel_recs (sel : list str -> tree -> bool) (f : list str -> tree -> record)
         (anc : list str) (t : tree) : list (list str * record) :=
  match t with
  | T _ n _ ks =>
      (if sel anc t then [([], f anc t)] else [])
      ++ flat_map (fun k => map (fun qr => (tname k :: fst qr, snd qr)) (sel_recs sel f (anc ++ [n]) k)) ks
  end.

(* the tree built by inserting them below a root carrying a0 *)
Definition induced_root (sel : list str -> tree -> bool) (f : list str -> tree -> record)
           (anc : list str) (a0 : record) (t : tree) : tree :=
  match t with
  | T _ n _ ks =>
      T None n (if sel anc t then dict_update a0 (f anc t) else a0)
        (flat_map (fun k => olist (induced sel f (anc ++ [n]) k)) ks)
  end.

Lemma flat_map_nil {A B} (g : A -> list B) l : flat_map g l = [] <-> Forall (fun x => g x = []) l.
Proof.
  induction l as [|x l IH]; cbn [flat_map]; [split; [constructor|reflexivity]|]. split.
  - intros H. apply app_eq_nil in H as [H1 H2]. constructor; [exact H1|apply IH; exact H2].
  - intros H. inversion H as [|? ? H1 H2]; subst. rewrite H1. apply IH. exact H2.
Qed.

(* nothing selected below a node <-> the node is not kept *)
Lemma sel_recs_nil sel (f : list str -> tree -> record) t : forall anc, sel_recs sel f anc t = [] <-> induced sel f anc t = None.
Proof.
  induction t as [g n a ks IH] using tree_ind'. intros anc. cbn [sel_recs induced].
  assert (Hk : flat_map (fun k => map (fun qr => (tname k :: fst qr, snd qr)) (sel_recs sel f (anc ++ [n]) k)) ks = []
               <-> flat_map (fun k => olist (induced sel f (anc ++ [n]) k)) ks = []).
  { rewrite !flat_map_nil. rewrite Forall_forall in IH. split; intros H; apply Forall_forall; intros k Hk;
      rewrite Forall_forall in H; specialize (H k Hk); specialize (IH k Hk (anc ++ [n])).
    - destruct (sel_recs sel f (anc ++ [n]) k); [|discriminate]. rewrite (proj1 IH eq_refl). reflexivity.
    - destruct (induced sel f (anc ++ [n]) k); [discriminate|]. rewrite (proj2 IH eq_refl). reflexivity. }
  destruct (sel anc (T g n a ks)).
  - split; intros H; discriminate.
  - cbn [app]. rewrite Hk. destruct (flat_map (fun k => olist (induced sel f (anc ++ [n]) k)) ks).
    + split; reflexivity.
    + split; intros H; discriminate.
Qed.

Lemma induced_some sel (f : list str -> tree -> record) anc t :
  (forall a x, NoDup (map fst (f a x))) -> sel_recs sel f anc t <> [] ->
  induced sel f anc t = Some (induced_root sel f anc [] t).
Proof.
  intros Hf Hne. assert (Hi : induced sel f anc t <> None).
  { intros E. apply Hne. apply sel_recs_nil. exact E. }
  destruct t as [g n a ks]. cbn [induced induced_root] in *.
  destruct (sel anc (T g n a ks)).
  - f_equal. f_equal. symmetry. apply (dict_of_nodup (f anc (T g n a ks))). apply Hf.
  - destruct (flat_map (fun k => olist (induced sel f (anc ++ [n]) k)) ks); [contradiction|reflexivity].
Qed.

Lemma induced_root_name sel (f : list str -> tree -> record) anc a0 t : tname (induced_root sel f anc a0 t) = tname t.
Proof. destruct t; reflexivity. Qed.

(* the loop over the children: a child without a selected node below it leaves no trace *)
Lemma kids_loop_sel sel (f : list str -> tree -> record) anc' g n a ks : forall done,
  NoDup (map tname ks) ->
  (forall x, In x done -> ~ In (tname x) (map tname ks)) ->
  Forall (fun k => ins_all (sel_recs sel f anc' k) (new_node (tname k)) = induced_root sel f anc' [] k) ks ->
  (forall a0 x, NoDup (map fst (f a0 x))) ->
  ins_all (flat_map (fun k => map (fun qr => (tname k :: fst qr, snd qr)) (sel_recs sel f anc' k)) ks) (T g n a done)
  = T g n a (done ++ flat_map (fun k => olist (induced sel f anc' k)) ks).
Proof.
  induction ks as [|k ks IH]; intros done Hnd Hdone HF Hf.
  - cbn. rewrite app_nil_r. reflexivity.
  - inversion HF as [|? ? Hk HF']; subst. cbn [map] in Hnd. inversion Hnd as [|? ? Hkn Hnd']; subst.
    cbn [flat_map]. rewrite ins_all_app.
    destruct (sel_recs sel f anc' k) as [|x L] eqn:E.
    + apply sel_recs_nil in E. rewrite E. cbn [map olist app]. unfold ins_all at 2. cbn [fold_left].
      apply IH; [exact Hnd'| |exact HF'|exact Hf].
      intros y Hy Hin. apply (Hdone y Hy). right. exact Hin.
    + rewrite ins_block, upd_first_fresh.
      * rewrite Hk. rewrite (induced_some sel f anc' k Hf) by (rewrite E; discriminate).
        cbn [olist app]. rewrite IH; [rewrite <- app_assoc; reflexivity|exact Hnd'| |exact HF'|exact Hf].
        intros y Hy Hin. apply in_app_or in Hy as [Hy|[Hy|[]]].
        -- apply (Hdone y Hy). right. exact Hin.
        -- subst y. rewrite induced_root_name in Hin. contradiction.
      * intros Hin. apply in_map_iff in Hin as [y [Ey Hy]]. apply (Hdone y Hy). left. symmetry. exact Ey.
Qed.

Lemma ins_selected sel (f : list str -> tree -> record) t :
  valid_tree t = true -> (forall a0 x, NoDup (map fst (f a0 x))) ->
  forall anc a0, ins_all (sel_recs sel f anc t) (T None (tname t) a0 []) = induced_root sel f anc a0 t.
Proof.
  intros Hv Hf. induction t as [g n a ks IH] using tree_ind'. intros anc a0.
  apply valid_tree_inv in Hv as [Hok Hks]. apply node_ok_inv in Hok as [_ [Hnames _]].
  cbn [sel_recs tname induced_root]. rewrite ins_all_app.
  assert (E : ins_all (if sel anc (T g n a ks) then [([], f anc (T g n a ks))] else []) (T None n a0 [])
              = T None n (if sel anc (T g n a ks) then dict_update a0 (f anc (T g n a ks)) else a0) []).
  { destruct (sel anc (T g n a ks)); reflexivity. }
  rewrite E. rewrite (kids_loop_sel sel f (anc ++ [n])); [reflexivity|exact Hnames|intros x []| |exact Hf].
  rewrite Forall_forall in *. intros k Hk. apply IH; [exact Hk|apply Hks; exact Hk].
Qed.

(* the bare chain above an inner start node *)
Lemma ins_chain m : forall pre x L g n a,
  ins_all (map (fun qr => (pre ++ m :: fst qr, snd qr)) (x :: L)) (T g n a [])
  = T g n a [chain pre (ins_all (x :: L) (new_node m))].
Proof.
  induction pre as [|b pre IH]; intros x L g n a.
  - cbn [app chain]. rewrite ins_block. reflexivity.
  - cbn [chain]. set (h := fun qr : list str * record => (pre ++ m :: fst qr, snd qr)).
    assert (E : map (fun qr : list str * record => ((b :: pre) ++ m :: fst qr, snd qr)) (x :: L)
                = map (fun qr : list str * record => (b :: fst qr, snd qr)) (h x :: map h L)).
    { cbn [map]. rewrite map_map. reflexivity. }
    rewrite E, ins_block. cbn [upd_first]. unfold new_node at 1.
    change (h x :: map h L) with (map h (x :: L)). unfold h. rewrite IH. reflexivity.
Qed.

(* ---------------------------------------------------------------------------------------------- *)
(* the selected nodes of the specification (Spec/PC06.v) are these records *)

Lemma nodes_sel_recs (S : cnode -> bool) (F : cnode -> record) t : forall anc,
  map (fun c => (fst c, F c)) (filter S (nodes_under anc t))
  = map (fun qr : list str * record => (anc ++ tname t :: fst qr, snd qr))
        (sel_recs (fun a x => S (ctx_of a x)) (fun a x => F (ctx_of a x)) anc t).
Proof.
  induction t as [g n a ks IH] using tree_ind'. intros anc.
  rewrite nodes_under_unfold. cbn [filter sel_recs tname]. rewrite map_app.
  assert (Hk : map (fun c => (fst c, F c)) (filter S (flat_map (nodes_under (anc ++ [n])) ks))
               = map (fun qr : list str * record => (anc ++ n :: fst qr, snd qr))
                   (flat_map (fun k => map (fun qr : list str * record => (tname k :: fst qr, snd qr))
                      (sel_recs (fun a x => S (ctx_of a x)) (fun a x => F (ctx_of a x)) (anc ++ [n]) k)) ks)).
  { rewrite filter_flat_map, !map_flat_map. apply flat_map_ext_Forall. eapply Forall_impl; [|exact IH].
    intros k Hk. cbn beta. rewrite Hk, map_map. apply map_ext. intros qr. cbn [fst snd].
    rewrite <- app_assoc. reflexivity. }
  destruct (S (ctx_of anc (T g n a ks))).
  - cbn [map app]. rewrite Hk. reflexivity.
  - cbn [map app]. exact Hk.
Qed.

Lemma sel_recs_map (h : record -> record) sel (f : list str -> tree -> record) t : forall anc,
  map (fun qr : list str * record => (fst qr, h (snd qr))) (sel_recs sel f anc t)
  = sel_recs sel (fun a x => h (f a x)) anc t.
Proof.
  induction t as [g n a ks IH] using tree_ind'. intros anc. cbn [sel_recs]. rewrite map_app. f_equal.
  - destruct (sel anc (T g n a ks)); reflexivity.
  - rewrite map_flat_map. apply flat_map_ext_Forall. eapply Forall_impl; [|exact IH]. intros k Hk. cbn beta.
    rewrite <- Hk, !map_map. reflexivity.
Qed.

Lemma sel_recs_rest sel (f : list str -> tree -> record) anc t x L :
  sel_recs sel f anc t = x :: L -> forall qr, In qr L -> fst qr <> [].
Proof.
  destruct t as [g n a ks]. cbn [sel_recs].
  assert (Hr : forall qr, In qr (flat_map (fun k => map (fun qr : list str * record => (tname k :: fst qr, snd qr))
                                              (sel_recs sel f (anc ++ [n]) k)) ks) -> fst qr <> []).
  { intros qr Hin. apply in_flat_map in Hin as [k [_ Hin]]. apply in_map_iff in Hin as [z [E _]]. subst qr. discriminate. }
  destruct (sel anc (T g n a ks)); cbn [app]; intros E qr Hin.
  - injection E as _ E. apply Hr. rewrite E. exact Hin.
  - apply Hr. rewrite E. right. exact Hin.
Qed.

Lemma sel_recs_head sel (f : list str -> tree -> record) anc t x L :
  sel_recs sel f anc t = x :: L ->
  if sel anc t then x = ([], f anc t) else fst x <> [].
Proof.
  destruct t as [g n a ks]. cbn [sel_recs]. destruct (sel anc (T g n a ks)); cbn [app]; intros E.
  - injection E as E _. symmetry. exact E.
  - assert (Hin : In x (x :: L)) by (left; reflexivity). rewrite <- E in Hin.
    apply in_flat_map in Hin as [k [_ Hin]]. apply in_map_iff in Hin as [z [Ez _]]. subst x. discriminate.
Qed.

(* ---------------------------------------------------------------------------------------------- *)
(* dict_to_tree on a dict whose keys are well-formed paths below one root name, the root's own path
   being at most the first key *)

Lemma clean_app_not_prefixed sp r z s : sp <> [] -> clean sp r -> r ++ z <> sp ++ s.
Proof.
  intros Hsp [Hne Hf] E. destruct sp as [|c sp']; [contradiction|]. destruct r as [|y r]; [contradiction|].
  cbn [app] in E. injection E as E1 E2. subst y. apply (Hf c (or_introl eq_refl)). left. reflexivity.
Qed.

Definition root_pick (items : list (list str * record)) : record :=
  match items with ([], R) :: _ => R | _ => [] end.

Lemma dict_to_tree_partial sp r x items :
  sp <> [] -> Forall (fun qr : list str * record => Forall (clean sp) (r :: fst qr)) (x :: items) ->
  (forall qr, In qr items -> fst qr <> []) ->
  dict_to_tree (map (fun qr : list str * record => (path_name sp (r :: fst qr), snd qr)) (x :: items)) sp
  = Ret (ins_all (map (fun qr : list str * record => (fst qr, dict_del s_name (snd qr))) (x :: items))
                 (T None r (dict_del s_name (root_pick (x :: items))) [])).
Proof.
  intros Hsp HF Htl.
  set (h := fun qr : list str * record => (path_name sp (r :: fst qr), snd qr)).
  set (D := map h (x :: items)).
  assert (Hr : clean sp r).
  { inversion HF as [|? ? Hx _]; subst. inversion Hx; assumption. }
  assert (Hkeys : forall k, In k (map fst D) -> exists l, k = path_name sp (r :: l) /\ Forall (clean sp) (r :: l)
                                                   /\ (l = [] -> fst x = [])).
  { intros k Hin. unfold D in Hin. rewrite map_map in Hin. apply in_map_iff in Hin as [qr [E Hqr]].
    exists (fst qr). split; [symmetry; exact E|]. rewrite Forall_forall in HF. split; [apply HF; exact Hqr|].
    intros El. destruct Hqr as [Hqr|Hqr]; [subst qr; exact El|]. exfalso. apply (Htl qr Hqr El). }
  assert (H1 : dict_get r D = None).
  { apply dict_get_none. intros Hin. destruct (Hkeys r Hin) as [l [E _]].
    apply (clean_not_prefixed sp r (join sp (r :: l)) Hsp Hr). exact E. }
  assert (H3 : dict_get (r ++ sp) D = None).
  { apply dict_get_none. intros Hin. destruct (Hkeys _ Hin) as [l [E _]].
    apply (clean_app_not_prefixed sp r sp (join sp (r :: l)) Hsp Hr). exact E. }
  assert (H4 : dict_get (sp ++ r ++ sp) D = None).
  { apply dict_get_none. intros Hin. destruct (Hkeys _ Hin) as [l [E [Hc _]]].
    unfold path_name in E. apply app_inv_head in E.
    assert (E' : split (r ++ sp) sp = r :: l).
    { rewrite E. apply split_join_any; [exact Hsp|discriminate|apply clean_sfree; exact Hc]. }
    assert (E'' : split (r ++ sp) sp = [r; []]).
    { replace (r ++ sp) with (join sp [r; []]) by (cbn [join]; rewrite app_nil_r; reflexivity).
      apply split_join_any; [exact Hsp|discriminate|].
      constructor; [apply Hr|]. constructor; [|constructor]. intros ch _ []. }
    rewrite E' in E''. injection E'' as E''. subst l. inversion Hc as [|? ? _ Hc']; subst.
    inversion Hc' as [|? ? [Hne _] _]; subst. apply Hne. reflexivity. }
  assert (H2 : get_or (sp ++ r) D [] = root_pick (x :: items)).
  { destruct x as [l R]. destruct l as [|b l].
    - unfold D, h. cbn [map fst snd]. unfold get_or. cbn [dict_get].
      change (path_name sp [r]) with (sp ++ r). rewrite str_eqb_refl. cbn [root_pick]. destruct R; reflexivity.
    - cbn [root_pick]. apply get_or_none. apply dict_get_none. intros Hin.
      destruct (Hkeys _ Hin) as [l' [E [Hc Hl]]].
      change (sp ++ r) with (path_name sp [r]) in E. apply path_name_inj in E; [|exact Hsp|discriminate|discriminate| |exact Hc].
      + injection E as E. symmetry in E. apply Hl in E. discriminate.
      + constructor; [exact Hr|constructor]. }
  unfold dict_to_tree. fold D. unfold D at 1. cbn [map]. unfold h at 1. cbv zeta. cbn [fst].
  rewrite branch_of_path; [|exact Hsp|discriminate|inversion HF; assumption]. cbn [hd].
  change ((path_name sp (r :: fst x), snd x) :: map h items) with D.
  rewrite (get_or_none r) by exact H1. rewrite (get_or_none (sp ++ r ++ sp)) by exact H4.
  rewrite (get_or_none (r ++ sp)) by exact H3. rewrite H2.
  assert (Hne : is_empty r = false) by (destruct Hr as [Hne _]; destruct r; [contradiction|reflexivity]).
  rewrite Hne.
  match goal with |- add_paths _ ?M _ = _ =>
    assert (EM : M = map (fun qr : list str * record => (path_name sp (r :: fst qr), snd qr))
                     (map (fun qr : list str * record => (fst qr, dict_del s_name (snd qr))) (x :: items)))
  end.
  { unfold D, h. rewrite !map_map. reflexivity. }
  rewrite EM. apply (add_paths_ok sp r); [exact Hsp|reflexivity|].
  apply Forall_forall. intros qr Hin.
  change (In qr (map (fun qr : list str * record => (fst qr, dict_del s_name (snd qr))) (x :: items))) in Hin.
  apply in_map_iff in Hin as [z [E Hz]]. subst qr. cbn [fst].
  rewrite Forall_forall in HF. apply HF. exact Hz.
Qed.

(* ---------------------------------------------------------------------------------------------- *)
(* the theorem *)

(* dict_sel is the gate test of the exporter: depth = 1 + number of ancestors *)
Lemma dict_sel_gates o anc t : dict_sel o anc t = gates o (S (length anc)) t.
Proof. apply (selected_ctx o anc t). Qed.

Lemma dict_record_keys_nodup o c : NoDup (map fst (dict_record o c)).
Proof. unfold dict_record, dict_of. apply dict_update_nodup. constructor. Qed.

Lemma dict_attrs_nodup o a x : NoDup (map fst (dict_attrs o a x)).
Proof. unfold dict_attrs, dict_del. apply filter_keys_nodup. apply dict_record_keys_nodup. Qed.

Lemma nodes_under_clean sp root p t : names_clean sp root -> subtree_at root p = Some t ->
  Forall (fun c : cnode => Forall (clean sp) (fst c)) (nodes_under (anc_names root p) t).
Proof.
  intros Hc Hp. rewrite nodes_under_rel. apply Forall_forall. intros c Hin.
  apply in_map_iff in Hin as [pr [E Hpr]]. subst c. cbn [fst]. apply Forall_app. split.
  - eapply anc_names_clean; eassumption.
  - pose proof (rel_nodes_clean sp t (names_clean_subtree sp root p t Hc Hp)) as H.
    rewrite Forall_forall in H. apply H. exact Hpr.
Qed.

Lemma anc_split root p t l : subtree_at root p = Some t ->
  anc_names root p ++ tname t :: l = tname root :: tl (anc_names root p ++ [tname t]) ++ l.
Proof.
  destruct p as [|i p]; intros H.
  - cbn in H. injection H as ->. reflexivity.
  - rewrite anc_names_cons. cbn [app tl]. rewrite <- app_assoc. reflexivity.
Qed.

Lemma root_pick_deep y r : fst y <> [] -> root_pick (y :: r) = [].
Proof. destruct y as [[|b l] R]; intros H; [contradiction|reflexivity]. Qed.

Lemma finish_root sel (f : list str -> tree -> record) root x L R0 :
  valid_tree root = true -> (forall a0 y, NoDup (map fst (f a0 y))) ->
  sel_recs sel f [] root = x :: L -> R0 = (if sel [] root then f [] root else []) ->
  ins_all (x :: L) (T None (tname root) R0 []) = induced_root sel f [] [] root.
Proof.
  intros Hv Hf ER ->. rewrite <- ER, ins_selected by assumption. destruct root as [g n a ks].
  unfold induced_root. destruct (sel [] (T g n a ks)); [|reflexivity]. f_equal.
  rewrite dict_update_present; [|apply Hf|apply incl_refl]. symmetry. apply (dict_of_nodup (f [] (T g n a ks))). apply Hf.
Qed.

(* inserting the selected records below the root name rebuilds chain + induced tree *)
Lemma ins_induced sel (f : list str -> tree -> record) root p t R0 :
  valid_tree t = true -> subtree_at root p = Some t ->
  (forall a y, NoDup (map fst (f a y))) ->
  sel_recs sel f (anc_names root p) t <> [] ->
  R0 = match p with [] => if sel [] root then f [] root else [] | _ :: _ => [] end ->
  ins_all (map (fun qr : list str * record => (tl (anc_names root p ++ [tname t]) ++ fst qr, snd qr))
               (sel_recs sel f (anc_names root p) t)) (T None (tname root) R0 [])
  = chain (anc_names root p) (induced_root sel f (anc_names root p) [] t).
Proof.
  intros Hvt Hp Hf Hne ->. destruct p as [|i p'].
  - cbn in Hp. injection Hp as <-. change (anc_names root []) with (@nil str) in *. cbn [app tl chain].
    rewrite (map_ext _ (fun qr => qr)) by (intros [l R]; reflexivity). rewrite map_id.
    destruct (sel_recs sel f [] root) as [|x L] eqn:E; [contradiction|].
    apply (finish_root sel f root x L _ Hvt Hf E). reflexivity.
  - assert (EQ : ins_all (sel_recs sel f (anc_names root (i :: p')) t) (new_node (tname t))
                 = induced_root sel f (anc_names root (i :: p')) [] t).
    { exact (ins_selected _ _ t Hvt Hf _ []). }
    rewrite <- EQ. destruct (sel_recs sel f (anc_names root (i :: p')) t) as [|x L]; [contradiction|].
    rewrite anc_names_cons. cbn [app tl chain].
    set (anc' := match nth_error (tkids root) i with
                 | Some k => anc_names k p'
                 | None => map (fun _ : nat => []) (seq 0 (length p'))
                 end).
    rewrite (map_ext _ (fun qr : list str * record => (anc' ++ tname t :: fst qr, snd qr)))
      by (intros qr; rewrite <- app_assoc; reflexivity).
    rewrite (ins_chain (tname t) anc'). reflexivity.
Qed.

(* the selected nodes, as records relative to the root name *)
Lemma selected_as_recs (F : cnode -> record) o root p t :
  subtree_at root p = Some t ->
  map (fun c : cnode => (fst c, F c)) (filter (selected o) (nodes_under (anc_names root p) t))
  = map (fun qr : list str * record => (tname root :: fst qr, snd qr))
        (map (fun qr : list str * record => (tl (anc_names root p ++ [tname t]) ++ fst qr, snd qr))
             (sel_recs (dict_sel o) (fun a x => F (ctx_of a x)) (anc_names root p) t)).
Proof.
  intros Hp. rewrite (nodes_sel_recs (selected o) F), map_map. apply map_ext. intros qr. cbn [fst snd].
  rewrite (anc_split root p t _ Hp). reflexivity.
Qed.

Lemma recs_clean sp (F : cnode -> record) o root p t z :
  names_clean sp root -> subtree_at root p = Some t ->
  In z (sel_recs (dict_sel o) (fun a x => F (ctx_of a x)) (anc_names root p) t) ->
  Forall (clean sp) (tname root :: tl (anc_names root p ++ [tname t]) ++ fst z).
Proof.
  intros Hc Hp Hz.
  assert (Hin : In (tname root :: tl (anc_names root p ++ [tname t]) ++ fst z, snd z)
                   (map (fun c : cnode => (fst c, F c)) (filter (selected o) (nodes_under (anc_names root p) t)))).
  { rewrite (selected_as_recs F o root p t Hp), map_map. apply in_map_iff. exists z. split; [reflexivity|exact Hz]. }
  apply in_map_iff in Hin as [c [Ec Hcin]]. apply filter_In in Hcin as [Hcin _].
  pose proof (nodes_under_clean sp root p t Hc Hp) as Hcl. rewrite Forall_forall in Hcl.
  specialize (Hcl c Hcin). injection Ec as Ec _. rewrite <- Ec. exact Hcl.
Qed.

Theorem reimport_dict_induced sp root p o :
  valid_tree root = true -> sep_free sp root = true ->
  reimport_dict root sp p o = spec_reimport_dict root p o.
Proof.
  intros Hv Hs. unfold reimport_dict, spec_reimport_dict.
  destruct (subtree_at root p) as [t|] eqn:Hp.
  2:{ rewrite tree_to_dict_spec. unfold spec_dict, nodes_from. rewrite Hp. reflexivity. }
  rewrite (tree_to_dict_records sp root p o t Hv Hs Hp). cbn [bind].
  pose proof (sep_free_nonempty sp root Hs) as Hsp.
  pose proof (names_clean_of sp root Hv Hs) as Hc.
  pose proof (valid_subtree root p t Hv Hp) as Hvt.
  set (frec := fun (a : list str) (x : tree) => dict_record o (ctx_of a x)).
  set (h2 := fun qr : list str * record => (tl (anc_names root p ++ [tname t]) ++ fst qr, snd qr)).
  assert (ED : map (fun x : cnode => (c_path sp x, dict_record o x))
                   (filter (selected o) (nodes_under (anc_names root p) t))
               = map (fun qr : list str * record => (path_name sp (tname root :: fst qr), snd qr))
                     (map h2 (sel_recs (dict_sel o) frec (anc_names root p) t))).
  { transitivity (map (fun z : list str * record => (path_name sp (fst z), snd z))
                      (map (fun c : cnode => (fst c, dict_record o c))
                           (filter (selected o) (nodes_under (anc_names root p) t)))).
    - rewrite map_map. reflexivity.
    - rewrite (selected_as_recs (dict_record o) o root p t Hp), !map_map. reflexivity. }
  rewrite ED.
  assert (EA : sel_recs (dict_sel o) (dict_attrs o) (anc_names root p) t
               = map (fun qr : list str * record => (fst qr, dict_del s_name (snd qr)))
                     (sel_recs (dict_sel o) frec (anc_names root p) t)).
  { symmetry. apply (sel_recs_map (dict_del s_name) (dict_sel o) frec). }
  pose proof (fun z => recs_clean sp (dict_record o) o root p t z Hc Hp) as Hclean. fold frec in Hclean.
  destruct (sel_recs (dict_sel o) frec (anc_names root p) t) as [|x L] eqn:ER.
  - cbn [map] in EA. apply sel_recs_nil in EA. rewrite EA. reflexivity.
  - change (map h2 (x :: L)) with (h2 x :: map h2 L). rewrite dict_to_tree_partial.
    + change (h2 x :: map h2 L) with (map h2 (x :: L)) at 1.
      assert (EM : map (fun qr : list str * record => (fst qr, dict_del s_name (snd qr))) (map h2 (x :: L))
                   = map h2 (sel_recs (dict_sel o) (dict_attrs o) (anc_names root p) t)).
      { rewrite EA, !map_map. reflexivity. }
      rewrite EM.
      assert (Hne : sel_recs (dict_sel o) (dict_attrs o) (anc_names root p) t <> []).
      { rewrite EA. discriminate. }
      rewrite (induced_some _ _ _ _ (dict_attrs_nodup o) Hne). f_equal.
      apply (ins_induced (dict_sel o) (dict_attrs o) root p t _ Hvt Hp (dict_attrs_nodup o) Hne).
      destruct p as [|i p'].
      * cbn in Hp. injection Hp as <-. change (anc_names root []) with (@nil str) in *.
        pose proof (sel_recs_head _ _ _ _ _ _ ER) as Hh. unfold h2. cbn [app tl].
        destruct (dict_sel o [] root).
        -- subst x. reflexivity.
        -- rewrite root_pick_deep; [reflexivity|exact Hh].
      * rewrite root_pick_deep; [reflexivity|].
        unfold h2. cbn [fst]. rewrite anc_names_cons. cbn [app tl]. intros E.
        apply app_eq_nil in E as [E _]. apply app_eq_nil in E as [_ E]. discriminate.
    + exact Hsp.
    + change (h2 x :: map h2 L) with (map h2 (x :: L)). apply Forall_forall. intros qr Hin.
      apply in_map_iff in Hin as [z [E Hz]]. subst qr. unfold h2. cbn [fst]. apply Hclean. exact Hz.
    + intros qr Hin. apply in_map_iff in Hin as [z [E Hz]]. subst qr. unfold h2. cbn [fst]. intros E.
      apply app_eq_nil in E as [_ E]. exact (sel_recs_rest _ _ _ _ _ _ ER z Hz E).
Qed.

(* ---------------------------------------------------------------------------------------------- *)
(* what `induced` is, without recursion over the tree: in pre-order, the nodes of the induced tree are
   the source nodes that are selected or have a selected node below them, under the same name paths;
   a selected node carries F, the others nothing *)

Definition keeps (S : cnode -> bool) (c : cnode) : bool :=
  existsb S (nodes_under (removelast (fst c)) (snd c)).

Lemma filter_nil_existsb {A} (p : A -> bool) l : filter p l = [] <-> existsb p l = false.
Proof.
  induction l as [|x l IH]; cbn [filter existsb]; [split; reflexivity|]. destruct (p x); cbn [orb].
  - split; intros H; discriminate.
  - exact IH.
Qed.

Lemma induced_none_iff (S : cnode -> bool) (F : cnode -> record) anc t :
  induced (fun a x => S (ctx_of a x)) (fun a x => F (ctx_of a x)) anc t = None
  <-> existsb S (nodes_under anc t) = false.
Proof.
  rewrite <- sel_recs_nil, <- filter_nil_existsb. pose proof (nodes_sel_recs S F t anc) as E. split; intros H.
  - rewrite H in E. cbn [map] in E. apply map_eq_nil in E. exact E.
  - rewrite H in E. cbn [map] in E. symmetry in E. apply map_eq_nil in E. exact E.
Qed.

Lemma flat_map_flat_map {A B C} (g : B -> list C) (h : A -> list B) l :
  flat_map g (flat_map h l) = flat_map (fun x => flat_map g (h x)) l.
Proof. induction l as [|x l IH]; [reflexivity|]. cbn [flat_map]. rewrite flat_map_app, IH. reflexivity. Qed.

Lemma keeps_ctx S anc t : keeps S (ctx_of anc t) = existsb S (nodes_under anc t).
Proof. unfold keeps, ctx_of. cbn [fst snd]. rewrite removelast_last. reflexivity. Qed.

Theorem induced_nodes (S : cnode -> bool) (F : cnode -> record) t : forall anc,
  map (fun c : cnode => (fst c, tattrs (snd c)))
      (flat_map (nodes_under anc) (olist (induced (fun a x => S (ctx_of a x)) (fun a x => F (ctx_of a x)) anc t)))
  = map (fun c : cnode => (fst c, if S c then F c else [])) (filter (keeps S) (nodes_under anc t)).
Proof.
  induction t as [g n a ks IH] using tree_ind'. intros anc.
  set (sel := fun (a0 : list str) (x : tree) => S (ctx_of a0 x)).
  set (f := fun (a0 : list str) (x : tree) => F (ctx_of a0 x)).
  set (c0 := ctx_of anc (T g n a ks)).
  set (kids := flat_map (fun k => olist (induced sel f (anc ++ [n]) k)) ks).
  assert (K : map (fun c : cnode => (fst c, tattrs (snd c))) (flat_map (nodes_under (anc ++ [n])) kids)
              = map (fun c : cnode => (fst c, if S c then F c else []))
                    (filter (keeps S) (flat_map (nodes_under (anc ++ [n])) ks))).
  { unfold kids. rewrite flat_map_flat_map, filter_flat_map, !map_flat_map. apply flat_map_ext_Forall.
    eapply Forall_impl; [|exact IH]. intros k Hk. apply Hk. }
  pose proof (induced_none_iff S F anc (T g n a ks)) as HN. fold sel f in HN.
  pose proof (keeps_ctx S anc (T g n a ks)) as HK. fold c0 in HK.
  rewrite nodes_under_unfold. fold c0. cbn [filter]. rewrite HK.
  assert (EI : induced sel f anc (T g n a ks)
               = if S c0 then Some (T None n (F c0) kids)
                 else match kids with [] => None | _ => Some (T None n [] kids) end) by reflexivity.
  rewrite EI in *. clear EI.
  destruct (S c0) eqn:ES.
  - assert (Hex : existsb S (nodes_under anc (T g n a ks)) = true).
    { rewrite nodes_under_unfold. fold c0. cbn [existsb]. rewrite ES. reflexivity. }
    rewrite Hex. cbn [olist flat_map]. rewrite app_nil_r, nodes_under_unfold. cbn [map]. rewrite ES.
    f_equal. exact K.
  - destruct kids as [|y ys] eqn:Ekids.
    + rewrite (proj1 HN eq_refl). cbn [olist flat_map map]. cbn [flat_map map] in K. exact K.
    + destruct (existsb S (nodes_under anc (T g n a ks))) eqn:Hex.
      * cbn [olist flat_map]. rewrite app_nil_r, nodes_under_unfold. cbn [map]. rewrite ES. f_equal. exact K.
      * discriminate (proj2 HN eq_refl).
Qed.

(* ---------------------------------------------------------------------------------------------- *)
(* readable special cases: options that export the full record (name + every public attribute) *)

Definition full_gates (md sd : nat) (lo : bool) : opts := Opts s_name [] s_path [] true md sd lo.

Lemma induced_ext_in sel sel' (f f' : list str -> tree -> record) t :
  (forall a x, In x (pre t) -> sel a x = sel' a x /\ f a x = f' a x) ->
  forall anc, induced sel f anc t = induced sel' f' anc t.
Proof.
  induction t as [g n a ks IH] using tree_ind'. intros H anc. cbn [induced].
  destruct (H anc (T g n a ks) (or_introl eq_refl)) as [E1 E2]. rewrite E1, E2.
  assert (Hk : flat_map (fun k => olist (induced sel f (anc ++ [n]) k)) ks
               = flat_map (fun k => olist (induced sel' f' (anc ++ [n]) k)) ks).
  { apply flat_map_ext_Forall. apply Forall_forall. intros k Hk. rewrite Forall_forall in IH.
    rewrite (IH k Hk); [reflexivity|]. intros a0 x Hx. apply H. cbn [pre]. right.
    apply in_flat_map. exists k. split; assumption. }
  rewrite Hk. reflexivity.
Qed.

Lemma dict_attrs_full_gates md sd lo a x : NoDup (map fst (tattrs x)) ->
  dict_attrs (full_gates md sd lo) a x = norm_attrs false (tattrs x).
Proof.
  intros H. unfold dict_attrs.
  change (dict_record (full_gates md sd lo) (a ++ [tname x], x)) with (dict_record full_opts (a ++ [tname x], x)).
  rewrite dict_record_full by exact H. cbn [snd]. rewrite dict_del_full. symmetry. apply norm_attrs_false.
Qed.

Definition norm_of (x : tree) : record := norm_attrs false (tattrs x).

Theorem reimport_dict_gates sp root p md sd lo :
  valid_tree root = true -> sep_free sp root = true ->
  reimport_dict root sp p (full_gates md sd lo)
  = match subtree_at root p with
    | None => Raise Unmodelled
    | Some t => match induced (dict_sel (full_gates md sd lo)) (fun _ x => norm_of x) (anc_names root p) t with
                | Some x => Ret (chain (anc_names root p) x)
                | None => Raise ValueError
                end
    end.
Proof.
  intros Hv Hs. rewrite reimport_dict_induced by assumption. unfold spec_reimport_dict.
  destruct (subtree_at root p) as [t|] eqn:Hp; [|reflexivity].
  rewrite (induced_ext_in _ (dict_sel (full_gates md sd lo)) _ (fun _ x => norm_of x) t); [reflexivity|].
  intros a x Hx. split; [reflexivity|]. apply dict_attrs_full_gates.
  apply (valid_node_attrs root); [exact Hv|]. eapply subtree_pre_incl; eassumption.
Qed.

(* (a) no gate: everything below the start node, under the bare chain of its ancestors *)
Lemma induced_all sel (N : tree -> record) t :
  (forall a x, In x (pre t) -> sel a x = true) ->
  forall anc, induced sel (fun _ x => N x) anc t = Some (rebuild N t).
Proof.
  induction t as [g n a ks IH] using tree_ind'. intros H anc. cbn [induced rebuild].
  rewrite (H anc (T g n a ks) (or_introl eq_refl)). f_equal. f_equal.
  rewrite <- flat_map_singleton. apply flat_map_ext_Forall. apply Forall_forall. intros k Hk.
  rewrite Forall_forall in IH. rewrite (IH k Hk); [reflexivity|]. intros a0 x Hx. apply H. cbn [pre]. right.
  apply in_flat_map. exists k. split; assumption.
Qed.

Theorem reimport_dict_inner_start sp root p t :
  valid_tree root = true -> sep_free sp root = true -> subtree_at root p = Some t ->
  reimport_dict root sp p full_opts = Ret (chain (anc_names root p) (norm_tree false t)).
Proof.
  intros Hv Hs Hp. change full_opts with (full_gates 0 0 false). rewrite reimport_dict_gates by assumption.
  rewrite Hp. rewrite (induced_all _ norm_of t); [|intros a x _; reflexivity].
  rewrite norm_tree_rebuild. reflexivity.
Qed.

(* (b) leaf_only: the shape is untouched (every node has a leaf below it), only the leaves carry
   attributes *)
Fixpoint leaf_attrs (N : tree -> record) (t : tree) : tree :=
  match t with T _ n _ ks => T None n (if is_leaf t then N t else []) (map (leaf_attrs N) ks) end.

Lemma induced_leaves (N : tree -> record) t : forall anc,
  induced (fun _ x => is_leaf x) (fun _ x => N x) anc t = Some (leaf_attrs N t).
Proof.
  induction t as [g n a ks IH] using tree_ind'. intros anc. cbn [induced leaf_attrs].
  assert (Hk : flat_map (fun k => olist (induced (fun _ x => is_leaf x) (fun _ x => N x) (anc ++ [n]) k)) ks
               = map (leaf_attrs N) ks).
  { rewrite <- flat_map_singleton. apply flat_map_ext_Forall. eapply Forall_impl; [|exact IH].
    intros k Hk. rewrite Hk. reflexivity. }
  rewrite Hk. destruct ks as [|k ks']; reflexivity.
Qed.

Theorem reimport_dict_leaf_only sp root p t :
  valid_tree root = true -> sep_free sp root = true -> subtree_at root p = Some t ->
  reimport_dict root sp p (full_gates 0 0 true) = Ret (chain (anc_names root p) (leaf_attrs norm_of t)).
Proof.
  intros Hv Hs Hp. rewrite reimport_dict_gates by assumption. rewrite Hp.
  rewrite (induced_ext_in _ (fun _ x => is_leaf x) _ (fun _ x => norm_of x) t).
  - rewrite induced_leaves. reflexivity.
  - intros a x _. split; reflexivity.
Qed.

(* (c) skip_depth: r = number of levels still to skip at this node.  A node above the cut is bare and
   is kept only if its subtree reaches below the cut; from the cut downwards everything is kept *)
Fixpoint skip_tree (N : tree -> record) (r : nat) (t : tree) : option tree :=
  match t with
  | T _ n _ ks =>
      match r with
      | 0 => Some (rebuild N t)
      | S r' => match flat_map (fun k => olist (skip_tree N r' k)) ks with
                | [] => None
                | kids => Some (T None n [] kids)
                end
      end
  end.

Lemma skip_tree_0 N t : skip_tree N 0 t = Some (rebuild N t).
Proof. destruct t; reflexivity. Qed.

Lemma induced_skip (N : tree -> record) s t : forall anc,
  induced (fun a _ => Nat.eqb (s - length a) 0) (fun _ x => N x) anc t = skip_tree N (s - length anc) t.
Proof.
  induction t as [g n a ks IH] using tree_ind'. intros anc. cbn [induced].
  assert (Hk : flat_map (fun k => olist (induced (fun a0 _ => Nat.eqb (s - length a0) 0) (fun _ x => N x) (anc ++ [n]) k)) ks
               = flat_map (fun k => olist (skip_tree N (s - length anc - 1) k)) ks).
  { apply flat_map_ext_Forall. eapply Forall_impl; [|exact IH]. intros k Hk. rewrite Hk.
    rewrite app_length. cbn [length]. rewrite Nat.sub_add_distr. reflexivity. }
  rewrite Hk. destruct (s - length anc) as [|r'] eqn:Er; cbn [Nat.eqb skip_tree].
  - cbn [Nat.sub rebuild]. f_equal. f_equal. rewrite <- flat_map_singleton. apply flat_map_ext_Forall.
    apply Forall_forall. intros k _. rewrite skip_tree_0. reflexivity.
  - cbn [Nat.sub]. rewrite Nat.sub_0_r.
    destruct (flat_map (fun k => olist (skip_tree N r' k)) ks); reflexivity.
Qed.

Lemma dict_sel_skip s a x : dict_sel (full_gates 0 s false) a x = Nat.eqb (s - length a) 0.
Proof.
  unfold dict_sel, selected, c_depth, full_gates. cbn [fst snd o_max_depth o_skip_depth o_leaf_only Nat.eqb orb negb andb].
  rewrite andb_true_r, app_length. cbn [length].
  destruct (Nat.eqb_spec s 0) as [->|Hs]; [reflexivity|]. cbn [orb].
  destruct (Nat.ltb_spec s (length a + 1)); destruct (Nat.eqb_spec (s - length a) 0); try reflexivity; lia.
Qed.

Theorem reimport_dict_skip_depth sp root p s t :
  valid_tree root = true -> sep_free sp root = true -> subtree_at root p = Some t ->
  reimport_dict root sp p (full_gates 0 s false)
  = match skip_tree norm_of (s - length p) t with
    | Some x => Ret (chain (anc_names root p) x)
    | None => Raise ValueError
    end.
Proof.
  intros Hv Hs Hp. rewrite reimport_dict_gates by assumption. rewrite Hp.
  rewrite (induced_ext_in _ (fun a _ => Nat.eqb (s - length a) 0) _ (fun _ x => norm_of x) t).
  - rewrite induced_skip, anc_names_length. reflexivity.
  - intros a x _. split; [apply dict_sel_skip|reflexivity].
Qed.

(* ---------------------------------------------------------------------------------------------- *)
(* nested variant: tree_to_nested_dict has the max_depth gate only, and the recursion sits inside the
   gate, so the export of any start node under any max_depth re-imports to the start node's subtree
   cut below max_depth (absolute depth); no ancestors appear.  Options: full records, any other field *)

Theorem reimport_nested_partial root p o t :
  valid_tree root = true -> subtree_at root p = Some t ->
  o_name_key o = s_name -> o_all_attrs o = true ->
  bind (tree_to_nested_dict root p o) (nested_dict_to_tree s_name)
  = if Nat.eqb (o_max_depth o) 0 then Ret (norm_tree false t)
    else if Nat.leb (S (length p)) (o_max_depth o)
         then Ret (norm_tree false (prune (o_max_depth o - S (length p)) t))
         else Raise KeyError.
Proof.
  intros Hv Hp Hn Ha. pose proof (valid_subtree root p t Hv Hp) as Hvt.
  rewrite tree_to_nested_dict_spec, Hp. unfold spec_nested. rewrite Hp.
  destruct o as [nk pk pc ad aa md sd lo]. cbn [o_name_key o_all_attrs o_max_depth] in *. subst nk aa.
  destruct (Nat.eqb md 0).
  - cbn [bind]. apply (nested_import t Hvt).
  - destruct (Nat.leb (S (length p)) md); [|reflexivity]. cbn [bind].
    apply (nested_import (prune (md - S (length p)) t)). apply valid_prune. exact Hvt.
Qed.

(* ---------------------------------------------------------------------------------------------- *)
(* frame variant (tree_to_dataframe / tree_to_polars -> dataframe_to_tree / polars_to_tree) *)

(* dataframe_to_tree on a frame whose first column holds well-formed paths below one root name, the
   root's own row being at most the first one *)
Lemma dataframe_to_tree_partial sp r (F fa : cnode -> record) x0 xs' :
  sp <> [] ->
  (forall pr, In pr (x0 :: xs') -> exists rest, F pr = (s_path, VStr (path_name sp (fst pr))) :: rest) ->
  (forall pr, In pr (x0 :: xs') -> row_attrs s_path (dict_del s_path (F pr)) = fa pr) ->
  (forall pr, In pr (x0 :: xs') -> exists l, fst pr = r :: l /\ Forall (clean sp) (r :: l)) ->
  NoDup (map fst (x0 :: xs')) ->
  (forall pr, In pr xs' -> fst pr <> [r]) ->
  dataframe_to_tree (map F (x0 :: xs')) sp
  = Ret (ins_all (map (fun pr : cnode => (tl (fst pr), fa pr)) (x0 :: xs'))
                 (T None r (match fst x0 with [_] => fa x0 | _ => [] end) [])).
Proof.
  intros Hsp HF Hf Hc Hnd Hrest. set (xs := x0 :: xs') in *.
  destruct (HF x0 (or_introl eq_refl)) as [rest0 E0].
  rewrite (dataframe_to_tree_unfold (map F xs) s_path (VStr (path_name sp (fst x0))) rest0 (map F xs') sp)
    by (unfold xs; cbn [map]; rewrite E0; reflexivity).
  set (G := fun pr : cnode => (join sp (fst pr), dict_del s_path (F pr))).
  assert (Hs : stripped_of s_path sp (map F xs) = map G xs).
  { unfold stripped_of. rewrite map_map. apply map_ext_in. intros pr Hpr. unfold G.
    destruct (HF pr Hpr) as [rest E]. rewrite E. cbn [dict_get]. rewrite str_eqb_refl. rewrite <- E.
    destruct (Hc pr Hpr) as [l [El Hcl]]. rewrite El. rewrite strip_path_ok by exact Hcl. reflexivity. }
  unfold df_body. rewrite Hs.
  assert (He : existsb (fun r1 => match dict_get s_path r1 with Some (VStr _) => false | _ => true end) (map F xs) = false).
  { apply existsb_false_forall. intros r1 Hin.
    apply in_map_iff in Hin as [pr [Epr Hpr]]. destruct (HF pr Hpr) as [rest E]. subst r1. rewrite E.
    cbn [dict_get]. rewrite str_eqb_refl. reflexivity. }
  rewrite He.
  assert (Hinj : forall pa pb, In pa xs -> In pb xs -> join sp (fst pa) = join sp (fst pb) -> fst pa = fst pb).
  { intros pa pb Ha Hb Eab. destruct (Hc pa Ha) as [la [Ea Ca]]. destruct (Hc pb Hb) as [lb [Eb Cb]].
    rewrite Ea, Eb in *. apply (join_inj sp); try assumption; discriminate. }
  assert (Hd : dup_conflict (map G xs) = false).
  { apply dup_conflict_nodup.
    match goal with |- NoDup ?l =>
      assert (EG : l = map (join sp) (map fst xs)) by (rewrite !map_map; reflexivity); rewrite EG end.
    apply (NoDup_map_inj_on (join sp) (map fst xs)); [|exact Hnd]. intros a b Ha Hb Eab.
    apply in_map_iff in Ha as [pa [Ea Ha]]. apply in_map_iff in Hb as [pb [Eb Hb]]. subst a b.
    apply Hinj; assumption. }
  rewrite Hd.
  destruct (Hc x0 (or_introl eq_refl)) as [l0 [E0' Hcl0]].
  assert (Hr : clean sp r) by (inversion Hcl0; assumption).
  assert (Hspl : split (join sp (fst x0)) sp = r :: l0).
  { rewrite E0'. apply split_join_any; [exact Hsp|discriminate|apply clean_sfree; exact Hcl0]. }
  assert (Htail : filter (fun pa : str * record => str_eqb (fst pa) r) (map G xs') = []).
  { apply filter_none. intros pa Hin. apply in_map_iff in Hin as [pr [E Hpr]]. subst pa. unfold G. cbn [fst].
    destruct (str_eqb (join sp (fst pr)) r) eqn:Eq; [|reflexivity]. apply str_eqb_eq in Eq. exfalso.
    destruct (Hc pr (or_intror Hpr)) as [l [El Hcl]]. apply (Hrest pr Hpr).
    rewrite El in *. apply (join_inj sp); [exact Hsp|discriminate|discriminate|exact Hcl| |exact Eq].
    constructor; [exact Hr|constructor]. }
  assert (Hfil : match filter (fun pa : str * record => str_eqb (fst pa) r) (map G xs) with
                 | (_, a) :: _ => row_attrs s_path a
                 | [] => []
                 end = match fst x0 with [_] => fa x0 | _ => [] end).
  { unfold xs. cbn [map filter]. rewrite Htail. unfold G at 1 2. cbn [fst].
    rewrite E0'. destruct l0 as [|w ws].
    - cbn [join]. rewrite str_eqb_refl. apply (Hf x0). left. reflexivity.
    - destruct (str_eqb (join sp (r :: w :: ws)) r) eqn:Eq; [|reflexivity]. apply str_eqb_eq in Eq. exfalso.
      assert (E : r :: w :: ws = [r]).
      { apply (join_inj sp); [exact Hsp|discriminate|discriminate|exact Hcl0| |exact Eq].
        constructor; [exact Hr|constructor]. }
      discriminate. }
  assert (Hne : is_empty r = false) by (destruct Hr as [Hne _]; destruct r; [contradiction|reflexivity]).
  assert (Hadd : map (fun pa : str * record => (fst pa, row_attrs s_path (snd pa))) (map G xs)
                 = map (fun qr : list str * record => (join sp (r :: fst qr), snd qr))
                       (map (fun pr : cnode => (tl (fst pr), fa pr)) xs)).
  { rewrite !map_map. apply map_ext_in. intros pr Hpr. unfold G. cbn [fst snd].
    rewrite (Hf pr Hpr). destruct (Hc pr Hpr) as [l [El _]]. rewrite El. reflexivity. }
  assert (Hres : add_paths sp (map (fun pa : str * record => (fst pa, row_attrs s_path (snd pa))) (map G xs))
                           (T None r (match fst x0 with [_] => fa x0 | _ => [] end) [])
                 = Ret (ins_all (map (fun pr : cnode => (tl (fst pr), fa pr)) xs)
                                (T None r (match fst x0 with [_] => fa x0 | _ => [] end) []))).
  { rewrite Hadd. apply (add_paths_join_ok sp r); [exact Hsp|reflexivity|].
    apply Forall_forall. intros qr Hin. apply in_map_iff in Hin as [pr [E Hpr]]. subst qr. cbn [fst].
    destruct (Hc pr Hpr) as [l [El Hcl]]. rewrite El. exact Hcl. }
  rewrite <- Hres. unfold xs at 1. cbn [map]. unfold G at 1. cbv zeta. cbn [fst].
  rewrite Hspl. cbn [hd]. rewrite Hne. f_equal. f_equal. exact Hfil.
Qed.

Definition reimport_frame (root : tree) (sp : str) (p : pos) (o : opts) : res tree :=
  bind (tree_to_dataframe root sp p o) (fun d => dataframe_to_tree d sp).

(* the columns of the exported frame: keys of the selected records in first-seen order *)
Definition partial_cols (sp : str) (root : tree) (p : pos) (o : opts) : list str :=
  match nodes_from root p with
  | Some ns => frame_columns (map (frame_record o sp) (filter (selected o) ns))
  | None => []
  end.

(* attributes of a re-imported node: the attribute columns in column order, restricted to the node's
   non-null cells (cf. reimported_attrs of Spec/PC06.v for the full export) *)
Definition frame_attrs_of (cols : list str) (x : tree) : record :=
  row_attrs s_path (fill (filter (fun k => negb (str_eqb k s_path)) cols) (describe x)).

Lemma fill_head_path sp cols' (pr : cnode) : exists rest,
  fill (s_path :: cols') (frame_full sp pr) = (s_path, VStr (path_name sp (fst pr))) :: rest.
Proof. cbn [fill map]. eexists. f_equal. Qed.

Lemma fill_attrs_of sp cols (pr : cnode) :
  row_attrs s_path (dict_del s_path (fill cols (frame_full sp pr))) = frame_attrs_of cols (snd pr).
Proof.
  rewrite dict_del_fill. unfold frame_attrs_of. apply row_attrs_fill_ext.
  intros k _ Hn Hp. unfold lookup, frame_full. cbn [dict_get].
  apply str_eqb_neq in Hn, Hp. rewrite Hn, Hp. reflexivity.
Qed.

Lemma frame_attrs_of_nodup cols x : NoDup cols -> NoDup (map fst (frame_attrs_of cols x)).
Proof.
  intros H. unfold frame_attrs_of, row_attrs. apply filter_keys_nodup. rewrite fill_keys.
  apply NoDup_filter. exact H.
Qed.

Lemma frame_attrs_of_norm cols x :
  NoDup cols -> NoDup (map fst (tattrs x)) ->
  (forall k, In k (map fst (describe x)) -> In k cols /\ k <> s_path) ->
  sort_items (frame_attrs_of cols x) = norm_attrs true (tattrs x).
Proof.
  intros Hcols Ha Hcover. pose proof (describe_keys_nodup x Ha) as Hd.
  apply sorted_perm_eq.
  - apply sort_items_sorted. apply frame_attrs_of_nodup. exact Hcols.
  - unfold norm_attrs. apply filter_sorted. apply sort_items_sorted. exact Ha.
  - eapply Permutation_trans; [apply sort_items_perm|]. apply NoDup_Permutation.
    + eapply NoDup_map_inv. apply frame_attrs_of_nodup. exact Hcols.
    + eapply NoDup_map_inv. apply norm_attrs_keys_nodup. exact Ha.
    + intros [k v]. unfold frame_attrs_of, row_attrs, norm_attrs. rewrite !filter_In. cbn [fst snd]. split.
      * intros [Hin Hcond]. unfold fill in Hin. apply in_map_iff in Hin as [k' [E Hk']]. injection E as -> Ev.
        apply andb_true_iff in Hcond as [Hcond _]. apply andb_true_iff in Hcond as [Hnn Hname].
        unfold lookup in Ev. destruct (dict_get k (describe x)) as [v'|] eqn:Eg;
          [|subst v; discriminate]. subst v'. apply dict_get_some_in in Eg.
        unfold describe in Eg. apply filter_In in Eg as [Hin Hpub]. cbn [fst] in Hpub.
        split; [exact Hin|]. rewrite Hpub, Hnn. reflexivity.
      * intros [Hin Hcond]. apply andb_true_iff in Hcond as [Hpub Hnn]. cbn [negb orb] in Hnn.
        assert (Hdesc : In (k, v) (describe x)) by (unfold describe; apply filter_In; split; assumption).
        assert (Hk : In k (map fst (describe x))) by (apply in_map_iff; exists (k, v); split; [reflexivity|exact Hdesc]).
        destruct (Hcover k Hk) as [Hc Hnp].
        assert (Hc' : In k (filter (fun k0 => negb (str_eqb k0 s_path)) cols)).
        { apply filter_In. split; [exact Hc|]. apply negb_true_iff. apply str_eqb_neq. exact Hnp. }
        split.
        -- unfold fill. apply in_map_iff. exists k. split; [|exact Hc']. f_equal.
           unfold lookup. rewrite (dict_get_in k v (describe x) Hd Hdesc). reflexivity.
        -- rewrite Hnn. cbn [andb]. unfold public_key in Hpub. apply andb_true_iff in Hpub as [Hn _].
           rewrite Hn. cbn [andb]. apply negb_true_iff. apply str_eqb_neq. exact Hnp.
Qed.

Lemma nodes_under_snd_in anc t c : In c (nodes_under anc t) -> In (snd c) (pre t).
Proof. unfold nodes_under. destruct c as [l x]. intros H. apply in_combine_r in H. exact H. Qed.

Lemma NoDup_map_fst_of_paths sp (xs : list cnode) : NoDup (map (c_path sp) xs) -> NoDup (map fst xs).
Proof.
  intros H. apply (NoDup_map_inv (path_name sp)). rewrite map_map. exact H.
Qed.

(* the exact re-imported tree: induced tree, a selected node carrying its non-null cells in column
   order *)
Theorem reimport_frame_exact sp root p md sd lo :
  valid_tree root = true -> sep_free sp root = true -> frame_safe root = true ->
  reimport_frame root sp p (full_gates md sd lo)
  = match subtree_at root p with
    | None => Raise Unmodelled
    | Some t => match induced (dict_sel (full_gates md sd lo))
                              (fun _ x => frame_attrs_of (partial_cols sp root p (full_gates md sd lo)) x)
                              (anc_names root p) t with
                | Some x => Ret (chain (anc_names root p) x)
                | None => Raise ValueError
                end
    end.
Proof.
  intros Hv Hs Hfs. set (o := full_gates md sd lo). unfold reimport_frame, partial_cols.
  rewrite tree_to_dataframe_spec. unfold spec_frame, nodes_from.
  destruct (subtree_at root p) as [t|] eqn:Hp; [|reflexivity]. cbn [bind].
  pose proof (sep_free_nonempty sp root Hs) as Hsp.
  pose proof (names_clean_of sp root Hv Hs) as Hc.
  pose proof (valid_subtree root p t Hv Hp) as Hvt.
  remember (filter (selected o) (nodes_under (anc_names root p) t)) as xs eqn:Exs.
  assert (Hxs_in : forall c, In c xs -> In (snd c) (pre root)).
  { intros c Hin. rewrite Exs in Hin. apply filter_In in Hin as [Hin _].
    eapply subtree_pre_incl; [exact Hp|]. eapply nodes_under_snd_in. exact Hin. }
  assert (Hrows : map (frame_record o sp) xs = map (frame_full sp) xs).
  { apply map_ext_in. intros c Hin. change (frame_record o sp c) with (frame_record full_opts sp c).
    apply frame_record_full.
    - apply (valid_node_attrs root); [exact Hv|apply Hxs_in; exact Hin].
    - apply (frame_safe_node root); [exact Hfs|apply Hxs_in; exact Hin]. }
  rewrite Hrows. set (cols := frame_columns (map (frame_full sp) xs)).
  pose proof (frame_columns_nodup (map (frame_full sp) xs)) as Hcn. fold cols in Hcn.
  set (FA := fun c : cnode => frame_attrs_of cols (snd c)).
  set (fA := fun (_ : list str) (x : tree) => frame_attrs_of cols x).
  pose proof (selected_as_recs FA o root p t Hp) as ESR. rewrite <- Exs in ESR.
  change (fun (a : list str) (x : tree) => FA (ctx_of a x)) with fA in ESR.
  pose proof (fun z => recs_clean sp FA o root p t z Hc Hp) as Hclean.
  change (fun (a : list str) (x : tree) => FA (ctx_of a x)) with fA in Hclean.
  set (h2 := fun qr : list str * record => (tl (anc_names root p ++ [tname t]) ++ fst qr, snd qr)) in *.
  assert (HfA : forall a y, NoDup (map fst (fA a y))).
  { intros a y. apply frame_attrs_of_nodup. exact Hcn. }
  destruct (sel_recs (dict_sel o) fA (anc_names root p) t) as [|z L] eqn:ER.
  - cbn [map] in ESR. apply map_eq_nil in ESR. subst xs. rewrite ESR.
    apply sel_recs_nil in ER. rewrite ER. reflexivity.
  - destruct xs as [|c1 xs']; [discriminate ESR|].
    assert (Hne : sel_recs (dict_sel o) fA (anc_names root p) t <> []) by (rewrite ER; discriminate).
    rewrite (induced_some _ _ _ _ HfA Hne).
    destruct (frame_columns_head s_path (VStr (path_name sp (fst c1)))
                ((s_name, VStr (tname (snd c1))) :: describe (snd c1)) (map (frame_full sp) xs')) as [cols' Ecols].
    change (frame_columns (map (frame_full sp) (c1 :: xs')) = s_path :: cols') in Ecols. fold cols in Ecols.
    rewrite frame_of_fill by (fold cols; rewrite Ecols; discriminate). fold cols. rewrite map_map.
    cbn [map] in ESR. injection ESR as E1 E1' Erest.
    assert (Hpaths : forall pr, In pr (c1 :: xs') ->
              exists z', In z' (z :: L) /\ fst pr = tname root :: fst (h2 z')).
    { intros pr Hin.
      assert (Hin' : In (fst pr, FA pr) (map (fun c : cnode => (fst c, FA c)) (c1 :: xs'))).
      { apply in_map_iff. exists pr. split; [reflexivity|exact Hin]. }
      cbn [map] in Hin'. rewrite E1, E1', Erest in Hin'. destruct Hin' as [E|Hin'].
      - exists z. split; [left; reflexivity|]. injection E as E _. symmetry. exact E.
      - rewrite map_map in Hin'. apply in_map_iff in Hin' as [z' [Ez' Hz']]. exists z'.
        split; [right; exact Hz'|]. injection Ez' as Ez' _. symmetry. exact Ez'. }
    assert (EDF : dataframe_to_tree (map (fun c : cnode => fill cols (frame_full sp c)) (c1 :: xs')) sp
                  = Ret (ins_all (map (fun pr : cnode => (tl (fst pr), FA pr)) (c1 :: xs'))
                                 (T None (tname root) (match fst c1 with [_] => FA c1 | _ => [] end) []))).
    { apply (dataframe_to_tree_partial sp (tname root) (fun c => fill cols (frame_full sp c)) FA c1 xs' Hsp).
      + intros pr _. rewrite Ecols. apply fill_head_path.
      + intros pr _. apply fill_attrs_of.
      + intros pr Hin. destruct (Hpaths pr Hin) as [z' [Hz' Ez']]. exists (fst (h2 z')). split; [exact Ez'|].
        unfold h2. cbn [fst]. apply Hclean. exact Hz'.
      + apply (NoDup_map_fst_of_paths sp). rewrite Exs. apply NoDup_map_filter.
        apply paths_nodup_from; assumption.
      + intros pr Hin E.
        assert (Hin' : In (fst pr, FA pr) (map (fun c : cnode => (fst c, FA c)) xs')).
        { apply in_map_iff. exists pr. split; [reflexivity|exact Hin]. }
        rewrite Erest, map_map in Hin'. apply in_map_iff in Hin' as [z' [Ez' Hz']].
        injection Ez' as Ez' _. rewrite E in Ez'. injection Ez' as Ez'. unfold h2 in Ez'. cbn [fst] in Ez'.
        apply app_eq_nil in Ez' as [_ Ez']. exact (sel_recs_rest _ _ _ _ _ _ ER z' Hz' Ez'). }
    etransitivity; [exact EDF|]. f_equal.
    assert (EM : map (fun pr : cnode => (tl (fst pr), FA pr)) (c1 :: xs') = map h2 (z :: L)).
    { transitivity (map (fun w : list str * record => (tl (fst w), snd w))
                        (map (fun c : cnode => (fst c, FA c)) (c1 :: xs'))).
      - rewrite map_map. reflexivity.
      - cbn [map]. rewrite E1, E1', Erest. cbn [fst snd tl]. f_equal. rewrite !map_map. reflexivity. }
    rewrite EM, <- ER.
    apply (ins_induced (dict_sel o) fA root p t _ Hvt Hp HfA Hne).
    destruct p as [|i p'].
    * cbn in Hp. injection Hp as <-. change (anc_names root []) with (@nil str) in *.
      pose proof (sel_recs_head _ _ _ _ _ _ ER) as Hh. rewrite E1. unfold h2. cbn [app tl fst].
      destruct (dict_sel o [] root).
      -- subst z. cbn [fst]. rewrite E1'. reflexivity.
      -- destruct (fst z); [contradiction|reflexivity].
    * rewrite E1. unfold h2. cbn [fst]. rewrite anc_names_cons. cbn [app tl].
      destruct (match nth_error (tkids root) i with
                | Some k => anc_names k p'
                | None => map (fun _ : nat => []) (seq 0 (length p'))
                end); reflexivity.
Qed.

(* attributes as a finite map (sorted by key): a selected node carries exactly its public, non-null
   attributes *)
Lemma induced_sort sel (f : list str -> tree -> record) t : forall anc,
  option_map sort_tree (induced sel f anc t) = induced sel (fun a x => sort_items (f a x)) anc t.
Proof.
  induction t as [g n a ks IH] using tree_ind'. intros anc. cbn [induced].
  assert (Hk : flat_map (fun k => olist (induced sel (fun a0 x => sort_items (f a0 x)) (anc ++ [n]) k)) ks
               = map sort_tree (flat_map (fun k => olist (induced sel f (anc ++ [n]) k)) ks)).
  { rewrite map_flat_map. apply flat_map_ext_Forall. eapply Forall_impl; [|exact IH]. intros k Hk.
    rewrite <- Hk. destruct (induced sel f (anc ++ [n]) k); reflexivity. }
  rewrite Hk. destruct (sel anc (T g n a ks)); [reflexivity|].
  destruct (flat_map (fun k => olist (induced sel f (anc ++ [n]) k)) ks); reflexivity.
Qed.

Lemma sort_chain l x : sort_tree (chain l x) = chain l (sort_tree x).
Proof. induction l as [|b l IH]; [reflexivity|]. cbn [chain sort_tree map]. rewrite IH. reflexivity. Qed.

Lemma induced_ext_nodes (S : cnode -> bool) (F F' : cnode -> record) t : forall anc,
  (forall c, In c (nodes_under anc t) -> S c = true -> F c = F' c) ->
  induced (fun a x => S (ctx_of a x)) (fun a x => F (ctx_of a x)) anc t
  = induced (fun a x => S (ctx_of a x)) (fun a x => F' (ctx_of a x)) anc t.
Proof.
  induction t as [g n a ks IH] using tree_ind'. intros anc H. cbn [induced].
  assert (Hk : flat_map (fun k => olist (induced (fun a0 x => S (ctx_of a0 x)) (fun a0 x => F (ctx_of a0 x)) (anc ++ [n]) k)) ks
               = flat_map (fun k => olist (induced (fun a0 x => S (ctx_of a0 x)) (fun a0 x => F' (ctx_of a0 x)) (anc ++ [n]) k)) ks).
  { apply flat_map_ext_Forall. apply Forall_forall. intros k Hk. rewrite Forall_forall in IH.
    rewrite (IH k Hk); [reflexivity|]. intros c Hc. apply H. rewrite nodes_under_unfold. right.
    apply in_flat_map. exists k. split; assumption. }
  rewrite Hk. destruct (S (ctx_of anc (T g n a ks))) eqn:ES; [|reflexivity].
  rewrite (H (ctx_of anc (T g n a ks))); [reflexivity| |exact ES]. rewrite nodes_under_unfold. left. reflexivity.
Qed.

Theorem reimport_frame_sorted sp root p md sd lo :
  valid_tree root = true -> sep_free sp root = true -> frame_safe root = true ->
  res_map sort_tree (reimport_frame root sp p (full_gates md sd lo))
  = match subtree_at root p with
    | None => Raise Unmodelled
    | Some t => match induced (dict_sel (full_gates md sd lo)) (fun _ x => norm_attrs true (tattrs x))
                              (anc_names root p) t with
                | Some x => Ret (chain (anc_names root p) x)
                | None => Raise ValueError
                end
    end.
Proof.
  intros Hv Hs Hfs. rewrite reimport_frame_exact by assumption. set (o := full_gates md sd lo).
  destruct (subtree_at root p) as [t|] eqn:Hp; [|reflexivity].
  set (cols := partial_cols sp root p o).
  assert (EI : option_map sort_tree (induced (dict_sel o) (fun _ x => frame_attrs_of cols x) (anc_names root p) t)
               = induced (dict_sel o) (fun _ x => norm_attrs true (tattrs x)) (anc_names root p) t).
  { rewrite induced_sort.
    apply (induced_ext_nodes (selected o) (fun c => sort_items (frame_attrs_of cols (snd c)))
                             (fun c => norm_attrs true (tattrs (snd c))) t (anc_names root p)).
    intros c Hin HS. cbn beta.
    assert (Hx : In (snd c) (pre root)).
    { eapply subtree_pre_incl; [exact Hp|]. eapply nodes_under_snd_in. exact Hin. }
    pose proof (valid_node_attrs root (snd c) Hv Hx) as Ha.
    pose proof (frame_safe_node root (snd c) Hfs Hx) as Hnp.
    assert (Ecols : cols = frame_columns (map (frame_record o sp) (filter (selected o) (nodes_under (anc_names root p) t)))).
    { unfold cols, partial_cols, nodes_from. rewrite Hp. reflexivity. }
    apply frame_attrs_of_norm.
    - rewrite Ecols. apply frame_columns_nodup.
    - exact Ha.
    - intros k Hk. split.
      + rewrite Ecols. apply (frame_columns_in _ (frame_record o sp c)).
        * apply in_map. apply filter_In. split; assumption.
        * change (frame_record o sp c) with (frame_record full_opts sp c).
          rewrite (frame_record_full sp c Ha Hnp). unfold frame_full. cbn [map fst]. right. right. exact Hk.
      + intros ->. apply Hnp. apply describe_keys_sub. exact Hk. }
  destruct (induced (dict_sel o) (fun _ x => frame_attrs_of cols x) (anc_names root p) t) as [x|];
    cbn [option_map] in EI; rewrite <- EI; [|reflexivity].
  cbn [res_map]. rewrite sort_chain. reflexivity.
Qed.

(* the three readable shapes, frame variant (attributes compared as finite maps) *)
Definition norm_null_of (x : tree) : record := norm_attrs true (tattrs x).

Theorem reimport_frame_inner_start sp root p t :
  valid_tree root = true -> sep_free sp root = true -> frame_safe root = true -> subtree_at root p = Some t ->
  res_map sort_tree (reimport_frame root sp p full_opts) = Ret (chain (anc_names root p) (norm_tree true t)).
Proof.
  intros Hv Hs Hfs Hp. change full_opts with (full_gates 0 0 false). rewrite reimport_frame_sorted by assumption.
  rewrite Hp. rewrite (induced_all _ norm_null_of t); [|intros a x _; reflexivity].
  rewrite norm_tree_rebuild. reflexivity.
Qed.

Theorem reimport_frame_leaf_only sp root p t :
  valid_tree root = true -> sep_free sp root = true -> frame_safe root = true -> subtree_at root p = Some t ->
  res_map sort_tree (reimport_frame root sp p (full_gates 0 0 true))
  = Ret (chain (anc_names root p) (leaf_attrs norm_null_of t)).
Proof.
  intros Hv Hs Hfs Hp. rewrite reimport_frame_sorted by assumption. rewrite Hp.
  rewrite (induced_ext_in _ (fun _ x => is_leaf x) _ (fun _ x => norm_null_of x) t).
  - rewrite induced_leaves. reflexivity.
  - intros a x _. split; reflexivity.
Qed.

Theorem reimport_frame_skip_depth sp root p s t :
  valid_tree root = true -> sep_free sp root = true -> frame_safe root = true -> subtree_at root p = Some t ->
  res_map sort_tree (reimport_frame root sp p (full_gates 0 s false))
  = match skip_tree norm_null_of (s - length p) t with
    | Some x => Ret (chain (anc_names root p) x)
    | None => Raise ValueError
    end.
Proof.
  intros Hv Hs Hfs Hp. rewrite reimport_frame_sorted by assumption. rewrite Hp.
  rewrite (induced_ext_in _ (fun a _ => Nat.eqb (s - length a) 0) _ (fun _ x => norm_null_of x) t).
  - rewrite induced_skip, anc_names_length. reflexivity.
  - intros a x _. split; [apply dict_sel_skip|reflexivity].
Qed.
