(* Proofs about the model of get_tree_diff (Algo/Diff.v) against the specification Spec/PC15.v. *)
From BT Require Import Base.Prelude Base.Str Base.Rose Algo.Diff Spec.PC15.
From Coq Require Import Permutation.

(* ================================================================================================ *)
(* 1. strings: split / join / strip for the single-character separator                                *)

Lemma contains_single s c : contains s [c] = existsb (N.eqb c) s.
Proof.
  induction s as [|y s IH]; [reflexivity|].
  cbn [contains existsb startswith]. rewrite IH. rewrite andb_true_r. reflexivity.
Qed.

Definition cfree (c : N) (n : str) : Prop := ~ In c n.

Lemma cfree_contains c n : contains n [c] = false <-> cfree c n.
Proof.
  rewrite contains_single. unfold cfree. split.
  - intros H Hin. assert (E : existsb (N.eqb c) n = true).
    { apply existsb_exists. exists c. split; [exact Hin|apply N.eqb_refl]. }
    congruence.
  - intros H. destruct (existsb (N.eqb c) n) eqn:E; [|reflexivity].
    apply existsb_exists in E as [x [Hx Hc]]. apply N.eqb_eq in Hc. subst. contradiction.
Qed.

Lemma split_go_scan c n : forall cur fuel rest,
  cfree c n ->
  split_go (length n + fuel) [c] cur (n ++ rest) = split_go fuel [c] (rev n ++ cur) rest.
Proof.
  induction n as [|x n IH]; intros cur fuel rest Hf; [reflexivity|].
  cbn [length Nat.add app split_go startswith].
  assert (Hx : N.eqb c x = false).
  { apply N.eqb_neq. intros ->. apply Hf. left. reflexivity. }
  rewrite Hx. cbn [andb].
  rewrite IH by (intros Hin; apply Hf; right; exact Hin).
  cbn [rev]. rewrite <- app_assoc. reflexivity.
Qed.

Lemma split_go_nil fuel c cur : split_go fuel [c] cur [] = [rev cur].
Proof. destruct fuel; reflexivity. Qed.

Lemma split_go_sep fuel c cur rest :
  split_go (S fuel) [c] cur (c :: rest) = rev cur :: split_go fuel [c] [] rest.
Proof. cbn [split_go startswith]. rewrite N.eqb_refl. reflexivity. Qed.

Lemma split_go_join c : forall l n cur k,
  Forall (cfree c) (n :: l) ->
  split_go (length (join [c] (n :: l)) + k) [c] cur (join [c] (n :: l)) = (rev cur ++ n) :: l.
Proof.
  induction l as [|m l IH]; intros n cur k HF.
  - cbn [join]. inversion HF as [|? ? Hn _]; subst.
    rewrite <- (app_nil_r n) at 2. rewrite split_go_scan by exact Hn.
    rewrite split_go_nil. rewrite rev_app_distr, rev_involutive. reflexivity.
  - inversion HF as [|? ? Hn HF']; subst.
    rewrite join_cons. rewrite app_length. rewrite <- Nat.add_assoc.
    rewrite split_go_scan by exact Hn.
    cbn [app length Nat.add]. rewrite split_go_sep.
    rewrite rev_app_distr, rev_involutive. f_equal.
    rewrite IH by exact HF'. reflexivity.
Qed.

Lemma split_join c l :
  l <> [] -> Forall (cfree c) l -> split (join [c] l) [c] = l.
Proof.
  intros Hne HF. destruct l as [|n l]; [contradiction|].
  unfold split. rewrite <- Nat.add_1_r. rewrite split_go_join by exact HF. reflexivity.
Qed.

Lemma join_cons_nonempty sp x l : l <> [] -> join sp (x :: l) = x ++ sp ++ join sp l.
Proof. destruct l; [contradiction|reflexivity]. Qed.

Lemma cfree_nil c : cfree c []. Proof. intros []. Qed.

(* path_name sep p = sep.join("" :: p) *)
Lemma path_name_join sep p : p <> [] -> path_name sep p = join sep ([] :: p).
Proof. intros H. rewrite join_cons_nonempty by exact H. reflexivity. Qed.

Lemma split_path_name c p :
  p <> [] -> Forall (cfree c) p -> split (path_name [c] p) [c] = [] :: p.
Proof.
  intros Hne HF. rewrite path_name_join by exact Hne.
  apply split_join; [discriminate|]. constructor; [apply cfree_nil|exact HF].
Qed.

Lemma join_inj c p q :
  p <> [] -> q <> [] -> Forall (cfree c) p -> Forall (cfree c) q ->
  join [c] p = join [c] q -> p = q.
Proof.
  intros Hp Hq Fp Fq E. rewrite <- (split_join c p Hp Fp), <- (split_join c q Hq Fq), E. reflexivity.
Qed.

Lemma path_name_inj c p q :
  p <> [] -> q <> [] -> Forall (cfree c) p -> Forall (cfree c) q ->
  path_name [c] p = path_name [c] q -> p = q.
Proof.
  intros Hp Hq Fp Fq E. unfold path_name in E. apply app_inv_head in E.
  eapply join_inj; eassumption.
Qed.

(* strip *)
Lemma lstrip_nonsep s c :
  match s with [] => True | x :: _ => x <> c end -> lstrip s [c] = s.
Proof.
  destruct s as [|x s]; [reflexivity|]. intros H. cbn [lstrip memN existsb].
  destruct (N.eqb x c) eqn:E; [apply N.eqb_eq in E; contradiction|reflexivity].
Qed.

Lemma lstrip_sep s c : lstrip (c :: s) [c] = lstrip s [c].
Proof. cbn [lstrip memN existsb]. rewrite N.eqb_refl. reflexivity. Qed.

Lemma rstrip_nonsep s y c : y <> c -> rstrip (s ++ [y]) [c] = s ++ [y].
Proof.
  intros H. unfold rstrip. rewrite rev_app_distr. cbn [rev app].
  rewrite lstrip_nonsep by exact H. cbn [rev]. rewrite rev_involutive. reflexivity.
Qed.

Definition good_name (n : str) : Prop := n <> [] /\ cfree 47%N n.

Lemma join_first_char c l :
  l <> [] -> Forall good_name l ->
  match join [c] l with [] => False | x :: _ => x <> 47%N end.
Proof.
  intros Hne HF. destruct l as [|n l]; [contradiction|].
  inversion HF as [|? ? [Hn Hc] _]; subst.
  destruct n as [|x n]; [contradiction|].
  assert (Hx : x <> 47%N) by (intros ->; apply Hc; left; reflexivity).
  destruct l; cbn; exact Hx.
Qed.

Lemma join_last_char c l :
  l <> [] -> Forall good_name l -> exists s y, join [c] l = s ++ [y] /\ y <> 47%N.
Proof.
  induction l as [|n l IH]; intros Hne HF; [contradiction|].
  inversion HF as [|? ? [Hn Hc] HF']; subst.
  destruct l as [|m l].
  - cbn [join]. destruct (exists_last Hn) as [s [y ->]]. exists s, y. split; [reflexivity|].
    intros ->. apply Hc. apply in_or_app. right. left. reflexivity.
  - destruct (IH ltac:(discriminate) HF') as [s [y [E Hy]]].
    rewrite join_cons, E. exists (n ++ [c] ++ s), y. split; [|exact Hy].
    rewrite <- !app_assoc. reflexivity.
Qed.

(* branch_of (path_name "/" comps) = comps *)
Lemma branch_of_path comps :
  comps <> [] -> Forall good_name comps -> branch_of (path_name slash comps) = comps.
Proof.
  intros Hne HF. unfold branch_of, path_name, slash.
  cbn [app]. rewrite lstrip_sep.
  pose proof (join_first_char 47%N comps Hne HF) as H1.
  rewrite lstrip_nonsep by (destruct (join [47%N] comps); [exact I|exact H1]).
  destruct (join_last_char 47%N comps Hne HF) as [s [y [E Hy]]].
  rewrite E. rewrite rstrip_nonsep by exact Hy. rewrite <- E.
  apply split_join; [exact Hne|].
  eapply Forall_impl; [|exact HF]. intros a [_ Ha]. exact Ha.
Qed.

Lemma strip_path comps :
  comps <> [] -> Forall good_name comps ->
  rstrip (lstrip (path_name slash comps) slash) slash = join slash comps.
Proof.
  intros Hne HF. unfold path_name, slash.
  cbn [app]. rewrite lstrip_sep.
  pose proof (join_first_char 47%N comps Hne HF) as H1.
  rewrite lstrip_nonsep by (destruct (join [47%N] comps); [exact I|exact H1]).
  destruct (join_last_char 47%N comps Hne HF) as [s [y [E Hy]]].
  rewrite E. apply rstrip_nonsep. exact Hy.
Qed.

Lemma branch_of_join comps :
  comps <> [] -> Forall good_name comps -> branch_of (join slash comps) = comps.
Proof.
  intros Hne HF. unfold branch_of, slash.
  pose proof (join_first_char 47%N comps Hne HF) as H1.
  rewrite lstrip_nonsep by (destruct (join [47%N] comps); [exact I|exact H1]).
  destruct (join_last_char 47%N comps Hne HF) as [s [y [E Hy]]].
  rewrite E. rewrite rstrip_nonsep by exact Hy. rewrite <- E.
  apply split_join; [exact Hne|].
  eapply Forall_impl; [|exact HF]. intros a [_ Ha]. exact Ha.
Qed.

(* ================================================================================================ *)
(* 2. lists                                                                                           *)

Lemma list_eqb_str_eq (a b : list str) : list_eqb str_eqb a b = true <-> a = b.
Proof.
  revert b; induction a as [|x a IH]; intros [|y b]; cbn; split; intros H; try reflexivity; try discriminate.
  - apply andb_true_iff in H as [H1 H2]. apply str_eqb_eq in H1. apply IH in H2. subst. reflexivity.
  - inversion H; subst. rewrite str_eqb_refl. cbn. apply IH. reflexivity.
Qed.

Lemma nid_eqb_eq a b : nid_eqb a b = true <-> a = b.
Proof. apply list_eqb_str_eq. Qed.
Lemma npath_eqb_eq a b : npath_eqb a b = true <-> a = b.
Proof. apply list_eqb_str_eq. Qed.
Lemma nid_eqb_refl a : nid_eqb a a = true.
Proof. apply nid_eqb_eq. reflexivity. Qed.
Lemma npath_eqb_refl a : npath_eqb a a = true.
Proof. apply npath_eqb_eq. reflexivity. Qed.
Lemma npath_eqb_neq a b : a <> b -> npath_eqb a b = false.
Proof. intros H. destruct (npath_eqb a b) eqn:E; [apply npath_eqb_eq in E; contradiction|reflexivity]. Qed.
Lemma nid_eqb_neq a b : a <> b -> nid_eqb a b = false.
Proof. apply npath_eqb_neq. Qed.

Lemma memstr_in s l : memstr s l = true <-> In s l.
Proof.
  unfold memstr. rewrite existsb_exists. split.
  - intros [x [Hx E]]. apply str_eqb_eq in E. subst. exact Hx.
  - intros H. exists s. split; [exact H|apply str_eqb_refl].
Qed.

Lemma memnid_in (q : nid) l : existsb (nid_eqb q) l = true <-> In q l.
Proof.
  rewrite existsb_exists. split.
  - intros [x [Hx E]]. apply nid_eqb_eq in E. subst. exact Hx.
  - intros H. exists q. split; [exact H|apply nid_eqb_refl].
Qed.

(* prefixes *)
Lemma prefixes_from_inits {A} (todo : list A) : forall done,
  prefixes_from done todo = map (app done) (map (fun x => x) (
    (fix ini (p : list A) : list (list A) :=
       match p with [] => [] | x :: r => [x] :: map (cons x) (ini r) end) todo)).
Proof.
  induction todo as [|x r IH]; intros done; [reflexivity|].
  cbn [prefixes_from map]. f_equal. rewrite IH. rewrite !map_map.
  apply map_ext. intros a. rewrite <- app_assoc. reflexivity.
Qed.

Lemma inits_fix (p : npath) :
  (fix ini (p : list str) : list (list str) :=
     match p with [] => [] | x :: r => [x] :: map (cons x) (ini r) end) p = inits p.
Proof. induction p as [|x r IH]; [reflexivity|]. cbn [inits]. rewrite <- IH. reflexivity. Qed.

Lemma nonempty_prefixes_inits (p : list str) : nonempty_prefixes p = inits p.
Proof.
  unfold nonempty_prefixes. rewrite prefixes_from_inits. rewrite map_id.
  rewrite inits_fix. rewrite <- (map_id (inits p)) at 2. apply map_ext. reflexivity.
Qed.

Lemma inits_length (p : npath) : length (inits p) = length p.
Proof. induction p as [|x r IH]; [reflexivity|]. cbn [inits length]. rewrite map_length. rewrite IH. reflexivity. Qed.

Lemma inits_app (p : npath) x : inits (p ++ [x]) = inits p ++ [p ++ [x]].
Proof.
  induction p as [|y p IH]; [reflexivity|].
  cbn [app inits]. rewrite IH. rewrite map_app. reflexivity.
Qed.

Lemma inits_comps (p : npath) : forall (g : npath -> str),
  inits (map g (inits p)) = map (fun q => map g (inits q)) (inits p).
Proof.
  induction p as [|x p IH]; intros g; [reflexivity|].
  cbn [inits map]. f_equal. rewrite !map_map.
  rewrite (IH (fun q => g (x :: q))). rewrite map_map.
  apply map_ext. intros q. cbn [inits map]. rewrite map_map. reflexivity.
Qed.

(* q is a non-empty prefix of p *)
Lemma in_inits (p q : npath) : In q (inits p) <-> q <> [] /\ exists r, p = q ++ r.
Proof.
  revert q. induction p as [|x p IH]; intros q.
  - cbn. split; [intros []|]. intros [Hq [r E]]. destruct q; [contradiction|discriminate].
  - cbn [inits In]. rewrite in_map_iff. split.
    + intros [E|[q' [E Hq']]].
      * subst. split; [discriminate|]. exists p. reflexivity.
      * subst. apply IH in Hq' as [Hne [r E]]. split; [discriminate|]. exists r. subst. reflexivity.
    + intros [Hne [r E]]. destruct q as [|y q]; [contradiction|]. inversion E; subst.
      destruct q as [|z q].
      * left. reflexivity.
      * right. exists (z :: q). split; [reflexivity|]. apply IH. split; [discriminate|].
        exists r. reflexivity.
Qed.

Lemma in_inits_self (p : npath) : p <> [] -> In p (inits p).
Proof. intros H. apply in_inits. split; [exact H|]. exists []. rewrite app_nil_r. reflexivity. Qed.

Lemma inits_of_init (p q : npath) : In q (inits p) -> forall q', In q' (inits q) -> In q' (inits p).
Proof.
  intros H q' H'. apply in_inits in H as [Hq [r E]]. apply in_inits in H' as [Hq' [r' E']].
  apply in_inits. split; [exact Hq'|]. exists (r' ++ r). subst. rewrite app_assoc. reflexivity.
Qed.

(* last element of inits *)
Lemma comps_last {B} (g : npath -> B) (p : npath) d :
  p <> [] -> last (map g (inits p)) d = g p.
Proof.
  intros Hne. destruct (exists_last Hne) as [p' [x ->]].
  rewrite inits_app, map_app. cbn [map]. apply last_last.
Qed.

(* add_id *)
Lemma add_id_in nodes q x : In x (add_id nodes q) <-> In x nodes \/ x = q.
Proof.
  unfold add_id. destruct (existsb (nid_eqb q) nodes) eqn:E.
  - apply memnid_in in E. split; [intros H; left; exact H|]. intros [H|H]; [exact H|subst; exact E].
  - rewrite in_app_iff. cbn. split.
    + intros [H|[H|H]]; [left; exact H|right; symmetry; exact H|contradiction].
    + intros [H|H]; [left; exact H|right; left; symmetry; exact H].
Qed.

Lemma NoDup_snoc {A} (l : list A) q : NoDup l -> ~ In q l -> NoDup (l ++ [q]).
Proof.
  intros H Hq. apply (Permutation_NoDup (Permutation_cons_append l q)). constructor; assumption.
Qed.

Lemma NoDup_map_inj_in {A B} (f : A -> B) (l : list A) :
  (forall x y, In x l -> In y l -> f x = f y -> x = y) -> NoDup l -> NoDup (map f l).
Proof.
  induction l as [|a l IH]; intros Hinj Hnd; [constructor|].
  inversion Hnd as [|? ? Ha Hnd']; subst. cbn [map]. constructor.
  - intros Hin. apply in_map_iff in Hin as [b [E Hb]].
    assert (b = a) by (apply Hinj; [right; exact Hb|left; reflexivity|exact E]). subst. contradiction.
  - apply IH; [|exact Hnd']. intros x y Hx Hy. apply Hinj; right; assumption.
Qed.

Lemma add_id_nodup nodes q : NoDup nodes -> NoDup (add_id nodes q).
Proof.
  intros H. unfold add_id. destruct (existsb (nid_eqb q) nodes) eqn:E; [exact H|].
  apply NoDup_snoc; [exact H|]. intros Hin. apply memnid_in in Hin. congruence.
Qed.

Lemma add_id_present nodes q : In q nodes -> add_id nodes q = nodes.
Proof. intros H. unfold add_id. apply memnid_in in H. rewrite H. reflexivity. Qed.

Lemma fold_add_in l : forall nodes x, In x (fold_left add_id l nodes) <-> In x nodes \/ In x l.
Proof.
  induction l as [|q l IH]; intros nodes x; cbn [fold_left].
  - cbn. tauto.
  - rewrite IH, add_id_in. cbn. split; intros H; intuition (subst; auto).
Qed.

Lemma fold_add_nodup l : forall nodes, NoDup nodes -> NoDup (fold_left add_id l nodes).
Proof. induction l as [|q l IH]; intros nodes H; cbn [fold_left]; [exact H|]. apply IH, add_id_nodup, H. Qed.

Lemma fold_add_present l : forall nodes, (forall q, In q l -> In q nodes) -> fold_left add_id l nodes = nodes.
Proof.
  induction l as [|q l IH]; intros nodes H; cbn [fold_left]; [reflexivity|].
  rewrite add_id_present by (apply H; left; reflexivity). apply IH. intros q' Hq'. apply H. right. exact Hq'.
Qed.

(* sort_desc keeps the elements *)
Lemma insert_desc_in s l x : In x (insert_desc s l) <-> x = s \/ In x l.
Proof.
  induction l as [|y l IH]; cbn [insert_desc].
  - cbn. intuition.
  - destruct (str_eqb s y) eqn:E.
    + apply str_eqb_eq in E. subst. cbn. intuition.
    + destruct (str_ltb y s); cbn [In]; [intuition|]. rewrite IH. intuition.
Qed.

Lemma sort_desc_in l x : In x (sort_desc l) <-> In x l.
Proof.
  induction l as [|y l IH]; cbn [sort_desc fold_right]; [tauto|].
  rewrite insert_desc_in. fold (sort_desc l). rewrite IH. cbn. intuition.
Qed.

(* ================================================================================================ *)
(* 3. the tables and the node lists of the specification                                              *)

Definition rowof (al : list str) (e : list str * attrs) : row :=
  Row (path_name slash (fst e)) (last (fst e) []) (map (fun k => get_attr k (snd e)) al).

Lemma table_from_nodes al (t : tree) : forall pre,
  table_from slash al pre t = map (rowof al) (nodes_from pre t).
Proof.
  induction t as [g n a ks IH] using tree_ind'. intros pre.
  cbn [table_from nodes_from map]. f_equal.
  - unfold rowof. cbn [fst snd]. rewrite last_last. reflexivity.
  - induction ks as [|k ks IHk]; [reflexivity|].
    inversion IH as [|? ? Hk Hks]; subst. cbn [flat_map]. rewrite map_app.
    rewrite Hk, IHk by exact Hks. reflexivity.
Qed.

Lemma table_nodes al t : table slash al t = map (rowof al) (nodes_of t).
Proof. apply table_from_nodes. Qed.

(* every path of nodes_from pre t extends pre ++ [tname t] *)
Lemma nodes_from_form (t : tree) : forall pre p,
  In p (map fst (nodes_from pre t)) -> exists r, p = pre ++ tname t :: r.
Proof.
  induction t as [g n a ks IH] using tree_ind'. intros pre p Hin.
  cbn [nodes_from map fst In tname] in *. destruct Hin as [<-|Hin].
  - exists []. reflexivity.
  - induction ks as [|k ks IHk]; [contradiction|].
    inversion IH as [|? ? Hk Hks]; subst. cbn [flat_map] in Hin. rewrite map_app in Hin.
    apply in_app_or in Hin as [Hin|Hin].
    + destruct (Hk _ _ Hin) as [r ->]. exists (tname k :: r). rewrite <- app_assoc. reflexivity.
    + apply IHk; assumption.
Qed.

(* the paths of a tree are closed under non-empty prefixes (longer than the starting prefix) *)
Lemma nodes_from_prefix_closed (t : tree) : forall pre q x,
  In (q ++ [x]) (map fst (nodes_from pre t)) -> length pre < length q ->
  In q (map fst (nodes_from pre t)).
Proof.
  induction t as [g n a ks IH] using tree_ind'. intros pre q x Hin Hlen.
  cbn [nodes_from map fst In] in *. destruct Hin as [E|Hin].
  - exfalso. apply (f_equal (@length _)) in E. rewrite !app_length in E. cbn in E. lia.
  - destruct (Nat.eq_dec (length q) (S (length pre))) as [El|Nl].
    + left.
      assert (Hform : exists r, q ++ [x] = (pre ++ [n]) ++ r).
      { clear IH. induction ks as [|k ks IHk]; [contradiction|].
        cbn [flat_map] in Hin. rewrite map_app in Hin. apply in_app_or in Hin as [Hin|Hin].
        - destruct (nodes_from_form _ _ _ Hin) as [r E]. exists (tname k :: r). exact E.
        - apply IHk. exact Hin. }
      destruct Hform as [r E].
      apply (f_equal (firstn (length q))) in E.
      rewrite firstn_app, Nat.sub_diag, firstn_all in E. cbn [firstn] in E. rewrite app_nil_r in E.
      rewrite firstn_app in E. rewrite (firstn_all2 (n:=length q) (pre ++ [n])) in E
        by (rewrite app_length; cbn; lia).
      replace (length q - length (pre ++ [n])) with 0 in E by (rewrite app_length; cbn; lia).
      cbn [firstn] in E. rewrite app_nil_r in E. symmetry. exact E.
    + right.
      induction ks as [|k ks IHk]; [contradiction|].
      inversion IH as [|? ? Hk Hks]; subst. cbn [flat_map] in *. rewrite map_app in *.
      apply in_or_app. apply in_app_or in Hin as [Hin|Hin].
      * left. apply (Hk (pre ++ [n]) q x Hin). rewrite app_length. cbn. lia.
      * right. apply IHk; assumption.
Qed.

Lemma nodes_of_prefix_closed t q x :
  q <> [] -> In (q ++ [x]) (map fst (nodes_of t)) -> In q (map fst (nodes_of t)).
Proof.
  intros Hq Hin. apply (nodes_from_prefix_closed t [] q x Hin). destruct q; [contradiction|cbn; lia].
Qed.

Lemma nodes_of_root t : In [tname t] (map fst (nodes_of t)).
Proof. destruct t as [g n a ks]. cbn. left. reflexivity. Qed.

Lemma nodes_of_hd t p : In p (map fst (nodes_of t)) -> hd [] p = tname t.
Proof. intros H. destruct (nodes_from_form t [] p H) as [r ->]. reflexivity. Qed.

(* names on the paths are names of the tree *)
Lemma nodes_from_names (t : tree) : forall pre p x,
  In p (map fst (nodes_from pre t)) -> In x p -> In x pre \/ In x (all_names t).
Proof.
  induction t as [g n a ks IH] using tree_ind'. intros pre p x Hin Hx.
  cbn [nodes_from map fst In all_names] in *. destruct Hin as [<-|Hin].
  - apply in_app_or in Hx as [Hx|[<-|[]]]; [left; exact Hx|right; left; reflexivity].
  - induction ks as [|k ks IHk]; [contradiction|].
    inversion IH as [|? ? Hk Hks]; subst. cbn [flat_map] in *. rewrite map_app in Hin.
    apply in_app_or in Hin as [Hin|Hin].
    + destruct (Hk _ _ _ Hin Hx) as [H|H].
      * apply in_app_or in H as [H|[<-|[]]]; [left; exact H|right; left; reflexivity].
      * right. right. apply in_or_app. left. exact H.
    + destruct (IHk Hks Hin) as [H|[H|H]]; [left; exact H|right; left; exact H|].
      right. right. apply in_or_app. right. exact H.
Qed.

Lemma nodes_of_names t p x : In p (map fst (nodes_of t)) -> In x p -> In x (all_names t).
Proof. intros H Hx. destruct (nodes_from_names t [] p x H Hx) as [[]|H']. exact H'. Qed.

Lemma NoDup_app_intro {A} (l1 l2 : list A) :
  NoDup l1 -> NoDup l2 -> (forall x, In x l1 -> In x l2 -> False) -> NoDup (l1 ++ l2).
Proof.
  induction l1 as [|a l1 IH]; intros H1 H2 Hd; [exact H2|].
  inversion H1 as [|? ? Ha H1']; subst. cbn. constructor.
  - intros Hin. apply in_app_or in Hin as [Hin|Hin]; [contradiction|]. apply (Hd a); [left; reflexivity|exact Hin].
  - apply IH; [exact H1'|exact H2|]. intros x Hx1 Hx2. apply (Hd x); [right; exact Hx1|exact Hx2].
Qed.

Lemma nodup_str_head x l : nodup_str (x :: l) = true -> ~ In x l /\ nodup_str l = true.
Proof.
  cbn [nodup_str]. intros H. apply andb_true_iff in H as [H1 H2]. split; [|exact H2].
  intros Hin. apply negb_true_iff in H1.
  assert (E : existsb (str_eqb x) l = true) by (apply (memstr_in x l); exact Hin). congruence.
Qed.

Lemma nodup_str_NoDup l : nodup_str l = true -> NoDup l.
Proof.
  induction l as [|x l IH]; intros H; [constructor|].
  apply nodup_str_head in H as [H1 H2]. constructor; [exact H1|apply IH, H2].
Qed.

Lemma nodes_from_nodup (t : tree) :
  siblings_distinct t = true -> forall pre, NoDup (map fst (nodes_from pre t)).
Proof.
  induction t as [g n a ks IH] using tree_ind'. intros Hsd pre.
  cbn [siblings_distinct] in Hsd. apply andb_true_iff in Hsd as [Hnd Hall].
  cbn [nodes_from map fst]. constructor.
  - intros Hin.
    assert (Hform : exists r k, pre ++ [n] = (pre ++ [n]) ++ k :: r).
    { clear IH Hnd Hall. induction ks as [|k ks IHk]; [contradiction|].
      cbn [flat_map] in Hin. rewrite map_app in Hin. apply in_app_or in Hin as [Hin|Hin].
      - destruct (nodes_from_form _ _ _ Hin) as [r E]. exists r, (tname k). exact E.
      - apply IHk. exact Hin. }
    destruct Hform as [r [k E]]. apply (f_equal (@length _)) in E. rewrite !app_length in E. cbn in E. lia.
  - induction ks as [|k ks IHk]; [constructor|].
    inversion IH as [|? ? Hk Hks]; subst. cbn [flat_map]. rewrite map_app.
    cbn [forallb] in Hall. apply andb_true_iff in Hall as [Hk1 Hall].
    cbn [map] in Hnd. apply nodup_str_head in Hnd as [Hnotin Hnd].
    apply NoDup_app_intro.
    + apply Hk. exact Hk1.
    + apply IHk; assumption.
    + intros p Hp1 Hp2.
      destruct (nodes_from_form _ _ _ Hp1) as [r1 E1].
      assert (Hform : exists k' r2, In k' ks /\ p = (pre ++ [n]) ++ tname k' :: r2).
      { clear - Hp2. induction ks as [|k' ks IHk]; [contradiction|].
        cbn [flat_map] in Hp2. rewrite map_app in Hp2. apply in_app_or in Hp2 as [Hp2|Hp2].
        - destruct (nodes_from_form _ _ _ Hp2) as [r E]. exists k', r. split; [left; reflexivity|exact E].
        - destruct (IHk Hp2) as [k2 [r2 [Hin E]]]. exists k2, r2. split; [right; exact Hin|exact E]. }
      destruct Hform as [k' [r2 [Hk' E2]]]. rewrite E1 in E2. apply app_inv_head in E2.
      inversion E2 as [[En Er]]. apply Hnotin. rewrite En. apply in_map. exact Hk'.
Qed.

Lemma nodes_of_nodup t : siblings_distinct t = true -> NoDup (map fst (nodes_of t)).
Proof. intros H. apply nodes_from_nodup. exact H. Qed.

(* lookup *)
Lemma lookup_some_in p (N : list (list str * attrs)) a : lookup p N = Some a -> In (p, a) N.
Proof.
  unfold lookup. destruct (find _ N) as [e|] eqn:E; [|discriminate]. intros H. inversion H; subst.
  apply find_some in E as [Hin Heq]. apply npath_eqb_eq in Heq. destruct e as [q b]. cbn in *. subst. exact Hin.
Qed.

Lemma lookup_none_iff p (N : list (list str * attrs)) : lookup p N = None <-> ~ In p (map fst N).
Proof.
  unfold lookup. split.
  - destruct (find _ N) as [e|] eqn:E; [discriminate|]. intros _ Hin.
    apply in_map_iff in Hin as [e [He Hin]]. pose proof (find_none _ _ E _ Hin) as Hn.
    cbn in Hn. rewrite He, npath_eqb_refl in Hn. discriminate.
  - intros Hn. destruct (find _ N) as [e|] eqn:E; [|reflexivity]. exfalso. apply Hn.
    apply find_some in E as [Hin Heq]. apply npath_eqb_eq in Heq. subst. apply in_map. exact Hin.
Qed.

Lemma lookup_nodup p a (N : list (list str * attrs)) :
  NoDup (map fst N) -> In (p, a) N -> lookup p N = Some a.
Proof.
  induction N as [|[q b] N IH]; intros Hnd Hin; [contradiction|].
  cbn [map fst] in Hnd. inversion Hnd as [|? ? Hq Hnd']; subst.
  unfold lookup. cbn [find fst]. destruct Hin as [E|Hin].
  - inversion E; subst. rewrite npath_eqb_refl. reflexivity.
  - destruct (npath_eqb q p) eqn:E.
    + apply npath_eqb_eq in E. subst. exfalso. apply Hq. apply (in_map fst) in Hin. exact Hin.
    + apply IH; assumption.
Qed.

Lemma in_paths_iff p (N : list (list str * attrs)) : in_paths p N = true <-> In p (map fst N).
Proof.
  unfold in_paths. rewrite existsb_exists. split.
  - intros [e [Hin Heq]]. apply npath_eqb_eq in Heq. subst. apply in_map. exact Hin.
  - intros Hin. apply in_map_iff in Hin as [e [He Hin]]. exists e. split; [exact Hin|].
    rewrite He. apply npath_eqb_refl.
Qed.

Lemma lookup_some_iff p (N : list (list str * attrs)) : (exists a, lookup p N = Some a) <-> In p (map fst N).
Proof.
  split.
  - intros [a H]. apply lookup_some_in in H. apply (in_map fst) in H. exact H.
  - intros H. destruct (lookup p N) as [a|] eqn:E; [exists a; reflexivity|].
    apply lookup_none_iff in E. contradiction.
Qed.

(* ================================================================================================ *)
(* 4. the model on two node lists                                                                     *)

Definition good_path (p : list str) : Prop := p <> [] /\ Forall good_name p.

Lemma good_path_cfree p : good_path p -> Forall (cfree 47%N) p.
Proof. intros [_ H]. eapply Forall_impl; [|exact H]. intros a [_ Ha]. exact Ha. Qed.

Lemma pn_inj p q : good_path p -> good_path q -> path_name slash p = path_name slash q -> p = q.
Proof.
  intros Hp Hq. apply path_name_inj; [apply Hp|apply Hq|apply good_path_cfree, Hp|apply good_path_cfree, Hq].
Qed.

Lemma good_path_init p q : good_path p -> In q (inits p) -> good_path q.
Proof.
  intros [Hne HF] Hin. apply in_inits in Hin as [Hq [r E]]. split; [exact Hq|].
  subst. apply Forall_app in HF. apply HF.
Qed.

(* ---- reading a displayed component back: the name without its marker --------------------------- *)

Lemma endswith_app_same n s : endswith (n ++ s) s = true.
Proof. unfold endswith. rewrite rev_app_distr. apply startswith_app. Qed.

Lemma endswith_app_diff n a b :
  a <> MSame -> b <> MSame -> a <> b -> endswith (n ++ mark_suffix a) (mark_suffix b) = false.
Proof.
  intros Ha Hb Hab. unfold endswith. rewrite rev_app_distr.
  destruct a, b; try contradiction; reflexivity.
Qed.

Lemma drop_last4_app n m : m <> MSame -> drop_last4 (n ++ mark_suffix m) = n.
Proof.
  intros Hm. unfold drop_last4. rewrite rev_app_distr.
  destruct m; try contradiction; cbn [mark_suffix rev app skipn]; apply rev_involutive.
Qed.

Lemma strip_marker_app n m : marker_free n = true -> strip_marker (n ++ mark_suffix m) = n.
Proof.
  intros H. unfold marker_free in H. apply andb_true_iff in H as [H H3]. apply andb_true_iff in H as [H1 H2].
  apply negb_true_iff in H1, H2, H3.
  destruct m; unfold strip_marker.
  - cbn [mark_suffix] in *. rewrite app_nil_r, H1, H2, H3. reflexivity.
  - rewrite endswith_app_same. apply drop_last4_app. discriminate.
  - rewrite (endswith_app_diff n MAdd MRem) by discriminate.
    rewrite endswith_app_same. apply drop_last4_app. discriminate.
  - rewrite (endswith_app_diff n MChg MRem) by discriminate.
    rewrite (endswith_app_diff n MChg MAdd) by discriminate.
    rewrite endswith_app_same. apply drop_last4_app. discriminate.
Qed.

Lemma marker_of_app n m : marker_free n = true -> marker_of (n ++ mark_suffix m) = m.
Proof.
  intros H. unfold marker_free in H. apply andb_true_iff in H as [H H3]. apply andb_true_iff in H as [H1 H2].
  apply negb_true_iff in H1, H2, H3.
  destruct m; unfold marker_of.
  - cbn [mark_suffix] in *. rewrite app_nil_r, H1, H2, H3. reflexivity.
  - rewrite endswith_app_same. reflexivity.
  - rewrite (endswith_app_diff n MAdd MRem) by discriminate.
    rewrite endswith_app_same. reflexivity.
  - rewrite (endswith_app_diff n MChg MRem) by discriminate.
    rewrite (endswith_app_diff n MChg MAdd) by discriminate.
    rewrite endswith_app_same. reflexivity.
Qed.

Lemma last_in (q : list str) : q <> [] -> In (last q []) q.
Proof.
  intros H. destruct (exists_last H) as [q' [x ->]]. rewrite last_last. apply in_or_app. right. left. reflexivity.
Qed.

Lemma mark_suffix_cfree m : cfree 47%N (mark_suffix m).
Proof. destruct m; cbn; intros H; repeat (destruct H as [H|H]; [discriminate|]); exact H. Qed.

Lemma good_name_marked n m : good_name n -> good_name (n ++ mark_suffix m).
Proof.
  intros [Hne Hc]. split.
  - destruct n; [contradiction|discriminate].
  - intros Hin. apply in_app_or in Hin as [Hin|Hin]; [exact (Hc Hin)|exact (mark_suffix_cfree m Hin)].
Qed.

Lemma split_path_slash p :
  p <> [] -> Forall good_name p -> split (path_name slash p) slash = [] :: p.
Proof.
  intros Hne HF. apply (split_path_name 47%N p Hne).
  eapply Forall_impl; [|exact HF]. intros a [_ Ha]. exact Ha.
Qed.

Section Main.
  Variable al : list str.
  Variables N1 N2 : list (list str * attrs).
  Variable rt : str.

  Hypothesis HND1 : NoDup (map fst N1).
  Hypothesis HND2 : NoDup (map fst N2).
  Hypothesis Hgood1 : forall p, In p (map fst N1) -> good_path p.
  Hypothesis Hgood2 : forall p, In p (map fst N2) -> good_path p.
  Hypothesis Hpc1 : forall q x, q <> [] -> In (q ++ [x]) (map fst N1) -> In q (map fst N1).
  Hypothesis Hpc2 : forall q x, q <> [] -> In (q ++ [x]) (map fst N2) -> In q (map fst N2).
  Hypothesis Hrt1 : In [rt] (map fst N1).
  Hypothesis Hrt2 : In [rt] (map fst N2).
  Hypothesis Hhd1 : forall p, In p (map fst N1) -> hd [] p = rt.
  Hypothesis Hhd2 : forall p, In p (map fst N2) -> hd [] p = rt.
  Hypothesis Hal : NoDup al.

  Notation st := (status al N1 N2).
  Notation all := (all_paths N1 N2).

  Lemma in_all p : In p all <-> In p (map fst N1) \/ In p (map fst N2).
  Proof.
    unfold all_paths. rewrite in_app_iff, filter_In. split.
    - intros [H|[H _]]; [left|right]; exact H.
    - intros [H|H]; [left; exact H|].
      destruct (in_paths p N1) eqn:E.
      + left. apply in_paths_iff. exact E.
      + right. split; [exact H|]. reflexivity.
  Qed.

  Lemma all_nodup : NoDup all.
  Proof.
    unfold all_paths. apply NoDup_app_intro.
    - exact HND1.
    - apply NoDup_filter. exact HND2.
    - intros p H1 H2. apply filter_In in H2 as [_ H2]. apply negb_true_iff in H2.
      apply in_paths_iff in H1. congruence.
  Qed.

  Lemma all_good p : In p all -> good_path p.
  Proof. intros H. apply in_all in H as [H|H]; [apply Hgood1|apply Hgood2]; exact H. Qed.

  Lemma all_init_closed p q : In p all -> In q (inits p) -> In q all.
  Proof.
    intros Hp Hq. apply in_inits in Hq as [Hne [r E]]. subst p. revert Hp.
    induction r as [|x r IH] using rev_ind; intros Hp.
    - rewrite app_nil_r in Hp. exact Hp.
    - apply IH. rewrite app_assoc in Hp. apply in_all in Hp. apply in_all.
      assert (Hqr : q ++ r <> []) by (destruct q; [contradiction|discriminate]).
      destruct Hp as [Hp|Hp]; [left; eapply Hpc1|right; eapply Hpc2]; eassumption.
  Qed.

  Lemma init1_closed p q : In p (map fst N1) -> In q (inits p) -> In q (map fst N1).
  Proof.
    intros Hp Hq. apply in_inits in Hq as [Hne [r E]]. subst p. revert Hp.
    induction r as [|x r IH] using rev_ind; intros Hp.
    - rewrite app_nil_r in Hp. exact Hp.
    - apply IH. rewrite app_assoc in Hp.
      assert (Hqr : q ++ r <> []) by (destruct q; [contradiction|discriminate]).
      eapply Hpc1; eassumption.
  Qed.

  Lemma init2_closed p q : In p (map fst N2) -> In q (inits p) -> In q (map fst N2).
  Proof.
    intros Hp Hq. apply in_inits in Hq as [Hne [r E]]. subst p. revert Hp.
    induction r as [|x r IH] using rev_ind; intros Hp.
    - rewrite app_nil_r in Hp. exact Hp.
    - apply IH. rewrite app_assoc in Hp.
      assert (Hqr : q ++ r <> []) by (destruct q; [contradiction|discriminate]).
      eapply Hpc2; eassumption.
  Qed.

  (* --- status in terms of membership -------------------------------------------------------- *)

  Lemma st_rem p : st p = MRem <-> In p (map fst N1) /\ ~ In p (map fst N2).
  Proof.
    unfold status. split.
    - destruct (lookup p N1) as [a1|] eqn:E1; destruct (lookup p N2) as [a2|] eqn:E2; try discriminate.
      + destruct (diff_attrs al a1 a2); discriminate.
      + intros _. split; [apply lookup_some_iff; eauto|apply lookup_none_iff; exact E2].
    - intros [H1 H2]. apply lookup_some_iff in H1 as [a1 E1]. apply lookup_none_iff in H2.
      rewrite E1, H2. reflexivity.
  Qed.

  Lemma st_add p : st p = MAdd <-> ~ In p (map fst N1) /\ In p (map fst N2).
  Proof.
    unfold status. split.
    - destruct (lookup p N1) as [a1|] eqn:E1; destruct (lookup p N2) as [a2|] eqn:E2; try discriminate.
      + destruct (diff_attrs al a1 a2); discriminate.
      + intros _. split; [apply lookup_none_iff; exact E1|apply lookup_some_iff; eauto].
    - intros [H1 H2]. apply lookup_some_iff in H2 as [a2 E2]. apply lookup_none_iff in H1.
      rewrite E2, H1. reflexivity.
  Qed.

  Lemma st_chg p : st p = MChg <->
    exists a1 a2, lookup p N1 = Some a1 /\ lookup p N2 = Some a2 /\ diff_attrs al a1 a2 <> [].
  Proof.
    unfold status. split.
    - destruct (lookup p N1) as [a1|] eqn:E1; destruct (lookup p N2) as [a2|] eqn:E2; try discriminate.
      destruct (diff_attrs al a1 a2) eqn:E; [discriminate|]. intros _.
      exists a1, a2. repeat split. rewrite E. discriminate.
    - intros [a1 [a2 [E1 [E2 Hd]]]]. rewrite E1, E2. destruct (diff_attrs al a1 a2); [contradiction|reflexivity].
  Qed.

  (* a path present in both trees has all its non-empty prefixes in both trees *)
  Lemma both_init p q :
    In p (map fst N1) -> In p (map fst N2) -> In q (inits p) ->
    st q <> MRem /\ st q <> MAdd.
  Proof.
    intros H1 H2 Hq. pose proof (init1_closed _ _ H1 Hq) as Q1. pose proof (init2_closed _ _ H2 Hq) as Q2.
    split; intros E; [apply st_rem in E|apply st_add in E]; tauto.
  Qed.

  (* --- the outer join ------------------------------------------------------------------------ *)

  Definition vals (a : attrs) : list val := map (fun k => get_attr k a) al.
  Definition nn : list val := map (fun _ : str => VNone) al.

  Definition jr_of (p : list str) : jrow :=
    match lookup p N1, lookup p N2 with
    | Some a1, None => JR (path_name slash p) (vals a1) nn LeftOnly
    | Some a1, Some a2 => JR (path_name slash p) (vals a1) (vals a2) BothI
    | None, Some a2 => JR (path_name slash p) nn (vals a2) RightOnly
    | None, None => JR (path_name slash p) nn nn BothI
    end.

  Lemma key_eqb_rows p a q b :
    good_path p -> good_path q -> key_eqb (rowof al (p, a)) (rowof al (q, b)) = npath_eqb p q.
  Proof.
    intros Hp Hq. unfold key_eqb, rowof. cbn [rpath rname fst snd].
    destruct (npath_eqb p q) eqn:E.
    - apply npath_eqb_eq in E. subst. rewrite !str_eqb_refl. reflexivity.
    - assert (Hn : str_eqb (path_name slash p) (path_name slash q) = false).
      { apply str_eqb_neq. intros H. apply pn_inj in H; [|assumption|assumption]. subst.
        rewrite npath_eqb_refl in E. discriminate. }
      rewrite Hn. reflexivity.
  Qed.

  Lemma lookup_cons_eq p b (N : list (list str * attrs)) : lookup p ((p, b) :: N) = Some b.
  Proof. unfold lookup. cbn [find fst]. rewrite npath_eqb_refl. reflexivity. Qed.

  Lemma lookup_cons_neq p q b (N : list (list str * attrs)) : q <> p -> lookup p ((q, b) :: N) = lookup p N.
  Proof. intros H. unfold lookup. cbn [find fst]. rewrite npath_eqb_neq by exact H. reflexivity. Qed.

  Lemma filter_key p a1 (N : list (list str * attrs)) :
    NoDup (map fst N) -> (forall q, In q (map fst N) -> good_path q) -> good_path p ->
    filter (key_eqb (rowof al (p, a1))) (map (rowof al) N)
    = match lookup p N with Some a2 => [rowof al (p, a2)] | None => [] end.
  Proof.
    intros Hnd Hg Hp. induction N as [|[q b] N IH]; [reflexivity|].
    cbn [map fst] in Hnd. inversion Hnd as [|? ? Hq Hnd']; subst.
    assert (Hgq : good_path q) by (apply Hg; left; reflexivity).
    assert (Hg' : forall q0, In q0 (map fst N) -> good_path q0) by (intros q0 H0; apply Hg; right; exact H0).
    cbn [map filter]. rewrite key_eqb_rows by assumption.
    destruct (npath_eqb p q) eqn:E.
    - apply npath_eqb_eq in E. subst q. rewrite lookup_cons_eq.
      rewrite (IH Hnd' Hg'). apply lookup_none_iff in Hq. rewrite Hq. reflexivity.
    - rewrite lookup_cons_neq.
      + apply IH; assumption.
      + intros ->. rewrite npath_eqb_refl in E. discriminate.
  Qed.

  Lemma existsb_key q b (N : list (list str * attrs)) :
    (forall p, In p (map fst N) -> good_path p) -> good_path q ->
    existsb (fun r1 => key_eqb r1 (rowof al (q, b))) (map (rowof al) N) = in_paths q N.
  Proof.
    intros Hg Hq. unfold in_paths. induction N as [|[p a] N IH]; [reflexivity|].
    cbn [map existsb fst]. rewrite key_eqb_rows; [|apply Hg; left; reflexivity|exact Hq].
    rewrite IH; [reflexivity|]. intros p0 H0. apply Hg. right. exact H0.
  Qed.

  Lemma merge_abs :
    merge_outer nn (map (rowof al) N1) (map (rowof al) N2) = map jr_of all.
  Proof.
    unfold merge_outer, all_paths. rewrite map_app. f_equal.
    - assert (G : forall l, incl l N1 ->
        flat_map (fun r1 => match filter (key_eqb r1) (map (rowof al) N2) with
                            | [] => [JR (rpath r1) (rvals r1) nn LeftOnly]
                            | _ :: _ => map (fun r2 => JR (rpath r1) (rvals r1) (rvals r2) BothI)
                                          (filter (key_eqb r1) (map (rowof al) N2))
                            end) (map (rowof al) l) = map jr_of (map fst l)).
      { induction l as [|[p a1] l IH]; intros Hincl; [reflexivity|].
        cbn [map flat_map fst]. rewrite IH by (intros e He; apply Hincl; right; exact He).
        assert (Hin : In (p, a1) N1) by (apply Hincl; left; reflexivity).
        assert (Hp : good_path p) by (apply Hgood1; apply (in_map fst) in Hin; exact Hin).
        rewrite (filter_key p a1 N2 HND2 Hgood2 Hp).
        unfold jr_of. rewrite (lookup_nodup p a1 N1 HND1 Hin).
        destruct (lookup p N2) as [a2|]; reflexivity. }
      rewrite <- (G N1 (incl_refl N1)). apply flat_map_ext. intros r1.
      destruct (filter (key_eqb r1) (map (rowof al) N2)); reflexivity.
    - assert (G : forall l, incl l N2 ->
        map (fun r2 => JR (rpath r2) nn (rvals r2) RightOnly)
          (filter (fun r2 => negb (existsb (fun r1 => key_eqb r1 r2) (map (rowof al) N1))) (map (rowof al) l))
        = map jr_of (filter (fun p => negb (in_paths p N1)) (map fst l))).
      { induction l as [|[q b] l IH]; intros Hincl; [reflexivity|].
        assert (Hin : In (q, b) N2) by (apply Hincl; left; reflexivity).
        assert (Hq : good_path q) by (apply Hgood2; apply (in_map fst) in Hin; exact Hin).
        assert (IH' := IH (fun e He => Hincl e (or_intror He))).
        cbn [map filter fst]. rewrite (existsb_key q b N1 Hgood1 Hq).
        destruct (in_paths q N1) eqn:E; cbn [negb]; [exact IH'|].
        cbn [map]. rewrite IH'. f_equal. unfold jr_of.
        assert (E1 : lookup q N1 = None).
        { apply lookup_none_iff. intros H. apply in_paths_iff in H. congruence. }
        rewrite E1, (lookup_nodup q b N2 HND2 Hin). reflexivity. }
      apply (G N2 (incl_refl N2)).
  Qed.

  Lemma jr_path p : jpath (jr_of p) = path_name slash p.
  Proof. unfold jr_of. destruct (lookup p N1), (lookup p N2); reflexivity. Qed.

  Lemma jr_left p : is_left (jind (jr_of p)) = mark_eqb (st p) MRem.
  Proof.
    unfold jr_of, status. destruct (lookup p N1) as [a1|], (lookup p N2) as [a2|]; try reflexivity.
    destruct (diff_attrs al a1 a2); reflexivity.
  Qed.

  Lemma jr_right p : is_right (jind (jr_of p)) = mark_eqb (st p) MAdd.
  Proof.
    unfold jr_of, status. destruct (lookup p N1) as [a1|], (lookup p N2) as [a2|]; try reflexivity.
    destruct (diff_attrs al a1 a2); reflexivity.
  Qed.

  Definition rows0 : list jrow := map jr_of all.
  Definition removed : list str := map jpath (filter (fun r => is_left (jind r)) rows0).
  Definition added : list str := map jpath (filter (fun r => is_right (jind r)) rows0).

  Lemma bool_eq_iff (a b : bool) : (a = true <-> b = true) -> a = b.
  Proof. destruct a, b; intros [H1 H2]; try reflexivity; [symmetry; apply H1; reflexivity|apply H2; reflexivity]. Qed.

  Lemma mark_eqb_eq a b : mark_eqb a b = true <-> a = b.
  Proof. destruct a, b; cbn; split; intros H; try reflexivity; discriminate. Qed.

  Lemma mem_removed q : good_path q -> memstr (path_name slash q) removed = mark_eqb (st q) MRem.
  Proof.
    intros Hq. apply bool_eq_iff. rewrite memstr_in, mark_eqb_eq. unfold removed, rows0.
    rewrite in_map_iff. split.
    - intros [r [Hr Hin]]. apply filter_In in Hin as [Hin Hl]. apply in_map_iff in Hin as [p [<- Hp]].
      rewrite jr_path in Hr. apply pn_inj in Hr; [|apply all_good; exact Hp|exact Hq]. subst.
      rewrite jr_left in Hl. apply mark_eqb_eq. exact Hl.
    - intros E. exists (jr_of q). split; [apply jr_path|]. apply filter_In. split.
      + apply in_map. apply in_all. left. apply st_rem in E. apply E.
      + rewrite jr_left, E. reflexivity.
  Qed.

  Lemma mem_added q : good_path q -> memstr (path_name slash q) added = mark_eqb (st q) MAdd.
  Proof.
    intros Hq. apply bool_eq_iff. rewrite memstr_in, mark_eqb_eq. unfold added, rows0.
    rewrite in_map_iff. split.
    - intros [r [Hr Hin]]. apply filter_In in Hin as [Hin Hl]. apply in_map_iff in Hin as [p [<- Hp]].
      rewrite jr_path in Hr. apply pn_inj in Hr; [|apply all_good; exact Hp|exact Hq]. subst.
      rewrite jr_right in Hl. apply mark_eqb_eq. exact Hl.
    - intros E. exists (jr_of q). split; [apply jr_path|]. apply filter_In. split.
      + apply in_map. apply in_all. right. apply st_add in E. apply E.
      + rewrite jr_right, E. reflexivity.
  Qed.

  Lemma mem_nil_paths f : memstr [] (map jpath (filter f rows0)) = false.
  Proof.
    destruct (memstr [] (map jpath (filter f rows0))) eqn:E; [|reflexivity].
    apply memstr_in in E. apply in_map_iff in E as [r [Hr Hin]]. apply filter_In in Hin as [Hin _].
    apply in_map_iff in Hin as [p [<- _]]. rewrite jr_path in Hr. discriminate.
  Qed.

  (* --- the suffixing step ---------------------------------------------------------------------- *)

  Definition sfx1 (q : list str) : str :=
    match st q with MRem => sfx_minus | MAdd => sfx_plus | _ => [] end.
  Definition comp1 (q : list str) : str := last q [] ++ sfx1 q.
  Definition comps (q : list str) : list str := map comp1 (inits q).
  Definition mp (q : list str) : str := path_name slash (comps q).

  Lemma suffix_parts_abs : forall todo d,
    Forall good_name (d ++ todo) ->
    suffix_parts slash removed added ([] :: d) todo = map (fun q => comp1 (d ++ q)) (inits todo).
  Proof.
    induction todo as [|x todo IH]; intros d HF; [reflexivity|].
    cbn [suffix_parts inits map]. f_equal.
    - assert (Hg : good_path (d ++ [x])).
      { split; [destruct d; discriminate|]. apply Forall_app in HF as [Hd Hx].
        apply Forall_app. split; [exact Hd|]. inversion Hx; subst. constructor; [assumption|constructor]. }
      change (([] :: d) ++ [x]) with ([] :: (d ++ [x])).
      rewrite <- path_name_join by (destruct d; discriminate).
      rewrite mem_removed, mem_added by exact Hg.
      unfold comp1, sfx1. rewrite last_last.
      destruct (st (d ++ [x])); cbn [mark_eqb]; try reflexivity; rewrite app_nil_r; reflexivity.
    - change (([] :: d) ++ [x]) with ([] :: (d ++ [x])).
      rewrite IH by (rewrite <- app_assoc; exact HF).
      rewrite map_map. apply map_ext. intros q. rewrite <- app_assoc. reflexivity.
  Qed.

  Lemma comps_nonempty p : p <> [] -> comps p <> [].
  Proof. destruct p; [contradiction|]. intros _. cbn. discriminate. Qed.

  Lemma add_suffix_abs p : good_path p -> add_suffix slash removed added (path_name slash p) = mp p.
  Proof.
    intros Hp. unfold add_suffix, slash. rewrite split_path_name; [|apply Hp|apply good_path_cfree, Hp].
    cbn [suffix_parts app]. fold slash.
    change (join slash [[]]) with (@nil N).
    unfold removed at 1, added at 1. rewrite !mem_nil_paths.
    unfold mp. rewrite path_name_join by (apply comps_nonempty, Hp).
    f_equal. f_equal. apply (suffix_parts_abs p []). apply Hp.
  Qed.

  (* --- marked rows, attribute changes, only_diff ----------------------------------------------- *)

  Definition jr_marked (p : list str) : jrow := set_path (jr_of p) (mp p).

  Lemma marked_rows_abs :
    map (fun r => set_path r (add_suffix slash removed added (jpath r))) rows0 = map jr_marked all.
  Proof.
    unfold rows0. rewrite map_map. apply map_ext_in. intros p Hp.
    unfold jr_marked. rewrite jr_path, add_suffix_abs by (apply all_good; exact Hp). reflexivity.
  Qed.

  Lemma cond_simpl x y :
    (negb (is_none x) || negb (is_none y)) && negb (val_eqb x y) = negb (val_eqb x y).
  Proof. destruct x, y; reflexivity. Qed.

  (* abstract changes: original path instead of the marked path string *)
  Definition ch_of (a : str) (p : list str) : list (list str * (str * (val * val))) :=
    match lookup p N1, lookup p N2 with
    | Some a1, Some a2 =>
        if val_eqb (attr_val a a1) (attr_val a a2) then []
        else [(p, (a, (attr_val a a1, attr_val a a2)))]
    | _, _ => []
    end.
  Definition to_change (e : list str * (str * (val * val))) : change := (mp (fst e), snd e).

  Lemma nth_map_mid {A B} (f : A -> B) pre a post d :
    nth (length pre) (map f (pre ++ a :: post)) d = f a.
  Proof. rewrite map_app. rewrite app_nth2 by (rewrite map_length; lia). rewrite map_length, Nat.sub_diag. reflexivity. Qed.

  Lemma nth_nn i : nth i nn VNone = VNone.
  Proof.
    unfold nn. generalize al. intros l. revert i. induction l as [|x l IH]; intros [|i]; cbn; try reflexivity. apply IH.
  Qed.

  Lemma changes_for_abs pre a post :
    al = pre ++ a :: post ->
    changes_for (length pre) a (map jr_marked all) = map to_change (flat_map (ch_of a) all).
  Proof.
    intros Eal. unfold changes_for. generalize all. intros l.
    induction l as [|p l IH]; [reflexivity|].
    cbn [map flat_map]. rewrite map_app, <- IH. f_equal.
    unfold jr_marked, jr_of, ch_of, set_path.
    destruct (lookup p N1) as [a1|], (lookup p N2) as [a2|]; cbn [jx jy jind jpath is_both].
    - unfold vals. rewrite Eal, !nth_map_mid. rewrite cond_simpl, andb_true_r.
      change (get_attr a a1) with (attr_val a a1). change (get_attr a a2) with (attr_val a a2).
      destruct (val_eqb (attr_val a a1) (attr_val a a2)); reflexivity.
    - rewrite andb_false_r. reflexivity.
    - rewrite andb_false_r. reflexivity.
    - rewrite !nth_nn. reflexivity.
  Qed.

  Lemma changes_from_abs : forall post pre,
    al = pre ++ post ->
    changes_from (length pre) post (map jr_marked all)
    = map to_change (flat_map (fun a => flat_map (ch_of a) all) post).
  Proof.
    induction post as [|a post IH]; intros pre Eal; [reflexivity|].
    cbn [changes_from flat_map]. rewrite map_app.
    rewrite (changes_for_abs pre a post Eal). f_equal.
    replace (S (length pre)) with (length (pre ++ [a])) by (rewrite app_length; cbn; lia).
    apply IH. rewrite <- app_assoc. exact Eal.
  Qed.

  Definition chsA : list (list str * (str * (val * val))) := flat_map (fun a => flat_map (ch_of a) all) al.

  Lemma changes_abs : changes_from 0 al (map jr_marked all) = map to_change chsA.
  Proof. apply (changes_from_abs al []). reflexivity. Qed.

  Lemma diff_attrs_in a x y a1 a2 :
    In (a, (x, y)) (diff_attrs al a1 a2) <->
    In a al /\ x = attr_val a a1 /\ y = attr_val a a2 /\ val_eqb x y = false.
  Proof.
    unfold diff_attrs. rewrite in_flat_map. split.
    - intros [k [Hk Hin]]. destruct (val_eqb (attr_val k a1) (attr_val k a2)) eqn:E; [contradiction|].
      destruct Hin as [Hin|[]]. inversion Hin; subst. auto.
    - intros [Hin [-> [-> E]]]. exists a. split; [exact Hin|]. rewrite E. left. reflexivity.
  Qed.

  Lemma in_chsA p a x y :
    In (p, (a, (x, y))) chsA <->
    In p all /\ exists a1 a2, lookup p N1 = Some a1 /\ lookup p N2 = Some a2 /\ In (a, (x, y)) (diff_attrs al a1 a2).
  Proof.
    unfold chsA. rewrite in_flat_map. split.
    - intros [k [Hk Hin]]. apply in_flat_map in Hin as [p' [Hp' Hin]]. unfold ch_of in Hin.
      destruct (lookup p' N1) as [a1|] eqn:E1; [|contradiction].
      destruct (lookup p' N2) as [a2|] eqn:E2; [|contradiction].
      destruct (val_eqb (attr_val k a1) (attr_val k a2)) eqn:E; [contradiction|].
      destruct Hin as [Hin|[]]. inversion Hin; subst. split; [exact Hp'|].
      exists a1, a2. repeat split; try assumption. apply diff_attrs_in. auto.
    - intros [Hp [a1 [a2 [E1 [E2 Hin]]]]]. apply diff_attrs_in in Hin as [Hk [-> [-> E]]].
      exists a. split; [exact Hk|]. apply in_flat_map. exists p. split; [exact Hp|].
      unfold ch_of. rewrite E1, E2, E. left. reflexivity.
  Qed.

  Lemma chsA_changed e : In e chsA -> In (fst e) all /\ st (fst e) = MChg.
  Proof.
    destruct e as [p [a [x y]]]. intros H. apply in_chsA in H as [Hp [a1 [a2 [E1 [E2 Hin]]]]].
    split; [exact Hp|]. apply st_chg. exists a1, a2. repeat split; try assumption.
    intros E. rewrite E in Hin. contradiction.
  Qed.

  Lemma changed_in_chsA p : In p all -> st p = MChg -> exists kv, In (p, kv) chsA.
  Proof.
    intros Hp E. apply st_chg in E as [a1 [a2 [E1 [E2 Hd]]]].
    destruct (diff_attrs al a1 a2) as [|[a [x y]] l] eqn:E; [contradiction|].
    exists (a, (x, y)). apply in_chsA. split; [exact Hp|]. exists a1, a2. repeat split; try assumption.
    rewrite E. left. reflexivity.
  Qed.

  (* paths present in both trees are displayed unchanged by the suffixing step *)
  Lemma map_last_inits (p : list str) : map (fun q => last q []) (inits p) = p.
  Proof.
    induction p as [|x p IH]; [reflexivity|].
    cbn [inits map last]. f_equal. rewrite map_map. rewrite <- IH at 2.
    apply map_ext_in. intros q Hq. apply in_inits in Hq as [Hne _].
    destruct q; [contradiction|reflexivity].
  Qed.

  Lemma comps_both p : In p (map fst N1) -> In p (map fst N2) -> comps p = p.
  Proof.
    intros H1 H2. unfold comps. rewrite <- (map_last_inits p) at 2.
    apply map_ext_in. intros q Hq. destruct (both_init p q H1 H2 Hq) as [Hr Ha].
    unfold comp1, sfx1. destruct (st q); try contradiction; apply app_nil_r.
  Qed.

  Lemma st_both p : In p all -> st p = MSame \/ st p = MChg -> In p (map fst N1) /\ In p (map fst N2).
  Proof.
    intros Hp Hs. apply in_all in Hp.
    destruct (in_dec (list_eq_dec (list_eq_dec N.eq_dec)) p (map fst N1)) as [H1|H1];
    destruct (in_dec (list_eq_dec (list_eq_dec N.eq_dec)) p (map fst N2)) as [H2|H2].
    - split; assumption.
    - assert (E : st p = MRem) by (apply st_rem; split; assumption). destruct Hs as [Hs|Hs]; congruence.
    - assert (E : st p = MAdd) by (apply st_add; split; assumption). destruct Hs as [Hs|Hs]; congruence.
    - destruct Hp; contradiction.
  Qed.

  Lemma mp_both p : In p all -> st p = MSame \/ st p = MChg -> mp p = path_name slash p.
  Proof. intros Hp Hs. destruct (st_both p Hp Hs) as [H1 H2]. unfold mp. rewrite comps_both by assumption. reflexivity. Qed.

  Definition chpaths : list str := map fst (map to_change chsA).

  Lemma in_chpaths_changed p : In p all -> st p = MChg -> In (mp p) chpaths.
  Proof.
    intros Hp E. destruct (changed_in_chsA p Hp E) as [kv Hin].
    unfold chpaths. rewrite map_map. apply in_map_iff. exists (p, kv). split; [reflexivity|exact Hin].
  Qed.

  Lemma in_chpaths_inv s : In s chpaths -> exists p, In p all /\ st p = MChg /\ s = mp p.
  Proof.
    unfold chpaths. rewrite map_map. intros H. apply in_map_iff in H as [e [<- He]].
    destruct (chsA_changed e He) as [Hp Hs]. exists (fst e). auto.
  Qed.

  Lemma jr_both p :
    is_both (jind (jr_of p)) = negb (mark_eqb (st p) MRem) && negb (mark_eqb (st p) MAdd).
  Proof.
    unfold jr_of, status. destruct (lookup p N1) as [a1|], (lookup p N2) as [a2|]; try reflexivity.
    destruct (diff_attrs al a1 a2); reflexivity.
  Qed.

  Lemma keep_row_abs od p :
    In p all -> keep_row od chpaths (jr_marked p) = negb od || marked al N1 N2 p.
  Proof.
    intros Hp. unfold keep_row, jr_marked, set_path, marked. cbn [jind jpath]. rewrite jr_both.
    rewrite <- orb_assoc. f_equal.
    destruct (st p) eqn:E; cbn [mark_eqb negb andb orb]; try reflexivity.
    - (* MSame *) destruct (memstr (mp p) chpaths) eqn:M; [|reflexivity]. exfalso.
      apply memstr_in in M. apply in_chpaths_inv in M as [p' [Hp' [Hs' Em]]].
      rewrite (mp_both p Hp (or_introl E)), (mp_both p' Hp' (or_intror Hs')) in Em.
      apply pn_inj in Em; [|apply all_good; exact Hp|apply all_good; exact Hp']. subst. congruence.
    - (* MChg *) apply memstr_in. apply in_chpaths_changed; assumption.
  Qed.

  Definition keptM (od : bool) : list (list str) := filter (fun p => negb od || marked al N1 N2 p) all.

  Lemma kept_rows_abs od :
    map jpath (filter (keep_row od chpaths) (map jr_marked all)) = map mp (keptM od).
  Proof.
    unfold keptM. assert (G : forall l, incl l all ->
      map jpath (filter (keep_row od chpaths) (map jr_marked l))
      = map mp (filter (fun p => negb od || marked al N1 N2 p) l)).
    { induction l as [|p l IH]; intros Hincl; [reflexivity|].
      assert (IH' := IH (fun e He => Hincl e (or_intror He))).
      cbn [map filter]. rewrite keep_row_abs by (apply Hincl; left; reflexivity).
      destruct (negb od || marked al N1 N2 p); [|exact IH'].
      cbn [map]. rewrite IH'. reflexivity. }
    apply G. apply incl_refl.
  Qed.

  (* --- components of the marked paths ------------------------------------------------------------ *)

  Definition m1 (q : list str) : mark := match st q with MRem => MRem | MAdd => MAdd | _ => MSame end.

  Lemma comp1_mark q : comp1 q = last q [] ++ mark_suffix (m1 q).
  Proof. unfold comp1, sfx1, m1. destruct (st q); reflexivity. Qed.

  Lemma comp1_good q : good_path q -> good_name (comp1 q).
  Proof.
    intros [Hne HF]. rewrite comp1_mark. apply good_name_marked.
    rewrite Forall_forall in HF. apply HF. apply last_in. exact Hne.
  Qed.

  Lemma comps_good p : good_path p -> Forall good_name (comps p).
  Proof.
    intros Hp. unfold comps. apply Forall_forall. intros c Hc. apply in_map_iff in Hc as [q [<- Hq]].
    apply comp1_good. eapply good_path_init; eassumption.
  Qed.

  Lemma st_root : st [rt] <> MRem /\ st [rt] <> MAdd.
  Proof. split; intros E; [apply st_rem in E|apply st_add in E]; tauto. Qed.

  Lemma comps_hd p : In p all -> hd [] (comps p) = rt.
  Proof.
    intros Hp. assert (Hh : hd [] p = rt).
    { apply in_all in Hp as [Hp|Hp]; [apply Hhd1|apply Hhd2]; exact Hp. }
    destruct p as [|x r]; [destruct (all_good _ Hp) as [Hne _]; contradiction|].
    cbn [hd] in Hh. subst x. cbn [comps inits map hd]. unfold comp1, sfx1. cbn [last].
    destruct st_root as [H1 H2]. destruct (st [rt]); try contradiction; apply app_nil_r.
  Qed.

  (* --- add_path on the strings the model passes ----------------------------------------------- *)

  Lemma add_path_join nodes p :
    In p all ->
    add_path rt nodes (join slash (comps p))
    = Ret (fold_left add_id (map comps (inits p)) nodes, comps p).
  Proof.
    intros Hp. pose proof (all_good _ Hp) as Hg.
    pose proof (comps_good p Hg) as HF. pose proof (comps_nonempty p (proj1 Hg)) as Hne.
    unfold add_path.
    pose proof (join_first_char 47%N (comps p) Hne HF) as H1. fold slash in H1.
    destruct (join slash (comps p)) as [|c s] eqn:E; [contradiction|]. rewrite <- E.
    rewrite branch_of_join by assumption. rewrite comps_hd by exact Hp. rewrite str_eqb_refl.
    rewrite nonempty_prefixes_inits. unfold comps at 1. rewrite inits_comps. reflexivity.
  Qed.

  Lemma add_path_mp nodes p :
    In p all ->
    add_path rt nodes (mp p) = Ret (fold_left add_id (map comps (inits p)) nodes, comps p).
  Proof.
    intros Hp. pose proof (all_good _ Hp) as Hg.
    pose proof (comps_good p Hg) as HF. pose proof (comps_nonempty p (proj1 Hg)) as Hne.
    unfold add_path, mp. unfold path_name at 1. unfold slash at 1. cbn [app].
    change (47%N :: join slash (comps p)) with (path_name slash (comps p)).
    rewrite branch_of_path by assumption. rewrite comps_hd by exact Hp. rewrite str_eqb_refl.
    rewrite nonempty_prefixes_inits. unfold comps at 1. rewrite inits_comps. reflexivity.
  Qed.

  Definition grow (nodes : list (list str)) (L : list (list str)) : list (list str) :=
    fold_left (fun ns p => fold_left add_id (map comps (inits p)) ns) L nodes.

  Lemma add_paths_abs : forall L nodes,
    incl L all ->
    add_paths rt nodes (map (fun p => join slash (comps p)) L) = Ret (grow nodes L).
  Proof.
    induction L as [|p L IH]; intros nodes Hincl; [reflexivity|].
    cbn [map add_paths]. rewrite add_path_join by (apply Hincl; left; reflexivity).
    rewrite IH by (intros e He; apply Hincl; right; exact He). reflexivity.
  Qed.

  Lemma grow_in : forall L nodes x,
    In x (grow nodes L) <-> In x nodes \/ exists p, In p L /\ exists q, In q (inits p) /\ x = comps q.
  Proof.
    induction L as [|p L IH]; intros nodes x; unfold grow; cbn [fold_left].
    - split; [intros H; left; exact H|]. intros [H|[p [[] _]]]. exact H.
    - fold (grow (fold_left add_id (map comps (inits p)) nodes) L). rewrite IH, fold_add_in. split.
      + intros [[H|H]|[p' [Hp' H]]].
        * left. exact H.
        * right. exists p. split; [left; reflexivity|]. apply in_map_iff in H as [q [E Hq]]. exists q. auto.
        * right. exists p'. split; [right; exact Hp'|exact H].
      + intros [H|[p' [[<-|Hp'] [q [Hq E]]]]].
        * left. left. exact H.
        * left. right. subst. apply in_map. exact Hq.
        * right. exists p'. split; [exact Hp'|]. exists q. auto.
  Qed.

  Lemma grow_nodup : forall L nodes, NoDup nodes -> NoDup (grow nodes L).
  Proof.
    induction L as [|p L IH]; intros nodes H; unfold grow; cbn [fold_left]; [exact H|].
    apply IH. apply fold_add_nodup. exact H.
  Qed.

  Lemma rebuild_abs L :
    L <> [] -> incl L all -> rebuild (map mp L) = Ret (rt, grow [[rt]] L).
  Proof.
    intros Hne Hincl. unfold rebuild. rewrite map_map.
    assert (E : map (fun p => rstrip (lstrip (mp p) slash) slash) L = map (fun p => join slash (comps p)) L).
    { apply map_ext_in. intros p Hp. apply Hincl in Hp. pose proof (all_good _ Hp) as Hg.
      apply strip_path; [apply comps_nonempty, Hg|apply comps_good, Hg]. }
    rewrite E. clear E.
    destruct L as [|p0 L]; [contradiction|].
    assert (Hp0 : In p0 all) by (apply Hincl; left; reflexivity).
    pose proof (all_good _ Hp0) as Hg0.
    assert (Er : hd [] (split (hd [] (map (fun p => join slash (comps p)) (p0 :: L))) slash) = rt).
    { cbn [map hd]. unfold slash. rewrite split_join.
      - apply comps_hd. exact Hp0.
      - apply comps_nonempty, Hg0.
      - eapply Forall_impl; [|apply (comps_good p0 Hg0)]. intros a [_ Ha]. exact Ha. }
    rewrite Er. rewrite add_paths_abs by exact Hincl. reflexivity.
  Qed.

  (* --- attribute assignments and renaming ---------------------------------------------------- *)

  Lemma apply_changes_abs : forall L nodes st0,
    (forall e, In e L -> In (fst e) all /\ forall q, In q (inits (fst e)) -> In (comps q) nodes) ->
    apply_changes rt nodes st0 (map to_change L)
    = Ret (nodes, st0 ++ map (fun e => (comps (fst e), snd e)) L).
  Proof.
    induction L as [|e L IH]; intros nodes st0 H.
    - cbn. rewrite app_nil_r. reflexivity.
    - cbn [map apply_changes to_change]. destruct (H e (or_introl eq_refl)) as [Hp Hq].
      rewrite add_path_mp by exact Hp.
      rewrite fold_add_present by (intros x Hx; apply in_map_iff in Hx as [q [<- Hq']]; apply Hq; exact Hq').
      rewrite IH by (intros e' He'; apply H; right; exact He').
      rewrite <- app_assoc. reflexivity.
  Qed.

  Lemma last_part_mp p : In p all -> st p = MChg -> last_part slash (mp p) = last p [].
  Proof.
    intros Hp Hs. rewrite (mp_both p Hp (or_intror Hs)). pose proof (all_good _ Hp) as Hg.
    unfold last_part, slash. rewrite split_path_name; [|apply Hg|apply good_path_cfree, Hg].
    destruct p; [destruct Hg; contradiction|reflexivity].
  Qed.

  Definition ren_of (p : list str) : list str * str := (comps p, last p [] ++ sfx_tilde).

  Lemma apply_renames_abs : forall ks nodes rs,
    (forall k, In k ks -> exists p, In p all /\ st p = MChg /\ k = mp p /\
                                     forall q, In q (inits p) -> In (comps q) nodes) ->
    exists rs', apply_renames slash rt nodes rs ks = Ret (nodes, rs ++ rs') /\
      forall e, In e rs' <-> exists p, In p all /\ st p = MChg /\ In (mp p) ks /\ e = ren_of p.
  Proof.
    induction ks as [|k ks IH]; intros nodes rs H.
    - exists []. split; [cbn; rewrite app_nil_r; reflexivity|].
      intros e. split; [intros []|]. intros [p [_ [_ [[] _]]]].
    - destruct (H k (or_introl eq_refl)) as [p [Hp [Hs [Ek Hq]]]]. subst k.
      destruct (IH nodes (rs ++ [ren_of p]) (fun k Hk => H k (or_intror Hk))) as [rs' [E Hrs']].
      exists (ren_of p :: rs'). split.
      + cbn [apply_renames]. rewrite add_path_mp by exact Hp.
        rewrite fold_add_present by (intros x Hx; apply in_map_iff in Hx as [q [<- Hq']]; apply Hq; exact Hq').
        rewrite last_part_mp by assumption. change (comps p, last p [] ++ sfx_tilde) with (ren_of p).
        etransitivity; [exact E|]. rewrite <- app_assoc. reflexivity.
      + intros e. cbn [In]. rewrite Hrs'. split.
        * intros [<-|[p' [Hp' [Hs' [Hin E']]]]].
          -- exists p. repeat split; try assumption. left. reflexivity.
          -- exists p'. repeat split; try assumption. right. exact Hin.
        * intros [p' [Hp' [Hs' [[Em|Hin] E']]]].
          -- left. rewrite (mp_both p Hp (or_intror Hs)), (mp_both p' Hp' (or_intror Hs')) in Em.
             apply pn_inj in Em; [|apply all_good; exact Hp|apply all_good; exact Hp']. subst. reflexivity.
          -- right. exists p'. repeat split; assumption.
  Qed.

  Lemma final_name_acc : forall (rs : rstore) x acc,
    fold_left (fun acc e => if nid_eqb (fst e) x then snd e else acc) rs acc
    = match filter (fun e => nid_eqb (fst e) x) rs with
      | [] => acc
      | l => snd (last l ([], []))
      end.
  Proof.
    induction rs as [|e rs IH]; intros x acc; [reflexivity|].
    cbn [fold_left filter]. rewrite IH. destruct (nid_eqb (fst e) x) eqn:E.
    - destruct (filter (fun e0 => nid_eqb (fst e0) x) rs) eqn:F; reflexivity.
    - reflexivity.
  Qed.

  Lemma final_name_none (rs : rstore) x :
    (forall e, In e rs -> fst e <> x) -> final_name rs x = last x [].
  Proof.
    intros H. unfold final_name. rewrite final_name_acc.
    assert (F : filter (fun e => nid_eqb (fst e) x) rs = []).
    { destruct (filter (fun e => nid_eqb (fst e) x) rs) as [|e l] eqn:F; [reflexivity|]. exfalso.
      assert (Hin : In e (filter (fun e => nid_eqb (fst e) x) rs)) by (rewrite F; left; reflexivity).
      apply filter_In in Hin as [Hin Heq]. apply nid_eqb_eq in Heq. exact (H e Hin Heq). }
    rewrite F. reflexivity.
  Qed.

  Lemma final_name_some (rs : rstore) x v :
    (exists e, In e rs /\ fst e = x) -> (forall e, In e rs -> fst e = x -> snd e = v) ->
    final_name rs x = v.
  Proof.
    intros [e0 [Hin0 E0]] H. unfold final_name. rewrite final_name_acc.
    destruct (filter (fun e => nid_eqb (fst e) x) rs) as [|e l] eqn:F.
    - exfalso. assert (Hin : In e0 (filter (fun e => nid_eqb (fst e) x) rs)).
      { apply filter_In. split; [exact Hin0|]. apply nid_eqb_eq. exact E0. }
      rewrite F in Hin. contradiction.
    - assert (Hl : In (last (e :: l) ([], [])) (e :: l)).
      { destruct (exists_last (l:=e :: l) ltac:(discriminate)) as [l' [y Ey]]. rewrite Ey, last_last.
        apply in_or_app. right. left. reflexivity. }
      set (y := last (e :: l) ([], [])) in *.
      rewrite <- F in Hl. apply filter_In in Hl as [Hl1 Hl2]. apply nid_eqb_eq in Hl2. apply H; assumption.
  Qed.

  (* --- names that do not already end in a marker: the displayed components can be read back ------ *)

  Hypothesis Hlook : forall p, In p all -> Forall (fun n => marker_free n = true) p.

  Lemma init_marker_free p q : In p all -> In q (inits p) -> marker_free (last q []) = true.
  Proof.
    intros Hp Hq. apply in_inits in Hq as [Hne [r E]]. pose proof (Hlook p Hp) as HF.
    rewrite Forall_forall in HF. apply HF. subst p. apply in_or_app. left. apply last_in. exact Hne.
  Qed.

  Lemma comps_decode p : In p all -> map strip_marker (comps p) = p.
  Proof.
    intros Hp. unfold comps. rewrite map_map. rewrite <- (map_last_inits p) at 2.
    apply map_ext_in. intros q Hq. rewrite comp1_mark. apply strip_marker_app.
    eapply init_marker_free; eassumption.
  Qed.

  Lemma comps_inj p q : In p all -> In q all -> comps p = comps q -> p = q.
  Proof. intros Hp Hq E. rewrite <- (comps_decode p Hp), <- (comps_decode q Hq), E. reflexivity. Qed.

  Lemma shown_decode p : In p all -> map strip_marker (map (shown_name al N1 N2) (inits p)) = p.
  Proof.
    intros Hp. rewrite map_map. rewrite <- (map_last_inits p) at 2.
    apply map_ext_in. intros q Hq. unfold shown_name. apply strip_marker_app.
    eapply init_marker_free; eassumption.
  Qed.

  (* --- the final names -------------------------------------------------------------------------- *)

  Lemma final_name_comps (rs' : rstore) ks q :
    (forall e, In e rs' <-> exists p, In p all /\ st p = MChg /\ In (mp p) ks /\ e = ren_of p) ->
    (forall k, In k ks <-> In k chpaths) ->
    In q all -> final_name rs' (comps q) = shown_name al N1 N2 q.
  Proof.
    intros Hrs Hks Hq. unfold shown_name. destruct (st q) eqn:Es.
    - rewrite final_name_none.
      + unfold comps. rewrite comps_last by (apply all_good; exact Hq). unfold comp1, sfx1. rewrite Es. reflexivity.
      + intros e He E. apply Hrs in He as [p [Hp [Hs [_ ->]]]]. cbn [ren_of fst] in E.
        apply comps_inj in E; [|assumption|assumption]. subst. congruence.
    - rewrite final_name_none.
      + unfold comps. rewrite comps_last by (apply all_good; exact Hq). unfold comp1, sfx1. rewrite Es. reflexivity.
      + intros e He E. apply Hrs in He as [p [Hp [Hs [_ ->]]]]. cbn [ren_of fst] in E.
        apply comps_inj in E; [|assumption|assumption]. subst. congruence.
    - rewrite final_name_none.
      + unfold comps. rewrite comps_last by (apply all_good; exact Hq). unfold comp1, sfx1. rewrite Es. reflexivity.
      + intros e He E. apply Hrs in He as [p [Hp [Hs [_ ->]]]]. cbn [ren_of fst] in E.
        apply comps_inj in E; [|assumption|assumption]. subst. congruence.
    - apply final_name_some.
      + exists (ren_of q). split; [|reflexivity]. apply Hrs. exists q. repeat split; try assumption.
        apply Hks. apply in_chpaths_changed; assumption.
      + intros e He E. apply Hrs in He as [p [Hp [Hs [_ ->]]]]. cbn [ren_of fst snd] in *.
        apply comps_inj in E; [|assumption|assumption]. subst. reflexivity.
  Qed.

  Lemma final_path_comps (rs' : rstore) ks q :
    (forall e, In e rs' <-> exists p, In p all /\ st p = MChg /\ In (mp p) ks /\ e = ren_of p) ->
    (forall k, In k ks <-> In k chpaths) ->
    In q all -> final_path rs' (comps q) = shown_path slash al N1 N2 q.
  Proof.
    intros Hrs Hks Hq. unfold final_path, shown_path, path_name. f_equal. f_equal.
    rewrite nonempty_prefixes_inits. unfold comps at 1. rewrite inits_comps. rewrite map_map.
    apply map_ext_in. intros q' Hq'. apply (final_name_comps rs' ks q' Hrs Hks).
    eapply all_init_closed; eassumption.
  Qed.

  (* --- the attribute values --------------------------------------------------------------------- *)

  Lemma attrs_of_filter : forall (sto : astore) x acc,
    fold_left (fun acc e => if nid_eqb (fst e) x then set_kv (fst (snd e)) (snd (snd e)) acc else acc) sto acc
    = fold_left (fun acc kv => set_kv (fst kv) (snd kv) acc)
        (map snd (filter (fun e => nid_eqb (fst e) x) sto)) acc.
  Proof.
    induction sto as [|e sto IH]; intros x acc; [reflexivity|].
    cbn [fold_left filter]. destruct (nid_eqb (fst e) x); [cbn [map fold_left]|]; apply IH.
  Qed.

  Lemma set_kv_fresh k v (acc : Diff.oattrs) : ~ In k (map fst acc) -> set_kv k v acc = acc ++ [(k, v)].
  Proof.
    induction acc as [|[k' v'] acc IH]; intros H; [reflexivity|].
    cbn [set_kv]. destruct (str_eqb k k') eqn:E.
    - apply str_eqb_eq in E. subst. exfalso. apply H. left. reflexivity.
    - cbn [app]. rewrite IH; [reflexivity|]. intros Hin. apply H. right. exact Hin.
  Qed.

  Lemma fold_set_kv_fresh : forall (L acc : Diff.oattrs),
    NoDup (map fst acc ++ map fst L) ->
    fold_left (fun acc kv => set_kv (fst kv) (snd kv) acc) L acc = acc ++ L.
  Proof.
    induction L as [|[k v] L IH]; intros acc Hnd; [rewrite app_nil_r; reflexivity|].
    cbn [fold_left fst snd]. cbn [map fst] in Hnd.
    rewrite set_kv_fresh.
    - rewrite IH.
      + rewrite <- app_assoc. reflexivity.
      + rewrite map_app. cbn [map fst]. rewrite <- app_assoc. exact Hnd.
    - intros Hin. apply NoDup_remove_2 in Hnd. apply Hnd. apply in_or_app. left. exact Hin.
  Qed.

  Lemma filter_flat_map {A B} (P : B -> bool) (f : A -> list B) l :
    filter P (flat_map f l) = flat_map (fun a => filter P (f a)) l.
  Proof.
    induction l as [|a l IH]; [reflexivity|]. cbn [flat_map].
    rewrite <- IH. clear IH. induction (f a) as [|b t IHt]; [reflexivity|].
    cbn [app filter]. destruct (P b); [cbn [app]; f_equal|]; exact IHt.
  Qed.

  Lemma map_flat_map {A B C} (g : B -> C) (f : A -> list B) l :
    map g (flat_map f l) = flat_map (fun a => map g (f a)) l.
  Proof. induction l as [|a l IH]; [reflexivity|]. cbn [flat_map]. rewrite map_app, IH. reflexivity. Qed.

  Lemma filter_map_comm {A B} (P : B -> bool) (f : A -> B) l :
    filter P (map f l) = map f (filter (fun a => P (f a)) l).
  Proof.
    induction l as [|a l IH]; [reflexivity|]. cbn [map filter]. destruct (P (f a)); [cbn [map]; f_equal|]; exact IH.
  Qed.

  Lemma flat_map_nil {A B} (l : list A) : flat_map (fun _ : A => @nil B) l = [].
  Proof. induction l; [reflexivity|]. exact IHl. Qed.

  Lemma ch_of_fst a p e : In e (ch_of a p) -> fst e = p.
  Proof.
    unfold ch_of. destruct (lookup p N1), (lookup p N2); try contradiction.
    destruct (val_eqb _ _); [contradiction|]. intros [<-|[]]. reflexivity.
  Qed.

  Lemma filter_ch_of a q : forall l, NoDup l -> In q l ->
    filter (fun e => npath_eqb (fst e) q) (flat_map (ch_of a) l) = ch_of a q.
  Proof.
    induction l as [|p l IH]; intros Hnd Hin; [contradiction|].
    inversion Hnd as [|? ? Hp Hnd']; subst. cbn [flat_map]. rewrite filter_app.
    assert (Hself : forall p', filter (fun e => npath_eqb (fst e) q) (ch_of a p')
                               = if npath_eqb p' q then ch_of a p' else []).
    { intros p'. destruct (npath_eqb p' q) eqn:E.
      - apply npath_eqb_eq in E. subst p'.
        assert (G : forall L : list (list str * (str * (val * val))), (forall e, In e L -> fst e = q) -> filter (fun e => npath_eqb (fst e) q) L = L).
        { induction L as [|e L IHL]; intros HL; [reflexivity|]. cbn [filter].
          rewrite (HL e (or_introl eq_refl)), npath_eqb_refl. f_equal. apply IHL.
          intros e' He'. apply HL. right. exact He'. }
        apply G. intros e He. eapply ch_of_fst. exact He.
      - assert (G : forall L : list (list str * (str * (val * val))), (forall e, In e L -> fst e = p') -> filter (fun e => npath_eqb (fst e) q) L = []).
        { induction L as [|e L IHL]; intros HL; [reflexivity|]. cbn [filter].
          rewrite (HL e (or_introl eq_refl)), E. apply IHL. intros e' He'. apply HL. right. exact He'. }
        apply G. intros e He. eapply ch_of_fst. exact He. }
    rewrite Hself. destruct Hin as [->|Hin].
    - rewrite npath_eqb_refl.
      assert (G : filter (fun e => npath_eqb (fst e) q) (flat_map (ch_of a) l) = []).
      { clear IH Hnd' Hnd. revert Hp. induction l as [|p' l IHl]; intros Hp; [reflexivity|]. cbn [flat_map]. rewrite filter_app, Hself.
        rewrite npath_eqb_neq by (intros ->; apply Hp; left; reflexivity). cbn [app].
        apply IHl. intros H. apply Hp. right. exact H. }
      rewrite G. apply app_nil_r.
    - rewrite npath_eqb_neq by (intros ->; contradiction). cbn [app]. apply IH; assumption.
  Qed.

  Lemma diff_attrs_keys_gen a1 a2 : forall l,
    map fst (diff_attrs l a1 a2)
    = filter (fun a => negb (val_eqb (attr_val a a1) (attr_val a a2))) l.
  Proof.
    unfold diff_attrs. induction l as [|a l IH]; [reflexivity|].
    cbn [flat_map filter]. rewrite map_app, IH.
    destruct (val_eqb (attr_val a a1) (attr_val a a2)); reflexivity.
  Qed.

  Lemma diff_attrs_keys a1 a2 :
    map fst (diff_attrs al a1 a2)
    = filter (fun a => negb (val_eqb (attr_val a a1) (attr_val a a2))) al.
  Proof. apply diff_attrs_keys_gen. Qed.

  Lemma node_attrs_nodup q : NoDup (map fst (node_attrs al N1 N2 q)).
  Proof.
    unfold node_attrs. destruct (lookup q N1) as [a1|]; [|constructor].
    destruct (lookup q N2) as [a2|]; [|constructor].
    rewrite diff_attrs_keys. apply NoDup_filter. exact Hal.
  Qed.

  Definition storeA : astore := map (fun e => (comps (fst e), snd e)) chsA.

  Lemma attrs_of_comps q : In q all -> attrs_of storeA (comps q) = node_attrs al N1 N2 q.
  Proof.
    intros Hq. unfold attrs_of. rewrite attrs_of_filter.
    assert (E : map snd (filter (fun e => nid_eqb (fst e) (comps q)) storeA) = node_attrs al N1 N2 q).
    { unfold storeA. rewrite filter_map_comm, map_map. cbn [fst snd].
      rewrite (filter_ext_in (fun a => nid_eqb (comps (fst a)) (comps q)) (fun e => npath_eqb (fst e) q)).
      2:{ intros e He. destruct (chsA_changed e He) as [Hp _].
          destruct (npath_eqb (fst e) q) eqn:E.
          - apply npath_eqb_eq in E. rewrite E. apply nid_eqb_refl.
          - apply nid_eqb_neq. intros Ec. apply comps_inj in Ec; [|assumption|assumption].
            rewrite Ec, npath_eqb_refl in E. discriminate. }
      unfold chsA. rewrite filter_flat_map.
      rewrite (flat_map_ext (fun a => filter (fun e => npath_eqb (fst e) q) (flat_map (ch_of a) all))
                            (fun a => ch_of a q))
        by (intros a; apply filter_ch_of; [apply all_nodup|exact Hq]).
      rewrite map_flat_map. unfold node_attrs, ch_of.
      destruct (lookup q N1) as [a1|]; [|apply flat_map_nil].
      destruct (lookup q N2) as [a2|]; [|apply flat_map_nil].
      unfold diff_attrs. apply flat_map_ext. intros a.
      destruct (val_eqb (attr_val a a1) (attr_val a a2)); reflexivity. }
    rewrite E. rewrite fold_set_kv_fresh; [reflexivity|]. cbn [map app]. apply node_attrs_nodup.
  Qed.

  (* --- which nodes the rebuilt tree has ------------------------------------------------------------ *)

  Lemma is_prefix_iff (q p : list str) : is_prefix q p = true <-> exists r, p = q ++ r.
  Proof.
    revert p. induction q as [|x q IH]; intros p; cbn [is_prefix].
    - split; [intros _; exists p; reflexivity|reflexivity].
    - destruct p as [|y p].
      + split; [discriminate|]. intros [r E]. discriminate.
      + rewrite andb_true_iff, str_eqb_eq, IH. split.
        * intros [-> [r ->]]. exists r. reflexivity.
        * intros [r E]. inversion E; subst. split; [reflexivity|]. exists r. reflexivity.
  Qed.

  Lemma comps_root : comps [rt] = [rt].
  Proof.
    cbn [comps inits map]. unfold comp1, sfx1. cbn [last]. destruct st_root as [H1 H2].
    destruct (st [rt]); try contradiction; rewrite app_nil_r; reflexivity.
  Qed.

  Lemma keptM_in od p : In p (keptM od) <-> In p all /\ (od = false \/ marked al N1 N2 p = true).
  Proof.
    unfold keptM. rewrite filter_In. split; intros [Hp H]; (split; [exact Hp|]).
    - destruct od; [right; exact H|left; reflexivity].
    - destruct H as [->|H]; [reflexivity|]. rewrite H. apply orb_true_r.
  Qed.

  Lemma nodes_closure od :
    keptM od <> [] ->
    forall x, In x (grow [[rt]] (keptM od)) <->
              exists q, In q (filter (kept al N1 N2 od) all) /\ x = comps q.
  Proof.
    intros Hne x. rewrite grow_in. split.
    - intros [[<-|[]]|[p [Hp [q [Hq ->]]]]].
      + exists [rt]. split; [|symmetry; apply comps_root]. apply filter_In. split; [apply in_all; left; exact Hrt1|].
        unfold kept. destruct od; [|reflexivity]. cbn [negb orb].
        destruct (keptM true) as [|p K] eqn:EK; [contradiction|].
        assert (Hp : In p (keptM true)) by (rewrite EK; left; reflexivity).
        apply keptM_in in Hp as [Hp [Hf|Hm]]; [discriminate|].
        apply existsb_exists. exists p. split; [exact Hp|]. rewrite Hm, andb_true_r.
        apply is_prefix_iff. pose proof (comps_hd p Hp) as Hh.
        assert (Hh' : hd [] p = rt) by (apply in_all in Hp as [Hp|Hp]; [apply Hhd1|apply Hhd2]; exact Hp).
        destruct p as [|y r]; [destruct (all_good _ Hp); contradiction|]. cbn in Hh'. subst y.
        exists r. reflexivity.
      + apply keptM_in in Hp as [Hp Hk]. exists q. split; [|reflexivity]. apply filter_In. split.
        * eapply all_init_closed; eassumption.
        * unfold kept. destruct Hk as [->|Hm]; [reflexivity|]. apply orb_true_iff. right.
          apply existsb_exists. exists p. split; [exact Hp|]. rewrite Hm, andb_true_r.
          apply is_prefix_iff. apply in_inits in Hq as [_ [r E]]. exists r. exact E.
    - intros [q [Hq ->]]. apply filter_In in Hq as [Hq Hk]. right. unfold kept in Hk.
      apply orb_true_iff in Hk as [Hk|Hk].
      + exists q. split; [apply keptM_in; split; [exact Hq|left; destruct od; [discriminate|reflexivity]]|].
        exists q. split; [apply in_inits_self; apply all_good; exact Hq|reflexivity].
      + apply existsb_exists in Hk as [p [Hp Hk]]. apply andb_true_iff in Hk as [Hpre Hm].
        exists p. split; [apply keptM_in; split; [exact Hp|right; exact Hm]|].
        exists q. split; [|reflexivity]. apply in_inits. split; [apply all_good; exact Hq|].
        apply is_prefix_iff. exact Hpre.
  Qed.

  Lemma kept_empty od : keptM od = [] -> filter (kept al N1 N2 od) all = [].
  Proof.
    intros E. destruct (filter (kept al N1 N2 od) all) as [|q l] eqn:F; [reflexivity|]. exfalso.
    assert (Hq : In q (filter (kept al N1 N2 od) all)) by (rewrite F; left; reflexivity).
    apply filter_In in Hq as [Hq Hk]. unfold kept in Hk. apply orb_true_iff in Hk as [Hk|Hk].
    - assert (H : In q (keptM od)) by (apply keptM_in; split; [exact Hq|left; destruct od; [discriminate|reflexivity]]).
      rewrite E in H. contradiction.
    - apply existsb_exists in Hk as [p [Hp Hk]]. apply andb_true_iff in Hk as [_ Hm].
      assert (H : In p (keptM od)) by (apply keptM_in; split; [exact Hp|right; exact Hm]).
      rewrite E in H. contradiction.
  Qed.

  (* --- the model on the marked table meets the specification -------------------------------------- *)

  Theorem diff_of_rows_spec od :
    exists L, diff_of_rows slash (map jr_marked all) od al
              = Ret (match L with [] => None | _ => Some L end)
              /\ Permutation L (expected slash al N1 N2 od).
  Proof.
    unfold diff_of_rows. rewrite changes_abs. fold chpaths. rewrite kept_rows_abs.
    destruct (keptM od) as [|p0 K0] eqn:EK.
    - exists []. split; [reflexivity|]. unfold expected. rewrite (kept_empty od EK). constructor.
    - assert (Hne : keptM od <> []) by (rewrite EK; discriminate).
      rewrite <- EK. destruct (map mp (keptM od)) as [|s0 ss] eqn:EM.
      { exfalso. apply map_eq_nil in EM. contradiction. }
      rewrite <- EM. clear s0 ss EM.
      assert (Hincl : incl (keptM od) all) by (intros p Hp; apply keptM_in in Hp; apply Hp).
      rewrite (rebuild_abs (keptM od) Hne Hincl).
      set (nodes := grow [[rt]] (keptM od)).
      assert (Hnodes : forall p, In p all -> st p = MChg -> forall q, In q (inits p) -> In (comps q) nodes).
      { intros p Hp Hs q Hq. apply grow_in. right. exists p. split.
        - apply keptM_in. split; [exact Hp|right]. unfold marked. rewrite Hs. reflexivity.
        - exists q. split; [exact Hq|reflexivity]. }
      rewrite (apply_changes_abs chsA nodes []).
      2:{ intros e He. destruct (chsA_changed e He) as [Hp Hs]. split; [exact Hp|]. apply Hnodes; assumption. }
      cbn [app].
      destruct (apply_renames_abs (sort_desc chpaths) nodes []) as [rs' [Er Hrs]].
      { intros k Hk. apply (proj1 (sort_desc_in _ _)) in Hk. apply in_chpaths_inv in Hk as [p [Hp [Hs ->]]].
        exists p. repeat split; try assumption. apply Hnodes; assumption. }
      rewrite Er. cbn [app].
      exists (map (fun q => (final_path rs' q, attrs_of (map (fun e => (comps (fst e), snd e)) chsA) q)) nodes).
      assert (Hnn : In [rt] nodes) by (apply grow_in; left; left; reflexivity).
      split.
      { destruct nodes as [|n0 ns]; [contradiction|]. reflexivity. }
      fold storeA. unfold expected.
      set (C := filter (kept al N1 N2 od) all).
      assert (HP : Permutation nodes (map comps C)).
      { apply NoDup_Permutation.
        - apply grow_nodup. constructor; [intros []|constructor].
        - apply NoDup_map_inj_in.
          + intros p q Hp Hq E. apply filter_In in Hp as [Hp _]. apply filter_In in Hq as [Hq _].
            apply comps_inj; assumption.
          + apply NoDup_filter. apply all_nodup.
        - intros x. unfold nodes. rewrite (nodes_closure od Hne). rewrite in_map_iff.
          split; intros [q [H1 H2]]; exists q; split; auto. }
      apply (Permutation_map (fun q => (final_path rs' q, attrs_of storeA q))) in HP.
      rewrite map_map in HP. eapply Permutation_trans; [exact HP|].
      apply Permutation_refl'. apply map_ext_in. intros q Hq. apply filter_In in Hq as [Hq _].
      rewrite (final_path_comps rs' (sort_desc chpaths) q Hrs (fun k => sort_desc_in chpaths k) Hq).
      rewrite attrs_of_comps by exact Hq. reflexivity.
  Qed.

  (* --- reading the expected nodes back -------------------------------------------------------------- *)

  Lemma shown_good q : In q all -> good_name (shown_name al N1 N2 q).
  Proof.
    intros Hq. unfold shown_name. apply good_name_marked. destruct (all_good _ Hq) as [Hne HF].
    rewrite Forall_forall in HF. apply HF. apply last_in. exact Hne.
  Qed.

  Lemma read_path_shown p :
    In p all ->
    read_path slash (shown_path slash al N1 N2 p) = map (fun q => (last q [], st q)) (inits p).
  Proof.
    intros Hp. unfold read_path, shown_path. fold (path_name slash (map (shown_name al N1 N2) (inits p))).
    rewrite split_path_slash.
    - cbn [tl]. rewrite map_map. apply map_ext_in. intros q Hq. unfold shown_name.
      rewrite strip_marker_app, marker_of_app by (eapply init_marker_free; eassumption). reflexivity.
    - destruct p; [destruct (all_good _ Hp); contradiction|discriminate].
    - apply Forall_forall. intros c Hc. apply in_map_iff in Hc as [q [<- Hq]].
      apply (shown_good q). eapply all_init_closed; eassumption.
  Qed.

  Lemma read_names_shown p : In p all -> read_names slash (shown_path slash al N1 N2 p) = p.
  Proof.
    intros Hp. unfold read_names. rewrite read_path_shown by exact Hp. rewrite map_map. cbn [fst].
    apply map_last_inits.
  Qed.

  Lemma read_mark_shown p : In p all -> read_mark slash (shown_path slash al N1 N2 p) = st p.
  Proof.
    intros Hp. unfold read_mark. rewrite read_path_shown by exact Hp. rewrite map_map. cbn [snd].
    apply comps_last. apply all_good. exact Hp.
  Qed.

  Lemma expected_in od s at_ :
    In (s, at_) (expected slash al N1 N2 od) <->
    exists p, In p all /\ kept al N1 N2 od p = true /\ s = shown_path slash al N1 N2 p /\ at_ = node_attrs al N1 N2 p.
  Proof.
    unfold expected. rewrite in_map_iff. split.
    - intros [p [E Hp]]. apply filter_In in Hp as [Hp Hk]. inversion E; subst. exists p. auto.
    - intros [p [Hp [Hk [-> ->]]]]. exists p. split; [reflexivity|]. apply filter_In. auto.
  Qed.

  Lemma expected_names_nodup od : NoDup (map (fun n => read_names slash (fst n)) (expected slash al N1 N2 od)).
  Proof.
    unfold expected. rewrite map_map. cbn [fst].
    rewrite (map_ext_in _ (fun p => p)).
    - rewrite map_id. apply NoDup_filter. apply all_nodup.
    - intros p Hp. apply filter_In in Hp as [Hp _]. apply read_names_shown. exact Hp.
  Qed.

  Lemma is_prefix_refl (p : list str) : is_prefix p p = true.
  Proof. apply is_prefix_iff. exists []. rewrite app_nil_r. reflexivity. Qed.

  Lemma kept_marked od p : In p all -> st p <> MSame -> kept al N1 N2 od p = true.
  Proof.
    intros Hp Hs. unfold kept. apply orb_true_iff. right. apply existsb_exists. exists p. split; [exact Hp|].
    rewrite is_prefix_refl. unfold marked. destruct (st p); [contradiction|reflexivity..].
  Qed.

  Lemma kept_only_diff p :
    kept al N1 N2 true p = true <-> exists q r, In q all /\ st q <> MSame /\ q = p ++ r.
  Proof.
    unfold kept. cbn [negb orb]. rewrite existsb_exists. split.
    - intros [q [Hq H]]. apply andb_true_iff in H as [Hpre Hm]. apply is_prefix_iff in Hpre as [r E].
      exists q, r. repeat split; try assumption. intros Es. unfold marked in Hm. rewrite Es in Hm. discriminate.
    - intros [q [r [Hq [Hs E]]]]. exists q. split; [exact Hq|]. apply andb_true_iff. split.
      + apply is_prefix_iff. exists r. exact E.
      + unfold marked. destruct (st q); [contradiction|reflexivity..].
  Qed.

  Lemma st_same_iff p :
    In p all ->
    (st p = MSame <->
     In p (map fst N1) /\ In p (map fst N2) /\
     forall a1 a2, In (p, a1) N1 -> In (p, a2) N2 -> diff_attrs al a1 a2 = []).
  Proof.
    intros Hp. split.
    - intros Es. destruct (st_both p Hp (or_introl Es)) as [H1 H2]. repeat split; try assumption.
      intros a1 a2 I1 I2. apply (lookup_nodup p a1 N1 HND1) in I1. apply (lookup_nodup p a2 N2 HND2) in I2.
      unfold status in Es. rewrite I1, I2 in Es. destruct (diff_attrs al a1 a2); [reflexivity|discriminate].
    - intros [H1 [H2 Hd]]. apply lookup_some_iff in H1 as [a1 E1]. apply lookup_some_iff in H2 as [a2 E2].
      unfold status. rewrite E1, E2. rewrite (Hd a1 a2); [reflexivity|apply lookup_some_in; exact E1|apply lookup_some_in; exact E2].
  Qed.

  Lemma st_chg_iff p :
    st p = MChg <-> exists a1 a2, In (p, a1) N1 /\ In (p, a2) N2 /\ diff_attrs al a1 a2 <> [].
  Proof.
    rewrite st_chg. split; intros [a1 [a2 [H1 [H2 Hd]]]]; exists a1, a2; repeat split; try assumption.
    - apply lookup_some_in. exact H1.
    - apply lookup_some_in. exact H2.
    - apply lookup_nodup; assumption.
    - apply lookup_nodup; assumption.
  Qed.

  Lemma node_attrs_chg p a1 a2 :
    In (p, a1) N1 -> In (p, a2) N2 -> node_attrs al N1 N2 p = diff_attrs al a1 a2.
  Proof.
    intros H1 H2. unfold node_attrs. rewrite (lookup_nodup p a1 N1 HND1 H1), (lookup_nodup p a2 N2 HND2 H2). reflexivity.
  Qed.

  Lemma node_attrs_unmarked p : st p <> MChg -> node_attrs al N1 N2 p = [].
  Proof.
    unfold status, node_attrs. destruct (lookup p N1) as [a1|]; [|reflexivity].
    destruct (lookup p N2) as [a2|]; [|reflexivity].
    destruct (diff_attrs al a1 a2); [reflexivity|]. intros H. exfalso. apply H. reflexivity.
  Qed.
End Main.

(* ================================================================================================ *)
(* 5. from trees to node lists: the guards of the property                                            *)

Lemma name_ok_good n : name_ok slash n = true -> good_name n.
Proof.
  unfold name_ok. intros H. apply andb_true_iff in H as [H H3]. apply andb_true_iff in H as [H1 H2].
  split.
  - destruct n; [discriminate|discriminate].
  - apply negb_true_iff in H3. apply cfree_contains. exact H3.
Qed.

Lemma paths_good t p :
  forallb (name_ok slash) (all_names t) = true -> In p (map fst (nodes_of t)) -> good_path p.
Proof.
  intros Hall Hp. split.
  - destruct (nodes_from_form t [] p Hp) as [r ->]. discriminate.
  - apply Forall_forall. intros x Hx. apply name_ok_good.
    rewrite forallb_forall in Hall. apply Hall. eapply nodes_of_names; eassumption.
Qed.

Lemma paths_marker_free t p :
  forallb marker_free (all_names t) = true -> In p (map fst (nodes_of t)) ->
  Forall (fun n => marker_free n = true) p.
Proof.
  intros Hall Hp. apply Forall_forall. intros x Hx.
  rewrite forallb_forall in Hall. apply Hall. eapply nodes_of_names; eassumption.
Qed.

Section Trees.
  Variables (t1 t2 : tree) (al : list str).
  Hypothesis Hdom : domain_C15 slash t1 t2 al = true.

  Let N1 := nodes_of t1.
  Let N2 := nodes_of t2.
  Let rt := tname t1.

  Lemma dom_parts :
    str_eqb (tname t1) (tname t2) = true /\
    forallb (name_ok slash) (all_names t1) = true /\ forallb (name_ok slash) (all_names t2) = true /\
    siblings_distinct t1 = true /\ siblings_distinct t2 = true /\ nodup_str al = true.
  Proof.
    unfold domain_C15 in Hdom. repeat (apply andb_true_iff in Hdom as [Hdom ?]). tauto.
  Qed.

  Lemma T_HND1 : NoDup (map fst N1). Proof. apply nodes_of_nodup. apply dom_parts. Qed.
  Lemma T_HND2 : NoDup (map fst N2). Proof. apply nodes_of_nodup. apply dom_parts. Qed.
  Lemma T_good1 : forall p, In p (map fst N1) -> good_path p.
  Proof. intros p. apply paths_good. apply dom_parts. Qed.
  Lemma T_good2 : forall p, In p (map fst N2) -> good_path p.
  Proof. intros p. apply paths_good. apply dom_parts. Qed.
  Lemma T_pc1 : forall q x, q <> [] -> In (q ++ [x]) (map fst N1) -> In q (map fst N1).
  Proof. intros q x. apply nodes_of_prefix_closed. Qed.
  Lemma T_pc2 : forall q x, q <> [] -> In (q ++ [x]) (map fst N2) -> In q (map fst N2).
  Proof. intros q x. apply nodes_of_prefix_closed. Qed.
  Lemma T_rt1 : In [rt] (map fst N1). Proof. apply nodes_of_root. Qed.
  Lemma T_rt2 : In [rt] (map fst N2).
  Proof. unfold rt. destruct dom_parts as [E _]. apply str_eqb_eq in E. rewrite E. apply nodes_of_root. Qed.
  Lemma T_hd1 : forall p, In p (map fst N1) -> hd [] p = rt. Proof. intros p. apply nodes_of_hd. Qed.
  Lemma T_hd2 : forall p, In p (map fst N2) -> hd [] p = rt.
  Proof. intros p Hp. unfold rt. destruct dom_parts as [E _]. apply str_eqb_eq in E. rewrite E. apply nodes_of_hd. exact Hp. Qed.
  Lemma T_al : NoDup al. Proof. apply nodup_str_NoDup. apply dom_parts. Qed.

  Lemma marked_rows_trees :
    marked_rows slash al t1 t2 = map (jr_marked al N1 N2) (all_paths N1 N2).
  Proof.
    unfold marked_rows. rewrite !table_nodes. fold N1 N2.
    change (map (fun _ : str => VNone) al) with (nn al).
    rewrite (merge_abs al N1 N2 T_HND1 T_HND2 T_good1 T_good2).
    apply (marked_rows_abs al N1 N2 T_good1 T_good2).
  Qed.

  Hypothesis Hlook : lookalike_free t1 t2 = true.

  Lemma T_look : forall p, In p (all_paths N1 N2) -> Forall (fun n => marker_free n = true) p.
  Proof.
    intros p Hp. unfold lookalike_free in Hlook. apply andb_true_iff in Hlook as [L1 L2].
    apply in_all in Hp as [Hp|Hp]; [apply (paths_marker_free t1)|apply (paths_marker_free t2)]; assumption.
  Qed.

  (* the model's answer is, up to the order of the nodes, the answer the specification describes *)
  Theorem get_tree_diff_spec od :
    exists L, get_tree_diff slash t1 t2 od al = Ret (match L with [] => None | _ => Some L end)
              /\ Permutation L (expected slash al N1 N2 od).
  Proof.
    unfold get_tree_diff. rewrite marked_rows_trees.
    apply (diff_of_rows_spec al N1 N2 rt T_HND1 T_HND2 T_good1 T_good2 T_pc1 T_pc2 T_rt1 T_rt2 T_hd1 T_hd2 T_al T_look).
  Qed.
End Trees.

(* ================================================================================================ *)
(* 6. the clauses of the property, stated on the returned path strings                                *)

Lemma val_eqb_refl v : val_eqb v v = true.
Proof.
  destruct v; cbn; try reflexivity.
  - apply Z.eqb_refl.
  - apply str_eqb_refl.
  - apply eqb_reflx.
  - apply Z.eqb_refl.
Qed.

Lemma diff_attrs_same al a : diff_attrs al a a = [].
Proof.
  unfold diff_attrs. induction al as [|k l IH]; [reflexivity|].
  cbn [flat_map]. rewrite val_eqb_refl. exact IH.
Qed.

Section Clauses.
  Variables (t1 t2 : tree) (al : list str).
  Hypothesis Hdom : domain_C15 slash t1 t2 al = true.
  Hypothesis Hlook : lookalike_free t1 t2 = true.

  Notation N1 := (nodes_of t1).
  Notation N2 := (nodes_of t2).
  Notation P1 := (map fst (nodes_of t1)).
  Notation P2 := (map fst (nodes_of t2)).
  Notation all := (all_paths (nodes_of t1) (nodes_of t2)).
  Notation st := (status al (nodes_of t1) (nodes_of t2)).

  Ltac facts :=
    pose proof (T_HND1 t1 t2 al Hdom) as F_nd1; pose proof (T_HND2 t1 t2 al Hdom) as F_nd2;
    pose proof (T_good1 t1 t2 al Hdom) as F_g1; pose proof (T_good2 t1 t2 al Hdom) as F_g2;
    pose proof (T_pc1 t1) as F_pc1; pose proof (T_pc2 t2) as F_pc2;
    pose proof (T_look t1 t2 Hlook) as F_look; pose proof (T_al t1 t2 al Hdom) as F_al.

  Lemma in_all_iff p : In p all <-> In p P1 \/ In p P2.
  Proof. apply in_all. Qed.

  Section Output.
    Variables (od : bool) (L : list Diff.onode).
    Hypothesis Hout : get_tree_diff slash t1 t2 od al = Ret (Some L).

    Lemma out_perm : Permutation L (expected slash al N1 N2 od).
    Proof.
      destruct (get_tree_diff_spec t1 t2 al Hdom Hlook od) as [L' [E HP]]. rewrite Hout in E.
      destruct L' as [|x l]; [discriminate|]. inversion E; subst. exact HP.
    Qed.

    Lemma out_in s at_ :
      In (s, at_) L <->
      exists p, In p all /\ kept al N1 N2 od p = true /\
                s = shown_path slash al N1 N2 p /\ at_ = node_attrs al N1 N2 p.
    Proof.
      rewrite <- expected_in. split; apply Permutation_in; [|apply Permutation_sym]; apply out_perm.
    Qed.

    Lemma out_of_path p :
      In p all -> kept al N1 N2 od p = true ->
      exists s at_, In (s, at_) L /\ read_names slash s = p /\ read_mark slash s = st p
                    /\ at_ = node_attrs al N1 N2 p.
    Proof.
      intros Hp Hk. facts. exists (shown_path slash al N1 N2 p), (node_attrs al N1 N2 p). split.
      - apply out_in. exists p. auto.
      - split; [eapply read_names_shown; eassumption|]. split; [eapply read_mark_shown; eassumption|reflexivity].
    Qed.

    Lemma out_to_path s at_ :
      In (s, at_) L ->
      In (read_names slash s) all /\ kept al N1 N2 od (read_names slash s) = true /\
      read_mark slash s = st (read_names slash s) /\
      read_path slash s = map (fun q => (last q [], st q)) (inits (read_names slash s)) /\
      at_ = node_attrs al N1 N2 (read_names slash s).
    Proof.
      intros Hin. facts. apply out_in in Hin as [p [Hp [Hk [-> ->]]]].
      assert (En : read_names slash (shown_path slash al N1 N2 p) = p) by (eapply read_names_shown; eassumption).
      rewrite En. repeat split; try assumption.
      - eapply read_mark_shown; eassumption.
      - eapply read_path_shown; eassumption.
    Qed.

    (* (-) marks exactly the paths of the first tree that are not paths of the second *)
    Theorem removed_exact p :
      (In p P1 /\ ~ In p P2) <->
      exists s at_, In (s, at_) L /\ read_names slash s = p /\ read_mark slash s = MRem.
    Proof.
      split.
      - intros H. assert (Es : st p = MRem) by (apply st_rem; exact H).
        destruct (out_of_path p) as [s [at_ [Hin [En [Em _]]]]].
        + apply in_all_iff. left. apply H.
        + apply kept_marked; [apply in_all_iff; left; apply H|rewrite Es; discriminate].
        + exists s, at_. rewrite Em. auto.
      - intros [s [at_ [Hin [En Em]]]]. apply out_to_path in Hin as [_ [_ [E _]]].
        rewrite En, Em in E. symmetry in E. apply st_rem in E. exact E.
    Qed.

    (* (+) marks exactly the paths of the second tree that are not paths of the first *)
    Theorem added_exact p :
      (~ In p P1 /\ In p P2) <->
      exists s at_, In (s, at_) L /\ read_names slash s = p /\ read_mark slash s = MAdd.
    Proof.
      split.
      - intros H. assert (Es : st p = MAdd) by (apply st_add; exact H).
        destruct (out_of_path p) as [s [at_ [Hin [En [Em _]]]]].
        + apply in_all_iff. right. apply H.
        + apply kept_marked; [apply in_all_iff; right; apply H|rewrite Es; discriminate].
        + exists s, at_. rewrite Em. auto.
      - intros [s [at_ [Hin [En Em]]]]. apply out_to_path in Hin as [_ [_ [E _]]].
        rewrite En, Em in E. symmetry in E. apply st_add in E. exact E.
    Qed.

    (* (~) marks exactly the common paths on which a listed attribute differs *)
    Theorem changed_exact p :
      (exists a1 a2, In (p, a1) N1 /\ In (p, a2) N2 /\ diff_attrs al a1 a2 <> []) <->
      exists s at_, In (s, at_) L /\ read_names slash s = p /\ read_mark slash s = MChg.
    Proof.
      facts. split.
      - intros H. assert (Es : st p = MChg) by (eapply st_chg_iff; eassumption).
        destruct H as [a1 [a2 [I1 _]]].
        assert (Hp : In p all) by (apply in_all_iff; left; apply (in_map fst) in I1; exact I1).
        destruct (out_of_path p Hp) as [s [at_ [Hin [En [Em _]]]]].
        + apply kept_marked; [exact Hp|rewrite Es; discriminate].
        + exists s, at_. rewrite Em. auto.
      - intros [s [at_ [Hin [En Em]]]]. apply out_to_path in Hin as [_ [_ [E _]]].
        rewrite En, Em in E. symmetry in E. eapply st_chg_iff in E; eassumption.
    Qed.

    (* ... and such a node carries exactly the listed attributes that differ, with both values *)
    Theorem changed_values s at_ :
      In (s, at_) L -> read_mark slash s = MChg ->
      exists a1 a2, In (read_names slash s, a1) N1 /\ In (read_names slash s, a2) N2 /\
                    at_ = diff_attrs al a1 a2.
    Proof.
      intros Hin Em. facts. apply out_to_path in Hin as [_ [_ [E [_ ->]]]]. rewrite Em in E. symmetry in E.
      pose proof E as E'. eapply st_chg_iff in E' as [a1 [a2 [I1 [I2 _]]]]; try eassumption.
      exists a1, a2. repeat split; try assumption. eapply node_attrs_chg; eassumption.
    Qed.

    (* every returned node is a path of one of the trees; every component of its displayed path
       carries exactly the mark of the node it denotes (so nothing else is renamed); nodes that are
       not marked (~) carry no attribute *)
    Theorem others_untouched s at_ :
      In (s, at_) L ->
      (In (read_names slash s) P1 \/ In (read_names slash s) P2) /\
      read_path slash s = map (fun q => (last q [], st q)) (inits (read_names slash s)) /\
      (read_mark slash s <> MChg -> at_ = []).
    Proof.
      intros Hin. apply out_to_path in Hin as [Hp [_ [Em [Er ->]]]].
      split; [apply in_all_iff; exact Hp|]. split; [exact Er|].
      intros Hm. apply node_attrs_unmarked. rewrite <- Em. exact Hm.
    Qed.

    (* no path is returned twice *)
    Theorem no_duplicates : NoDup (map (fun n => read_names slash (fst n)) L).
    Proof.
      facts. eapply Permutation_NoDup.
      - apply Permutation_sym. apply Permutation_map. apply out_perm.
      - eapply expected_names_nodup; eassumption.
    Qed.

    (* without only_diff every path of either tree is returned *)
    Theorem nothing_dropped p :
      od = false -> In p P1 \/ In p P2 -> exists s at_, In (s, at_) L /\ read_names slash s = p.
    Proof.
      intros Hod Hp. destruct (out_of_path p) as [s [at_ [Hin [En _]]]].
      - apply in_all_iff. exact Hp.
      - unfold kept. rewrite Hod. reflexivity.
      - exists s, at_. auto.
    Qed.

    (* with only_diff the returned paths are exactly the marked paths and their ancestors *)
    Theorem only_diff_ancestors p :
      od = true ->
      ((exists s at_, In (s, at_) L /\ read_names slash s = p) <->
       (p <> [] /\ exists q r, (In q P1 \/ In q P2) /\ st q <> MSame /\ q = p ++ r)).
    Proof.
      intros Hod. facts. split.
      - intros [s [at_ [Hin En]]]. apply out_to_path in Hin as [Hp [Hk _]]. rewrite En in Hp, Hk.
        rewrite Hod in Hk. apply kept_only_diff in Hk as [q [r [Hq [Hs E]]]].
        split; [apply (all_good N1 N2 F_g1 F_g2 p Hp)|]. exists q, r. split; [apply in_all_iff; exact Hq|auto].
      - intros [Hne [q [r [Hq [Hs E]]]]]. apply in_all_iff in Hq.
        assert (Hp : In p all).
        { apply (all_init_closed N1 N2 F_pc1 F_pc2 q p Hq). apply in_inits. split; [exact Hne|]. exists r. exact E. }
        destruct (out_of_path p Hp) as [s [at_ [Hin [En _]]]].
        + rewrite Hod. apply kept_only_diff. exists q, r. auto.
        + exists s, at_. auto.
    Qed.
  End Output.

  (* trees with the same paths and no difference in a listed attribute: no diff *)
  Theorem identical_none :
    (forall p, In p P1 <-> In p P2) ->
    (forall p a1 a2, In (p, a1) N1 -> In (p, a2) N2 -> diff_attrs al a1 a2 = []) ->
    get_tree_diff slash t1 t2 true al = Ret None.
  Proof.
    intros Hsame Hattr. facts.
    destruct (get_tree_diff_spec t1 t2 al Hdom Hlook true) as [L' [E HP]].
    assert (Hexp : expected slash al N1 N2 true = []).
    { unfold expected. destruct (filter (kept al N1 N2 true) all) as [|p l] eqn:F; [reflexivity|]. exfalso.
      assert (Hp : In p (filter (kept al N1 N2 true) all)) by (rewrite F; left; reflexivity).
      apply filter_In in Hp as [Hp Hk]. apply kept_only_diff in Hk as [q [r [Hq [Hs _]]]].
      apply Hs. eapply st_same_iff; try eassumption.
      apply in_all_iff in Hq. assert (H1 : In q P1) by (destruct Hq as [Hq|Hq]; [exact Hq|apply Hsame; exact Hq]).
      repeat split; [exact H1|apply Hsame; exact H1|]. intros a1 a2. apply Hattr. }
    rewrite Hexp in HP. apply Permutation_sym, Permutation_nil in HP. subst. exact E.
  Qed.
End Clauses.

Theorem same_tree_none t al :
  domain_C15 slash t t al = true -> lookalike_free t t = true ->
  get_tree_diff slash t t true al = Ret None.
Proof.
  intros Hdom Hlook. apply identical_none; try assumption.
  - intros p. tauto.
  - intros p a1 a2 H1 H2. pose proof (T_HND1 t t al Hdom) as Hnd.
    apply (lookup_nodup p a1 _ Hnd) in H1. apply (lookup_nodup p a2 _ Hnd) in H2.
    rewrite H1 in H2. inversion H2; subst. apply diff_attrs_same.
Qed.

(* what the four marks mean, on trees *)
Theorem status_meaning t1 t2 al q :
  domain_C15 slash t1 t2 al = true ->
  In q (map fst (nodes_of t1)) \/ In q (map fst (nodes_of t2)) ->
  (status al (nodes_of t1) (nodes_of t2) q = MRem <->
     In q (map fst (nodes_of t1)) /\ ~ In q (map fst (nodes_of t2))) /\
  (status al (nodes_of t1) (nodes_of t2) q = MAdd <->
     ~ In q (map fst (nodes_of t1)) /\ In q (map fst (nodes_of t2))) /\
  (status al (nodes_of t1) (nodes_of t2) q = MChg <->
     exists a1 a2, In (q, a1) (nodes_of t1) /\ In (q, a2) (nodes_of t2) /\ diff_attrs al a1 a2 <> []) /\
  (status al (nodes_of t1) (nodes_of t2) q = MSame <->
     In q (map fst (nodes_of t1)) /\ In q (map fst (nodes_of t2)) /\
     forall a1 a2, In (q, a1) (nodes_of t1) -> In (q, a2) (nodes_of t2) -> diff_attrs al a1 a2 = []).
Proof.
  intros Hdom Hq. pose proof (T_HND1 t1 t2 al Hdom) as F1. pose proof (T_HND2 t1 t2 al Hdom) as F2.
  split; [apply st_rem|]. split; [apply st_add|]. split; [apply st_chg_iff; assumption|].
  apply st_same_iff; try assumption. apply in_all. exact Hq.
Qed.

(* ================================================================================================ *)
(* 7. the second tree's own separator is irrelevant                                                   *)

Lemma get_tree_diff_seps_eq sep sep2 t1 t2 od al :
  get_tree_diff_seps sep sep2 t1 t2 od al = get_tree_diff sep t1 t2 od al.
Proof. reflexivity. Qed.

Theorem other_sep_irrelevant sep s s' t1 t2 od al :
  get_tree_diff_seps sep s t1 t2 od al = get_tree_diff_seps sep s' t1 t2 od al.
Proof. rewrite !get_tree_diff_seps_eq. reflexivity. Qed.

(* for Node (and subclasses) the class-aware entry point is the same function; for BinaryNode it differs
   only by the TreeError of a third child *)
Lemma get_tree_diff_cls_node sep sep2 t1 t2 od al :
  get_tree_diff_cls false sep sep2 t1 t2 od al = get_tree_diff sep t1 t2 od al.
Proof.
  unfold get_tree_diff_cls. rewrite get_tree_diff_seps_eq.
  destruct (get_tree_diff sep t1 t2 od al) as [[l|]|e]; reflexivity.
Qed.

Lemma get_tree_diff_cls_binary sep sep2 t1 t2 od al l :
  get_tree_diff_cls true sep sep2 t1 t2 od al = Ret (Some l) -> get_tree_diff sep t1 t2 od al = Ret (Some l).
Proof.
  unfold get_tree_diff_cls. rewrite get_tree_diff_seps_eq.
  destruct (get_tree_diff sep t1 t2 od al) as [[l'|]|e]; try discriminate.
  cbn [andb]. destruct (binary_overflow l'); [discriminate|]. intros H. exact H.
Qed.

(* ================================================================================================ *)
(* 8. the predicate of the check holds of the model                                                   *)

Definition obs_of_res (r : res (option (list Diff.onode))) : dobs :=
  match r with
  | Raise e => DErr (exn_code e)
  | Ret None => DNone
  | Ret (Some l) => DTree l
  end.

Lemma okv_eqb_refl kv : okv_eqb kv kv = true.
Proof. unfold okv_eqb. rewrite str_eqb_refl, !val_eqb_refl. reflexivity. Qed.

Lemma ms_eqb_refl_okv (a : PC15.oattrs) : ms_eqb okv_eqb a a = true.
Proof. induction a as [|x a IH]; [reflexivity|]. cbn [ms_eqb remove_first]. rewrite okv_eqb_refl. exact IH. Qed.

Lemma onode_eqb_refl n : onode_eqb n n = true.
Proof. unfold onode_eqb. rewrite str_eqb_refl, ms_eqb_refl_okv. reflexivity. Qed.

Lemma remove_first_app {A} (eqb : A -> A -> bool) x x0 : forall a b,
  (forall y, In y a -> eqb x y = false) -> eqb x x0 = true ->
  remove_first eqb x (a ++ x0 :: b) = Some (a ++ b).
Proof.
  induction a as [|y a IH]; intros b Ha Hx; cbn [app remove_first].
  - rewrite Hx. reflexivity.
  - rewrite (Ha y (or_introl eq_refl)). rewrite IH; [reflexivity| |exact Hx].
    intros z Hz. apply Ha. right. exact Hz.
Qed.

Lemma ms_eqb_perm : forall (l1 l2 : list PC15.onode),
  NoDup (map fst l2) -> Permutation l1 l2 -> ms_eqb onode_eqb l1 l2 = true.
Proof.
  induction l1 as [|x r IH]; intros l2 Hnd HP.
  - apply Permutation_nil in HP. subst. reflexivity.
  - assert (Hin : In x l2) by (eapply Permutation_in; [exact HP|left; reflexivity]).
    apply in_split in Hin as [a [b ->]]. cbn [ms_eqb].
    rewrite (remove_first_app onode_eqb x x a b).
    + apply IH.
      * rewrite map_app in *. cbn [map] in Hnd. apply NoDup_remove_1 in Hnd. exact Hnd.
      * eapply Permutation_cons_app_inv. exact HP.
    + intros y Hy. unfold onode_eqb. rewrite map_app in Hnd. cbn [map] in Hnd.
      apply NoDup_remove_2 in Hnd.
      assert (Hne : fst x <> fst y).
      { intros E. apply Hnd. apply in_or_app. left. rewrite E. apply in_map. exact Hy. }
      apply str_eqb_neq in Hne. rewrite Hne. reflexivity.
    + apply onode_eqb_refl.
Qed.

Theorem model_satisfies_prop t1 t2 al od :
  domain_C15 slash t1 t2 al = true -> lookalike_free t1 t2 = true ->
  prop_C15 slash t1 t2 od al (obs_of_res (get_tree_diff slash t1 t2 od al)) = true.
Proof.
  intros Hdom Hlook. destruct (get_tree_diff_spec t1 t2 al Hdom Hlook od) as [L [E HP]].
  rewrite E. unfold prop_C15.
  assert (Hnd : NoDup (map fst (expected slash al (nodes_of t1) (nodes_of t2) od))).
  { pose proof (T_HND1 t1 t2 al Hdom) as F_nd1. pose proof (T_HND2 t1 t2 al Hdom) as F_nd2.
    pose proof (T_good1 t1 t2 al Hdom) as F_g1. pose proof (T_good2 t1 t2 al Hdom) as F_g2.
    pose proof (T_pc1 t1) as F_pc1. pose proof (T_pc2 t2) as F_pc2. pose proof (T_look t1 t2 Hlook) as F_look.
    assert (H : NoDup (map (fun n : str * PC15.oattrs => read_names slash (fst n))
                         (expected slash al (nodes_of t1) (nodes_of t2) od)))
      by (eapply expected_names_nodup; eassumption).
    rewrite <- (map_map fst (read_names slash)) in H. apply NoDup_map_inv in H. exact H. }
  destruct L as [|x L]; cbn [obs_of_res].
  - apply Permutation_nil in HP. rewrite HP. reflexivity.
  - destruct (expected slash al (nodes_of t1) (nodes_of t2) od) as [|e es] eqn:Ee.
    + apply Permutation_sym, Permutation_nil in HP. discriminate.
    + apply ms_eqb_perm; assumption.
Qed.

(* the same for the class-aware entry point the check calls: Node and its subclasses, any second separator *)
Theorem model_satisfies_prop_cls t1 t2 al od sep2 :
  domain_C15 slash t1 t2 al = true -> lookalike_free t1 t2 = true ->
  prop_C15 slash t1 t2 od al (obs_of_res (get_tree_diff_cls false slash sep2 t1 t2 od al)) = true.
Proof. intros. rewrite get_tree_diff_cls_node. apply model_satisfies_prop; assumption. Qed.

(* BinaryNode trees: the predicate holds unless a parent of the result would get a third child *)
Theorem model_satisfies_prop_binary t1 t2 al od sep2 :
  domain_C15 slash t1 t2 al = true -> lookalike_free t1 t2 = true ->
  (forall l, get_tree_diff slash t1 t2 od al = Ret (Some l) -> binary_overflow l = false) ->
  prop_C15 slash t1 t2 od al (obs_of_res (get_tree_diff_cls true slash sep2 t1 t2 od al)) = true.
Proof.
  intros Hdom Hlook Hno. pose proof (model_satisfies_prop t1 t2 al od Hdom Hlook) as H.
  unfold get_tree_diff_cls. rewrite get_tree_diff_seps_eq.
  destruct (get_tree_diff slash t1 t2 od al) as [[l|]|e] eqn:E; try exact H.
  cbn [andb]. rewrite (Hno l eq_refl). exact H.
Qed.

(* ================================================================================================ *)
(* 9. attribute entries, interaction of the marks, effective attributes                               *)

Lemma attr_val_absent a (at_ : attrs) : (forall v, ~ In (a, v) at_) -> attr_val a at_ = VNone.
Proof.
  intros H. unfold attr_val. destruct (find (fun kv => str_eqb (fst kv) a) at_) as [[k v]|] eqn:E; [|reflexivity].
  apply find_some in E as [Hin Hk]. cbn in Hk. apply str_eqb_eq in Hk. subst. exfalso. exact (H v Hin).
Qed.

Lemma attr_val_present a v (at_ : attrs) : NoDup (map fst at_) -> In (a, v) at_ -> attr_val a at_ = v.
Proof.
  induction at_ as [|[k w] l IH]; intros Hnd Hin; [contradiction|].
  cbn [map fst] in Hnd. inversion Hnd as [|? ? Hk Hnd']; subst.
  unfold attr_val. cbn [find fst]. destruct Hin as [E|Hin].
  - inversion E; subst. rewrite str_eqb_refl. reflexivity.
  - destruct (str_eqb k a) eqn:Ek.
    + apply str_eqb_eq in Ek. subst. exfalso. apply Hk. apply (in_map fst) in Hin. exact Hin.
    + apply IH; assumption.
Qed.

Section Clauses2.
  Variables (t1 t2 : tree) (al : list str).
  Hypothesis Hdom : domain_C15 slash t1 t2 al = true.
  Hypothesis Hlook : lookalike_free t1 t2 = true.
  Variables (od : bool) (L : list Diff.onode).
  Hypothesis Hout : get_tree_diff slash t1 t2 od al = Ret (Some L).

  Notation N1 := (nodes_of t1).
  Notation N2 := (nodes_of t2).
  Notation st := (status al (nodes_of t1) (nodes_of t2)).

  (* a returned node that exists in both trees carries, in the order of attr_list and without repetition,
     exactly the listed attributes whose values differ, each with (value in tree, value in other_tree);
     equal values give no entry; all differing attributes sit on the one node of that path *)
  Theorem changed_entries s at_ a1 a2 :
    In (s, at_) L -> In (read_names slash s, a1) N1 -> In (read_names slash s, a2) N2 ->
    (forall a x y, In (a, (x, y)) at_ <->
                   In a al /\ x = attr_val a a1 /\ y = attr_val a a2 /\ val_eqb x y = false) /\
    map fst at_ = filter (fun a => negb (val_eqb (attr_val a a1) (attr_val a a2))) al /\
    (at_ <> [] <-> read_mark slash s = MChg).
  Proof.
    intros Hin I1 I2.
    pose proof (T_HND1 t1 t2 al Hdom) as F1. pose proof (T_HND2 t1 t2 al Hdom) as F2.
    destruct (out_to_path t1 t2 al Hdom Hlook od L Hout s at_ Hin) as [Hp [_ [Em [_ Ea]]]].
    rewrite (node_attrs_chg al N1 N2 F1 F2 _ a1 a2 I1 I2) in Ea. subst at_.
    split; [intros a x y; apply diff_attrs_in|]. split; [apply diff_attrs_keys_gen|].
    rewrite Em. split.
    - intros Hne. apply (st_chg_iff al N1 N2 F1 F2). exists a1, a2. auto.
    - intros Hs. apply (st_chg_iff al N1 N2 F1 F2) in Hs as [b1 [b2 [J1 [J2 Hd]]]].
      apply (lookup_nodup _ _ _ F1) in I1, J1. apply (lookup_nodup _ _ _ F2) in I2, J2.
      rewrite I1 in J1. rewrite I2 in J2. inversion J1; inversion J2; subst. exact Hd.
  Qed.

  (* a (-) / (+) node is never (~) as well: it exists in one tree only, its displayed name carries that
     one marker, and it has no attribute entries *)
  Theorem structure_marks_plain s at_ :
    In (s, at_) L -> read_mark slash s = MRem \/ read_mark slash s = MAdd ->
    at_ = [] /\
    ~ (In (read_names slash s) (map fst N1) /\ In (read_names slash s) (map fst N2)) /\
    s = path_name slash (map (fun q => last q [] ++ mark_suffix (st q)) (inits (read_names slash s))).
  Proof.
    intros Hin Hm.
    destruct (out_to_path t1 t2 al Hdom Hlook od L Hout s at_ Hin) as [Hp [_ [Em [_ Ea]]]].
    split; [|split].
    - subst at_. apply node_attrs_unmarked. rewrite <- Em. destruct Hm as [-> | ->]; discriminate.
    - rewrite Em in Hm. intros [H1 H2]. destruct Hm as [Hm|Hm]; [apply st_rem in Hm|apply st_add in Hm]; tauto.
    - apply (out_in t1 t2 al Hdom Hlook od L Hout) in Hin as [p [Hp' [_ [Es _]]]].
      assert (En : read_names slash s = p).
      { rewrite Es. eapply read_names_shown;
          [apply (T_good1 t1 t2 al Hdom)|apply (T_good2 t1 t2 al Hdom)|apply T_pc1|apply T_pc2|apply (T_look t1 t2 Hlook)|exact Hp']. }
      rewrite En. exact Es.
  Qed.

  (* with only_diff an unmarked returned node is an ancestor of a marked node, is displayed by its plain
     name and has no attribute entries *)
  Theorem only_diff_unmarked_ancestor s at_ :
    od = true -> In (s, at_) L -> st (read_names slash s) = MSame ->
    read_mark slash s = MSame /\ at_ = [] /\
    exists q r, r <> [] /\ (In q (map fst N1) \/ In q (map fst N2)) /\ st q <> MSame /\
                q = read_names slash s ++ r.
  Proof.
    intros Hod Hin Hs.
    destruct (out_to_path t1 t2 al Hdom Hlook od L Hout s at_ Hin) as [Hp [Hk [Em [_ Ea]]]].
    split; [rewrite Em; exact Hs|]. split.
    - subst at_. apply node_attrs_unmarked. rewrite Hs. discriminate.
    - rewrite Hod in Hk. apply kept_only_diff in Hk as [q [r [Hq [Hq' E]]]].
      exists q, r. split; [|split; [apply in_all; exact Hq|split; assumption]].
      intros ->. rewrite app_nil_r in E. subst q. contradiction.
  Qed.
End Clauses2.

(* attributes enter only as the function a |-> get_attr a node on the listed names: replacing every node's
   attributes by that function's graph (the "effective attributes", however the class resolves them:
   instance dict, property, class-level default, built-in is_leaf / depth) changes nothing *)
Fixpoint restrict_attrs (al : list str) (t : tree) : tree :=
  match t with
  | T g n a ks => T g n (map (fun k => (k, get_attr k a)) al) (map (restrict_attrs al) ks)
  end.

Lemma get_attr_graph k a : forall l, In k l -> get_attr k (map (fun b => (b, get_attr b a)) l) = get_attr k a.
Proof.
  induction l as [|b l IH]; intros Hin; [contradiction|].
  unfold get_attr at 1. cbn [map find fst]. destruct (str_eqb b k) eqn:E.
  - apply str_eqb_eq in E. subst. reflexivity.
  - destruct Hin as [->|Hin]; [rewrite str_eqb_refl in E; discriminate|]. apply IH. exact Hin.
Qed.

Lemma table_from_restrict sep al (t : tree) : forall pre,
  table_from sep al pre (restrict_attrs al t) = table_from sep al pre t.
Proof.
  induction t as [g n a ks IH] using tree_ind'. intros pre.
  cbn [restrict_attrs table_from]. f_equal.
  - f_equal. apply map_ext_in. intros k Hk. apply get_attr_graph. exact Hk.
  - induction ks as [|k ks IHk]; [reflexivity|].
    inversion IH as [|? ? Hk Hks]; subst. cbn [map flat_map]. rewrite Hk, IHk by exact Hks. reflexivity.
Qed.

Theorem tables_determine_result sep t1 t2 t1' t2' od al :
  table sep al t1 = table sep al t1' -> table sep al t2 = table sep al t2' ->
  get_tree_diff sep t1 t2 od al = get_tree_diff sep t1' t2' od al.
Proof. intros E1 E2. unfold get_tree_diff, marked_rows. rewrite E1, E2. reflexivity. Qed.

Theorem effective_attrs_only sep t1 t2 od al :
  get_tree_diff sep (restrict_attrs al t1) (restrict_attrs al t2) od al = get_tree_diff sep t1 t2 od al.
Proof. apply tables_determine_result; apply table_from_restrict. Qed.

(* ================================================================================================ *)
(* 10. separators other than "/": exactly when the call raises (known finding K4-C15)                  *)

(* the strings get_tree_diff hands to dataframe_to_tree *)
Definition kept_paths (sep : str) (t1 t2 : tree) (od : bool) (al : list str) : list str :=
  let rows := marked_rows sep al t1 t2 in
  map jpath (filter (keep_row od (map fst (changes_from 0 al rows))) rows).

Definition sfree (s : str) : Prop := s <> [] /\ cfree 47%N s.

Lemma join_chars x sp : forall l, In x (join sp l) -> In x sp \/ exists q, In q l /\ In x q.
Proof.
  induction l as [|a l IH]; intros H; [contradiction|].
  destruct l as [|b l].
  - right. exists a. split; [left; reflexivity|exact H].
  - rewrite join_cons in H. apply in_app_or in H as [H|H]; [right; exists a; split; [left; reflexivity|exact H]|].
    apply in_app_or in H as [H|H]; [left; exact H|].
    destruct (IH H) as [H'|[q [Hq Hx]]]; [left; exact H'|right; exists q; split; [right; exact Hq|exact Hx]].
Qed.

Lemma suffix_parts_free sep rem add : forall todo done,
  Forall (cfree 47%N) todo ->
  Forall (cfree 47%N) (suffix_parts sep rem add done todo)
  /\ length (suffix_parts sep rem add done todo) = length todo.
Proof.
  induction todo as [|x todo IH]; intros done HF; [split; [constructor|reflexivity]|].
  inversion HF as [|? ? Hx HF']; subst. cbn [suffix_parts length]. destruct (IH (done ++ [x]) HF') as [H1 H2].
  split; [|rewrite H2; reflexivity]. constructor; [|exact H1].
  assert (Hm : cfree 47%N sfx_minus) by (intros H; cbn in H; repeat (destruct H as [H|H]; [discriminate|]); exact H).
  assert (Hp : cfree 47%N sfx_plus) by (intros H; cbn in H; repeat (destruct H as [H|H]; [discriminate|]); exact H).
  destruct (memstr _ rem); [|destruct (memstr _ add)]; try exact Hx;
    intros Hin; apply in_app_or in Hin as [Hin|Hin]; auto.
Qed.

(* a marked path of a tree path with names free of c and of "/" is non-empty and contains no "/" *)
Lemma marked_sfree c rem add p :
  c <> 47%N -> p <> [] -> Forall (cfree c) p -> Forall (cfree 47%N) p ->
  sfree (add_suffix [c] rem add (path_name [c] p)).
Proof.
  intros Hc Hne Fc Fs. unfold add_suffix. rewrite split_path_name by assumption.
  destruct (suffix_parts_free [c] rem add ([] :: p) []) as [HF Hlen].
  { constructor; [apply cfree_nil|exact Fs]. }
  destruct (suffix_parts [c] rem add [] ([] :: p)) as [|f rest] eqn:E; [discriminate|].
  cbn [length] in Hlen. destruct rest as [|g rest]; [destruct p; [contradiction|discriminate]|].
  split.
  - rewrite join_cons. intros H. apply app_eq_nil in H as [_ H]. discriminate.
  - intros Hin. apply join_chars in Hin as [Hin|[q [Hq Hin]]].
    + destruct Hin as [Hin|[]]. congruence.
    + rewrite Forall_forall in HF. exact (HF q Hq Hin).
Qed.

Lemma strip_sfree s : sfree s -> rstrip (lstrip s slash) slash = s.
Proof.
  intros [Hne Hf]. unfold slash.
  rewrite lstrip_nonsep by (destruct s as [|x s]; [exact I|intros ->; apply Hf; left; reflexivity]).
  destruct (exists_last Hne) as [s' [y ->]]. apply rstrip_nonsep.
  intros ->. apply Hf. apply in_or_app. right. left. reflexivity.
Qed.

Lemma split_sfree s : cfree 47%N s -> split s slash = [s].
Proof.
  intros Hf. unfold split, slash. rewrite <- (app_nil_r s) at 2. rewrite <- Nat.add_1_r.
  rewrite split_go_scan by exact Hf. rewrite split_go_nil. rewrite app_nil_r, rev_involutive. reflexivity.
Qed.

Lemma branch_sfree s : sfree s -> branch_of s = [s].
Proof. intros H. unfold branch_of. rewrite strip_sfree by exact H. apply split_sfree. apply H. Qed.

Lemma add_path_sfree root nodes s :
  sfree s ->
  add_path root nodes s = if str_eqb s root then Ret (add_id nodes [s], [s]) else Raise TreeError.
Proof.
  intros H. unfold add_path. destruct s as [|x s'] eqn:E; [destruct H; contradiction|]. rewrite <- E in *.
  rewrite branch_sfree by exact H. cbn [hd]. destruct (str_eqb s root); reflexivity.
Qed.

Lemma add_paths_sfree root : forall ss nodes,
  Forall sfree ss ->
  (Forall (eq root) ss -> exists nodes', add_paths root nodes ss = Ret nodes') /\
  (~ Forall (eq root) ss -> add_paths root nodes ss = Raise TreeError).
Proof.
  induction ss as [|s ss IH]; intros nodes HF.
  - split; [intros _; exists nodes; reflexivity|]. intros H. exfalso. apply H. constructor.
  - inversion HF as [|? ? Hs HF']; subst. cbn [add_paths]. rewrite add_path_sfree by exact Hs.
    destruct (str_eqb s root) eqn:E.
    + apply str_eqb_eq in E. subst s. destruct (IH (add_id nodes [root]) HF') as [I1 I2]. split.
      * intros H. inversion H; subst. apply I1. assumption.
      * intros H. apply I2. intros H'. apply H. constructor; [reflexivity|exact H'].
    + split; [|reflexivity]. intros H. inversion H; subst. rewrite str_eqb_refl in E. discriminate.
Qed.

Lemma apply_changes_root root : forall chs nodes st0,
  sfree root -> (forall ch, In ch chs -> fst ch = root) ->
  exists r, apply_changes root nodes st0 chs = Ret r.
Proof.
  induction chs as [|[p kv] chs IH]; intros nodes st0 Hr H; [eexists; reflexivity|].
  cbn [apply_changes]. assert (p = root) by (apply (H (p, kv)); left; reflexivity). subst p.
  rewrite add_path_sfree by exact Hr. rewrite str_eqb_refl.
  apply IH; [exact Hr|]. intros ch Hch. apply H. right. exact Hch.
Qed.

Lemma apply_renames_root sep root : forall ks nodes rs,
  sfree root -> (forall k, In k ks -> k = root) ->
  exists r, apply_renames sep root nodes rs ks = Ret r.
Proof.
  induction ks as [|k ks IH]; intros nodes rs Hr H; [eexists; reflexivity|].
  cbn [apply_renames]. assert (k = root) by (apply H; left; reflexivity). subst k.
  rewrite add_path_sfree by exact Hr. rewrite str_eqb_refl.
  apply IH; [exact Hr|]. intros k Hk. apply H. right. exact Hk.
Qed.

Lemma changes_for_paths i a rows ch : In ch (changes_for i a rows) -> exists r, In r rows /\ jpath r = fst ch.
Proof.
  unfold changes_for. intros H. apply in_flat_map in H as [r [Hr H]].
  destruct (_ && _ && _); [|contradiction]. destruct H as [<-|[]]. exists r. auto.
Qed.

Lemma changes_from_paths al rows ch : forall i,
  In ch (changes_from i al rows) -> exists r, In r rows /\ jpath r = fst ch.
Proof.
  induction al as [|a al IH]; intros i H; [contradiction|].
  cbn [changes_from] in H. apply in_app_or in H as [H|H]; [eapply changes_for_paths; exact H|eapply IH; exact H].
Qed.

(* on slash-free kept strings: None if there is none, TreeError iff two of them differ, a tree otherwise *)
Lemma diff_of_rows_sfree sep rows od al :
  (forall r, In r rows -> sfree (jpath r)) ->
  let K := map jpath (filter (keep_row od (map fst (changes_from 0 al rows))) rows) in
  (K = [] -> diff_of_rows sep rows od al = Ret None) /\
  ((exists p q, In p K /\ In q K /\ p <> q) -> diff_of_rows sep rows od al = Raise TreeError) /\
  (K <> [] -> (forall p q, In p K -> In q K -> p = q) -> exists l, diff_of_rows sep rows od al = Ret (Some l)).
Proof.
  intros Hfree K. unfold diff_of_rows. fold K.
  assert (Hmem : forall r, In r rows -> memstr (jpath r) (map fst (changes_from 0 al rows)) = true -> In (jpath r) K).
  { intros r Hr M. unfold K. apply in_map. apply filter_In. split; [exact Hr|].
    unfold keep_row. rewrite M. apply orb_true_r. }
  assert (HK : Forall sfree K).
  { apply Forall_forall. intros s Hs. apply in_map_iff in Hs as [r [<- Hr]]. apply filter_In in Hr as [Hr _]. auto. }
  clearbody K.
  split; [intros ->; reflexivity|].
  destruct K as [|k0 K']; [split; [intros [p [q [[] _]]]|intros H; contradiction]|].
  cbv beta iota. set (KK := k0 :: K') in *.
  assert (Hsp : map (fun p => rstrip (lstrip p slash) slash) KK = KK).
  { rewrite <- (map_id KK) at 2. apply map_ext_in. intros s Hs. apply strip_sfree.
    rewrite Forall_forall in HK. auto. }
  assert (Hk0 : sfree k0) by (inversion HK; assumption).
  assert (Hroot : hd [] (split (hd [] KK) slash) = k0).
  { unfold KK. cbn [hd]. rewrite split_sfree by apply Hk0. reflexivity. }
  unfold rebuild. rewrite Hsp, Hroot.
  split.
  - intros [p [q [Hp [Hq Hne]]]].
    match goal with |- context [add_paths k0 ?n KK] => destruct (add_paths_sfree k0 KK n HK) as [A1 A2] end.
    rewrite A2; [reflexivity|].
    intros Hall. rewrite Forall_forall in Hall. rewrite <- (Hall p Hp), <- (Hall q Hq) in Hne. contradiction.
  - intros _ Hsame.
    match goal with |- context [add_paths k0 ?n KK] => destruct (add_paths_sfree k0 KK n HK) as [A1 A2] end.
    destruct A1 as [nodes' E].
    { apply Forall_forall. intros s Hs. apply Hsame; [left; reflexivity|exact Hs]. }
    rewrite E.
    assert (Hch : forall ch, In ch (changes_from 0 al rows) -> fst ch = k0).
    { intros ch Hch. destruct (changes_from_paths al rows ch 0 Hch) as [r [Hr Er]].
      symmetry. apply Hsame; [left; reflexivity|]. rewrite <- Er. apply Hmem; [exact Hr|].
      apply memstr_in. rewrite Er. apply in_map. exact Hch. }
    destruct (apply_changes_root k0 (changes_from 0 al rows) nodes' [] Hk0 Hch) as [[nodes1 st1] E1].
    rewrite E1.
    destruct (apply_renames_root sep k0 (sort_desc (map fst (changes_from 0 al rows))) nodes1 [] Hk0) as [[nodes2 rs] E2].
    { intros k Hk. apply (proj1 (sort_desc_in _ _)) in Hk. apply in_map_iff in Hk as [ch [<- Hc]]. apply Hch. exact Hc. }
    rewrite E2. eexists. reflexivity.
Qed.

Lemma table_from_paths sep al (t : tree) : forall pre r,
  In r (table_from sep al pre t) -> exists p, In p (map fst (nodes_from pre t)) /\ rpath r = path_name sep p.
Proof.
  induction t as [g n a ks IH] using tree_ind'. intros pre r Hin.
  cbn [table_from nodes_from map fst In] in *. destruct Hin as [<-|Hin].
  - exists (pre ++ [n]). split; [left; reflexivity|reflexivity].
  - induction ks as [|k ks IHk]; [contradiction|].
    inversion IH as [|? ? Hk Hks]; subst. cbn [flat_map] in *. rewrite map_app.
    apply in_app_or in Hin as [Hin|Hin].
    + destruct (Hk _ _ Hin) as [p [Hp E]]. exists p. split; [right; apply in_or_app; left; exact Hp|exact E].
    + destruct (IHk Hks Hin) as [p [[Hp|Hp] E]].
      * exists p. split; [left; exact Hp|exact E].
      * exists p. split; [right; apply in_or_app; right; exact Hp|exact E].
Qed.

Lemma merge_outer_paths nn d1 d2 r :
  In r (merge_outer nn d1 d2) -> exists r', (In r' d1 \/ In r' d2) /\ jpath r = rpath r'.
Proof.
  unfold merge_outer. intros H. apply in_app_or in H as [H|H].
  - apply in_flat_map in H as [r1 [H1 H]]. exists r1. split; [left; exact H1|].
    destruct (filter (key_eqb r1) d2) as [|m ms].
    + destruct H as [<-|[]]. reflexivity.
    + apply in_map_iff in H as [r2 [<- _]]. reflexivity.
  - apply in_map_iff in H as [r2 [<- H]]. apply filter_In in H as [H _]. exists r2. split; [right; exact H|reflexivity].
Qed.

Lemma name_ok_sep c n : name_ok [c] n = true -> n <> [] /\ cfree c n /\ cfree 47%N n.
Proof.
  unfold name_ok. intros H. apply andb_true_iff in H as [H H3]. apply andb_true_iff in H as [H1 H2].
  apply negb_true_iff in H2, H3. split; [destruct n; discriminate|]. split; apply cfree_contains; assumption.
Qed.

Lemma marked_rows_sfree c t1 t2 al :
  c <> 47%N -> domain_C15 [c] t1 t2 al = true ->
  forall r, In r (marked_rows [c] al t1 t2) -> sfree (jpath r).
Proof.
  intros Hc Hdom r Hr. unfold domain_C15 in Hdom. repeat (apply andb_true_iff in Hdom as [Hdom ?]).
  unfold marked_rows in Hr. apply in_map_iff in Hr as [r0 [<- Hr0]]. cbn [set_path jpath].
  apply merge_outer_paths in Hr0 as [r' [Hr' ->]].
  assert (G : forall t, forallb (name_ok [c]) (all_names t) = true -> In r' (table [c] al t) ->
              exists p, rpath r' = path_name [c] p /\ p <> [] /\ Forall (cfree c) p /\ Forall (cfree 47%N) p).
  { intros t Hn Hin. destruct (table_from_paths [c] al t [] r' Hin) as [p [Hp E]]. exists p. split; [exact E|].
    split; [destruct (nodes_from_form t [] p Hp) as [x ->]; discriminate|].
    rewrite forallb_forall in Hn.
    split; apply Forall_forall; intros x Hx; apply (name_ok_sep c x); apply Hn; eapply nodes_of_names; eassumption. }
  destruct Hr' as [Hr'|Hr']; [destruct (G t1) as [p [E [Hne [Fc Fs]]]]|destruct (G t2) as [p [E [Hne [Fc Fs]]]]];
    try assumption; rewrite E; apply marked_sfree; assumption.
Qed.

Lemma all_same_or_not (K : list str) :
  (exists p q, In p K /\ In q K /\ p <> q) \/ (forall p q, In p K -> In q K -> p = q).
Proof.
  destruct K as [|k0 K']; [right; intros p q []|].
  destruct (Forall_dec (fun s => k0 = s) (fun s => list_eq_dec N.eq_dec k0 s) K') as [Hall|Hn].
  - right. rewrite Forall_forall in Hall. intros p q [<-|Hp] [<-|Hq]; try reflexivity.
    + apply Hall. exact Hq.
    + symmetry. apply Hall. exact Hp.
    + rewrite <- (Hall p Hp). apply Hall. exact Hq.
  - left. apply neg_Forall_Exists_neg in Hn; [|intros s; apply (list_eq_dec N.eq_dec)].
    apply Exists_exists in Hn as [s [Hs Hne]]. exists k0, s. split; [left; reflexivity|]. split; [right; exact Hs|exact Hne].
Qed.

(* K4-C15 as a theorem: with a one-character separator other than "/" (names free of it and of "/")
   the call returns None when no row is kept, raises TreeError exactly when two kept rows differ, returns a
   tree otherwise (one row: a single node named by the whole marked path), and never raises anything else *)
Theorem sep_refused_iff c t1 t2 od al :
  c <> 47%N -> domain_C15 [c] t1 t2 al = true ->
  (get_tree_diff [c] t1 t2 od al = Raise TreeError <->
   exists p q, In p (kept_paths [c] t1 t2 od al) /\ In q (kept_paths [c] t1 t2 od al) /\ p <> q) /\
  (kept_paths [c] t1 t2 od al = [] <-> get_tree_diff [c] t1 t2 od al = Ret None) /\
  (forall e, get_tree_diff [c] t1 t2 od al = Raise e -> e = TreeError).
Proof.
  intros Hc Hdom.
  destruct (diff_of_rows_sfree [c] (marked_rows [c] al t1 t2) od al (marked_rows_sfree c t1 t2 al Hc Hdom))
    as [D1 [D2 D3]].
  fold (kept_paths [c] t1 t2 od al) in D1, D2, D3. fold (get_tree_diff [c] t1 t2 od al) in D1, D2, D3.
  destruct (kept_paths [c] t1 t2 od al) as [|k0 K'] eqn:EK.
  - rewrite (D1 eq_refl). split; [split; [discriminate|intros [p [q [[] _]]]]|]. split; [tauto|discriminate].
  - destruct (all_same_or_not (k0 :: K')) as [Hd|Hs].
    + rewrite (D2 Hd). split; [tauto|]. split; [split; discriminate|]. intros e E. inversion E. reflexivity.
    + destruct (D3 ltac:(discriminate) Hs) as [l El]. rewrite El. split.
      * split; [discriminate|]. intros [p [q [Hp [Hq Hne]]]]. exfalso. apply Hne. apply Hs; assumption.
      * split; [split; discriminate|discriminate].
Qed.
