(* Proofs about the model of the derived node queries (Algo/Derived.v) against the first-principles
   definitions of Spec/PC12.v. *)
From BT Require Import Base.Prelude Base.Rose Algo.Derived Spec.PC12.

(* ============================================================================================== *)
(* A. equality of positions                                                                        *)

Lemma list_eqb_nat_true : forall a b : pos, list_eqb Nat.eqb a b = true <-> a = b.
Proof.
  induction a as [|x a IH]; destruct b as [|y b]; cbn [list_eqb]; split; intro H; try reflexivity; try discriminate.
  - apply andb_true_iff in H. destruct H as [H1 H2]. apply Nat.eqb_eq in H1. apply IH in H2. subst. reflexivity.
  - inversion H; subst. rewrite Nat.eqb_refl. cbn. apply IH. reflexivity.
Qed.

Lemma pos_eqb_true : forall a b, pos_eqb a b = true <-> a = b.
Proof. exact list_eqb_nat_true. Qed.
Lemma pos_eq_true : forall a b, pos_eq a b = true <-> a = b.
Proof. exact list_eqb_nat_true. Qed.
Lemma pos_eqb_refl : forall a, pos_eqb a a = true.
Proof. intro a. apply pos_eqb_true. reflexivity. Qed.
Lemma pos_eq_refl : forall a, pos_eq a a = true.
Proof. intro a. apply pos_eq_true. reflexivity. Qed.
Lemma pos_eqb_false : forall a b, pos_eqb a b = false <-> a <> b.
Proof.
  intros a b. split.
  - intros H E. apply pos_eqb_true in E. congruence.
  - intro H. destruct (pos_eqb a b) eqn:E; [apply pos_eqb_true in E; contradiction | reflexivity].
Qed.
Lemma pos_eq_false : forall a b, pos_eq a b = false <-> a <> b.
Proof. exact pos_eqb_false. Qed.

Lemma lpos_eq_refl : forall l, lpos_eq l l = true.
Proof.
  induction l as [|a l IH]; [reflexivity|]. unfold lpos_eq in *. cbn [list_eqb].
  rewrite pos_eq_refl, IH. reflexivity.
Qed.
Lemma lpos_eq_true : forall a b, lpos_eq a b = true <-> a = b.
Proof.
  unfold lpos_eq. induction a as [|x a IH]; destruct b as [|y b]; cbn [list_eqb]; split; intro H;
    try reflexivity; try discriminate.
  - apply andb_true_iff in H. destruct H as [H1 H2]. apply pos_eq_true in H1. apply IH in H2. subst. reflexivity.
  - inversion H; subst. rewrite pos_eq_refl. cbn. apply IH. reflexivity.
Qed.
Lemma opos_eq_refl : forall o, opos_eq o o = true.
Proof. intros [a|]; [apply pos_eq_refl | reflexivity]. Qed.

(* ============================================================================================== *)
(* B. upward queries: explicit forms                                                                *)

(* the prefixes of p with the given lengths *)
Definition prefixes_at (p : pos) (ks : list nat) : list pos := map (fun k => firstn k p) ks.

Lemma node_parent_app : forall q i, node_parent (q ++ [i]) = Some q.
Proof.
  intros q i. unfold node_parent. destruct (q ++ [i]) eqn:E.
  - destruct q; discriminate.
  - rewrite <- E. rewrite removelast_last. reflexivity.
Qed.

Lemma node_parent_firstn : forall p k, k < length p -> node_parent (firstn (S k) p) = Some (firstn k p).
Proof.
  intros p k Hk. unfold node_parent.
  destruct (firstn (S k) p) eqn:E.
  - destruct p; cbn in *; [lia | discriminate].
  - rewrite <- E. rewrite removelast_firstn by exact Hk. reflexivity.
Qed.

Lemma node_parent_nil : node_parent [] = None.
Proof. reflexivity. Qed.

Lemma rev_seq_S : forall k, rev (seq 0 (S k)) = k :: rev (seq 0 k).
Proof. intro k. rewrite seq_S, rev_app_distr. reflexivity. Qed.

Lemma ancestors_f_firstn : forall p k fuel, k <= length p -> k < fuel ->
  ancestors_f fuel (firstn k p) = prefixes_at p (rev (seq 0 k)).
Proof.
  intros p k. induction k as [|k IH]; intros fuel Hk Hf.
  - destruct fuel; [lia|]. reflexivity.
  - destruct fuel as [|f]; [lia|]. cbn [ancestors_f].
    rewrite node_parent_firstn by lia. rewrite IH by lia.
    rewrite rev_seq_S. reflexivity.
Qed.

Lemma node_ancestors_eq : forall p, node_ancestors p = prefixes_at p (rev (seq 0 (length p))).
Proof.
  intro p. unfold node_ancestors. rewrite <- (firstn_all p) at 2.
  apply ancestors_f_firstn; lia.
Qed.

Lemma node_ancestors_length : forall p, length (node_ancestors p) = length p.
Proof. intro p. rewrite node_ancestors_eq. unfold prefixes_at. rewrite map_length, rev_length, seq_length. reflexivity. Qed.

Lemma depth_f_firstn : forall p k fuel, k <= length p -> k < fuel -> depth_f fuel (firstn k p) = S k.
Proof.
  intros p k. induction k as [|k IH]; intros fuel Hk Hf.
  - destruct fuel; [lia|]. reflexivity.
  - destruct fuel as [|f]; [lia|]. cbn [depth_f]. rewrite node_parent_firstn by lia. rewrite IH by lia. lia.
Qed.

Lemma node_depth_eq : forall p, node_depth p = S (length p).
Proof. intro p. unfold node_depth. rewrite <- (firstn_all p) at 2. apply depth_f_firstn; lia. Qed.

Lemma node_depth_ancestors : forall p, node_depth p = 1 + length (node_ancestors p).
Proof. intro p. rewrite node_depth_eq, node_ancestors_length. reflexivity. Qed.

Lemma root_f_firstn : forall p k fuel, k <= length p -> k < fuel -> root_f fuel (firstn k p) = [].
Proof.
  intros p k. induction k as [|k IH]; intros fuel Hk Hf.
  - destruct fuel; [lia|]. reflexivity.
  - destruct fuel as [|f]; [lia|]. cbn [root_f]. rewrite node_parent_firstn by lia. apply IH; lia.
Qed.

Lemma node_root_eq : forall p, node_root p = [].
Proof. intro p. unfold node_root. rewrite <- (firstn_all p) at 2. apply root_f_firstn; lia. Qed.

Lemma node_path_f_firstn : forall p k fuel, k <= length p -> k < fuel ->
  node_path_f fuel (firstn k p) = prefixes_at p (seq 0 (S k)).
Proof.
  intros p k. induction k as [|k IH]; intros fuel Hk Hf.
  - destruct fuel; [lia|]. reflexivity.
  - destruct fuel as [|f]; [lia|]. cbn [node_path_f]. rewrite node_parent_firstn by lia. rewrite IH by lia.
    rewrite (seq_S (S k) 0). unfold prefixes_at. rewrite map_app. reflexivity.
Qed.

Lemma node_path_eq : forall p, node_path p = prefixes_at p (seq 0 (S (length p))).
Proof. intro p. unfold node_path. rewrite <- (firstn_all p) at 2. apply node_path_f_firstn; lia. Qed.

Lemma node_path_rev_ancestors : forall p, node_path p = rev (p :: node_ancestors p).
Proof.
  intro p. rewrite node_path_eq, node_ancestors_eq. unfold prefixes_at.
  cbn [rev]. rewrite map_rev, rev_involutive. rewrite seq_S, map_app. cbn [map Nat.add]. rewrite firstn_all. reflexivity.
Qed.

Lemma node_is_root_iff : forall p, node_is_root p = true <-> p = [].
Proof. intro p. destruct p; cbn; split; intro H; congruence. Qed.

Lemma node_is_root_no_ancestors : forall p, node_is_root p = Nat.eqb (length (node_ancestors p)) 0.
Proof. intro p. rewrite node_ancestors_length. destruct p; reflexivity. Qed.

(* the root is the last ancestor (or the node itself) *)
Lemma node_root_last : forall p, last (p :: node_ancestors p) [] = node_root p.
Proof.
  intro p. rewrite node_root_eq.
  rewrite <- (rev_involutive (p :: node_ancestors p)), <- node_path_rev_ancestors, node_path_eq.
  cbn [seq prefixes_at map firstn rev]. apply last_last.
Qed.

(* ============================================================================================== *)
(* C. positions                                                                                     *)

Fixpoint pos_go (i : nat) (l : list tree) : list pos :=
  match l with
  | [] => []
  | k :: r => map (cons i) (positions k) ++ pos_go (S i) r
  end.

Lemma positions_eq : forall g n a ks, positions (T g n a ks) = [] :: pos_go 0 ks.
Proof. reflexivity. Qed.

Lemma positions_hd : forall t, positions t = [] :: tl (positions t).
Proof. intros [g n a ks]. reflexivity. Qed.

Lemma pos_go_cons : forall l i q, In q (pos_go i l) -> exists j q', q = j :: q'.
Proof.
  induction l as [|k l IH]; intros i q H; cbn [pos_go] in H; [contradiction|].
  apply in_app_or in H. destruct H as [H|H].
  - apply in_map_iff in H. destruct H as [q' [E _]]. eauto.
  - eapply IH; eauto.
Qed.

Lemma positions_tl_nonnil : forall t q, In q (tl (positions t)) -> q <> [].
Proof.
  intros [g n a ks] q H. rewrite positions_eq in H. cbn [tl] in H.
  apply pos_go_cons in H. destruct H as [j [q' E]]. subst. discriminate.
Qed.

Lemma In_pos_go : forall l i j q, In (j :: q) (pos_go i l) <->
  exists k, i <= j /\ nth_error l (j - i) = Some k /\ In q (positions k).
Proof.
  induction l as [|k l IH]; intros i j q; cbn [pos_go].
  - split; [contradiction|]. intros [k [_ [H _]]]. destruct (j - i); discriminate.
  - rewrite in_app_iff, in_map_iff, IH. split.
    + intros [[q' [E H]]|[k' [Hle [Hn H]]]].
      * inversion E; subst. exists k. rewrite Nat.sub_diag. auto.
      * exists k'. split; [lia|]. replace (j - i) with (S (j - S i)) by lia. auto.
    + intros [k' [Hle [Hn H]]]. destruct (Nat.eq_dec i j) as [E|NE].
      * subst. rewrite Nat.sub_diag in Hn. inversion Hn; subst. left. eauto.
      * right. exists k'. split; [lia|]. replace (j - i) with (S (j - S i)) in Hn by lia. auto.
Qed.

Lemma In_positions : forall q t, In q (positions t) <-> exists s, subtree_at t q = Some s.
Proof.
  induction q as [|j q IH]; intros [g n a ks].
  - split; [intros _; eexists; reflexivity | intros _; left; reflexivity].
  - rewrite positions_eq. cbn [In subtree_at tkids]. split.
    + intros [H|H]; [discriminate|]. apply In_pos_go in H. destruct H as [k [_ [Hn H]]].
      rewrite Nat.sub_0_r in Hn. rewrite Hn. apply IH. exact H.
    + intros [s H]. right. apply In_pos_go. destruct (nth_error ks j) as [k|] eqn:Hn; [|discriminate].
      exists k. rewrite Nat.sub_0_r. split; [lia|]. split; [exact Hn|]. apply IH. eauto.
Qed.

Lemma valid_In_positions : forall t q, valid t q = true <-> In q (positions t).
Proof.
  intros t q. rewrite In_positions. unfold valid. destruct (subtree_at t q); split; intro H; eauto; try discriminate.
  destruct H as [s H]. discriminate.
Qed.

Lemma subtree_at_app : forall a t b,
  subtree_at t (a ++ b) = match subtree_at t a with Some s => subtree_at s b | None => None end.
Proof.
  induction a as [|i a IH]; intros t b; [reflexivity|].
  cbn [app subtree_at]. destruct (nth_error (tkids t) i); [apply IH | reflexivity].
Qed.

(* filtering the positions with a predicate that fixes the first child index *)
Section FilterPos.
  Variables (F G : pos -> bool) (i : nat).
  Hypothesis HF : forall j a, F (j :: a) = Nat.eqb j i && G a.

  Lemma filter_cons_block : forall j xs,
    filter F (map (cons j) xs) = if Nat.eqb j i then map (cons i) (filter G xs) else [].
  Proof.
    intros j xs. induction xs as [|x xs IHx].
    - cbn. destruct (Nat.eqb j i); reflexivity.
    - cbn [map filter]. rewrite HF, IHx. destruct (Nat.eqb j i) eqn:E; cbn [andb]; [|reflexivity].
      apply Nat.eqb_eq in E. subst j. destruct (G x); reflexivity.
  Qed.

  Lemma filter_pos_go_later : forall l o, i < o -> filter F (pos_go o l) = [].
  Proof.
    induction l as [|k l IH]; intros o Ho; [reflexivity|]. cbn [pos_go].
    rewrite filter_app, IH by lia. rewrite filter_cons_block.
    replace (Nat.eqb o i) with false by (symmetry; apply Nat.eqb_neq; lia). reflexivity.
  Qed.

  Lemma filter_pos_go : forall l o, o <= i ->
    filter F (pos_go o l) =
    match nth_error l (i - o) with Some k => map (cons i) (filter G (positions k)) | None => [] end.
  Proof.
    induction l as [|k l IH]; intros o Ho; cbn [pos_go].
    - destruct (i - o); reflexivity.
    - rewrite filter_app, filter_cons_block. destruct (Nat.eq_dec o i) as [E|NE].
      + subst o. rewrite Nat.eqb_refl, Nat.sub_diag. cbn [nth_error].
        rewrite filter_pos_go_later by lia. apply app_nil_r.
      + replace (Nat.eqb o i) with false by (symmetry; apply Nat.eqb_neq; lia). cbn [app].
        rewrite IH by lia. replace (i - o) with (S (i - S o)) by lia. reflexivity.
  Qed.
End FilterPos.

Lemma filter_none : forall {A} (f : A -> bool) l, (forall x, In x l -> f x = false) -> filter f l = [].
Proof.
  intros A f l. induction l as [|x l IH]; intro H; [reflexivity|]. cbn [filter].
  rewrite (H x) by (left; reflexivity). apply IH. intros y Hy. apply H. right. exact Hy.
Qed.

Lemma filter_all : forall {A} (f : A -> bool) l, (forall x, In x l -> f x = true) -> filter f l = l.
Proof.
  intros A f l. induction l as [|x l IH]; intro H; [reflexivity|]. cbn [filter].
  rewrite (H x) by (left; reflexivity). f_equal. apply IH. intros y Hy. apply H. right. exact Hy.
Qed.

Lemma filter_filter : forall {A} (f g : A -> bool) l, filter f (filter g l) = filter (fun x => g x && f x) l.
Proof.
  intros A f g l. induction l as [|x l IH]; [reflexivity|]. cbn [filter].
  destruct (g x); cbn [andb filter]; rewrite IH; reflexivity.
Qed.

Lemma filter_map_comm : forall {A B} (f : B -> bool) (g : A -> B) l, filter f (map g l) = map g (filter (fun x => f (g x)) l).
Proof.
  intros A B f g l. induction l as [|x l IH]; [reflexivity|]. cbn [map filter].
  destruct (f (g x)); cbn [map]; rewrite IH; reflexivity.
Qed.

Lemma valid_cons : forall g n a ks i p, valid (T g n a ks) (i :: p) = true ->
  exists k, nth_error ks i = Some k /\ valid k p = true.
Proof.
  intros g n a ks i p H. unfold valid in *. cbn [subtree_at tkids] in H.
  destruct (nth_error ks i) as [k|]; [|discriminate]. eauto.
Qed.

(* K2: the nodes on the route from the root to p, in document order, are the prefixes of p *)
Lemma filter_prefix_of : forall p t, valid t p = true ->
  filter (fun a => is_prefix a p) (positions t) = prefixes_at p (seq 0 (S (length p))).
Proof.
  induction p as [|i p IH]; intros [g n a ks] Hv; rewrite positions_eq.
  - cbn [filter is_prefix]. cbn. f_equal. apply filter_none.
    intros x Hx. apply pos_go_cons in Hx. destruct Hx as [j [q E]]. subst. reflexivity.
  - apply valid_cons in Hv. destruct Hv as [k [Hn Hk]].
    cbn [filter is_prefix].
    rewrite (filter_pos_go (fun a => is_prefix a (i :: p)) (fun a => is_prefix a p) i) by (intros; reflexivity || lia).
    rewrite Nat.sub_0_r, Hn. rewrite IH by exact Hk.
    cbn [length]. change (seq 0 (S (S (length p)))) with (0 :: seq 1 (S (length p))).
    rewrite <- seq_shift. unfold prefixes_at. cbn [map firstn]. f_equal. rewrite !map_map. reflexivity.
Qed.

(* K1: the nodes below-or-at p, in document order, are p ++ the positions of the subtree at p *)
Lemma filter_prefixed_by : forall p t s, subtree_at t p = Some s ->
  filter (is_prefix p) (positions t) = map (app p) (positions s).
Proof.
  induction p as [|i p IH]; intros [g n a ks] s Hs.
  - cbn in Hs. inversion Hs; subst. rewrite filter_all by reflexivity.
    cbn [app]. rewrite map_id. reflexivity.
  - rewrite positions_eq. cbn [filter is_prefix].
    cbn [subtree_at tkids] in Hs. destruct (nth_error ks i) as [k|] eqn:Hn; [|discriminate].
    rewrite (filter_pos_go (is_prefix (i :: p)) (is_prefix p) i).
    + rewrite Nat.sub_0_r, Hn. rewrite (IH k s Hs). rewrite map_map. reflexivity.
    + intros j b. cbn [is_prefix]. rewrite Nat.eqb_sym. reflexivity.
    + lia.
Qed.

(* ============================================================================================== *)
(* D. downward queries                                                                              *)

Definition pre_go (p : pos) :=
  fix go (i : nat) (l : list tree) : list (pos * tree) :=
    match l with
    | [] => []
    | k :: r => preorder_at (p ++ [i]) k ++ go (S i) r
    end.

Lemma pre_go_cons : forall p i k r, pre_go p i (k :: r) = preorder_at (p ++ [i]) k ++ pre_go p (S i) r.
Proof. reflexivity. Qed.

Lemma preorder_at_unfold : forall p g n a ks,
  preorder_at p (T g n a ks) = (p, T g n a ks) :: pre_go p 0 ks.
Proof. reflexivity. Qed.

Definition sub_or (s : tree) (q : pos) : tree :=
  match subtree_at s q with Some u => u | None => s end.

Lemma preorder_at_spec : forall s p,
  preorder_at p s = map (fun q => (p ++ q, sub_or s q)) (positions s).
Proof.
  induction s as [g n a ks IH] using tree_ind'. intro p.
  rewrite preorder_at_unfold, positions_eq. cbn [map]. rewrite app_nil_r. unfold sub_or at 1. cbn [subtree_at].
  f_equal.
  assert (Hgo : forall l o, (forall j, nth_error ks (o + j) = nth_error l j) ->
                Forall (fun k => forall p, preorder_at p k = map (fun q => (p ++ q, sub_or k q)) (positions k)) l ->
                pre_go p o l = map (fun q => (p ++ q, sub_or (T g n a ks) q)) (pos_go o l)).
  { induction l as [|k l IHl]; intros o Hnth HF; [reflexivity|].
    inversion HF as [|? ? Hk Hl]; subst. rewrite pre_go_cons. cbn [pos_go]. rewrite map_app, map_map.
    rewrite Hk. rewrite IHl.
    - f_equal. apply map_ext_in. intros q Hq. rewrite <- app_assoc. cbn [app]. f_equal.
      unfold sub_or. cbn [subtree_at tkids]. specialize (Hnth 0). rewrite Nat.add_0_r in Hnth. cbn in Hnth.
      rewrite Hnth. apply In_positions in Hq. destruct Hq as [u Hu]. rewrite Hu. reflexivity.
    - intro j. specialize (Hnth (S j)). rewrite Nat.add_succ_r in Hnth. exact Hnth.
    - exact Hl. }
  apply Hgo; [intro j; reflexivity | exact IH].
Qed.

Lemma node_descendants_eq : forall t p s, subtree_at t p = Some s ->
  node_descendants t p = map (app p) (tl (positions s)).
Proof.
  intros t p s Hs. unfold node_descendants, preorder_iter. rewrite Hs, preorder_at_spec.
  rewrite filter_map_comm, map_map. cbn [fst].
  rewrite (positions_hd s) at 1. cbn [filter]. rewrite app_nil_r, pos_eqb_refl. cbn [negb].
  rewrite filter_all; [reflexivity|].
  intros q Hq. apply positions_tl_nonnil in Hq. apply negb_true_iff. apply pos_eqb_false.
  intro E. apply Hq. rewrite <- (app_nil_r p) in E at 2. apply app_inv_head in E. exact E.
Qed.

Lemma node_leaves_eq : forall t p s, subtree_at t p = Some s ->
  node_leaves t p = map (app p) (filter (fun q => sub_is_leaf (sub_or s q)) (positions s)).
Proof.
  intros t p s Hs. unfold node_leaves, preorder_iter. rewrite Hs, preorder_at_spec.
  rewrite filter_map_comm, map_map. reflexivity.
Qed.

Lemma node_is_leaf_eq : forall t p s, subtree_at t p = Some s -> node_is_leaf t p = sub_is_leaf s.
Proof.
  intros t p s Hs. unfold node_is_leaf, node_children, node_arity, sub_is_leaf. rewrite Hs, map_length, seq_length.
  reflexivity.
Qed.

(* max_depth is the number of nodes on the longest route from the root of the WHOLE tree *)
Lemma node_max_depth_eq : forall t p, node_max_depth t p = spec_max_depth t.
Proof.
  intros t p. unfold node_max_depth, spec_max_depth. rewrite node_root_eq.
  rewrite (node_descendants_eq t [] t) by reflexivity.
  rewrite (positions_hd t) at 2. cbn [map]. rewrite node_depth_eq. cbn [length].
  f_equal. f_equal. rewrite map_map. apply map_ext. intro q. apply node_depth_eq.
Qed.

(* ============================================================================================== *)
(* E. siblings                                                                                      *)

Definition child_of (q : pos) (j : nat) : pos := q ++ [j].

Lemma node_children_eq : forall t q, node_children t q = map (child_of q) (seq 0 (node_arity t q)).
Proof. reflexivity. Qed.

Lemma child_of_inj : forall q i j, child_of q i = child_of q j -> i = j.
Proof. unfold child_of. intros q i j H. apply app_inv_head in H. congruence. Qed.

Lemma pos_eqb_child : forall q i j, pos_eqb (child_of q j) (child_of q i) = Nat.eqb j i.
Proof.
  intros q i j. destruct (Nat.eqb j i) eqn:E.
  - apply Nat.eqb_eq in E. subst. apply pos_eqb_refl.
  - apply pos_eqb_false. intro H. apply child_of_inj in H. apply Nat.eqb_neq in E. contradiction.
Qed.

Lemma valid_child : forall t q i, valid t (q ++ [i]) = true <-> i < node_arity t q.
Proof.
  intros t q i. unfold valid, node_arity. rewrite subtree_at_app. destruct (subtree_at t q) as [s|].
  - cbn [subtree_at]. destruct (nth_error (tkids s) i) eqn:E.
    + split; [|reflexivity]. intros _. apply nth_error_Some. congruence.
    + split; [discriminate|]. intro H. apply nth_error_None in E. lia.
  - split; [discriminate | lia].
Qed.

Lemma node_siblings_eq : forall t q i,
  node_siblings t (q ++ [i]) = map (child_of q) (filter (fun j => negb (Nat.eqb j i)) (seq 0 (node_arity t q))).
Proof.
  intros t q i. unfold node_siblings. rewrite node_parent_app, node_children_eq, filter_map_comm.
  f_equal. apply filter_ext. intro j. fold (child_of q i). rewrite pos_eqb_child. reflexivity.
Qed.

Lemma node_siblings_root : forall t, node_siblings t [] = [].
Proof. reflexivity. Qed.

Lemma index_pos_children : forall q i n a, a <= i -> i < a + n ->
  index_pos (child_of q i) (map (child_of q) (seq a n)) = i - a.
Proof.
  intros q i n. induction n as [|n IH]; intros a Ha Hi; [lia|].
  cbn [seq map index_pos]. rewrite pos_eqb_child. destruct (Nat.eqb i a) eqn:E.
  - apply Nat.eqb_eq in E. lia.
  - apply Nat.eqb_neq in E. rewrite IH by lia. lia.
Qed.

Lemma nth_error_children : forall q n k, k < n -> nth_error (map (child_of q) (seq 0 n)) k = Some (child_of q k).
Proof.
  intros q n k Hk. rewrite nth_error_map. rewrite nth_error_nth' with (d := 0) by (rewrite seq_length; exact Hk).
  rewrite seq_nth by exact Hk. reflexivity.
Qed.

Lemma node_left_sibling_eq : forall t q i, valid t (q ++ [i]) = true ->
  node_left_sibling t (q ++ [i]) = match i with 0 => None | S j => Some (q ++ [j]) end.
Proof.
  intros t q i Hv. apply valid_child in Hv. unfold node_left_sibling. rewrite node_parent_app, node_children_eq.
  fold (child_of q i). rewrite index_pos_children by lia. rewrite Nat.sub_0_r.
  destruct i as [|j]; [reflexivity|]. cbn [Nat.eqb]. rewrite nth_error_children by lia.
  replace (S j - 1) with j by lia. reflexivity.
Qed.

Lemma node_right_sibling_eq : forall t q i, valid t (q ++ [i]) = true ->
  node_right_sibling t (q ++ [i]) = if valid t (q ++ [S i]) then Some (q ++ [S i]) else None.
Proof.
  intros t q i Hv. apply valid_child in Hv. unfold node_right_sibling. rewrite node_parent_app, node_children_eq.
  fold (child_of q i). rewrite index_pos_children by lia. rewrite Nat.sub_0_r, map_length, seq_length.
  destruct (Nat.ltb (i + 1) (node_arity t q)) eqn:E.
  - apply Nat.ltb_lt in E. rewrite nth_error_children by lia.
    replace (valid t (q ++ [S i])) with true by (symmetry; apply valid_child; lia).
    replace (i + 1) with (S i) by lia. reflexivity.
  - apply Nat.ltb_ge in E. destruct (valid t (q ++ [S i])) eqn:V; [|reflexivity].
    apply valid_child in V. lia.
Qed.

Lemma node_left_sibling_root : forall t, node_left_sibling t [] = None.
Proof. reflexivity. Qed.
Lemma node_right_sibling_root : forall t, node_right_sibling t [] = None.
Proof. reflexivity. Qed.

(* ============================================================================================== *)
(* F. diameter                                                                                      *)

(* F.1  the sum of the two largest entries *)

Definition top2 (l : list nat) : nat := list_sum (nlargest 2 l).

(* x and y are entries of l at two different places (x first) *)
Inductive two_of : list nat -> nat -> nat -> Prop :=
| two_here : forall x y r, In y r -> two_of (x :: r) x y
| two_there : forall z r x y, two_of r x y -> two_of (z :: r) x y.

Lemma two_of_In : forall l x y, two_of l x y -> In x l /\ In y l.
Proof.
  intros l x y H. induction H as [x y r Hy | z r x y H [IH1 IH2]].
  - split; [left; reflexivity | right; exact Hy].
  - split; right; assumption.
Qed.

Lemma two_of_nth : forall l i j x y, i < j -> nth_error l i = Some x -> nth_error l j = Some y -> two_of l x y.
Proof.
  induction l as [|z l IH]; intros i j x y Hij Hi Hj.
  - destruct i; discriminate.
  - destruct j as [|j]; [lia|]. cbn [nth_error] in Hj. destruct i as [|i].
    + cbn in Hi. inversion Hi; subst. apply two_here. eapply nth_error_In; eauto.
    + cbn [nth_error] in Hi. apply two_there. apply (IH i j); [lia | assumption | assumption].
Qed.

Lemma nth_two_of : forall l x y, two_of l x y ->
  exists i j, i < j /\ nth_error l i = Some x /\ nth_error l j = Some y.
Proof.
  intros l x y H. induction H as [x y r Hy | z r x y H [i [j [Hij [Hi Hj]]]]].
  - apply In_nth_error in Hy. destruct Hy as [j Hj]. exists 0, (S j). split; [lia|]. split; [reflexivity | exact Hj].
  - exists (S i), (S j). split; [lia|]. split; assumption.
Qed.

Lemma firstn2_insert : forall x s, firstn 2 (insert_desc x s) = firstn 2 (insert_desc x (firstn 2 s)).
Proof.
  intros x [|a [|b r]]; [reflexivity | reflexivity |].
  cbn [firstn insert_desc]. destruct (Nat.leb a x); [reflexivity|].
  cbn [firstn]. destruct (Nat.leb b x); reflexivity.
Qed.

Definition top2_inv (l f : list nat) : Prop :=
  match f with
  | [] => l = []
  | [a] => l = [a]
  | [a; b] => b <= a /\ (forall x, In x l -> x <= a) /\ (forall x y, two_of l x y -> x + y <= a + b)
              /\ (two_of l a b \/ two_of l b a)
  | _ => False
  end.

Lemma top2_inv_sort : forall l, top2_inv l (firstn 2 (sort_desc l)).
Proof.
  induction l as [|x l IH]; [reflexivity|].
  cbn [sort_desc fold_right]. fold (sort_desc l). rewrite firstn2_insert.
  destruct (firstn 2 (sort_desc l)) as [|a [|b [|c r]]]; cbn [top2_inv] in IH.
  - subst l. reflexivity.
  - subst l. cbn [insert_desc]. destruct (Nat.leb a x) eqn:E; cbn [firstn top2_inv].
    + apply Nat.leb_le in E. split; [exact E|]. split.
      * intros u [Hu|[Hu|[]]]; lia.
      * split.
        -- intros u v H. inversion H as [? ? ? Hv | ? ? ? ? H']; subst.
           ++ destruct Hv as [Hv|[]]. lia.
           ++ inversion H' as [? ? ? Hv | ? ? ? ? H'']; subst; [destruct Hv | inversion H''].
        -- left. apply two_here. left. reflexivity.
    + apply Nat.leb_gt in E. split; [lia|]. split.
      * intros u [Hu|[Hu|[]]]; lia.
      * split.
        -- intros u v H. inversion H as [? ? ? Hv | ? ? ? ? H']; subst.
           ++ destruct Hv as [Hv|[]]. lia.
           ++ inversion H' as [? ? ? Hv | ? ? ? ? H'']; subst; [destruct Hv | inversion H''].
        -- right. apply two_here. left. reflexivity.
  - destruct IH as [Hba [Hmax [Hpair Hatt]]].
    assert (Ha : In a l) by (destruct Hatt as [H|H]; apply two_of_In in H; tauto).
    assert (Hb : In b l) by (destruct Hatt as [H|H]; apply two_of_In in H; tauto).
    cbn [insert_desc]. destruct (Nat.leb a x) eqn:E; cbn [firstn top2_inv].
    + apply Nat.leb_le in E. split; [exact E|]. split.
      * intros u [Hu|Hu]; [lia|]. apply Hmax in Hu. lia.
      * split.
        -- intros u v H. inversion H as [? ? ? Hv | ? ? ? ? H']; subst.
           ++ apply Hmax in Hv. lia.
           ++ apply Hpair in H'. lia.
        -- left. apply two_here. exact Ha.
    + apply Nat.leb_gt in E. destruct (Nat.leb b x) eqn:E2; cbn [firstn top2_inv].
      * apply Nat.leb_le in E2. split; [lia|]. split.
        -- intros u [Hu|Hu]; [lia|]. apply Hmax in Hu. lia.
        -- split.
           ++ intros u v H. inversion H as [? ? ? Hv | ? ? ? ? H']; subst.
              ** apply Hmax in Hv. lia.
              ** apply Hpair in H'. lia.
           ++ right. apply two_here. exact Ha.
      * apply Nat.leb_gt in E2. split; [lia|]. split.
        -- intros u [Hu|Hu]; [lia|]. apply Hmax in Hu. lia.
        -- split.
           ++ intros u v H. inversion H as [? ? ? Hv | ? ? ? ? H']; subst.
              ** apply Hmax in Hv. lia.
              ** apply Hpair in H'. lia.
           ++ destruct Hatt as [H|H]; [left | right]; apply two_there; exact H.
  - contradiction.
Qed.

Lemma top2_single : forall l x, In x l -> x <= top2 l.
Proof.
  intros l x Hx. unfold top2, nlargest. pose proof (top2_inv_sort l) as H.
  destruct (firstn 2 (sort_desc l)) as [|a [|b [|c r]]]; cbn [top2_inv] in H.
  - subst. destruct Hx.
  - subst. destruct Hx as [Hx|[]]. subst. cbn. lia.
  - destruct H as [_ [Hmax _]]. apply Hmax in Hx. cbn. lia.
  - contradiction.
Qed.

Lemma top2_pair : forall l x y, two_of l x y -> x + y <= top2 l.
Proof.
  intros l x y Hxy. unfold top2, nlargest. pose proof (top2_inv_sort l) as H.
  destruct (firstn 2 (sort_desc l)) as [|a [|b [|c r]]]; cbn [top2_inv] in H.
  - subst. inversion Hxy.
  - subst. inversion Hxy as [? ? ? Hv | ? ? ? ? H']; subst; [destruct Hv | inversion H'].
  - destruct H as [_ [_ [Hpair _]]]. apply Hpair in Hxy. cbn. lia.
  - contradiction.
Qed.

Lemma top2_attained : forall l,
  (l = [] /\ top2 l = 0) \/ (exists a, l = [a] /\ top2 l = a) \/ (exists x y, two_of l x y /\ top2 l = x + y).
Proof.
  intro l. unfold top2, nlargest. pose proof (top2_inv_sort l) as H.
  destruct (firstn 2 (sort_desc l)) as [|a [|b [|c r]]]; cbn [top2_inv] in H.
  - left. split; [exact H | reflexivity].
  - right. left. exists a. split; [exact H | cbn; lia].
  - right. right. destruct H as [_ [_ [_ [H|H]]]].
    + exists a, b. split; [exact H | cbn; lia].
    + exists b, a. split; [exact H | cbn; lia].
  - contradiction.
Qed.

(* F.2  maxima over the children *)

Definition fmax {A} (f : A -> nat) (l : list A) : nat := fold_right (fun k a => Nat.max (f k) a) 0 l.

Lemma fmax_ge : forall {A} (f : A -> nat) l k, In k l -> f k <= fmax f l.
Proof.
  intros A f l k. induction l as [|x l IH]; intro H; [destruct H|]. cbn [fmax fold_right]. fold (fmax f l).
  destruct H as [H|H]; [subst; lia | apply IH in H; lia].
Qed.

Lemma fmax_attained : forall {A} (f : A -> nat) l, l <> [] ->
  exists i k, nth_error l i = Some k /\ f k = fmax f l.
Proof.
  intros A f l. induction l as [|x l IH]; intro H; [congruence|]. cbn [fmax fold_right]. fold (fmax f l).
  destruct l as [|y l].
  - exists 0, x. split; [reflexivity | cbn; lia].
  - destruct IH as [i [k [Hi Hk]]]; [discriminate|].
    destruct (Nat.max_spec (f x) (fmax f (y :: l))) as [[Hlt E]|[Hle E]]; rewrite E.
    + exists (S i), k. split; assumption.
    + exists 0, x. split; reflexivity.
Qed.

Lemma list_max_map : forall {A} (f : A -> nat) l, list_max (map f l) = fmax f l.
Proof. intros A f l. unfold list_max, fmax. induction l as [|x l IH]; [reflexivity|]. cbn [map fold_right]. rewrite IH. reflexivity. Qed.

Lemma height_unfold : forall g n a ks, height (T g n a ks) = S (fmax height ks).
Proof. reflexivity. Qed.

Lemma In_positions_cons : forall g n a ks i q,
  In (i :: q) (positions (T g n a ks)) <-> exists k, nth_error ks i = Some k /\ In q (positions k).
Proof.
  intros g n a ks i q. rewrite positions_eq. cbn [In]. rewrite In_pos_go, Nat.sub_0_r. split.
  - intros [H|[k [_ H]]]; [discriminate | eauto].
  - intros [k H]. right. exists k. split; [lia | exact H].
Qed.

Lemma height_upper : forall s q, In q (positions s) -> S (length q) <= height s.
Proof.
  induction s as [g n a ks IH] using tree_ind'. intros [|i q] H; rewrite height_unfold; cbn [length]; [lia|].
  apply In_positions_cons in H. destruct H as [k [Hn Hq]].
  apply nth_error_In in Hn. rewrite Forall_forall in IH. specialize (IH k Hn q Hq).
  pose proof (fmax_ge height ks k Hn). lia.
Qed.

Lemma height_attained : forall s, exists q, In q (positions s) /\ S (length q) = height s.
Proof.
  induction s as [g n a ks IH] using tree_ind'. rewrite height_unfold. destruct ks as [|k0 ks'].
  - exists []. split; [left; reflexivity | reflexivity].
  - destruct (fmax_attained height (k0 :: ks')) as [i [k [Hi Hk]]]; [discriminate|].
    rewrite Forall_forall in IH. destruct (IH k (nth_error_In _ _ Hi)) as [q [Hq Hl]].
    exists (i :: q). split; [apply In_positions_cons; eauto | cbn [length]; lia].
Qed.

(* F.3  the value the accumulator ends with, as a function of the tree *)

Fixpoint diam (s : tree) : nat :=
  match s with
  | T _ _ _ ks =>
      match ks with
      | [] => 0
      | _ :: _ => Nat.max (fold_right (fun k a => Nat.max (diam k) a) 0 ks) (top2 (map height ks))
      end
  end.

Lemma diam_unfold : forall g n a ks, ks <> [] ->
  diam (T g n a ks) = Nat.max (fmax diam ks) (top2 (map height ks)).
Proof. intros g n a [|k ks] H; [congruence | reflexivity]. Qed.

Definition rd_go :=
  fix go (l : list tree) (d : nat) : list nat * nat :=
    match l with
    | [] => ([], d)
    | k :: r => let '(x, d1) := recursive_diameter k d in
                let '(xs, d2) := go r d1 in (x :: xs, d2)
    end.

Lemma recursive_diameter_unfold : forall g n a k ks d,
  recursive_diameter (T g n a (k :: ks)) d =
  let '(child_length, d1) := rd_go (k :: ks) d in
  (1 + list_max child_length, Nat.max d1 (list_sum (nlargest 2 child_length))).
Proof. reflexivity. Qed.

Lemma rd_go_cons : forall k r d,
  rd_go (k :: r) d = let '(x, d1) := recursive_diameter k d in let '(xs, d2) := rd_go r d1 in (x :: xs, d2).
Proof. reflexivity. Qed.

Lemma rd_go_spec : forall l,
  Forall (fun k => forall d, recursive_diameter k d = (height k, Nat.max d (diam k))) l ->
  forall d, rd_go l d = (map height l, Nat.max d (fmax diam l)).
Proof.
  induction l as [|k l IH]; intros HF d.
  - cbn. rewrite Nat.max_0_r. reflexivity.
  - inversion HF as [|? ? Hk Hl]; subst. rewrite rd_go_cons, Hk, (IH Hl).
    cbn [map fmax fold_right]. fold (fmax diam l). rewrite Nat.max_assoc. reflexivity.
Qed.

Lemma recursive_diameter_spec : forall s d, recursive_diameter s d = (height s, Nat.max d (diam s)).
Proof.
  induction s as [g n a ks IH] using tree_ind'. intro d. destruct ks as [|k ks].
  - cbn. rewrite Nat.max_0_r. reflexivity.
  - rewrite recursive_diameter_unfold, (rd_go_spec _ IH). rewrite list_max_map.
    rewrite height_unfold, diam_unfold by discriminate. unfold top2. rewrite Nat.max_assoc. reflexivity.
Qed.

Lemma sub_diameter_eq : forall s, sub_diameter s = diam s.
Proof.
  intros [g n a ks]. unfold sub_diameter. destruct ks as [|k ks]; [reflexivity|].
  unfold sub_is_leaf. cbn [tkids length Nat.eqb]. rewrite recursive_diameter_spec. reflexivity.
Qed.

(* F.4  distances *)

Lemma dist_nil_l : forall b, dist [] b = length b.
Proof. intro b. unfold dist. cbn. lia. Qed.
Lemma dist_nil_r : forall a, dist a [] = length a.
Proof. intros [|i a]; unfold dist; cbn; lia. Qed.
Lemma dist_cons_eq : forall i a b, dist (i :: a) (i :: b) = dist a b.
Proof. intros i a b. unfold dist. cbn [lcp length]. rewrite Nat.eqb_refl. cbn [length]. lia. Qed.
Lemma dist_cons_neq : forall i j a b, i <> j -> dist (i :: a) (j :: b) = S (length a) + S (length b).
Proof.
  intros i j a b H. unfold dist. cbn [lcp length]. apply Nat.eqb_neq in H. rewrite H. cbn [length]. lia.
Qed.
Lemma dist_sym : forall a b, dist a b = dist b a.
Proof.
  induction a as [|i a IH]; intros b.
  - rewrite dist_nil_l, dist_nil_r. reflexivity.
  - destruct b as [|j b]; [rewrite dist_nil_l, dist_nil_r; reflexivity|].
    destruct (Nat.eq_dec i j) as [E|NE].
    + subst. rewrite !dist_cons_eq. apply IH.
    + rewrite !dist_cons_neq by congruence. lia.
Qed.

(* F.5  the model's diameter is the largest distance between two nodes of the subtree *)

Lemma diam_upper : forall s a b, In a (positions s) -> In b (positions s) -> dist a b <= diam s.
Proof.
  induction s as [g n at_ ks IH] using tree_ind'. rewrite Forall_forall in IH.
  intros a b Ha Hb.
  assert (Hdeep : forall i q k, nth_error ks i = Some k -> In q (positions k) ->
                  ks <> [] /\ S (length q) <= height k /\ In (height k) (map height ks)).
  { intros i q k Hn Hq. split; [destruct ks; [destruct i; discriminate | discriminate]|].
    split; [apply height_upper; exact Hq|]. apply in_map. eapply nth_error_In; eauto. }
  destruct a as [|i a]; destruct b as [|j b].
  - unfold dist. cbn. lia.
  - rewrite dist_nil_l. cbn [length]. apply In_positions_cons in Hb. destruct Hb as [k [Hn Hq]].
    destruct (Hdeep j b k Hn Hq) as [Hne [Hh Hin]]. rewrite diam_unfold by exact Hne.
    pose proof (top2_single _ _ Hin). lia.
  - rewrite dist_nil_r. cbn [length]. apply In_positions_cons in Ha. destruct Ha as [k [Hn Hq]].
    destruct (Hdeep i a k Hn Hq) as [Hne [Hh Hin]]. rewrite diam_unfold by exact Hne.
    pose proof (top2_single _ _ Hin). lia.
  - apply In_positions_cons in Ha. destruct Ha as [ka [Hna Hqa]].
    apply In_positions_cons in Hb. destruct Hb as [kb [Hnb Hqb]].
    destruct (Hdeep i a ka Hna Hqa) as [Hne [Hha _]]. destruct (Hdeep j b kb Hnb Hqb) as [_ [Hhb _]].
    rewrite diam_unfold by exact Hne.
    destruct (Nat.eq_dec i j) as [E|NE].
    + subst j. rewrite Hna in Hnb. inversion Hnb; subst kb. rewrite dist_cons_eq.
      pose proof (IH ka (nth_error_In _ _ Hna) a b Hqa Hqb).
      pose proof (fmax_ge diam ks ka (nth_error_In _ _ Hna)). lia.
    + rewrite dist_cons_neq by exact NE.
      assert (Hma : nth_error (map height ks) i = Some (height ka)) by (apply map_nth_error; exact Hna).
      assert (Hmb : nth_error (map height ks) j = Some (height kb)) by (apply map_nth_error; exact Hnb).
      destruct (Nat.lt_ge_cases i j) as [Hlt|Hge].
      * pose proof (top2_pair _ _ _ (two_of_nth _ i j _ _ Hlt Hma Hmb)). lia.
      * assert (Hlt : j < i) by lia.
        pose proof (top2_pair _ _ _ (two_of_nth _ j i _ _ Hlt Hmb Hma)). lia.
Qed.

Lemma diam_attained : forall s, exists a b, In a (positions s) /\ In b (positions s) /\ dist a b = diam s.
Proof.
  induction s as [g n at_ ks IH] using tree_ind'. rewrite Forall_forall in IH.
  destruct ks as [|k0 ks'] eqn:Eks.
  - exists [], []. split; [left; reflexivity|]. split; [left; reflexivity | reflexivity].
  - rewrite <- Eks in *. assert (Hne : ks <> []) by (rewrite Eks; discriminate).
    rewrite diam_unfold by exact Hne.
    destruct (Nat.max_spec (fmax diam ks) (top2 (map height ks))) as [[_ E]|[_ E]]; rewrite E.
    + (* through this node *)
      destruct (top2_attained (map height ks)) as [[Hnil _]|[[h [Hone Htop]]|[x [y [Htwo Htop]]]]].
      * destruct ks; [congruence | discriminate].
      * destruct ks as [|k [|k' r]]; try discriminate. cbn [map] in Hone. injection Hone as Hone.
        destruct (height_attained k) as [q [Hq Hl]].
        exists [], (0 :: q). split; [left; reflexivity|]. split.
        -- apply In_positions_cons. exists k. split; [reflexivity | exact Hq].
        -- rewrite dist_nil_l, Htop, <- Hone. cbn [length]. exact Hl.
      * apply nth_two_of in Htwo. destruct Htwo as [i [j [Hij [Hi Hj]]]].
        rewrite nth_error_map in Hi, Hj.
        destruct (nth_error ks i) as [ka|] eqn:Hna; [|discriminate].
        destruct (nth_error ks j) as [kb|] eqn:Hnb; [|discriminate].
        cbn in Hi, Hj. inversion Hi; inversion Hj; subst x y.
        destruct (height_attained ka) as [qa [Hqa Hla]]. destruct (height_attained kb) as [qb [Hqb Hlb]].
        exists (i :: qa), (j :: qb). split; [apply In_positions_cons; eauto|]. split; [apply In_positions_cons; eauto|].
        rewrite dist_cons_neq by lia. lia.
    + (* inside one child *)
      destruct (fmax_attained diam ks Hne) as [i [k [Hi Hk]]].
      destruct (IH k (nth_error_In _ _ Hi)) as [a [b [Ha [Hb Hd]]]].
      exists (i :: a), (i :: b). split; [apply In_positions_cons; eauto|]. split; [apply In_positions_cons; eauto|].
      rewrite dist_cons_eq. lia.
Qed.

Lemma node_diameter_upper : forall t p s, subtree_at t p = Some s ->
  forall a b, In a (positions s) -> In b (positions s) -> dist a b <= node_diameter t p.
Proof. intros t p s Hs a b Ha Hb. unfold node_diameter. rewrite Hs, sub_diameter_eq. apply diam_upper; assumption. Qed.

Lemma node_diameter_attained : forall t p s, subtree_at t p = Some s ->
  exists a b, In a (positions s) /\ In b (positions s) /\ dist a b = node_diameter t p.
Proof. intros t p s Hs. unfold node_diameter. rewrite Hs, sub_diameter_eq. apply diam_attained. Qed.

(* ============================================================================================== *)
(* G. go_to                                                                                         *)

Lemma lcp_length_l : forall p q, length (lcp p q) <= length p.
Proof.
  induction p as [|i p IH]; intros [|j q]; cbn [lcp length]; try lia.
  destruct (Nat.eqb i j); cbn [length]; [specialize (IH q) |]; lia.
Qed.
Lemma lcp_length_r : forall p q, length (lcp p q) <= length q.
Proof.
  induction p as [|i p IH]; intros [|j q]; cbn [lcp length]; try lia.
  destruct (Nat.eqb i j); cbn [length]; [specialize (IH q) |]; lia.
Qed.
Lemma lcp_firstn_l : forall p q, firstn (length (lcp p q)) p = lcp p q.
Proof.
  induction p as [|i p IH]; intros [|j q]; cbn [lcp length firstn]; try reflexivity.
  destruct (Nat.eqb i j); cbn [length firstn]; [rewrite IH|]; reflexivity.
Qed.
Lemma lcp_firstn_r : forall p q, firstn (length (lcp p q)) q = lcp p q.
Proof.
  induction p as [|i p IH]; intros [|j q]; cbn [lcp length firstn]; try reflexivity.
  destruct (Nat.eqb i j) eqn:E; cbn [length firstn]; [|reflexivity].
  apply Nat.eqb_eq in E. subst. rewrite IH. reflexivity.
Qed.
Lemma lcp_refl : forall p, lcp p p = p.
Proof. induction p as [|i p IH]; [reflexivity|]. cbn [lcp]. rewrite Nat.eqb_refl, IH. reflexivity. Qed.

(* a prefix of p is a prefix of q exactly when it is not longer than the common prefix *)
Lemma is_prefix_firstn : forall p q k, k <= length p ->
  is_prefix (firstn k p) q = Nat.leb k (length (lcp p q)).
Proof.
  induction p as [|i p IH]; intros q k Hk.
  - cbn in Hk. assert (k = 0) by lia. subst. reflexivity.
  - destruct k as [|k]; [reflexivity|]. cbn [length] in Hk. cbn [firstn]. destruct q as [|j q]; [reflexivity|].
    cbn [is_prefix lcp]. destruct (Nat.eqb i j); cbn [andb length]; [apply IH; lia | reflexivity].
Qed.

Lemma existsb_andb_const : forall {A} (c : bool) (f : A -> bool) l,
  existsb (fun y => c && f y) l = c && existsb f l.
Proof.
  intros A c f l. induction l as [|x l IH]; cbn [existsb]; [destruct c; reflexivity|].
  rewrite IH. destruct c; reflexivity.
Qed.

Lemma existsb_map_ : forall {A B} (f : B -> bool) (g : A -> B) l, existsb f (map g l) = existsb (fun x => f (g x)) l.
Proof. intros A B f g l. induction l as [|x l IH]; [reflexivity|]. cbn [map existsb]. rewrite IH. reflexivity. Qed.

Lemma prefixes_cons : forall j q n,
  prefixes_at (j :: q) (seq 0 (S n)) = [] :: map (cons j) (prefixes_at q (seq 0 n)).
Proof.
  intros j q n. change (seq 0 (S n)) with (0 :: seq 1 n). rewrite <- seq_shift. unfold prefixes_at.
  cbn [map firstn]. f_equal. rewrite !map_map. reflexivity.
Qed.

Lemma mem_pos_prefixes : forall q x, mem_pos x (prefixes_at q (seq 0 (S (length q)))) = is_prefix x q.
Proof.
  induction q as [|j q IH]; intro x.
  - destruct x; reflexivity.
  - cbn [length]. rewrite prefixes_cons. unfold mem_pos. cbn [existsb]. destruct x as [|i x]; [reflexivity|].
    cbn [is_prefix]. rewrite existsb_map_.
    change (pos_eqb (i :: x) []) with false. cbn [orb].
    rewrite <- (IH x). unfold mem_pos. rewrite <- existsb_andb_const. reflexivity.
Qed.

Lemma length_firstn_le : forall (p : pos) k, k <= length p -> length (firstn k p) = k.
Proof. intros p k H. rewrite firstn_length. lia. Qed.

Lemma pos_eqb_firstn : forall p a b, a <= length p -> b <= length p ->
  pos_eqb (firstn a p) (firstn b p) = Nat.eqb a b.
Proof.
  intros p a b Ha Hb. destruct (Nat.eqb a b) eqn:E.
  - apply Nat.eqb_eq in E. subst. apply pos_eqb_refl.
  - apply pos_eqb_false. intro H. apply (f_equal (@length nat)) in H. rewrite !length_firstn_le in H by assumption.
    apply Nat.eqb_neq in E. contradiction.
Qed.

(* index of a prefix in the list of prefixes, longest first *)
Lemma index_pos_up : forall p n k, k <= n -> n <= length p ->
  index_pos (firstn k p) (prefixes_at p (rev (seq 0 (S n)))) = n - k.
Proof.
  intros p n. induction n as [|n IH]; intros k Hk Hn.
  - assert (k = 0) by lia. subst. cbn. destruct p; reflexivity.
  - rewrite rev_seq_S. cbn [prefixes_at map index_pos]. rewrite pos_eqb_firstn by lia.
    destruct (Nat.eqb k (S n)) eqn:E.
    + apply Nat.eqb_eq in E. lia.
    + apply Nat.eqb_neq in E. fold (prefixes_at p (rev (seq 0 (S n)))). rewrite IH by lia. lia.
Qed.

(* index of a prefix in the list of prefixes, shortest first *)
Lemma index_pos_down : forall q len a k, a <= k -> k < a + len -> a + len <= S (length q) ->
  index_pos (firstn k q) (prefixes_at q (seq a len)) = k - a.
Proof.
  intros q len. induction len as [|len IH]; intros a k Ha Hk Hl; [lia|].
  cbn [seq prefixes_at map index_pos]. rewrite pos_eqb_firstn by lia.
  destruct (Nat.eqb k a) eqn:E.
  - apply Nat.eqb_eq in E. lia.
  - apply Nat.eqb_neq in E. fold (prefixes_at q (seq (S a) len)). rewrite IH by lia. lia.
Qed.

Lemma filter_le_rev_seq : forall n l, l <= n ->
  filter (fun k => Nat.leb k l) (rev (seq 0 (S n))) = rev (seq 0 (S l)).
Proof.
  induction n as [|n IH]; intros l Hl.
  - assert (l = 0) by lia. subst. reflexivity.
  - destruct (Nat.eq_dec l (S n)) as [E|NE].
    + subst l. apply filter_all. intros k Hk. apply in_rev, in_seq in Hk. apply Nat.leb_le. lia.
    + rewrite rev_seq_S. cbn [filter]. replace (Nat.leb (S n) l) with false by (symmetry; apply Nat.leb_gt; lia).
      apply IH. lia.
Qed.

Lemma min_pair_up : forall (p : pos) n l, l <= n ->
  min_pair (map (fun k => (n - k, firstn k p)) (rev (seq 0 (S l)))) = Some (n - l, firstn l p).
Proof.
  intros p n. induction l as [|l IH]; intro Hl; [reflexivity|].
  rewrite rev_seq_S. cbn [map min_pair]. rewrite IH by lia. cbn [fst].
  replace (Nat.leb (n - S l) (n - l)) with true by (symmetry; apply Nat.leb_le; lia). reflexivity.
Qed.

Lemma skipn_seq_ : forall a s len, skipn a (seq s len) = seq (s + a) (len - a).
Proof.
  induction a as [|a IH]; intros s len.
  - rewrite Nat.add_0_r, Nat.sub_0_r. reflexivity.
  - destruct len as [|len]; [reflexivity|]. cbn [seq skipn]. rewrite IH. rewrite Nat.add_succ_r. reflexivity.
Qed.

Lemma firstn_rev_seq : forall n l, l <= n ->
  firstn (n - l) (rev (seq 0 (S n))) = rev (seq (S l) (n - l)).
Proof.
  intros n l Hl. replace (S n) with (S l + (n - l)) by lia. rewrite seq_app, rev_app_distr.
  cbn [Nat.add]. replace (n - l) with (length (rev (seq (S l) (n - l))) + 0) at 1
    by (rewrite rev_length, seq_length; lia).
  rewrite firstn_app_2. cbn [firstn]. apply app_nil_r.
Qed.

Lemma self_path_eq : forall p, p :: node_ancestors p = prefixes_at p (rev (seq 0 (S (length p)))).
Proof. intro p. rewrite node_ancestors_eq, rev_seq_S. cbn [prefixes_at map]. rewrite firstn_all. reflexivity. Qed.

Lemma spec_go_to_self : forall p, spec_go_to p p = [p].
Proof.
  intro p. unfold spec_go_to, up_chain, down_chain. rewrite lcp_refl, Nat.sub_diag. cbn [seq rev map app].
  rewrite firstn_all. reflexivity.
Qed.

Lemma node_go_to_same_tree : forall i p q, node_go_to (i, p) (GNode (i, q)) = Ret (spec_go_to p q).
Proof.
  intros i p q. unfold node_go_to, nodeid_root, nodeid_eqb. cbn [fst snd]. rewrite !node_root_eq, Nat.eqb_refl.
  cbn [pos_eqb list_eqb andb negb].
  destruct (pos_eqb p q) eqn:Epq.
  - apply pos_eqb_true in Epq. subst q. rewrite spec_go_to_self. reflexivity.
  - rewrite <- node_path_rev_ancestors, node_path_eq, self_path_eq.
    set (n := length p). set (m := length q). set (l := length (lcp p q)).
    assert (Hln : l <= n) by apply lcp_length_l. assert (Hlm : l <= m) by apply lcp_length_r.
    (* the common nodes: the prefixes of p not longer than the common prefix *)
    assert (Hcommon : filter (fun x => mem_pos x (prefixes_at q (seq 0 (S m)))) (prefixes_at p (rev (seq 0 (S n))))
                      = prefixes_at p (rev (seq 0 (S l)))).
    { unfold prefixes_at at 2. rewrite filter_map_comm. fold (prefixes_at p).
      rewrite <- (filter_le_rev_seq n l Hln). unfold prefixes_at at 2. f_equal. apply filter_ext_in.
      intros k Hk. apply in_rev, in_seq in Hk. unfold m. rewrite mem_pos_prefixes. apply is_prefix_firstn. unfold n in *. lia. }
    rewrite Hcommon.
    assert (Hpairs : map (fun x => (index_pos x (prefixes_at p (rev (seq 0 (S n)))), x)) (prefixes_at p (rev (seq 0 (S l))))
                     = map (fun k => (n - k, firstn k p)) (rev (seq 0 (S l)))).
    { unfold prefixes_at at 2. rewrite map_map. apply map_ext_in. intros k Hk. apply in_rev, in_seq in Hk.
      rewrite index_pos_up by (unfold n in *; lia). reflexivity. }
    rewrite Hpairs, (min_pair_up p n l Hln).
    unfold l at 2. rewrite lcp_firstn_l, <- (lcp_firstn_r p q). fold l.
    rewrite index_pos_down by (unfold m in *; lia). rewrite Nat.sub_0_r.
    unfold spec_go_to, up_chain, down_chain. fold l n m. f_equal. f_equal.
    + unfold prefixes_at. rewrite firstn_map, firstn_rev_seq by exact Hln. reflexivity.
    + unfold prefixes_at. rewrite skipn_map, skipn_seq_. cbn [Nat.add]. replace (S m - l) with (S (m - l)) by lia. reflexivity.
Qed.

Lemma node_go_to_other_tree : forall i j p q, i <> j -> node_go_to (i, p) (GNode (j, q)) = Raise TreeError.
Proof.
  intros i j p q H. unfold node_go_to, nodeid_root, nodeid_eqb. cbn [fst snd].
  apply Nat.eqb_neq in H. rewrite H. reflexivity.
Qed.

Lemma node_go_to_junk : forall self, node_go_to self GJunk = Raise TypeError.
Proof. reflexivity. Qed.

(* ============================================================================================== *)
(* H. the first-principles (document-order filter) definitions of Spec/PC12.v                       *)

Lemma filter_andb : forall {A} (f g : A -> bool) l, filter (fun x => f x && g x) l = filter g (filter f l).
Proof. intros A f g l. rewrite filter_filter. reflexivity. Qed.

Lemma filter_lt_seq : forall (p : pos) n, n <= length p ->
  filter (fun k => Nat.ltb (length (firstn k p)) n) (seq 0 (S n)) = seq 0 n.
Proof.
  intros p n Hn. rewrite seq_S, filter_app. cbn [filter Nat.add]. rewrite length_firstn_le by exact Hn.
  rewrite Nat.ltb_irrefl, app_nil_r. apply filter_all. intros k Hk. apply in_seq in Hk.
  rewrite length_firstn_le by lia. apply Nat.ltb_lt. lia.
Qed.

Lemma spec_ancestors_eq : forall t p, valid t p = true -> spec_ancestors t p = node_ancestors p.
Proof.
  intros t p Hv. unfold spec_ancestors, proper_prefix. rewrite filter_andb, (filter_prefix_of p t Hv).
  unfold prefixes_at. rewrite filter_map_comm, filter_lt_seq by lia.
  rewrite node_ancestors_eq. unfold prefixes_at. rewrite map_rev. reflexivity.
Qed.

Lemma spec_node_path_eq : forall t p, valid t p = true -> spec_node_path t p = node_path p.
Proof. intros t p Hv. unfold spec_node_path. rewrite (filter_prefix_of p t Hv), node_path_eq. reflexivity. Qed.

Lemma spec_descendants_eq : forall t p s, subtree_at t p = Some s ->
  spec_descendants t p = node_descendants t p.
Proof.
  intros t p s Hs. unfold spec_descendants, proper_prefix. rewrite filter_andb, (filter_prefixed_by p t s Hs).
  rewrite filter_map_comm, (node_descendants_eq t p s Hs). f_equal.
  rewrite (positions_hd s) at 1. cbn [filter]. rewrite app_nil_r, Nat.ltb_irrefl.
  apply filter_all. intros q Hq. apply positions_tl_nonnil in Hq. apply Nat.ltb_lt. rewrite app_length.
  destruct q; [congruence | cbn [length]; lia].
Qed.

Lemma spec_subtree_eq : forall t p s, subtree_at t p = Some s -> spec_subtree t p = map (app p) (positions s).
Proof. intros t p s Hs. apply filter_prefixed_by. exact Hs. Qed.

Lemma spec_leaves_eq : forall t p s, subtree_at t p = Some s -> spec_leaves t p = node_leaves t p.
Proof.
  intros t p s Hs. unfold spec_leaves. rewrite filter_andb, (filter_prefixed_by p t s Hs).
  rewrite filter_map_comm, (node_leaves_eq t p s Hs). f_equal. apply filter_ext_in.
  intros q Hq. apply In_positions in Hq. destruct Hq as [u Hu].
  unfold childless, sub_or, sub_is_leaf. rewrite subtree_at_app, Hs, Hu. destruct (tkids u); reflexivity.
Qed.

(* siblings *)

Lemma are_siblings_nil_r : forall a, are_siblings a [] = false.
Proof. intros [|j a]; reflexivity. Qed.

Lemma are_siblings_cons : forall j a c b, b <> [] ->
  are_siblings (j :: a) (c :: b) = Nat.eqb j c && are_siblings a b.
Proof.
  intros j a c b Hb. destruct b as [|b0 b]; [congruence|]. destruct a as [|a0 a].
  - cbn. rewrite andb_false_r. reflexivity.
  - unfold are_siblings.
    change (removelast (j :: a0 :: a)) with (j :: removelast (a0 :: a)).
    change (removelast (c :: b0 :: b)) with (c :: removelast (b0 :: b)).
    unfold pos_eq. cbn [list_eqb]. destruct (Nat.eqb j c); reflexivity.
Qed.

Lemma are_siblings_single : forall a i, are_siblings a [i] = match a with [j] => negb (Nat.eqb j i) | _ => false end.
Proof.
  intros [|j [|j' a]] i; [reflexivity | |].
  - cbn. rewrite andb_true_r. reflexivity.
  - unfold are_siblings. change (removelast (j :: j' :: a)) with (j :: removelast (j' :: a)). reflexivity.
Qed.

Lemma filter_single_pos_go : forall i l o,
  filter (fun a => are_siblings a [i]) (pos_go o l) =
  map (fun j => [j]) (filter (fun j => negb (Nat.eqb j i)) (seq o (length l))).
Proof.
  intros i. induction l as [|k l IH]; intro o; [reflexivity|].
  cbn [pos_go length seq]. rewrite filter_app, IH. rewrite (positions_hd k). cbn [map filter].
  rewrite are_siblings_single.
  assert (H : filter (fun a => are_siblings a [i]) (map (cons o) (tl (positions k))) = []).
  { apply filter_none. intros x Hx. apply in_map_iff in Hx. destruct Hx as [q [E Hq]]. subst x.
    apply positions_tl_nonnil in Hq. rewrite are_siblings_single. destruct q; [congruence | reflexivity]. }
  unfold pos in *. rewrite H. destruct (negb (Nat.eqb o i)); reflexivity.
Qed.

Lemma spec_siblings_eq : forall par t i, valid t (par ++ [i]) = true ->
  spec_siblings t (par ++ [i]) = node_siblings t (par ++ [i]).
Proof.
  intros par t i Hv. rewrite node_siblings_eq. unfold spec_siblings. revert t Hv.
  induction par as [|c par IH]; intros [g n a ks] Hv.
  - cbn [app]. rewrite positions_eq. cbn [filter]. rewrite are_siblings_single, filter_single_pos_go.
    unfold node_arity. cbn [subtree_at tkids]. apply map_ext. reflexivity.
  - cbn [app] in *. apply valid_cons in Hv. destruct Hv as [k [Hn Hk]].
    rewrite positions_eq. cbn [filter]. change (are_siblings [] (c :: par ++ [i])) with false. cbn iota.
    rewrite (filter_pos_go (fun a => are_siblings a (c :: par ++ [i])) (fun a => are_siblings a (par ++ [i])) c).
    + rewrite Nat.sub_0_r, Hn. rewrite (IH k Hk). rewrite map_map.
      unfold node_arity. cbn [subtree_at tkids]. rewrite Hn. reflexivity.
    + intros j b. apply are_siblings_cons. destruct par; discriminate.
    + lia.
Qed.

Lemma spec_siblings_root : forall t, spec_siblings t [] = [].
Proof. intro t. unfold spec_siblings. apply filter_none. intros x _. apply are_siblings_nil_r. Qed.

Lemma find_filter : forall {A} (f : A -> bool) l, find f l = hd_error (filter f l).
Proof. intros A f l. induction l as [|x l IH]; [reflexivity|]. cbn [find filter]. destruct (f x); [reflexivity | exact IH]. Qed.

Lemma filter_eq_seq : forall c n a,
  filter (fun j => Nat.eqb j c) (seq a n) = if Nat.leb a c && Nat.ltb c (a + n) then [c] else [].
Proof.
  intros c. induction n as [|n IH]; intro a.
  - cbn [seq filter]. destruct (Nat.leb a c) eqn:E1; [|reflexivity]. cbn [andb].
    replace (Nat.ltb c (a + 0)) with false; [reflexivity|]. symmetry. apply Nat.ltb_ge. apply Nat.leb_le in E1. lia.
  - cbn [seq filter]. rewrite IH. destruct (Nat.eqb a c) eqn:E.
    + apply Nat.eqb_eq in E. subst a.
      replace (Nat.leb (S c) c) with false by (symmetry; apply Nat.leb_gt; lia). cbn [andb].
      rewrite Nat.leb_refl. replace (Nat.ltb c (c + S n)) with true by (symmetry; apply Nat.ltb_lt; lia). reflexivity.
    + apply Nat.eqb_neq in E. replace (S a + n) with (a + S n) by lia.
      destruct (Nat.ltb c (a + S n)); [|rewrite !andb_false_r; reflexivity]. rewrite !andb_true_r.
      destruct (Nat.leb_spec a c); destruct (Nat.leb_spec (S a) c); try reflexivity; exfalso; lia.
Qed.

Lemma last_child_of : forall q j, last (child_of q j) 0 = j.
Proof. intros q j. unfold child_of. apply last_last. Qed.

Lemma spec_left_sibling_eq : forall par t i, valid t (par ++ [i]) = true ->
  spec_left_sibling t (par ++ [i]) = node_left_sibling t (par ++ [i]).
Proof.
  intros par t i Hv. rewrite (node_left_sibling_eq t par i Hv). unfold spec_left_sibling.
  rewrite find_filter, filter_andb. fold (spec_siblings t (par ++ [i])).
  rewrite (spec_siblings_eq par t i Hv), node_siblings_eq, filter_map_comm, filter_filter.
  apply valid_child in Hv. fold (child_of par i). rewrite last_child_of.
  destruct i as [|c].
  - rewrite filter_none; [reflexivity|]. intros j _. rewrite last_child_of. cbn. apply andb_false_r.
  - rewrite (filter_ext _ (fun j => Nat.eqb j c)).
    + rewrite filter_eq_seq. cbn [Nat.leb andb Nat.add].
      replace (Nat.ltb c (node_arity t par)) with true by (symmetry; apply Nat.ltb_lt; lia). reflexivity.
    + intro j. rewrite last_child_of. cbn [Nat.eqb]. destruct (Nat.eqb j c) eqn:E.
      * apply Nat.eqb_eq in E. subst. replace (Nat.eqb c (S c)) with false by (symmetry; apply Nat.eqb_neq; lia). reflexivity.
      * apply andb_false_r.
Qed.

Lemma spec_right_sibling_eq : forall par t i, valid t (par ++ [i]) = true ->
  spec_right_sibling t (par ++ [i]) = node_right_sibling t (par ++ [i]).
Proof.
  intros par t i Hv. rewrite (node_right_sibling_eq t par i Hv). unfold spec_right_sibling.
  rewrite find_filter, filter_andb. fold (spec_siblings t (par ++ [i])).
  rewrite (spec_siblings_eq par t i Hv), node_siblings_eq, filter_map_comm, filter_filter.
  fold (child_of par i). rewrite last_child_of.
  rewrite (filter_ext _ (fun j => Nat.eqb j (S i))).
  - rewrite filter_eq_seq. cbn [Nat.leb andb Nat.add].
    destruct (valid t (par ++ [S i])) eqn:V.
    + apply valid_child in V. replace (Nat.ltb (S i) (node_arity t par)) with true by (symmetry; apply Nat.ltb_lt; lia). reflexivity.
    + destruct (Nat.ltb (S i) (node_arity t par)) eqn:E; [|reflexivity].
      apply Nat.ltb_lt in E. apply valid_child in E. congruence.
  - intro j. rewrite last_child_of. destruct (Nat.eqb j (S i)) eqn:E.
    + apply Nat.eqb_eq in E. subst. replace (Nat.eqb (S i) i) with false by (symmetry; apply Nat.eqb_neq; lia). reflexivity.
    + apply andb_false_r.
Qed.

Lemma spec_left_sibling_root : forall t, spec_left_sibling t [] = None.
Proof.
  intro t. unfold spec_left_sibling. rewrite find_filter, filter_none; [reflexivity|].
  intros x _. rewrite are_siblings_nil_r. reflexivity.
Qed.
Lemma spec_right_sibling_root : forall t, spec_right_sibling t [] = None.
Proof.
  intro t. unfold spec_right_sibling. rewrite find_filter, filter_none; [reflexivity|].
  intros x _. rewrite are_siblings_nil_r. reflexivity.
Qed.

Lemma spec_root_eq : forall t p, spec_root t p = Some (node_root p).
Proof. intros t p. unfold spec_root. rewrite positions_hd, node_root_eq. reflexivity. Qed.

Lemma dist_app : forall p a b, dist (p ++ a) (p ++ b) = dist a b.
Proof. induction p as [|i p IH]; intros a b; [reflexivity|]. cbn [app]. rewrite dist_cons_eq. apply IH. Qed.

Lemma list_max_ge : forall l x, In x l -> x <= list_max l.
Proof.
  intros l x H. assert (HF : Forall (fun k => k <= list_max l) l) by (apply list_max_le; lia).
  rewrite Forall_forall in HF. apply HF. exact H.
Qed.

Lemma spec_diameter_eq : forall t p s, subtree_at t p = Some s -> spec_diameter t p = node_diameter t p.
Proof.
  intros t p s Hs. unfold spec_diameter, node_diameter. rewrite (spec_subtree_eq t p s Hs), Hs, sub_diameter_eq.
  apply Nat.le_antisymm.
  - apply list_max_le. apply Forall_forall. intros d Hd.
    apply in_flat_map in Hd. destruct Hd as [a [Ha Hd]]. apply in_map_iff in Hd. destruct Hd as [b [E Hb]].
    apply in_map_iff in Ha. destruct Ha as [a' [Ea Ha]]. apply in_map_iff in Hb. destruct Hb as [b' [Eb Hb]].
    subst. rewrite dist_app. apply diam_upper; assumption.
  - destruct (diam_attained s) as [a [b [Ha [Hb E]]]]. rewrite <- E. apply list_max_ge.
    apply in_flat_map. exists (p ++ a). split; [apply in_map; exact Ha|].
    apply in_map_iff. exists (p ++ b). split; [apply dist_app | apply in_map; exact Hb].
Qed.

(* ---- all queries of a node at once -------------------------------------------------------------- *)
From BT Require Import Corr.DerivedCorr.

Lemma no_descendants_iff_leaf : forall p s,
  Nat.eqb (length (map (app p) (tl (positions s)))) 0 = sub_is_leaf s.
Proof.
  intros p [g n a [|k ks]]; [reflexivity|].
  rewrite positions_eq. cbn [tl pos_go]. rewrite (positions_hd k). reflexivity.
Qed.

Lemma valid_subtree : forall t p, valid t p = true -> exists s, subtree_at t p = Some s.
Proof. intros t p H. unfold valid in H. destruct (subtree_at t p) as [s|]; [eauto | discriminate]. Qed.

Theorem model_qvals_spec : forall t p, valid t p = true -> model_qvals t p = spec_qvals t p.
Proof.
  intros t p Hv. destruct (valid_subtree t p Hv) as [s Hs].
  assert (Hsib : spec_siblings t p = node_siblings t p /\ spec_left_sibling t p = node_left_sibling t p
                 /\ spec_right_sibling t p = node_right_sibling t p).
  { destruct (list_eq_dec Nat.eq_dec p []) as [E|NE].
    - subst p. rewrite spec_siblings_root, spec_left_sibling_root, spec_right_sibling_root. auto.
    - destruct (exists_last NE) as [par [i E]]. subst p.
      rewrite spec_siblings_eq, spec_left_sibling_eq, spec_right_sibling_eq by exact Hv. auto. }
  destruct Hsib as [H1 [H2 H3]].
  unfold model_qvals, spec_qvals.
  rewrite H1, H2, H3, (spec_ancestors_eq t p Hv), (spec_descendants_eq t p s Hs), (spec_leaves_eq t p s Hs),
    (spec_node_path_eq t p Hv), spec_root_eq, (spec_diameter_eq t p s Hs), node_max_depth_eq.
  unfold spec_depth. rewrite (spec_ancestors_eq t p Hv), <- node_depth_ancestors, <- node_is_root_no_ancestors.
  rewrite (node_descendants_eq t p s Hs), no_descendants_iff_leaf, <- (node_is_leaf_eq t p s Hs).
  reflexivity.
Qed.

Lemma qvals_eqb_refl : forall v, qvals_eqb v v = true.
Proof.
  intros [a b c d e f g h i j k l m]. unfold qvals_eqb. cbn.
  rewrite !lpos_eq_refl, !opos_eq_refl, !Bool.eqb_reflx, pos_eq_refl, !Nat.eqb_refl. reflexivity.
Qed.

(* every value the model computes for a node is the first-principles one *)
Theorem prop_C12_node_model : forall t p, valid t p = true -> prop_C12_node t p (model_qvals t p) = true.
Proof.
  intros t p Hv. unfold prop_C12_node. rewrite Hv, <- (model_qvals_spec t p Hv), qvals_eqb_refl.
  cbn [andb model_qvals q_depth q_anc]. rewrite node_depth_ancestors. apply Nat.eqb_refl.
Qed.

(* ============================================================================================== *)
(* I. the path of go_to is a simple path of the tree with dist p q edges                            *)

Lemma valid_firstn : forall t p k, valid t p = true -> valid t (firstn k p) = true.
Proof.
  intros t p k H. unfold valid in *. rewrite <- (firstn_skipn k p) in H. rewrite subtree_at_app in H.
  destruct (subtree_at t (firstn k p)); [reflexivity | discriminate].
Qed.

Lemma is_prefix_firstn_firstn : forall (p : pos) a b, a <= b -> is_prefix (firstn a p) (firstn b p) = true.
Proof.
  induction p as [|i p IH]; intros a b H.
  - rewrite !firstn_nil. reflexivity.
  - destruct a as [|a]; [reflexivity|]. destruct b as [|b]; [lia|]. cbn [firstn is_prefix].
    rewrite Nat.eqb_refl. apply IH. lia.
Qed.

Lemma is_parent_firstn : forall (p : pos) k, k < length p -> is_parent_of (firstn k p) (firstn (S k) p) = true.
Proof.
  intros p k H. unfold is_parent_of, proper_prefix. rewrite is_prefix_firstn_firstn by lia.
  rewrite !length_firstn_le by lia. rewrite Nat.eqb_refl. cbn [andb].
  rewrite andb_true_r. apply Nat.ltb_lt. lia.
Qed.

Lemma consecutive_cons : forall x L, consecutive_adjacent (x :: L) =
  match L with [] => true | y :: _ => adjacent x y && consecutive_adjacent L end.
Proof. intros x [|y L]; reflexivity. Qed.

Lemma consecutive_down : forall (q : pos) len a, a + len <= S (length q) ->
  consecutive_adjacent (prefixes_at q (seq a len)) = true.
Proof.
  intros q len. induction len as [|len IH]; intros a H; [reflexivity|].
  cbn [seq prefixes_at map]. fold (prefixes_at q (seq (S a) len)). rewrite consecutive_cons.
  destruct len as [|len]; [reflexivity|].
  cbn [seq prefixes_at map]. fold (prefixes_at q (seq (S (S a)) len)).
  change (firstn (S a) q :: prefixes_at q (seq (S (S a)) len)) with (prefixes_at q (seq (S a) (S len))).
  rewrite IH by lia. unfold adjacent. rewrite is_parent_firstn by lia. reflexivity.
Qed.

(* the upper part of the path: prefixes of p of lengths k, k-1, ..., l+1 *)
Lemma up_chain_S : forall (p : pos) l d,
  prefixes_at p (rev (seq (S l) (S d))) = firstn (S l + d) p :: prefixes_at p (rev (seq (S l) d)).
Proof. intros p l d. rewrite seq_S, rev_app_distr. reflexivity. Qed.

Definition path_from (p q : pos) (l d : nat) : list pos :=
  prefixes_at p (rev (seq (S l) d)) ++ prefixes_at q (seq l (S (length q - l))).

Lemma path_from_hd : forall p q l d, firstn l p = firstn l q ->
  hd_error (path_from p q l d) = Some (firstn (l + d) p).
Proof.
  intros p q l d E. unfold path_from. destruct d as [|d].
  - cbn. rewrite Nat.add_0_r, E. reflexivity.
  - rewrite up_chain_S. cbn [app hd_error]. rewrite Nat.add_succ_r. reflexivity.
Qed.

Lemma path_from_consecutive : forall p q l d, firstn l p = firstn l q -> l + d <= length p -> l <= length q ->
  consecutive_adjacent (path_from p q l d) = true.
Proof.
  intros p q l d E Hp Hq. induction d as [|d IH].
  - unfold path_from. change (prefixes_at p (rev (seq (S l) 0))) with (@nil pos). cbn [app]. apply (consecutive_down q). lia.
  - unfold path_from in *. rewrite up_chain_S. cbn [app]. rewrite consecutive_cons.
    pose proof (path_from_hd p q l d E) as Hh. unfold path_from in Hh.
    destruct (prefixes_at p (rev (seq (S l) d)) ++ prefixes_at q (seq l (S (length q - l)))) as [|y L] eqn:EL; [reflexivity|].
    cbn [hd_error] in Hh. inversion Hh; subst y. rewrite IH by lia.
    unfold adjacent. replace (S l + d) with (S (l + d)) by lia. rewrite is_parent_firstn by lia. rewrite orb_true_r. reflexivity.
Qed.

Lemma nodup_pos_NoDup : forall l, NoDup l -> nodup_pos l = true.
Proof.
  induction l as [|a l IH]; intro H; [reflexivity|]. inversion H as [|? ? Hn Hl]; subst.
  cbn [nodup_pos]. rewrite (IH Hl), andb_true_r. apply negb_true_iff.
  destruct (existsb (pos_eq a) l) eqn:E; [|reflexivity].
  apply existsb_exists in E. destruct E as [x [Hx E]]. apply pos_eq_true in E. subst. contradiction.
Qed.

Lemma NoDup_prefixes : forall (q : pos) ks, NoDup ks -> (forall k, In k ks -> k <= length q) -> NoDup (prefixes_at q ks).
Proof.
  intros q ks. induction ks as [|k ks IH]; intros Hn Hle; [constructor|].
  inversion Hn as [|? ? Hk Hks]; subst. cbn [prefixes_at map]. constructor.
  - intro H. apply in_map_iff in H. destruct H as [k' [E Hk']].
    apply (f_equal (@length nat)) in E. rewrite !length_firstn_le in E by (apply Hle; simpl; auto). subst. contradiction.
  - apply IH; [exact Hks|]. intros k' Hk'. apply Hle. right. exact Hk'.
Qed.

Lemma path_from_NoDup : forall p q l d, l = length (lcp p q) -> l + d <= length p -> NoDup (path_from p q l d).
Proof.
  intros p q l d El Hp.
  assert (Hlq : l <= length q) by (subst l; apply lcp_length_r).
  induction d as [|d IH].
  - unfold path_from. change (prefixes_at p (rev (seq (S l) 0))) with (@nil pos). cbn [app]. apply NoDup_prefixes; [apply seq_NoDup|].
    intros k Hk. apply in_seq in Hk. lia.
  - unfold path_from in *. rewrite up_chain_S. cbn [app]. constructor; [|apply IH; lia].
    intro H. apply in_app_or in H. destruct H as [H|H]; apply in_map_iff in H; destruct H as [k [E Hk]].
    + apply in_rev, in_seq in Hk. apply (f_equal (@length nat)) in E. rewrite !length_firstn_le in E by lia. lia.
    + apply in_seq in Hk. pose proof E as E'. apply (f_equal (@length nat)) in E'. rewrite !length_firstn_le in E' by lia.
      subst k. pose proof (is_prefix_firstn p q (S l + d)) as Hpre. rewrite <- E in Hpre.
      rewrite <- (firstn_all q) in Hpre at 2. rewrite is_prefix_firstn_firstn in Hpre by lia.
      specialize (Hpre ltac:(lia)). symmetry in Hpre. apply Nat.leb_le in Hpre. lia.
Qed.

Lemma path_from_valid : forall t p q l d, valid t p = true -> valid t q = true ->
  forallb (valid t) (path_from p q l d) = true.
Proof.
  intros t p q l d Hp Hq. apply forallb_forall. intros x Hx. unfold path_from in Hx.
  apply in_app_or in Hx. destruct Hx as [H|H]; apply in_map_iff in H; destruct H as [k [E _]]; subst x;
    apply valid_firstn; assumption.
Qed.

Lemma spec_go_to_path_from : forall p q,
  spec_go_to p q = path_from p q (length (lcp p q)) (length p - length (lcp p q)).
Proof. reflexivity. Qed.

Lemma last_prefixes_down : forall (q : pos) l, l <= length q ->
  last (prefixes_at q (seq l (S (length q - l)))) [] = q.
Proof.
  intros q l H. rewrite seq_S. unfold prefixes_at. rewrite map_app. cbn [map]. rewrite last_last.
  replace (l + (length q - l)) with (length q) by lia. apply firstn_all.
Qed.

Lemma last_app_nonnil : forall {A} (l1 l2 : list A) d, l2 <> [] -> last (l1 ++ l2) d = last l2 d.
Proof.
  intros A l1 l2 d H. induction l1 as [|x l1 IH]; [reflexivity|].
  cbn [app]. destruct (l1 ++ l2) eqn:E.
  - apply app_eq_nil in E. destruct E; contradiction.
  - exact IH.
Qed.

Theorem prop_C12_goto_spec : forall t p q, valid t p = true -> valid t q = true ->
  prop_C12_goto t p q (spec_go_to p q) = true.
Proof.
  intros t p q Hp Hq. unfold prop_C12_goto. rewrite lpos_eq_refl. cbn [andb].
  set (l := length (lcp p q)).
  assert (Hlp : l <= length p) by apply lcp_length_l. assert (Hlq : l <= length q) by apply lcp_length_r.
  assert (Epre : firstn l p = firstn l q) by (unfold l; rewrite lcp_firstn_l, lcp_firstn_r; reflexivity).
  rewrite spec_go_to_path_from. fold l.
  apply andb_true_iff. split.
  - unfold simple_path. rewrite (path_from_valid t p q l _ Hp Hq).
    rewrite (path_from_consecutive p q l _ Epre) by lia.
    rewrite nodup_pos_NoDup by (apply path_from_NoDup; [reflexivity | lia]).
    rewrite (path_from_hd p q l _ Epre). replace (l + (length p - l)) with (length p) by lia. rewrite firstn_all.
    cbn [opt_eqb andb]. rewrite pos_eq_refl. cbn [andb].
    unfold path_from. rewrite last_app_nonnil.
    + rewrite last_prefixes_down by exact Hlq. apply pos_eq_refl.
    + rewrite seq_S. unfold prefixes_at. rewrite map_app. intro H. apply app_eq_nil in H. destruct H; discriminate.
  - apply Nat.eqb_eq. unfold path_from. rewrite app_length. unfold prefixes_at. rewrite !map_length, rev_length, !seq_length.
    unfold dist. fold l. lia.
Qed.

(* the path as a Prop-level statement *)
Lemma spec_go_to_NoDup : forall p q, NoDup (spec_go_to p q).
Proof.
  intros p q. rewrite spec_go_to_path_from. apply path_from_NoDup; [reflexivity|].
  pose proof (lcp_length_l p q). lia.
Qed.

Lemma spec_go_to_length : forall p q, length (spec_go_to p q) = S (dist p q).
Proof.
  intros p q. unfold spec_go_to, up_chain, down_chain, dist. rewrite app_length, !map_length, rev_length, !seq_length.
  pose proof (lcp_length_l p q). pose proof (lcp_length_r p q). lia.
Qed.

(* ============================================================================================== *)
(* J. the clauses of C12 in the form stated in Props/C12.v                                           *)

Lemma binary_is_leaf_spec : forall {A} (slots : list (option A)),
  prop_C12_binary_leaf slots (binary_is_leaf slots) = true.
Proof.
  intros A slots. unfold prop_C12_binary_leaf, binary_is_leaf.
  induction slots as [|[x|] l IH]; [reflexivity | reflexivity |].
  cbn [filter is_some forallb andb]. exact IH.
Qed.

Lemma binary_is_leaf_iff : forall {A} (slots : list (option A)),
  binary_is_leaf slots = true <-> forall c, In c slots -> c = None.
Proof.
  intros A slots. unfold binary_is_leaf. induction slots as [|[x|] l IH].
  - split; [intros _ c [] | reflexivity].
  - cbn [filter is_some length Nat.eqb]. split; [discriminate|]. intro H. specialize (H (Some x) (or_introl eq_refl)). discriminate.
  - cbn [filter is_some]. rewrite IH. split.
    + intros H c [E|Hc]; [congruence | apply H; exact Hc].
    + intros H c Hc. apply H. right. exact Hc.
Qed.

Lemma clause_ancestors : forall t p, valid t p = true -> node_ancestors p = spec_ancestors t p.
Proof. intros. symmetry. apply spec_ancestors_eq. assumption. Qed.

Lemma clause_root : forall t p, valid t p = true ->
  spec_root t p = Some (node_root p) /\ node_root p = [] /\ last (p :: node_ancestors p) [] = node_root p
  /\ (node_is_root p = true <-> p = node_root p).
Proof.
  intros t p _. split; [apply spec_root_eq|]. split; [apply node_root_eq|]. split; [apply node_root_last|].
  rewrite node_root_eq. apply node_is_root_iff.
Qed.

Lemma clause_node_path : forall t p, valid t p = true ->
  node_path p = spec_node_path t p /\ node_path p = rev (p :: node_ancestors p).
Proof. intros t p H. split; [symmetry; apply spec_node_path_eq; exact H | apply node_path_rev_ancestors]. Qed.

Lemma clause_siblings : forall t p, valid t p = true -> node_siblings t p = spec_siblings t p.
Proof. intros t p H. pose proof (model_qvals_spec t p H) as E. apply (f_equal q_sibs) in E. exact E. Qed.

Lemma clause_left_right : forall t p, valid t p = true ->
  node_left_sibling t p = spec_left_sibling t p /\ node_right_sibling t p = spec_right_sibling t p.
Proof.
  intros t p H. pose proof (model_qvals_spec t p H) as E. split;
    [apply (f_equal q_left) in E | apply (f_equal q_right) in E]; exact E.
Qed.

Lemma clause_left_right_explicit : forall t par i, valid t (par ++ [i]) = true ->
  node_left_sibling t (par ++ [i]) = match i with 0 => None | S j => Some (par ++ [j]) end
  /\ node_right_sibling t (par ++ [i]) = if valid t (par ++ [S i]) then Some (par ++ [S i]) else None.
Proof. intros t par i H. split; [apply node_left_sibling_eq | apply node_right_sibling_eq]; exact H. Qed.

Lemma clause_descendants : forall t p s, subtree_at t p = Some s ->
  node_descendants t p = spec_descendants t p /\ node_descendants t p = map (app p) (tl (positions s)).
Proof. intros t p s H. split; [symmetry; eapply spec_descendants_eq; eauto | apply node_descendants_eq; exact H]. Qed.

Lemma clause_leaves : forall t p, valid t p = true -> node_leaves t p = spec_leaves t p.
Proof. intros t p H. destruct (valid_subtree t p H) as [s Hs]. symmetry. eapply spec_leaves_eq; eauto. Qed.

Lemma clause_is_leaf : forall t p, valid t p = true -> (node_is_leaf t p = true <-> node_descendants t p = []).
Proof.
  intros t p H. destruct (valid_subtree t p H) as [s Hs].
  rewrite (node_is_leaf_eq t p s Hs), (node_descendants_eq t p s Hs), <- (no_descendants_iff_leaf p s).
  rewrite Nat.eqb_eq. split; [apply length_zero_iff_nil | intro E; rewrite E; reflexivity].
Qed.

Lemma clause_max_depth : forall t p,
  node_max_depth t p = spec_max_depth t
  /\ (forall q, In q (positions t) -> node_depth q <= node_max_depth t p)
  /\ (exists q, In q (positions t) /\ node_depth q = node_max_depth t p).
Proof.
  intros t p. rewrite node_max_depth_eq. split; [reflexivity|]. unfold spec_max_depth. rewrite list_max_map.
  split.
  - intros q Hq. rewrite node_depth_eq. apply (fmax_ge (fun a => S (length a)) _ _ Hq).
  - destruct (fmax_attained (fun a : pos => S (length a)) (positions t)) as [i [q [Hi Hq]]].
    + rewrite positions_hd. discriminate.
    + exists q. split; [eapply nth_error_In; eauto | rewrite node_depth_eq; exact Hq].
Qed.

Lemma clause_diameter : forall t p, valid t p = true -> node_diameter t p = spec_diameter t p.
Proof. intros t p H. destruct (valid_subtree t p H) as [s Hs]. symmetry. eapply spec_diameter_eq; eauto. Qed.

(* stated on the nodes of the whole tree that lie in the subtree of p *)
Lemma clause_diameter_upper : forall t p a b, valid t p = true ->
  In a (positions t) -> In b (positions t) -> is_prefix p a = true -> is_prefix p b = true ->
  dist a b <= node_diameter t p.
Proof.
  intros t p a b H Ha Hb Hpa Hpb. destruct (valid_subtree t p H) as [s Hs].
  assert (Ia : In a (spec_subtree t p)) by (apply filter_In; auto).
  assert (Ib : In b (spec_subtree t p)) by (apply filter_In; auto).
  rewrite (spec_subtree_eq t p s Hs) in Ia, Ib. apply in_map_iff in Ia, Ib.
  destruct Ia as [a' [Ea Ia]]. destruct Ib as [b' [Eb Ib]]. subst a b. rewrite dist_app.
  eapply node_diameter_upper; eauto.
Qed.

Lemma clause_diameter_attained : forall t p, valid t p = true ->
  exists a b, In a (positions t) /\ In b (positions t) /\ is_prefix p a = true /\ is_prefix p b = true
              /\ dist a b = node_diameter t p.
Proof.
  intros t p H. destruct (valid_subtree t p H) as [s Hs].
  destruct (node_diameter_attained t p s Hs) as [a [b [Ha [Hb E]]]].
  assert (Ia : In (p ++ a) (spec_subtree t p)) by (rewrite (spec_subtree_eq t p s Hs); apply in_map; exact Ha).
  assert (Ib : In (p ++ b) (spec_subtree t p)) by (rewrite (spec_subtree_eq t p s Hs); apply in_map; exact Hb).
  apply filter_In in Ia, Ib. exists (p ++ a), (p ++ b). rewrite dist_app. tauto.
Qed.

Lemma clause_go_to : forall t i p q, valid t p = true -> valid t q = true ->
  exists path, node_go_to (i, p) (GNode (i, q)) = Ret path
               /\ path = spec_go_to p q /\ prop_C12_goto t p q path = true
               /\ NoDup path /\ length path = S (dist p q).
Proof.
  intros t i p q Hp Hq. exists (spec_go_to p q). split; [apply node_go_to_same_tree|]. split; [reflexivity|].
  split; [apply prop_C12_goto_spec; assumption|]. split; [apply spec_go_to_NoDup | apply spec_go_to_length].
Qed.

(* ============================================================================================== *)
(* K. uniqueness: every simple path from p to q is the one go_to returns                            *)

Lemma is_prefix_firstn_eq : forall a q, is_prefix a q = true -> length a <= length q /\ a = firstn (length a) q.
Proof.
  induction a as [|i a IH]; intros q H; [split; [cbn; lia | reflexivity]|].
  destruct q as [|j q]; [discriminate|]. cbn [is_prefix] in H. apply andb_true_iff in H. destruct H as [E H].
  apply Nat.eqb_eq in E. subst j. destruct (IH q H) as [Hl Hf]. cbn [length firstn]. split; [lia|]. f_equal. exact Hf.
Qed.

Lemma is_prefix_lcp : forall a q, is_prefix a q = true -> lcp a q = a.
Proof.
  induction a as [|i a IH]; intros q H; [reflexivity|].
  destruct q as [|j q]; [discriminate|]. cbn [is_prefix] in H. apply andb_true_iff in H. destruct H as [E H].
  cbn [lcp]. rewrite E. rewrite (IH q H). reflexivity.
Qed.

Lemma is_parent_of_app : forall y p, is_parent_of y p = true -> exists i, p = y ++ [i].
Proof.
  intros y p H. unfold is_parent_of, proper_prefix in H. apply andb_true_iff in H. destruct H as [H Hl].
  apply andb_true_iff in H. destruct H as [Hp _]. apply Nat.eqb_eq in Hl.
  destruct (is_prefix_firstn_eq y p Hp) as [_ Hy].
  pose proof (firstn_skipn (length y) p) as E. rewrite <- Hy in E.
  assert (Hs : length (skipn (length y) p) = 1) by (rewrite skipn_length; lia).
  destruct (skipn (length y) p) as [|i [|j r]]; try discriminate. exists i. symmetry. exact E.
Qed.

Lemma is_parent_of_child : forall y i, is_parent_of y (y ++ [i]) = true.
Proof.
  intros y i. unfold is_parent_of, proper_prefix. rewrite app_length. cbn [length].
  replace (Nat.eqb (length y + 1) (S (length y))) with true by (symmetry; apply Nat.eqb_eq; lia).
  replace (Nat.ltb (length y) (length y + 1)) with true by (symmetry; apply Nat.ltb_lt; lia).
  rewrite !andb_true_r. induction y as [|c y IH]; [reflexivity|]. cbn [app is_prefix]. rewrite Nat.eqb_refl. exact IH.
Qed.

Lemma parent_unique : forall a b y, is_parent_of a y = true -> is_parent_of b y = true -> a = b.
Proof.
  intros a b y Ha Hb. apply is_parent_of_app in Ha, Hb. destruct Ha as [i Ea]. destruct Hb as [j Eb].
  rewrite Ea in Eb. apply app_inj_tail in Eb. tauto.
Qed.

Fixpoint descending (l : list pos) : bool :=
  match l with
  | a :: ((b :: _) as r) => is_parent_of a b && descending r
  | _ => true
  end.

Lemma descending_cons : forall x L, descending (x :: L) =
  match L with [] => true | y :: _ => is_parent_of x y && descending L end.
Proof. intros x [|y L]; reflexivity. Qed.

(* after a step down, a simple path can only go further down *)
Lemma down_stays_down : forall R x y, is_parent_of x y = true ->
  consecutive_adjacent (x :: y :: R) = true -> NoDup (x :: y :: R) -> descending (x :: y :: R) = true.
Proof.
  induction R as [|z R IH]; intros x y Hxy Hc Hn.
  - cbn. rewrite Hxy. reflexivity.
  - rewrite descending_cons, Hxy. cbn [andb].
    rewrite consecutive_cons in Hc. apply andb_true_iff in Hc. destruct Hc as [_ Hc].
    pose proof Hc as Hc'. rewrite consecutive_cons in Hc'. apply andb_true_iff in Hc'. destruct Hc' as [Hadj _].
    inversion Hn as [|? ? Hx Hn']; subst.
    unfold adjacent in Hadj. apply orb_true_iff in Hadj. destruct Hadj as [Hd|Hu].
    + apply IH; assumption.
    + exfalso. apply Hx. rewrite (parent_unique x z y Hxy Hu). right. left. reflexivity.
Qed.

Lemma is_prefix_trans_parent : forall x y q, is_parent_of x y = true -> is_prefix y q = true -> is_prefix x q = true.
Proof.
  intros x y q Hxy Hy. apply is_parent_of_app in Hxy. destruct Hxy as [i E]. subst y.
  revert q Hy. induction x as [|c x IH]; intros q Hy; [reflexivity|].
  destruct q as [|j q]; [discriminate|]. cbn [app is_prefix] in *. apply andb_true_iff in Hy. destruct Hy as [E Hy].
  rewrite E. cbn [andb]. apply IH. exact Hy.
Qed.

(* a descending chain is the list of prefixes of its end point, from its start point on *)
Lemma descending_form : forall R x q, descending (x :: R) = true -> last (x :: R) [] = q ->
  is_prefix x q = true /\ x :: R = prefixes_at q (seq (length x) (S (length q - length x))).
Proof.
  induction R as [|y R IH]; intros x q Hd Hl.
  - cbn in Hl. subst q. split.
    + rewrite <- (firstn_all x) at 1. rewrite <- (firstn_all x) at 3. apply is_prefix_firstn_firstn. lia.
    + rewrite Nat.sub_diag. cbn [seq prefixes_at map]. rewrite firstn_all. reflexivity.
  - rewrite descending_cons in Hd. apply andb_true_iff in Hd. destruct Hd as [Hxy Hd].
    change (last (x :: y :: R) []) with (last (y :: R) []) in Hl.
    destruct (IH y q Hd Hl) as [Hyq Hform].
    pose proof (is_prefix_trans_parent x y q Hxy Hyq) as Hxq. split; [exact Hxq|].
    destruct (is_prefix_firstn_eq x q Hxq) as [_ Hx]. destruct (is_prefix_firstn_eq y q Hyq) as [Hly _].
    assert (Hlen : length y = S (length x)).
    { unfold is_parent_of in Hxy. apply andb_true_iff in Hxy. destruct Hxy as [_ E]. apply Nat.eqb_eq in E. exact E. }
    rewrite Hform, Hlen. replace (S (length q - length x)) with (S (S (length q - S (length x)))) by lia.
    cbn [seq prefixes_at map]. f_equal. exact Hx.
Qed.

Lemma lcp_snoc : forall y i q, lcp (y ++ [i]) q = if is_prefix (y ++ [i]) q then y ++ [i] else lcp y q.
Proof.
  induction y as [|c y IH]; intros i q.
  - destruct q as [|j q]; [reflexivity|]. cbn [app lcp is_prefix]. destruct (Nat.eqb i j); [|reflexivity].
    destruct q; reflexivity.
  - destruct q as [|j q]; [reflexivity|]. cbn [app lcp is_prefix]. destruct (Nat.eqb c j); [|reflexivity].
    cbn [andb]. rewrite IH. destruct (is_prefix (y ++ [i]) q); reflexivity.
Qed.

Lemma firstn_snoc_le : forall (y : pos) i k, k <= length y -> firstn k (y ++ [i]) = firstn k y.
Proof.
  intros y i k H. rewrite firstn_app. replace (k - length y) with 0 by lia. cbn [firstn]. apply app_nil_r.
Qed.

Lemma NoDup_nodup_pos : forall l, nodup_pos l = true -> NoDup l.
Proof.
  induction l as [|a l IH]; intro H; [constructor|]. cbn [nodup_pos] in H. apply andb_true_iff in H.
  destruct H as [H1 H2]. constructor; [|apply IH; exact H2].
  intro Hin. apply negb_true_iff in H1. assert (E : existsb (pos_eq a) l = true).
  { apply existsb_exists. exists a. split; [exact Hin | apply pos_eq_refl]. }
  congruence.
Qed.

Lemma path_unique : forall L p q, hd_error L = Some p -> last L [] = q ->
  consecutive_adjacent L = true -> NoDup L -> L = spec_go_to p q.
Proof.
  induction L as [|x R IH]; intros p q Hh Hl Hc Hn; [discriminate|].
  cbn in Hh. inversion Hh; subst x. destruct R as [|y R].
  - cbn in Hl. subst q. rewrite spec_go_to_self. reflexivity.
  - pose proof Hc as Hc'. rewrite consecutive_cons in Hc'. apply andb_true_iff in Hc'. destruct Hc' as [Hadj Hc2].
    unfold adjacent in Hadj. apply orb_true_iff in Hadj. destruct Hadj as [Hdown|Hup].
    + (* first step goes down: the whole path does *)
      pose proof (down_stays_down R p y Hdown Hc Hn) as Hd.
      destruct (descending_form (y :: R) p q Hd Hl) as [Hpq Hform].
      apply (eq_trans Hform). unfold spec_go_to, up_chain, down_chain. rewrite (is_prefix_lcp p q Hpq), Nat.sub_diag. reflexivity.
    + (* first step goes up *)
      change (last (p :: y :: R) []) with (last (y :: R) []) in Hl.
      inversion Hn as [|? ? Hp Hn2]; subst.
      pose proof (IH y (last (y :: R) []) eq_refl eq_refl Hc2 Hn2) as HR.
      remember (last (y :: R) []) as q eqn:Eq.
      unfold pos in *. rewrite HR in Hp. rewrite HR. clear HR Eq Hc Hc2 Hn Hn2 IH Hh.
      apply is_parent_of_app in Hup. destruct Hup as [i E]. subst p.
      destruct (is_prefix (y ++ [i]) q) eqn:Epre.
      * (* then the path would come back through p *)
        exfalso. apply Hp.
        destruct (is_prefix_firstn_eq _ _ Epre) as [Hlen Hf]. rewrite app_length in Hlen, Hf. cbn [length] in Hlen, Hf.
        assert (Hyq : is_prefix y q = true) by (apply (is_prefix_trans_parent y (y ++ [i]) q); [apply is_parent_of_child | exact Epre]).
        unfold spec_go_to, up_chain, down_chain. rewrite (is_prefix_lcp y q Hyq). apply in_or_app. right.
        apply in_map_iff. exists (length y + 1). split; [symmetry; exact Hf | apply in_seq; lia].
      * unfold spec_go_to at 2. rewrite lcp_snoc, Epre. unfold spec_go_to.
        set (l := length (lcp y q)). assert (Hl : l <= length y) by apply lcp_length_l.
        unfold up_chain. rewrite app_length. cbn [length].
        replace (length y + 1 - l) with (S (length y - l)) by lia.
        fold (prefixes_at (y ++ [i]) (rev (seq (S l) (S (length y - l))))). rewrite up_chain_S.
        replace (S l + (length y - l)) with (length (y ++ [i])) by (rewrite app_length; cbn [length]; lia).
        rewrite firstn_all. cbn [app]. f_equal. f_equal.
        unfold prefixes_at. apply map_ext_in. intros k Hk. apply in_rev, in_seq in Hk. symmetry. apply firstn_snoc_le. lia.
Qed.

Theorem simple_path_unique : forall t p q path, valid t p = true -> valid t q = true ->
  simple_path t p q path = true -> path = spec_go_to p q.
Proof.
  intros t p q path _ _ H. unfold simple_path in H.
  repeat (apply andb_true_iff in H; destruct H as [H ?]).
  destruct path as [|x r]; [discriminate|]. cbn [hd_error opt_eqb] in *.
  apply path_unique;
    [ cbn [hd_error]; f_equal; apply pos_eq_true; assumption | apply pos_eq_true; assumption
    | assumption | apply NoDup_nodup_pos; assumption ].
Qed.

(* ============================================================================================== *)
(* L. the inherited queries on BinaryNode trees                                                      *)

Definition optP (P : btree -> Prop) (o : option btree) : Prop :=
  match o with Some x => P x | None => True end.

Section BtInd.
  Variable P : btree -> Prop.
  Hypothesis H : forall g l r, optP P l -> optP P r -> P (BT g l r).
  Fixpoint btree_ind' (b : btree) : P b :=
    match b with
    | BT g l r =>
        H g l r
          (match l return optP P l with Some x => btree_ind' x | None => I end)
          (match r return optP P r with Some x => btree_ind' x | None => I end)
    end.
End BtInd.

(* the repaired recursion on a binary tree is the recursion on its image without the empty slots *)
Lemma bt_recursive_diameter_img : forall b d,
  bt_recursive_diameter b d = recursive_diameter (bt_to_rose b) d.
Proof.
  induction b as [g l r IHl IHr] using btree_ind'. intro d.
  destruct l as [lb|]; destruct r as [rb|]; cbn [optP] in IHl, IHr.
  - cbn [bt_recursive_diameter binary_is_leaf filter is_some length Nat.eqb bt_to_rose app].
    rewrite recursive_diameter_unfold, rd_go_cons. rewrite IHl.
    destruct (recursive_diameter (bt_to_rose lb) d) as [x d1]. rewrite rd_go_cons, IHr.
    destruct (recursive_diameter (bt_to_rose rb) d1) as [y d2]. reflexivity.
  - cbn [bt_recursive_diameter binary_is_leaf filter is_some length Nat.eqb bt_to_rose app].
    rewrite recursive_diameter_unfold, rd_go_cons. rewrite IHl.
    destruct (recursive_diameter (bt_to_rose lb) d) as [x d1]. reflexivity.
  - cbn [bt_recursive_diameter binary_is_leaf filter is_some length Nat.eqb bt_to_rose app].
    rewrite recursive_diameter_unfold, rd_go_cons. rewrite IHr.
    destruct (recursive_diameter (bt_to_rose rb) d) as [y d2]. reflexivity.
  - reflexivity.
Qed.

Lemma bt_is_leaf_img : forall b, bt_is_leaf b = sub_is_leaf (bt_to_rose b).
Proof. intros [g [lb|] [rb|]]; reflexivity. Qed.

Lemma bt_diameter_img : forall b, bt_diameter b = sub_diameter (bt_to_rose b).
Proof. intro b. unfold bt_diameter, sub_diameter. rewrite bt_is_leaf_img, bt_recursive_diameter_img. reflexivity. Qed.

(* BinaryNode.diameter = the largest distance between two nodes of the image tree *)
Lemma clause_binary_diameter : forall b,
  bt_diameter b = spec_diameter (bt_to_rose b) []
  /\ (forall p q, In p (positions (bt_to_rose b)) -> In q (positions (bt_to_rose b)) -> dist p q <= bt_diameter b)
  /\ (exists p q, In p (positions (bt_to_rose b)) /\ In q (positions (bt_to_rose b)) /\ dist p q = bt_diameter b).
Proof.
  intro b. rewrite bt_diameter_img, sub_diameter_eq. split; [|split].
  - rewrite (spec_diameter_eq (bt_to_rose b) [] (bt_to_rose b) eq_refl). unfold node_diameter. cbn [subtree_at].
    symmetry. apply sub_diameter_eq.
  - intros p q. apply diam_upper.
  - apply diam_attained.
Qed.

(* BinaryNode.siblings = the other entries of the parent's pair of slots *)
Lemma slot_is_oid : forall g c, slot_is g c = opt_eqb Nat.eqb (option_map bt_tag c) (Some g).
Proof. intros g [b|]; reflexivity. Qed.

Lemma oid_list_refl : forall l : list (option nat), list_eqb (opt_eqb Nat.eqb) l l = true.
Proof.
  induction l as [|[x|] l IH]; [reflexivity | |]; cbn [list_eqb opt_eqb]; [rewrite Nat.eqb_refl|]; exact IH.
Qed.

Lemma clause_binary_siblings : forall root g,
  prop_C12_binary_siblings (option_map (fun parent => map (option_map bt_tag) (bt_children parent)) (bt_parent_of root g))
                           g (bt_siblings root g) = true.
Proof.
  intros root g. unfold prop_C12_binary_siblings, bt_siblings. destruct (bt_parent_of root g) as [parent|]; [|reflexivity].
  cbn [option_map]. rewrite filter_map_comm.
  rewrite (filter_ext (fun x => negb (opt_eqb Nat.eqb (option_map bt_tag x) (Some g))) (fun c => negb (slot_is g c)))
    by (intro c; rewrite slot_is_oid; reflexivity).
  apply oid_list_refl.
Qed.
