(* Proofs about the model of the derived node queries (Algo/Derived.v) against the first-principles
   definitions of Spec/PC12.v. *)
From BT Require Import Base.Prelude Base.Rose Algo.Derived Spec.PC12.

(* ============================================================================================== *)
(* A. equality of positions                                                                        *)

Lemma list_eqb_nat_true : forall a b : pos, list_eqb Nat.eqb a b = true <-> a = b.
Proof.
  induction a as [|x a IH]; destruct b as [|y b]; cbn [list_eqb]; split; intro H; try reflexivity; try discriminate.
  - apply andb_true_iff in H. destruct H as [H1 H2]. apply Nat.eqb_eq in H1. apply IH in H2. subst. reflexivity.
  - inversion H; subst. rewrite Nat.eqb_refl. cbn. apply IH. reflexivity.
Qed.

Lemma pos_eqb_true : forall a b, pos_eqb a b = true <-> a = b.
Proof. exact list_eqb_nat_true. Qed.
Lemma pos_eq_true : forall a b, pos_eq a b = true <-> a = b.
Proof. exact list_eqb_nat_true. Qed.
Lemma pos_eqb_refl : forall a, pos_eqb a a = true.
Proof. intro a. apply pos_eqb_true. reflexivity. Qed.
Lemma pos_eq_refl : forall a, pos_eq a a = true.
Proof. intro a. apply pos_eq_true. reflexivity. Qed.
Lemma pos_eqb_false : forall a b, pos_eqb a b = false <-> a <> b.
Proof.
  intros a b. split.
  - intros H E. apply pos_eqb_true in E. congruence.
  - intro H. destruct (pos_eqb a b) eqn:E; [apply pos_eqb_true in E; contradiction | reflexivity].
Qed.
Lemma pos_eq_false : forall a b, pos_eq a b = false <-> a <> b.
Proof. exact pos_eqb_false. Qed.

Lemma lpos_eq_refl : forall l, lpos_eq l l = true.
Proof.
  induction l as [|a l IH]; [reflexivity|]. unfold lpos_eq in *. cbn [list_eqb].
  rewrite pos_eq_refl, IH. reflexivity.
Qed.
Lemma lpos_eq_true : forall a b, lpos_eq a b = true <-> a = b.
Proof.
  unfold lpos_eq. induction a as [|x a IH]; destruct b as [|y b]; cbn [list_eqb]; split; intro H;
    try reflexivity; try discriminate.
  - apply andb_true_iff in H. destruct H as [H1 H2]. apply pos_eq_true in H1. apply IH in H2. subst. reflexivity.
  - inversion H; subst. rewrite pos_eq_refl. cbn. apply IH. reflexivity.
Qed.
Lemma opos_eq_refl : forall o, opos_eq o o = true.
Proof. intros [a|]; [apply pos_eq_refl | reflexivity]. Qed.

(* ============================================================================================== *)
(* B. upward queries: explicit forms                                                                *)

(* the prefixes of p with the given lengths *)
Definition prefixes_at (p : pos) (ks : list nat) : list pos := map (fun k => firstn k p) ks.

Lemma node_parent_app : forall q i, node_parent (q ++ [i]) = Some q.
Proof.
  intros q i. unfold node_parent. destruct (q ++ [i]) eqn:E.
  - destruct q; discriminate.
  - rewrite <- E. rewrite removelast_last. reflexivity.
Qed.

Lemma node_parent_firstn : forall p k, k < length p -> node_parent (firstn (S k) p) = Some (firstn k p).
Proof.
  intros p k Hk. unfold node_parent.
  destruct (firstn (S k) p) eqn:E.
  - destruct p; cbn in *; [lia | discriminate].
  - rewrite <- E. rewrite removelast_firstn by exact Hk. reflexivity.
Qed.

Lemma node_parent_nil : node_parent [] = None.
Proof. reflexivity. Qed.

Lemma rev_seq_S : forall k, rev (seq 0 (S k)) = k :: rev (seq 0 k).
Proof. intro k. rewrite seq_S, rev_app_distr. reflexivity. Qed.

Lemma ancestors_f_firstn : forall p k fuel, k <= length p -> k < fuel ->
  ancestors_f fuel (firstn k p) = prefixes_at p (rev (seq 0 k)).
Proof.
  intros p k. induction k as [|k IH]; intros fuel Hk Hf.
  - destruct fuel; [lia|]. reflexivity.
  - destruct fuel as [|f]; [lia|]. cbn [ancestors_f].
    rewrite node_parent_firstn by lia. rewrite IH by lia.
    rewrite rev_seq_S. reflexivity.
Qed.

Lemma node_ancestors_eq : forall p, node_ancestors p = prefixes_at p (rev (seq 0 (length p))).
Proof.
  intro p. unfold node_ancestors. rewrite <- (firstn_all p) at 2.
  apply ancestors_f_firstn; lia.
Qed.

Lemma node_ancestors_length : forall p, length (node_ancestors p) = length p.
Proof. intro p. rewrite node_ancestors_eq. unfold prefixes_at. rewrite map_length, rev_length, seq_length. reflexivity. Qed.

Lemma depth_f_firstn : forall p k fuel, k <= length p -> k < fuel -> depth_f fuel (firstn k p) = S k.
Proof.
  intros p k. induction k as [|k IH]; intros fuel Hk Hf.
  - destruct fuel; [lia|]. reflexivity.
  - destruct fuel as [|f]; [lia|]. cbn [depth_f]. rewrite node_parent_firstn by lia. rewrite IH by lia. lia.
Qed.

Lemma node_depth_eq : forall p, node_depth p = S (length p).
Proof. intro p. unfold node_depth. rewrite <- (firstn_all p) at 2. apply depth_f_firstn; lia. Qed.

Lemma node_depth_ancestors : forall p, node_depth p = 1 + length (node_ancestors p).
Proof. intro p. rewrite node_depth_eq, node_ancestors_length. reflexivity. Qed.

Lemma root_f_firstn : forall p k fuel, k <= length p -> k < fuel -> root_f fuel (firstn k p) = [].
Proof.
  intros p k. induction k as [|k IH]; intros fuel Hk Hf.
  - destruct fuel; [lia|]. reflexivity.
  - destruct fuel as [|f]; [lia|]. cbn [root_f]. rewrite node_parent_firstn by lia. apply IH; lia.
Qed.

Lemma node_root_eq : forall p, node_root p = [].
Proof. intro p. unfold node_root. rewrite <- (firstn_all p) at 2. apply root_f_firstn; lia. Qed.

Lemma node_path_f_firstn : forall p k fuel, k <= length p -> k < fuel ->
  node_path_f fuel (firstn k p) = prefixes_at p (seq 0 (S k)).
Proof.
  intros p k. induction k as [|k IH]; intros fuel Hk Hf.
  - destruct fuel; [lia|]. reflexivity.
  - destruct fuel as [|f]; [lia|]. cbn [node_path_f]. rewrite node_parent_firstn by lia. rewrite IH by lia.
    rewrite (seq_S (S k) 0). unfold prefixes_at. rewrite map_app. reflexivity.
Qed.

Lemma node_path_eq : forall p, node_path p = prefixes_at p (seq 0 (S (length p))).
Proof. intro p. unfold node_path. rewrite <- (firstn_all p) at 2. apply node_path_f_firstn; lia. Qed.

Lemma node_path_rev_ancestors : forall p, node_path p = rev (p :: node_ancestors p).
Proof.
  intro p. rewrite node_path_eq, node_ancestors_eq. unfold prefixes_at.
  cbn [rev]. rewrite map_rev, rev_involutive. rewrite seq_S, map_app. cbn [map Nat.add]. rewrite firstn_all. reflexivity.
Qed.

Lemma node_is_root_iff : forall p, node_is_root p = true <-> p = [].
Proof. intro p. destruct p; cbn; split; intro H; congruence. Qed.

Lemma node_is_root_no_ancestors : forall p, node_is_root p = Nat.eqb (length (node_ancestors p)) 0.
Proof. intro p. rewrite node_ancestors_length. destruct p; reflexivity. Qed.

(* the root is the last ancestor (or the node itself) *)
Lemma node_root_last : forall p, last (p :: node_ancestors p) [] = node_root p.
Proof.
  intro p. rewrite node_root_eq.
  rewrite <- (rev_involutive (p :: node_ancestors p)), <- node_path_rev_ancestors, node_path_eq.
  cbn [seq prefixes_at map firstn rev]. apply last_last.
Qed.

(* ============================================================================================== *)
(* C. positions                                                                                     *)

Fixpoint pos_go (i : nat) (l : list tree) : list pos :=
  match l with
  | [] => []
  | k :: r => map (cons i) (positions k) ++ pos_go (S i) r
  end.

Lemma positions_eq : forall g n a ks, positions (T g n a ks) = [] :: pos_go 0 ks.
Proof. reflexivity. Qed.

Lemma positions_hd : forall t, positions t = [] :: tl (positions t).
Proof. intros [g n a ks]. reflexivity. Qed.

Lemma pos_go_cons : forall l i q, In q (pos_go i l) -> exists j q', q = j :: q'.
Proof.
  induction l as [|k l IH]; intros i q H; cbn [pos_go] in H; [contradiction|].
  apply in_app_or in H. destruct H as [H|H].
  - apply in_map_iff in H. destruct H as [q' [E _]]. eauto.
  - eapply IH; eauto.
Qed.

Lemma positions_tl_nonnil : forall t q, In q (tl (positions t)) -> q <> [].
Proof.
  intros [g n a ks] q H. rewrite positions_eq in H. cbn [tl] in H.
  apply pos_go_cons in H. destruct H as [j [q' E]]. subst. discriminate.
Qed.

Lemma In_pos_go : forall l i j q, In (j :: q) (pos_go i l) <->
  exists k, i <= j /\ nth_error l (j - i) = Some k /\ In q (positions k).
Proof.
  induction l as [|k l IH]; intros i j q; cbn [pos_go].
  - split; [contradiction|]. intros [k [_ [H _]]]. destruct (j - i); discriminate.
  - rewrite in_app_iff, in_map_iff, IH. split.
    + intros [[q' [E H]]|[k' [Hle [Hn H]]]].
      * inversion E; subst. exists k. rewrite Nat.sub_diag. auto.
      * exists k'. split; [lia|]. replace (j - i) with (S (j - S i)) by lia. auto.
    + intros [k' [Hle [Hn H]]]. destruct (Nat.eq_dec i j) as [E|NE].
      * subst. rewrite Nat.sub_diag in Hn. inversion Hn; subst. left. eauto.
      * right. exists k'. split; [lia|]. replace (j - i) with (S (j - S i)) in Hn by lia. auto.
Qed.

Lemma In_positions : forall q t, In q (positions t) <-> exists s, subtree_at t q = Some s.
Proof.
  induction q as [|j q IH]; intros [g n a ks].
  - split; [intros _; eexists; reflexivity | intros _; left; reflexivity].
  - rewrite positions_eq. cbn [In subtree_at tkids]. split.
    + intros [H|H]; [discriminate|]. apply In_pos_go in H. destruct H as [k [_ [Hn H]]].
      rewrite Nat.sub_0_r in Hn. rewrite Hn. apply IH. exact H.
    + intros [s H]. right. apply In_pos_go. destruct (nth_error ks j) as [k|] eqn:Hn; [|discriminate].
      exists k. rewrite Nat.sub_0_r. split; [lia|]. split; [exact Hn|]. apply IH. eauto.
Qed.

Lemma valid_In_positions : forall t q, valid t q = true <-> In q (positions t).
Proof.
  intros t q. rewrite In_positions. unfold valid. destruct (subtree_at t q); split; intro H; eauto; try discriminate.
  destruct H as [s H]. discriminate.
Qed.

Lemma subtree_at_app : forall a t b,
  subtree_at t (a ++ b) = match subtree_at t a with Some s => subtree_at s b | None => None end.
Proof.
  induction a as [|i a IH]; intros t b; [reflexivity|].
  cbn [app subtree_at]. destruct (nth_error (tkids t) i); [apply IH | reflexivity].
Qed.

(* filtering the positions with a predicate that fixes the first child index *)
Section FilterPos.
  Variables (F G : pos -> bool) (i : nat).
  Hypothesis HF : forall j a, F (j :: a) = Nat.eqb j i && G a.

  Lemma filter_cons_block : forall j xs,
    filter F (map (cons j) xs) = if Nat.eqb j i then map (cons i) (filter G xs) else [].
  Proof.
    intros j xs. induction xs as [|x xs IHx].
    - cbn. destruct (Nat.eqb j i); reflexivity.
    - cbn [map filter]. rewrite HF, IHx. destruct (Nat.eqb j i) eqn:E; cbn [andb]; [|reflexivity].
      apply Nat.eqb_eq in E. subst j. destruct (G x); reflexivity.
  Qed.

  Lemma filter_pos_go_later : forall l o, i < o -> filter F (pos_go o l) = [].
  Proof.
    induction l as [|k l IH]; intros o Ho; [reflexivity|]. cbn [pos_go].
    rewrite filter_app, IH by lia. rewrite filter_cons_block.
    replace (Nat.eqb o i) with false by (symmetry; apply Nat.eqb_neq; lia). reflexivity.
  Qed.

  Lemma filter_pos_go : forall l o, o <= i ->
    filter F (pos_go o l) =
    match nth_error l (i - o) with Some k => map (cons i) (filter G (positions k)) | None => [] end.
  Proof.
    induction l as [|k l IH]; intros o Ho; cbn [pos_go].
    - destruct (i - o); reflexivity.
    - rewrite filter_app, filter_cons_block. destruct (Nat.eq_dec o i) as [E|NE].
      + subst o. rewrite Nat.eqb_refl, Nat.sub_diag. cbn [nth_error].
        rewrite filter_pos_go_later by lia. apply app_nil_r.
      + replace (Nat.eqb o i) with false by (symmetry; apply Nat.eqb_neq; lia). cbn [app].
        rewrite IH by lia. replace (i - o) with (S (i - S o)) by lia. reflexivity.
  Qed.
End FilterPos.

Lemma filter_none : forall {A} (f : A -> bool) l, (forall x, In x l -> f x = false) -> filter f l = [].
Proof.
  intros A f l. induction l as [|x l IH]; intro H; [reflexivity|]. cbn [filter].
  rewrite (H x) by (left; reflexivity). apply IH. intros y Hy. apply H. right. exact Hy.
Qed.

Lemma filter_all : forall {A} (f : A -> bool) l, (forall x, In x l -> f x = true) -> filter f l = l.
Proof.
  intros A f l. induction l as [|x l IH]; intro H; [reflexivity|]. cbn [filter].
  rewrite (H x) by (left; reflexivity). f_equal. apply IH. intros y Hy. apply H. right. exact Hy.
Qed.

Lemma filter_filter : forall {A} (f g : A -> bool) l, filter f (filter g l) = filter (fun x => g x && f x) l.
Proof.
  intros A f g l. induction l as [|x l IH]; [reflexivity|]. cbn [filter].
  destruct (g x); cbn [andb filter]; rewrite IH; reflexivity.
Qed.

Lemma filter_map_comm : forall {A B} (f : B -> bool) (g : A -> B) l, filter f (map g l) = map g (filter (fun x => f (g x)) l).
Proof.
  intros A B f g l. induction l as [|x l IH]; [reflexivity|]. cbn [map filter].
  destruct (f (g x)); cbn [map]; rewrite IH; reflexivity.
Qed.

Lemma valid_cons : forall g n a ks i p, valid (T g n a ks) (i :: p) = true ->
  exists k, nth_error ks i = Some k /\ valid k p = true.
Proof.
  intros g n a ks i p H. unfold valid in *. cbn [subtree_at tkids] in H.
  destruct (nth_error ks i) as [k|]; [|discriminate]. eauto.
Qed.

(* K2: the nodes on the route from the root to p, in document order, are the prefixes of p *)
Lemma filter_prefix_of : forall p t, valid t p = true ->
  filter (fun a => is_prefix a p) (positions t) = prefixes_at p (seq 0 (S (length p))).
Proof.
  induction p as [|i p IH]; intros [g n a ks] Hv; rewrite positions_eq.
  - cbn [filter is_prefix]. cbn. f_equal. apply filter_none.
    intros x Hx. apply pos_go_cons in Hx. destruct Hx as [j [q E]]. subst. reflexivity.
  - apply valid_cons in Hv. destruct Hv as [k [Hn Hk]].
    cbn [filter is_prefix].
    rewrite (filter_pos_go (fun a => is_prefix a (i :: p)) (fun a => is_prefix a p) i) by (intros; reflexivity || lia).
    rewrite Nat.sub_0_r, Hn. rewrite IH by exact Hk.
    cbn [length]. change (seq 0 (S (S (length p)))) with (0 :: seq 1 (S (length p))).
    rewrite <- seq_shift. unfold prefixes_at. cbn [map firstn]. f_equal. rewrite !map_map. reflexivity.
Qed.

(* K1: the nodes below-or-at p, in document order, are p ++ the positions of the subtree at p *)
Lemma filter_prefixed_by : forall p t s, subtree_at t p = Some s ->
  filter (is_prefix p) (positions t) = map (app p) (positions s).
Proof.
  induction p as [|i p IH]; intros [g n a ks] s Hs.
  - cbn in Hs. inversion Hs; subst. rewrite filter_all by reflexivity.
    cbn [app]. rewrite map_id. reflexivity.
  - rewrite positions_eq. cbn [filter is_prefix].
    cbn [subtree_at tkids] in Hs. destruct (nth_error ks i) as [k|] eqn:Hn; [|discriminate].
    rewrite (filter_pos_go (is_prefix (i :: p)) (is_prefix p) i).
    + rewrite Nat.sub_0_r, Hn. rewrite (IH k s Hs). rewrite map_map. reflexivity.
    + intros j b. cbn [is_prefix]. rewrite Nat.eqb_sym. reflexivity.
    + lia.
Qed.
