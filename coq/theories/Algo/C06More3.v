(* C06, textual half, third round: Newick export / re-import for attribute values that are NOT non-empty
   strings -- the clause "falsy attribute values (0, '', False are not exported ...), non-string attribute
   values (come back as str)" of the textio engine.

   tree_to_newick writes   k=_serialize(v)   only `if tree.get_attr(k)` (truthy), and a non-str value goes
   through the f-string, i.e. str(v), never quoted.  Hence the text written for t is the text written for
   the tree  nv_tree keys t  in which every binding of a requested key carries
        VNone          when its value is falsy (None, 0, 0.0, '', False),
        VStr (str v)   when its value is a truthy non-string whose str() is a plain token,
        v itself       otherwise (non-empty strings; values whose str() the model does not give or that
                       contains a Newick control character),
   for EVERY configuration, start node and tree, without any guard (nw_write_nv).  Composed with the round
   trip of round 2 this gives the round trip for such values over the whole option space: the re-import is
   the source with falsy requested values dropped and the other ones replaced by their str().          *)
From BT Require Import Base.Prelude Base.Str Base.Rose Algo.TextIO Spec.PC06Text Algo.TextIOProofs Algo.C06More2.

Local Open Scope N_scope.

(* ------------------------------------------------------------------------------------------ *)
(* the normal form of a value, of an attribute list, of a tree                                 *)

Definition nv_val (v : val) : val :=
  if truthy v then
    match v with
    | VStr _ => v
    | _ => match py_str v with
           | Ret s => if has_special s || is_nil s then v else VStr s
           | Raise _ => v
           end
    end
  else VNone.

Definition key_in (k : str) (keys : list str) : bool := existsb (str_eqb k) keys.

Definition nv_attrs (keys : list str) (a : attrs) : attrs :=
  map (fun kv => if key_in (fst kv) keys then (fst kv, nv_val (snd kv)) else kv) a.

Fixpoint nv_tree (keys : list str) (t : tree) : tree :=
  match t with T g n a ks => T g n (nv_attrs keys a) (map (nv_tree keys) ks) end.

(* ------------------------------------------------------------------------------------------ *)
(* the three observations the writer makes of a value are invariant                            *)

Lemma nv_val_cases v :
  truthy v = true ->
  nv_val v = v
  \/ exists s, py_str v = Ret s /\ has_special s = false /\ is_nil s = false /\ nv_val v = VStr s
               /\ serialize_val v = py_str v.
Proof.
  intros E. unfold nv_val. rewrite E.
  destruct v as [|z|s0|b|n d]; [discriminate E| |left; reflexivity| |].
  - destruct (py_str (VInt z)) as [s|e] eqn:P; [|left; reflexivity].
    destruct (has_special s || is_nil s) eqn:F; [left; reflexivity|].
    apply orb_false_iff in F as [F1 F2]. right. exists s. rewrite <- P. repeat split; assumption.
  - destruct (py_str (VBool b)) as [s|e] eqn:P; [|left; reflexivity].
    destruct (has_special s || is_nil s) eqn:F; [left; reflexivity|].
    apply orb_false_iff in F as [F1 F2]. right. exists s. rewrite <- P. repeat split; assumption.
  - destruct (py_str (VFloat n d)) as [s|e] eqn:P; [|left; reflexivity].
    destruct (has_special s || is_nil s) eqn:F; [left; reflexivity|].
    apply orb_false_iff in F as [F1 F2]. right. exists s. rewrite <- P. repeat split; assumption.
Qed.

Lemma nv_truthy v : truthy (nv_val v) = truthy v.
Proof.
  destruct (truthy v) eqn:E; [|unfold nv_val; rewrite E; reflexivity].
  destruct (nv_val_cases v E) as [H|(s & _ & _ & F & H & _)]; rewrite H; [exact E|].
  destruct s; [discriminate F|reflexivity].
Qed.

Lemma nv_py_str v : truthy v = true -> py_str (nv_val v) = py_str v.
Proof.
  intros E. destruct (nv_val_cases v E) as [H|(s & P & _ & _ & H & _)]; rewrite H; [reflexivity|].
  rewrite P. reflexivity.
Qed.

Lemma nv_serialize_val v : truthy v = true -> serialize_val (nv_val v) = serialize_val v.
Proof.
  intros E. destruct (nv_val_cases v E) as [H|(s & P & F & _ & H & S)]; rewrite H; [reflexivity|].
  rewrite S, P. cbn [serialize_val]. unfold serialize. rewrite F. reflexivity.
Qed.

Lemma nv_val_none : nv_val VNone = VNone.
Proof. reflexivity. Qed.

(* ------------------------------------------------------------------------------------------ *)
(* get_attr on the normal form                                                                 *)

Lemma lookup_nv keys k a :
  lookup k (nv_attrs keys a) = if key_in k keys then nv_val (lookup k a) else lookup k a.
Proof.
  unfold lookup, nv_attrs.
  induction a as [|[k0 v0] a IH].
  - cbn. destruct (key_in k keys); reflexivity.
  - cbn [map find fst snd].
    assert (Hfst : fst (if key_in k0 keys then (k0, nv_val v0) else (k0, v0)) = k0)
      by (destruct (key_in k0 keys); reflexivity).
    rewrite Hfst. destruct (str_eqb k0 k) eqn:E.
    + apply str_eqb_eq in E. subst k0. destruct (key_in k keys); reflexivity.
    + exact IH.
Qed.

Lemma lookup_nv_truthy keys k a : truthy (lookup k (nv_attrs keys a)) = truthy (lookup k a).
Proof. rewrite lookup_nv. destruct (key_in k keys); [apply nv_truthy|reflexivity]. Qed.

Lemma lookup_nv_py_str keys k a :
  truthy (lookup k a) = true -> py_str (lookup k (nv_attrs keys a)) = py_str (lookup k a).
Proof. intros E. rewrite lookup_nv. destruct (key_in k keys); [apply nv_py_str; exact E|reflexivity]. Qed.

Lemma lookup_nv_serialize keys k a :
  truthy (lookup k a) = true -> serialize_val (lookup k (nv_attrs keys a)) = serialize_val (lookup k a).
Proof. intros E. rewrite lookup_nv. destruct (key_in k keys); [apply nv_serialize_val; exact E|reflexivity]. Qed.

(* ------------------------------------------------------------------------------------------ *)
(* the writer does not distinguish a tree from its normal form                                 *)

Lemma attr_items_nv keys ks a : attr_items ks (nv_attrs keys a) = attr_items ks a.
Proof.
  induction ks as [|k r IH]; [reflexivity|].
  cbn [attr_items]. rewrite lookup_nv_truthy, IH.
  destruct (truthy (lookup k a)) eqn:E; [|reflexivity].
  rewrite (lookup_nv_serialize keys k a E). reflexivity.
Qed.

Lemma attr_str_nv keys c a : attr_str c (nv_attrs keys a) = attr_str c a.
Proof. unfold attr_str. rewrite attr_items_nv. reflexivity. Qed.

Lemma name_str_nv keys c isroot leaf n a : name_str c isroot leaf n (nv_attrs keys a) = name_str c isroot leaf n a.
Proof.
  unfold name_str. destruct (negb (is_nil (nw_len c)) && negb isroot); [|reflexivity].
  rewrite lookup_nv_truthy. destruct (truthy (lookup (nw_len c) a)) eqn:E; [|reflexivity].
  rewrite (lookup_nv_py_str keys _ a E). reflexivity.
Qed.

(* EVERY configuration (any separators, any prefix, any length attribute -- even one that is also a requested
   key), any key list (not only the configuration's own), every start node, every tree *)
Theorem nw_write_nv_any keys c : forall t isroot, nw_write c isroot (nv_tree keys t) = nw_write c isroot t.
Proof.
  induction t as [g n a ks IH] using tree_ind'. intros isroot.
  cbn [nv_tree nw_write].
  assert (Hnil : is_nil (map (nv_tree keys) ks) = is_nil ks) by (destruct ks; reflexivity).
  rewrite Hnil, name_str_nv, attr_str_nv. clear Hnil.
  destruct (name_str c isroot (is_nil ks) n a) as [nm|e]; [|reflexivity].
  destruct (attr_str c a) as [ast|e]; [|reflexivity].
  assert (Hgo :
    (fix go (l : list tree) : res (list str) :=
       match l with
       | [] => Ret []
       | k :: r => match nw_write c false k with
                   | Raise e => Raise e
                   | Ret s => match go r with Raise e => Raise e | Ret ss => Ret (s :: ss) end
                   end
       end) (map (nv_tree keys) ks)
    = (fix go (l : list tree) : res (list str) :=
       match l with
       | [] => Ret []
       | k :: r => match nw_write c false k with
                   | Raise e => Raise e
                   | Ret s => match go r with Raise e => Raise e | Ret ss => Ret (s :: ss) end
                   end
       end) ks).
  { induction IH as [|k r Hk _ IHr]; [reflexivity|].
    cbn [map]. rewrite Hk, IHr. reflexivity. }
  destruct ks as [|k0 r0]; [reflexivity|].
  cbn [map] in Hgo |- *. rewrite Hgo. reflexivity.
Qed.

Theorem nw_write_nv c isroot t : nw_write c isroot (nv_tree (nw_attrs c) t) = nw_write c isroot t.
Proof. apply nw_write_nv_any. Qed.

(* ------------------------------------------------------------------------------------------ *)
(* round trip: whole option space of round 2, values of any type                               *)

Theorem newick_roundtrip_values_any inter len keys pf isroot t :
  newick_alphabet_ext (oF inter len keys pf) isroot (rq_all (nv_tree keys t)) = true ->
  lengths_canonical len isroot (rq_all (nv_tree keys t)) = true ->
  exists s back,
    nw_write (cfgF inter len keys pf) isroot t = Ret s
    /\ nw_parse (laF inter len keys pf) pf s = Ret back
    /\ prop_newick_back (oF inter len keys pf) isroot (rq_all (nv_tree keys t)) back = true.
Proof.
  intros H Hc.
  destruct (newick_roundtrip_quote_values inter len keys pf isroot (nv_tree keys t) H Hc)
    as (s & s' & back & Hw & Hp & Hb & _).
  exists s, back. split; [|split; [exact Hp|exact Hb]].
  rewrite <- Hw. symmetry. apply nw_write_nv_any.
Qed.

(* ------------------------------------------------------------------------------------------ *)
(* what the normal form is, value by value                                                     *)

Lemma has_special_uint d : has_special (uint_digits d) = false.
Proof. unfold has_special. induction d; cbn [uint_digits existsb]; try rewrite IHd; reflexivity. Qed.

Lemma has_special_str_of_Z z : has_special (str_of_Z z) = false.
Proof.
  destruct z as [|p|p]; [reflexivity| |].
  - apply has_special_uint.
  - unfold str_of_Z, has_special. cbn [existsb]. fold (has_special (str_of_N (Npos p))).
    unfold str_of_N. rewrite has_special_uint. reflexivity.
Qed.

Lemma str_of_Z_nonempty z : is_nil (str_of_Z z) = false.
Proof.
  destruct z as [|p|p]; [reflexivity| |reflexivity].
  cbn [str_of_Z]. pose proof (str_of_N_nonempty p) as H. destruct (str_of_N (Npos p)); [contradiction|reflexivity].
Qed.

(* every integer: 0 is dropped, any other one becomes its decimal string *)
Theorem nv_val_int z : nv_val (VInt z) = if Z.eqb z 0 then VNone else VStr (str_of_Z z).
Proof.
  unfold nv_val. cbn [truthy py_str]. destruct (Z.eqb z 0); [reflexivity|]. cbn [negb].
  rewrite has_special_str_of_Z, str_of_Z_nonempty. reflexivity.
Qed.

Theorem nv_val_bool b : nv_val (VBool b) = if b then VStr [84; 114; 117; 101] else VNone.
Proof. destruct b; reflexivity. Qed.

Theorem nv_val_str s : nv_val (VStr s) = if is_nil s then VNone else VStr s.
Proof. destruct s; reflexivity. Qed.

Theorem nv_val_falsy v : truthy v = false -> nv_val v = VNone.
Proof. intros E. unfold nv_val. rewrite E. reflexivity. Qed.

Lemma nv_val_idem v : nv_val (nv_val v) = nv_val v.
Proof.
  destruct (truthy v) eqn:E; [|rewrite (nv_val_falsy v E); reflexivity].
  destruct (nv_val_cases v E) as [H|(s & _ & _ & F & H & _)]; rewrite H; [exact H|].
  destruct s; [discriminate F|reflexivity].
Qed.

(* ------------------------------------------------------------------------------------------ *)
(* the old theorems are the special case in which nothing is normalized                        *)

(* every requested binding is None or a non-empty string *)
Definition val_plain (v : val) : bool :=
  match v with VNone => true | VStr s => negb (is_nil s) | _ => false end.
Definition attrs_plain (keys : list str) (a : attrs) : bool :=
  forallb (fun kv => negb (key_in (fst kv) keys) || val_plain (snd kv)) a.
Definition values_plain (keys : list str) (t : tree) : bool :=
  all_nodes (fun x => attrs_plain keys (tattrs x)) t.

Lemma nv_val_plain v : val_plain v = true -> nv_val v = v.
Proof. destruct v as [|z|s|b|n d]; try discriminate; [reflexivity|]. destruct s; [discriminate|reflexivity]. Qed.

Lemma nv_attrs_plain keys a : attrs_plain keys a = true -> nv_attrs keys a = a.
Proof.
  unfold attrs_plain, nv_attrs. induction a as [|[k v] a IH]; [reflexivity|].
  cbn [forallb map fst snd]. intros H. apply andb_true_iff in H as [H1 H2]. rewrite (IH H2).
  destruct (key_in k keys); [|reflexivity]. cbn [negb orb] in H1. rewrite (nv_val_plain v H1). reflexivity.
Qed.

Theorem nv_tree_id keys : forall t, values_plain keys t = true -> nv_tree keys t = t.
Proof.
  induction t as [g n a ks IH] using tree_ind'. unfold values_plain. cbn [all_nodes tattrs nv_tree].
  intros H. apply andb_true_iff in H as [Ha Hk]. rewrite (nv_attrs_plain keys a Ha). f_equal.
  induction IH as [|k r Hk1 _ IHr]; [reflexivity|].
  cbn [forallb map] in Hk |- *. apply andb_true_iff in Hk as [Hk0 Hr].
  rewrite (Hk1 Hk0), (IHr Hr). reflexivity.
Qed.
