(* C09, third round: the path-string functions OUTSIDE the query half of the K3 guard.

   bigtree strips the separator as a character SET (str.rstrip / str.lstrip).  Write
     cstrip sep path = lstrip (rstrip path sep) sep
   for what is left of a query.  This file proves, for a separator of ANY positive length and EVERY
   query string (no `clean` / `query_clean` / `ends_ok` hypothesis):

     1. the stripped query is a fixed point of the strips, is `clean`, and is not touched by the
        specification's `trim`                                              (cstrip_normal)
     2. every path function gives the same answer on `path` and on its stripped form
                                                                           (.._strip_query)
     3. hence each function computes exactly what the property says, for the query `cstrip sep path`
        (find_path(s): `rstrip path sep`) instead of `trim sep path`:
          find_full_path      sound on every tree; iff / complete equation under names_sfree + unique
                              sibling names                                 (full_path_.._any)
          find_relative_path(s)  frontier semantics on every tree           (relative_.._any_sep)
          find_path(s)        suffix condition on every tree                (path_suffix_any)
     4. K3 is exactly the difference between the two strips: `clean` holds iff they agree
        (clean_iff_strips_agree), and when they agree the answers are those for `trim sep path`. *)
From BT Require Import Base.Prelude Base.Str Base.StrSep Base.Rose Algo.Search Spec.PC09 Algo.SearchProofs
  Algo.C09More.

Definition cstrip (sep path : str) : str := lstrip (rstrip path sep) sep.

(* ------------------------------------------------------------------------------------------- *)
(* 0. the character-set strips leave no separator character at the ends *)

Lemma lstrip_starts_ok_result sep : forall s, starts_ok sep (lstrip s sep) = true.
Proof.
  induction s as [|y t IH]; [reflexivity|]. cbn [lstrip].
  destruct (memN y sep) eqn:E; [exact IH|]. cbn [starts_ok]. rewrite E. reflexivity.
Qed.

Lemma rstrip_ends_ok_result sep s : ends_ok sep (rstrip s sep) = true.
Proof. unfold ends_ok, rstrip. rewrite rev_involutive. apply lstrip_starts_ok_result. Qed.

Lemma lstrip_suffix sep : forall s, exists h, s = h ++ lstrip s sep.
Proof.
  induction s as [|y t [h IH]]; [exists []; reflexivity|]. cbn [lstrip].
  destruct (memN y sep); [|exists []; reflexivity].
  exists (y :: h). cbn [app]. rewrite <- IH. reflexivity.
Qed.

Lemma ends_ok_suffix sep h s : ends_ok sep (h ++ s) = true -> ends_ok sep s = true.
Proof.
  unfold ends_ok. rewrite rev_app_distr. destruct (rev s) as [|y t]; [reflexivity|].
  cbn [app starts_ok]. intros H. exact H.
Qed.

Lemma lstrip_ends_ok sep s : ends_ok sep s = true -> ends_ok sep (lstrip s sep) = true.
Proof.
  intros H. destruct (lstrip_suffix sep s) as [h E]. rewrite E in H.
  eapply ends_ok_suffix. exact H.
Qed.

Lemma rstrip_ends_ok_id sep s : ends_ok sep s = true -> rstrip s sep = s.
Proof.
  intros H. unfold rstrip. unfold ends_ok in H. rewrite lstrip_starts_ok by exact H.
  apply rev_involutive.
Qed.

Lemma cstrip_starts_ok sep path : starts_ok sep (cstrip sep path) = true.
Proof. apply lstrip_starts_ok_result. Qed.

Lemma cstrip_ends_ok sep path : ends_ok sep (cstrip sep path) = true.
Proof. apply lstrip_ends_ok, rstrip_ends_ok_result. Qed.

Lemma rstrip_idem sep path : rstrip (rstrip path sep) sep = rstrip path sep.
Proof. apply rstrip_ends_ok_id, rstrip_ends_ok_result. Qed.

Lemma rstrip_cstrip sep path : rstrip (cstrip sep path) sep = cstrip sep path.
Proof. apply rstrip_ends_ok_id, cstrip_ends_ok. Qed.

Lemma cstrip_idem sep path : cstrip sep (cstrip sep path) = cstrip sep path.
Proof.
  unfold cstrip at 1. rewrite rstrip_cstrip. apply lstrip_starts_ok, cstrip_starts_ok.
Qed.

(* a string without a separator character at its end / start does not end / start with a separator *)
Lemma ends_ok_not_suffix sep s : sep <> [] -> ends_ok sep s = true -> is_suffix s sep = false.
Proof.
  intros Hne H. destruct (is_suffix s sep) eqn:E; [|reflexivity]. exfalso.
  apply is_suffix_iff in E as [x ->]. unfold ends_ok in H. rewrite rev_app_distr in H.
  assert (Hr : rev sep <> []).
  { intros Hr. apply Hne. rewrite <- (rev_involutive sep), Hr. reflexivity. }
  destruct (rev sep) as [|y t] eqn:Er; [congruence|]. cbn [app starts_ok] in H.
  apply negb_true_iff, memN_false in H. apply H. apply in_rev. rewrite Er. left. reflexivity.
Qed.

Lemma starts_ok_not_prefix sep s : sep <> [] -> starts_ok sep s = true -> startswith s sep = false.
Proof.
  intros Hne H. destruct (startswith s sep) eqn:E; [|reflexivity]. exfalso.
  apply startswith_prefix in E as [r ->]. destruct sep as [|a sp']; [congruence|].
  cbn [app starts_ok] in H. apply negb_true_iff, memN_false in H. apply H. left. reflexivity.
Qed.

Lemma drop_trailing_ends_ok sep fuel s :
  sep <> [] -> ends_ok sep s = true -> drop_trailing sep fuel s = s.
Proof.
  intros Hne H. destruct fuel as [|f]; [reflexivity|]. cbn [drop_trailing].
  rewrite (ends_ok_not_suffix sep s Hne H). destruct sep; reflexivity.
Qed.

Lemma drop_leading_starts_ok sep fuel s :
  sep <> [] -> starts_ok sep s = true -> drop_leading sep fuel s = s.
Proof.
  intros Hne H. destruct fuel as [|f]; [reflexivity|]. cbn [drop_leading].
  rewrite is_prefix_startswith, (starts_ok_not_prefix sep s Hne H). destruct sep; reflexivity.
Qed.

Lemma trim_right_ends_ok sep s : sep <> [] -> ends_ok sep s = true -> trim_right sep s = s.
Proof. intros Hne H. unfold trim_right. apply drop_trailing_ends_ok; assumption. Qed.

Lemma trim_ok sep s :
  sep <> [] -> ends_ok sep s = true -> starts_ok sep s = true -> trim sep s = s.
Proof.
  intros Hne He Hs. unfold trim. rewrite (trim_right_ends_ok sep s Hne He).
  apply drop_leading_starts_ok; assumption.
Qed.

(* ------------------------------------------------------------------------------------------- *)
(* 1. the stripped query is in normal form *)

Theorem cstrip_normal sep path :
  sep <> [] ->
  cstrip sep (cstrip sep path) = cstrip sep path
  /\ trim sep (cstrip sep path) = cstrip sep path
  /\ clean sep (cstrip sep path) = true
  /\ startswith (cstrip sep path) sep = false.
Proof.
  intros Hne. pose proof (cstrip_ends_ok sep path) as He. pose proof (cstrip_starts_ok sep path) as Hs.
  split; [apply cstrip_idem|]. split; [apply trim_ok; assumption|]. split.
  - unfold clean. rewrite (trim_ok sep _ Hne He Hs), (trim_right_ends_ok sep _ Hne He), He, Hs. reflexivity.
  - apply starts_ok_not_prefix; assumption.
Qed.

Lemma cstrip_clean sep path : sep <> [] -> clean sep (cstrip sep path) = true.
Proof. intros Hne. apply (cstrip_normal sep path Hne). Qed.

Lemma cstrip_trim sep path : sep <> [] -> trim sep (cstrip sep path) = cstrip sep path.
Proof. intros Hne. apply (cstrip_normal sep path Hne). Qed.

Theorem rstrip_normal sep path :
  sep <> [] ->
  rstrip (rstrip path sep) sep = rstrip path sep
  /\ trim_right sep (rstrip path sep) = rstrip path sep
  /\ ends_ok sep (trim_right sep (rstrip path sep)) = true.
Proof.
  intros Hne. pose proof (rstrip_ends_ok_result sep path) as He.
  split; [apply rstrip_idem|]. split; [apply trim_right_ends_ok; assumption|].
  rewrite (trim_right_ends_ok sep _ Hne He). exact He.
Qed.

(* ------------------------------------------------------------------------------------------- *)
(* 2. the functions do not distinguish a query from its stripped form *)

Theorem full_path_strip_query sep s path :
  find_full_path sep s path = find_full_path sep s (cstrip sep path).
Proof.
  unfold find_full_path, path_list_of. fold (cstrip sep path). fold (cstrip sep (cstrip sep path)).
  rewrite cstrip_idem. reflexivity.
Qed.

Theorem relative_strip_query sep s path mn mx :
  sep <> [] -> startswith path sep = false ->
  find_relative_paths sep s path mn mx = find_relative_paths sep s (cstrip sep path) mn mx.
Proof.
  intros Hne Hrel. unfold find_relative_paths. rewrite Hrel.
  destruct (cstrip_normal sep path Hne) as [Hi [_ [_ Hst]]]. rewrite Hst.
  fold (cstrip sep path). fold (cstrip sep (cstrip sep path)). rewrite Hi. reflexivity.
Qed.

Theorem relative_single_strip_query sep s path :
  sep <> [] -> startswith path sep = false ->
  find_relative_path sep s path = find_relative_path sep s (cstrip sep path).
Proof.
  intros Hne Hrel. unfold find_relative_path. rewrite (relative_strip_query sep s path 0 1 Hne Hrel).
  reflexivity.
Qed.

Theorem paths_strip_query sep s path :
  find_paths sep s path = find_paths sep s (rstrip path sep)
  /\ find_path sep s path = find_path sep s (rstrip path sep).
Proof. unfold find_paths, find_path. rewrite rstrip_idem. split; reflexivity. Qed.

(* ------------------------------------------------------------------------------------------- *)
(* 3. what each function computes, for every query *)

(* find_full_path: sound on every tree, for every query *)
Theorem full_path_sound_any w sep p s path n :
  sep <> [] -> locate w p = Some s -> find_full_path sep s path = Ret (Some n) ->
  exists q, locate w q = Some n /\ join sep (names_to w q) = cstrip sep path.
Proof.
  intros Hne Hs H. rewrite full_path_strip_query in H.
  destruct (full_path_sound_multi w sep p s (cstrip sep path) n Hne (cstrip_clean sep path Hne) Hs H)
    as [q [Hq E]].
  exists q. split; [exact Hq|]. rewrite E. apply cstrip_trim. exact Hne.
Qed.

(* found iff a node has the stripped query as its full path *)
Theorem full_path_iff_any w sep p s path n :
  sep <> [] -> names_sfree w sep = true -> sibling_names_unique w = true -> locate w p = Some s ->
  (find_full_path sep s path = Ret (Some n)
   <-> exists q, locate w q = Some n /\ join sep (names_to w q) = cstrip sep path).
Proof.
  intros Hne Hn Hu Hs. rewrite full_path_strip_query.
  rewrite (full_path_iff_multi w sep p s (cstrip sep path) n Hne Hn Hu (cstrip_clean sep path Hne) Hs).
  rewrite (cstrip_trim sep path Hne). reflexivity.
Qed.

(* the complete equation *)
Theorem full_path_decides_any w sep p s path :
  sep <> [] -> names_sfree w sep = true -> sibling_names_unique w = true -> locate w p = Some s ->
  find_full_path sep s path
  = if negb (str_eqb (hd [] (split (cstrip sep path) sep)) (tname w)) then Raise ValueError
    else Ret (full_path_node w sep (cstrip sep path)).
Proof.
  intros Hne Hn Hu Hs. rewrite full_path_strip_query.
  rewrite (full_path_decides_multi w sep p s (cstrip sep path) Hne Hn Hu (cstrip_clean sep path Hne) Hs).
  unfold components. rewrite (cstrip_trim sep path Hne). reflexivity.
Qed.

(* find_relative_paths: the frontier semantics of the stripped query, on every tree *)
Theorem relative_spec_any_sep w sep p s path mn mx :
  sep <> [] -> locate w p = Some s -> startswith path sep = false ->
  match denote w (contains (cstrip sep path) s_star) (split (cstrip sep path) sep) p with
  | None => find_relative_paths sep s path mn mx = Raise SearchError
  | Some L => exists M, map (locate w) L = map Some M
                        /\ find_relative_paths sep s path mn mx
                           = if count_violated (length L) mn mx then Raise SearchError else Ret (map Some M)
  end.
Proof.
  intros Hne Hs Hrel. rewrite (relative_strip_query sep s path mn mx Hne Hrel).
  destruct (cstrip_normal sep path Hne) as [_ [Ht [Hcl Hst]]].
  pose proof (relative_spec_any_multi w sep p s (cstrip sep path) mn mx Hcl Hs Hst) as H.
  unfold star_in, components in H. rewrite Ht in H. exact H.
Qed.

Theorem relative_single_any_sep w sep p s path :
  sep <> [] -> locate w p = Some s -> startswith path sep = false ->
  match denote w (contains (cstrip sep path) s_star) (split (cstrip sep path) sep) p with
  | None => find_relative_path sep s path = Raise SearchError
  | Some [] => find_relative_path sep s path = Ret None
  | Some [q] => exists n, locate w q = Some n /\ find_relative_path sep s path = Ret (Some n)
  | Some (_ :: _ :: _) => find_relative_path sep s path = Raise SearchError
  end.
Proof.
  intros Hne Hs Hrel. rewrite (relative_single_strip_query sep s path Hne Hrel).
  destruct (cstrip_normal sep path Hne) as [_ [Ht [Hcl Hst]]].
  pose proof (relative_single_any_multi w sep p s (cstrip sep path) Hcl Hs Hst) as H.
  unfold star_in, components in H. rewrite Ht in H. exact H.
Qed.

(* an absolute path given to find_relative_path(s) *)
Theorem relative_absolute_any w sep p s path mn mx :
  sep <> [] -> names_sfree w sep = true -> sibling_names_unique w = true -> locate w p = Some s ->
  startswith path sep = true ->
  find_relative_paths sep s path mn mx
  = (if negb (str_eqb (hd [] (split (cstrip sep path) sep)) (tname w)) then Raise ValueError
     else Ret [full_path_node w sep (cstrip sep path)])
  /\ find_relative_path sep s path
     = (if negb (str_eqb (hd [] (split (cstrip sep path) sep)) (tname w)) then Raise ValueError
        else Ret (full_path_node w sep (cstrip sep path))).
Proof.
  intros Hne Hn Hu Hs Habs. unfold find_relative_path, find_relative_paths. rewrite Habs.
  rewrite (full_path_decides_any w sep p s path Hne Hn Hu Hs).
  destruct (negb (str_eqb (hd [] (split (cstrip sep path) sep)) (tname w))); split; reflexivity.
Qed.

(* find_path(s): the condition the search filters with is the specification's suffix condition for
   the query `rstrip path sep` — every tree, every query *)
Theorem path_suffix_any w sep path q n :
  sep <> [] -> locate w q = Some n ->
  path_ends sep (rstrip path sep) n = sat_path w sep (rstrip path sep) q.
Proof.
  intros Hne Hq. destruct (rstrip_normal sep path Hne) as [Hi [_ He]].
  rewrite (path_suffix_multi w sep (rstrip path sep) q n He Hq), Hi. reflexivity.
Qed.

(* ------------------------------------------------------------------------------------------- *)
(* 4. K3 is exactly the disagreement of the two strips *)

Theorem clean_iff_strips_agree sep path :
  sep <> [] ->
  (clean sep path = true <-> (rstrip path sep = trim_right sep path /\ cstrip sep path = trim sep path)).
Proof.
  intros Hne. split.
  - intros H. split; [|apply strip_clean; exact H].
    apply rstrip_clean. unfold clean in H. apply andb_true_iff in H as [H _]. exact H.
  - intros [Hr Hc]. unfold clean. rewrite <- Hr, <- Hc.
    rewrite rstrip_ends_ok_result, cstrip_starts_ok. reflexivity.
Qed.
