(* C18, third round: the graph exports.
   1. tree_to_dot: the guard "no label ends in a decimal digit" of dot_ids_injective_partial is replaced
      by a guard on multiplicities: no label is carried by more than ten nodes.  Then every index that
      is appended is a single digit, and label ++ digit is injective whatever the labels look like —
      this covers BinaryNode trees (integer names), names such as "a1", "x2".  Ten is sharp (K2 has
      eleven nodes labelled a).
   2. tree_to_mermaid: the verdict of the graph clause for EVERY tree: it holds iff the tree has at
      least two existing nodes (K4 is the only failure). *)
From BT Require Import Base.Prelude Base.Str Base.Rose Algo.Render Algo.Dot Spec.PC18 Algo.RenderProofs.

(* ---------------------------------------------------------------------------------------------- *)
(* 1. dot *)

Definition labels_at_most_ten (t : tree) : bool :=
  forallb (fun l => Nat.leb (count_str l (names_pre (compact t))) 10) (names_pre (compact t)).

Lemma str_of_nat_small c : c < 10 -> exists x, str_of_nat c = [x].
Proof.
  intros H. do 10 (destruct c as [|c]; [eexists; vm_compute; reflexivity|]). lia.
Qed.

Lemma label_digit_inj l1 l2 c1 c2 :
  c1 < 10 -> c2 < 10 -> l1 ++ str_of_nat c1 = l2 ++ str_of_nat c2 -> l1 = l2 /\ c1 = c2.
Proof.
  intros H1 H2 E.
  destruct (str_of_nat_small c1 H1) as [x1 E1]. destruct (str_of_nat_small c2 H2) as [x2 E2].
  rewrite E1, E2 in E. apply app_inj_tail in E as [El Ex]. split; [exact El|].
  apply str_of_nat_inj. rewrite E1, E2, Ex. reflexivity.
Qed.

Lemma count_str_cons l x s : count_str l (x :: s) = (if str_eqb l x then 1 else 0) + count_str l s.
Proof. unfold count_str. cbn [filter]. destruct (str_eqb l x); reflexivity. Qed.

Lemma count_str_in l s : In l s -> 1 <= count_str l s.
Proof.
  induction s as [|x s IH]; intros H; [destruct H|]. rewrite count_str_cons.
  destruct H as [->|H]; [rewrite str_eqb_refl; lia|]. specialize (IH H). lia.
Qed.

(* the number appended to a label lies between the number of earlier and the number of all nodes
   with that label *)
Lemma ids_spec_range lp : forall seen x,
  In x (map fst (ids_spec seen lp)) ->
  exists l c, x = l ++ str_of_nat c /\ In l (map fst lp)
              /\ count_str l seen <= c /\ c < count_str l seen + count_str l (map fst lp).
Proof.
  induction lp as [|[l p] r IH]; intros seen x Hx; [destruct Hx|].
  cbn [ids_spec map fst] in Hx. destruct Hx as [<-|Hx].
  - exists l, (count_str l seen). split; [reflexivity|]. split; [left; reflexivity|].
    cbn [map fst]. rewrite count_str_cons, str_eqb_refl. lia.
  - apply IH in Hx as [l' [c [-> [Hl [Hc1 Hc2]]]]]. exists l', c. split; [reflexivity|].
    split; [right; exact Hl|]. cbn [map fst]. rewrite count_str_cons in Hc1, Hc2. rewrite count_str_cons.
    destruct (str_eqb l' l); lia.
Qed.

Lemma ids_spec_NoDup_few lp : forall seen,
  (forall l, In l (map fst lp) -> count_str l seen + count_str l (map fst lp) <= 10) ->
  NoDup (map fst (ids_spec seen lp)).
Proof.
  induction lp as [|[l p] r IH]; intros seen HG; [constructor|].
  cbn [ids_spec map fst]. constructor.
  - intros Hin. apply ids_spec_range in Hin as [l' [c [E [Hl [Hc1 Hc2]]]]].
    assert (G1 := HG l (or_introl eq_refl)). assert (G2 := HG l' (or_intror Hl)).
    cbn [map fst] in G1, G2. rewrite count_str_cons in G1, G2. rewrite str_eqb_refl in G1.
    rewrite count_str_cons in Hc1, Hc2.
    destruct (label_digit_inj l l' (count_str l seen) c) as [<- <-].
    + lia.
    + destruct (str_eqb l' l); lia.
    + exact E.
    + rewrite str_eqb_refl in Hc1. lia.
  - apply IH. intros l' Hl. specialize (HG l' (or_intror Hl)). cbn [map fst] in HG.
    rewrite count_str_cons in HG. rewrite count_str_cons. destruct (str_eqb l' l); lia.
Qed.

Theorem dot_raw_ids_injective_few sep t :
  labels_at_most_ten t = true -> paths_distinct sep t = true ->
  graph_ids_distinct (dot_raw_nodes sep t) = true.
Proof.
  intros HG HP. unfold graph_ids_distinct. apply nodup_str_NoDup.
  rewrite dot_raw_nodes_assign.
  rewrite (assign_spec (label_paths sep [] (compact t)) [] []).
  - apply ids_spec_NoDup_few. intros l Hl. rewrite label_paths_labels in *.
    unfold labels_at_most_ten in HG. rewrite forallb_forall in HG. specialize (HG l Hl).
    apply Nat.leb_le in HG. cbn [map]. unfold count_str at 1. cbn [filter length]. lia.
  - split; [intros l; reflexivity|intros l p []].
  - apply nodup_str_NoDup. exact HP.
  - intros p _ [].
Qed.

Theorem dot_ids_injective_few sep t :
  labels_at_most_ten t = true -> paths_distinct sep t = true -> no_label_has_colon t = true ->
  graph_ids_distinct (dot_nodes sep t) = true.
Proof.
  intros H1 H2 H3. rewrite (dot_nodes_plain sep t H3). apply dot_raw_ids_injective_few; assumption.
Qed.

Theorem dot_graph_few sep t :
  labels_at_most_ten t = true -> paths_distinct sep t = true -> no_label_has_colon t = true ->
  prop_C18_g t (dot_nodes sep t) (dot_edges sep t) = true.
Proof.
  intros H1 H2 H3. unfold prop_C18_g.
  rewrite (dot_ids_injective_few sep t H1 H2 H3), (dot_nodes_plain sep t H3).
  destruct (dot_vertices_edges_exact sep t) as [-> ->]. reflexivity.
Qed.

(* every tree with at most ten existing nodes meets the multiplicity guard *)
Lemma count_str_le_length l s : count_str l s <= length s.
Proof. induction s as [|x s IH]; [cbn; lia|]. rewrite count_str_cons. cbn [length]. destruct (str_eqb l x); lia. Qed.

Lemma small_tree_few t : tsize (compact t) <= 10 -> labels_at_most_ten t = true.
Proof.
  intros H. unfold labels_at_most_ten. apply forallb_forall. intros l _. apply Nat.leb_le.
  pose proof (count_str_le_length l (names_pre (compact t))) as L. rewrite names_pre_length in L. lia.
Qed.

(* pairwise different labels (e.g. a BinaryNode search tree): no guard on the form of the labels *)
Lemma NoDup_count_le1 l s : NoDup s -> count_str l s <= 1.
Proof.
  induction 1 as [|x s Hx Hs IH]; [cbn; lia|]. rewrite count_str_cons.
  destruct (str_eqb l x) eqn:E; [|lia]. apply str_eqb_eq in E. subst x.
  destruct (count_str l s) eqn:C; [lia|]. exfalso. apply Hx.
  unfold count_str in C. destruct (filter (str_eqb l) s) as [|y f] eqn:F; [discriminate|].
  assert (Hy : In y (filter (str_eqb l) s)) by (rewrite F; left; reflexivity).
  apply filter_In in Hy as [Hy Ey]. apply str_eqb_eq in Ey. subst y. exact Hy.
Qed.

Lemma distinct_labels_few t : nodup_str (names_pre (compact t)) = true -> labels_at_most_ten t = true.
Proof.
  intros H. apply nodup_str_NoDup in H. unfold labels_at_most_ten. apply forallb_forall. intros l _.
  apply Nat.leb_le. pose proof (NoDup_count_le1 l _ H). lia.
Qed.

(* ---------------------------------------------------------------------------------------------- *)
(* 2. mermaid: the exact domain of the graph clause *)

Lemma tsize_pos t : 1 <= tsize t.
Proof. destruct t. cbn [tsize]. lia. Qed.

Theorem mermaid_single_node_empty t :
  tsize (compact t) = 1 ->
  mermaid_lines t = [] /\ mermaid_nodes t = [] /\ mermaid_edges t = [].
Proof.
  intros H. assert (F : mermaid_flows t = []).
  { rewrite mermaid_flows_eq. destruct (compact t) as [g n a ks]. cbn [tkids].
    destruct ks as [|k r]; [reflexivity|]. exfalso. cbn [tsize fold_right] in H.
    pose proof (tsize_pos k). lia. }
  unfold mermaid_lines, mermaid_nodes, mermaid_edges. rewrite F. repeat split.
Qed.

Theorem mermaid_graph_verdict t :
  prop_C18_g t (mermaid_nodes t) (mermaid_edges t) = Nat.leb 2 (tsize (compact t)).
Proof.
  destruct (Nat.leb 2 (tsize (compact t))) eqn:E.
  - apply mermaid_graph_exact. apply Nat.leb_le. exact E.
  - apply Nat.leb_gt in E. pose proof (tsize_pos (compact t)) as P.
    assert (H : tsize (compact t) = 1) by lia.
    destruct (mermaid_single_node_empty t H) as [_ [-> ->]].
    unfold prop_C18_g, graph_vertices_ok. destruct (compact t) as [g n a ks]. reflexivity.
Qed.
