(* C17, third round: the constructors do not depend on the ORDER (nor on repetitions) of what they are
   given.  list_to_dag on ANY listing of the relations of a DAG g — every (parent name, child name)
   of an edge at least once, nothing else, in any order — and dataframe_to_dag on ANY arrangement of
   the rows of dag_to_dataframe g x md succeed and build a table with g's names, g's edge set (and
   the exported attributes), which is again a DAG like g and re-exports to the first export.
   Proofs on top of Algo/DagAlgoProofs.v (fold_list_ok, fold_row_ok: stated for lists included in a
   relation L, whatever their order) and Algo/C17More.v. *)
From BT Require Import Base.Prelude Base.Str Base.Rose Algo.DagAlgo Algo.DagIO Spec.PC16 Spec.PC17
     Algo.DagAlgoProofs Algo.C17More.
Require Import Permutation.

(* ------------------------------------------------------------------------------------------- *)
(** * 1. list_to_dag on any listing of the edges of g *)

Definition ListsEdges (g : dag) (rel : list (str * str)) : Prop :=
  forall pn cn, In (pn, cn) rel <-> exists p c, Edge g p c /\ pn = name g p /\ cn = name g c.

Theorem list_any_listing g r rel :
  Wf g -> Ranked g r -> DistinctNames g -> WeaklyConnected g -> (exists p c, Edge g p c) ->
  ListsEdges g rel ->
  exists b ret, list_to_dag rel = Ret (b, Some ret)
    /\ Good b
    /\ SameNames g (b_names b)
    /\ NoDup (b_edges b)
    /\ (forall pn cn, HasEdge b pn cn <-> exists p c, Edge g p c /\ pn = name g p /\ cn = name g c).
Proof.
  intros WF RK DN WC HE LE.
  assert (LG : forall pn cn, In (pn, cn) rel -> exists p c, Edge g p c /\ pn = name g p /\ cn = name g c).
  { intros pn cn H. apply LE. exact H. }
  assert (Em0 : Emb rel b_empty).
  { split; [intros e []|intros i Hi; unfold bsize in Hi; cbn in Hi; lia]. }
  destruct (fold_list_ok g r WF RK DN rel LG rel (incl_refl _) b_empty None good_empty Em0) as [b [l H]].
  destruct (fold_list_spec rel b_empty None b l good_empty H) as [[I AC] [_ [HE' [Ed' [Nd' L']]]]].
  assert (NE : rel <> []).
  { destruct HE as [p [c He]]. intros E.
    assert (Hin : In (name g p, name g c) rel) by (apply LE; exists p, c; tauto).
    rewrite E in Hin. exact Hin. }
  destruct (L' NE) as [ret ->].
  exists b, ret. split.
  { unfold list_to_dag. destruct rel as [|q rel']; [contradiction|exact H]. }
  split; [split; assumption|].
  split.
  { split; [apply (bi_nodup_n b I)|]. intros s. split.
    - intros Hs. apply (In_nth _ _ []) in Hs as [i [Hi Es]].
      destruct (Nd' i Hi) as [H0|[[pn cn] [Hq Hn]]]; [unfold bsize in H0; cbn in H0; lia|].
      destruct (LG pn cn Hq) as [p [c [He [-> ->]]]]. destruct (edge_range g WF p c He) as [Rp Rc].
      unfold bname in Hn. subst s. cbn in Hn.
      destruct Hn as [Hn|Hn]; [exists p|exists c]; (split; [assumption|symmetry; exact Hn]).
    - intros [y [Hy <-]]. destruct (incident_edge g y WF WC HE Hy) as [p [c [He Hor]]].
      assert (Hin : In (name g p, name g c) rel) by (apply LE; exists p, c; tauto).
      destruct (HE' _ Hin) as [i [j [_ [Hi [Hj [E1 E2]]]]]]. cbn in E1, E2.
      destruct Hor as [->| ->]; [rewrite <- E1|rewrite <- E2]; apply nth_In; assumption. }
  split; [apply (bi_nodup_e b I)|].
  intros pn cn. split.
  - intros [i [j [Hin [Hi [Hj [<- <-]]]]]]. destruct (Ed' (i, j) Hin) as [[]|Hr]. cbn in Hr.
    apply LG. exact Hr.
  - intros [p [c [He [-> ->]]]]. apply (HE' (name g p, name g c)). apply LE. exists p, c. tauto.
Qed.

(* the export of g, from any start node, is such a listing; so is every list with the same elements *)
Lemma same_elements_lists_edges g r x rel :
  Wf g -> Ranked g r -> DistinctNames g -> WeaklyConnected g -> x < dsize g ->
  (forall q, In q rel <-> In q (dag_to_list g x)) -> ListsEdges g rel.
Proof.
  intros WF RK DN WC Hx EQ pn cn. rewrite EQ.
  exact (proj1 (list_edges_exact g r x WF RK DN WC Hx) pn cn).
Qed.

Theorem list_same_elements g r x rel :
  Wf g -> Ranked g r -> DistinctNames g -> WeaklyConnected g -> x < dsize g -> (exists p c, Edge g p c) ->
  (forall q, In q rel <-> In q (dag_to_list g x)) ->
  exists b ret, list_to_dag rel = Ret (b, Some ret)
    /\ SameNames g (b_names b)
    /\ NoDup (b_edges b)
    /\ (forall pn cn, HasEdge b pn cn <-> exists p c, Edge g p c /\ pn = name g p /\ cn = name g c)
    /\ RebuiltLike g x b.
Proof.
  intros WF RK DN WC Hx HE EQ.
  assert (LE := same_elements_lists_edges g r x rel WF RK DN WC Hx EQ).
  destruct (list_any_listing g r rel WF RK DN WC HE LE) as [b [ret [RT [GB [SN [ND HH]]]]]].
  exists b, ret. split; [exact RT|]. split; [exact SN|]. split; [exact ND|]. split; [exact HH|].
  apply (rebuilt_like g r x b WF RK DN WC Hx GB SN HH).
Qed.

Theorem list_any_order g r x rel :
  Wf g -> Ranked g r -> DistinctNames g -> WeaklyConnected g -> x < dsize g -> (exists p c, Edge g p c) ->
  Permutation (dag_to_list g x) rel ->
  exists b ret, list_to_dag rel = Ret (b, Some ret)
    /\ SameNames g (b_names b)
    /\ NoDup (b_edges b)
    /\ (forall pn cn, HasEdge b pn cn <-> exists p c, Edge g p c /\ pn = name g p /\ cn = name g c)
    /\ RebuiltLike g x b.
Proof.
  intros WF RK DN WC Hx HE P. apply (list_same_elements g r x rel WF RK DN WC Hx HE).
  intros q. split; [apply Permutation_in; apply Permutation_sym; exact P|apply Permutation_in; exact P].
Qed.

(* two listings of the same DAG are rebuilt to tables with the same names and the same edges *)
Theorem list_two_orders_agree g r rel rel' :
  Wf g -> Ranked g r -> DistinctNames g -> WeaklyConnected g -> (exists p c, Edge g p c) ->
  ListsEdges g rel -> ListsEdges g rel' ->
  exists b ret b' ret', list_to_dag rel = Ret (b, Some ret) /\ list_to_dag rel' = Ret (b', Some ret')
    /\ Permutation (b_names b) (b_names b')
    /\ (forall pn cn, HasEdge b pn cn <-> HasEdge b' pn cn).
Proof.
  intros WF RK DN WC HE L1 L2.
  destruct (list_any_listing g r rel WF RK DN WC HE L1) as [b [ret [RT [_ [[N1 S1] [_ H1]]]]]].
  destruct (list_any_listing g r rel' WF RK DN WC HE L2) as [b' [ret' [RT' [_ [[N2 S2] [_ H2]]]]]].
  exists b, ret, b', ret'. split; [exact RT|]. split; [exact RT'|]. split.
  - apply NoDup_Permutation; [exact N1|exact N2|]. intros s. rewrite S1, S2. tauto.
  - intros pn cn. rewrite H1, H2. tauto.
Qed.

(* ------------------------------------------------------------------------------------------- *)
(** * 2. dataframe_to_dag on any arrangement of the exported rows *)

Theorem df_same_rows g r x md rows :
  Wf g -> Ranked g r -> DistinctNames g -> WeaklyConnected g -> x < dsize g -> (exists p c, Edge g p c) ->
  (forall rw, In rw rows <-> In rw (dag_to_dataframe g x md)) ->
  exists b ret, dataframe_to_dag rows = Ret (b, Some ret)
    /\ Good b
    /\ SameNames g (b_names b)
    /\ NoDup (b_edges b)
    /\ (forall pn cn, HasEdge b pn cn <-> exists p c, Edge g p c /\ pn = name g p /\ cn = name g c)
    /\ length (b_attrs b) = bsize b
    /\ (forall i y, i < bsize b -> y < dsize g -> bname b i = name g y ->
          nth i (b_attrs b) [] = norm (non_null (export_attrs md (nattrs g y)))).
Proof.
  intros WF RK DN WC Hx HE EQ.
  destruct (df_rows_exact g r x md WF RK DN WC Hx) as [_ [SND0 [F20 FR0]]].
  set (na := fun y => non_null (export_attrs md (nattrs g y))) in *.
  assert (SND : forall rw, In rw rows -> exists y, y < dsize g /\ dr_name rw = name g y /\ dr_attrs rw = na y
        /\ ((dr_parent rw = None /\ parents g y = [] /\ exists c, Edge g y c)
            \/ exists p, Edge g p y /\ dr_parent rw = Some (name g p))).
  { intros rw H. apply SND0. apply EQ. exact H. }
  assert (F2 : forall p c, Edge g p c -> exists rw, In rw rows /\ dr_name rw = name g c /\ dr_parent rw = Some (name g p)).
  { intros p c He. destruct (F20 p c He) as [rw [H1 H2]]. exists rw. split; [apply EQ; exact H1|exact H2]. }
  assert (FR : forall y c, Edge g y c -> parents g y = [] ->
        exists rw, In rw rows /\ dr_name rw = name g y /\ dr_parent rw = None).
  { intros y c He EP. destruct (FR0 y c He EP) as [rw [H1 H2]]. exists rw. split; [apply EQ; exact H1|exact H2]. }
  clear SND0 F20 FR0 EQ.
  assert (F1 : forall rw, In rw rows -> exists y, y < dsize g /\ dr_name rw = name g y /\ dr_attrs rw = na y
                /\ forall pn, dr_parent rw = Some pn -> exists p, Edge g p y /\ pn = name g p).
  { intros rw H. destruct (SND rw H) as [y [Hy [Ny [Ay Hor]]]]. exists y.
    split; [exact Hy|]. split; [exact Ny|]. split; [exact Ay|]. intros pn EP.
    destruct Hor as [[N _]|[p [He EP']]]; [rewrite N in EP; discriminate|].
    rewrite EP' in EP. inversion EP. exists p. split; [exact He|reflexivity]. }
  assert (F3 : forall y, y < dsize g -> exists rw, In rw rows /\ dr_name rw = name g y).
  { intros y Hy. destruct (incident_edge g y WF WC HE Hy) as [p [c [He Hor]]].
    destruct Hor as [->| ->].
    - destruct (parents g p) as [|q qs] eqn:EP.
      + destruct (FR p c He EP) as [rw [H1 [H2 _]]]. exists rw. split; assumption.
      + assert (Hq : Edge g q p) by (apply (wf_sym g WF); rewrite EP; left; reflexivity).
        destruct (F2 q p Hq) as [rw [H1 [H2 _]]]. exists rw. split; assumption.
    - destruct (F2 p c He) as [rw [H1 [H2 _]]]. exists rw. split; assumption. }
  set (L := df_relations rows).
  assert (LG : forall pn cn, In (pn, cn) L -> exists p c, Edge g p c /\ pn = name g p /\ cn = name g c).
  { intros pn cn H. unfold L, df_relations in H. apply in_flat_map in H as [rw [Hrw H]].
    destruct (dr_parent rw) as [pn'|] eqn:EP; [|contradiction]. destruct H as [E|[]]. inversion E; subst pn' cn.
    destruct (F1 rw Hrw) as [y [Hy [Ny [_ PP]]]]. destruct (PP pn EP) as [p [He ->]].
    exists p, y. split; [exact He|]. split; [reflexivity|exact Ny]. }
  assert (LE : forall p c, Edge g p c -> In (name g p, name g c) L).
  { intros p c He. destruct (F2 p c He) as [rw [H1 [H2 H3]]]. unfold L, df_relations. apply in_flat_map.
    exists rw. split; [exact H1|]. rewrite H3. left. rewrite H2. reflexivity. }
  set (A := fun s => match find (fun z => str_eqb (name g z) s) (ids g) with Some y => norm (na y) | None => [] end).
  assert (AY : forall y, y < dsize g -> A (name g y) = norm (na y)).
  { intros y Hy. unfold A. rewrite (find_name g y DN Hy). reflexivity. }
  assert (AND : forall s, NoDup (map fst (A s))).
  { intros s. unfold A. destruct (find (fun z => str_eqb (name g z) s) (ids g)); [apply norm_nodup|constructor]. }
  assert (HC : forall rw, In rw (map norm_row rows) -> NodeName g (dr_name rw) /\ non_null (dr_attrs rw) = A (dr_name rw)
        /\ forall pn, dr_parent rw = Some pn -> In (pn, dr_name rw) L).
  { intros rw' Hrw'. apply in_map_iff in Hrw' as [rw [<- Hrw]]. cbn [norm_row dr_name dr_parent dr_attrs].
    destruct (F1 rw Hrw) as [y [Hy [Ny [Ay PP]]]].
    split; [exists y; split; [exact Hy|symmetry; exact Ny]|].
    split.
    { rewrite non_null_norm, Ny, (AY y Hy), Ay. unfold na. rewrite non_null_idem. reflexivity. }
    intros pn EP. unfold L, df_relations. apply in_flat_map. exists rw. split; [exact Hrw|].
    rewrite EP. left. reflexivity. }
  destruct (fold_row_ok g r WF RK DN L LG A AND (map norm_row rows) [] b_empty None (RInv_empty g L A) HC)
    as [b [last [done' [EF [[G [Em [A1 [A2 A3]]]] [EQ [_ LS]]]]]]].
  rewrite fold_row_norm in EF.
  destruct (fold_row_spec rows b_empty None b last good_empty EF) as [_ [_ HEd]]. fold L in HEd.
  assert (LS' : is_some last = true).
  { apply LS. destruct HE as [p [c He]]. destruct (F2 p c He) as [rw [H1 [_ H3]]].
    exists (norm_row rw). split; [apply in_map; exact H1|]. cbn [norm_row dr_parent]. rewrite H3. discriminate. }
  destruct last as [ret|]; [|discriminate]. exists b, ret. split.
  { unfold dataframe_to_dag. destruct rows as [|r0 rows0] eqn:ER.
    - exfalso. destruct HE as [p [c He]]. destruct (F2 p c He) as [rw [[] _]].
    - assert (CONS : df_consistent (r0 :: rows0) = true).
      { unfold df_consistent. apply forallb_forall. intros r1 H1. apply forallb_forall. intros r2 H2.
        destruct (str_eqb (dr_name r1) (dr_name r2)) eqn:E; [|reflexivity]. cbn.
        apply str_eqb_eq in E.
        destruct (F1 r1 H1) as [y1 [Hy1 [N1 [At1 _]]]]. destruct (F1 r2 H2) as [y2 [Hy2 [N2 [At2 _]]]].
        assert (y1 = y2) by (apply DN; try assumption; congruence). subst y2.
        rewrite At1, At2. apply attrs_eqb_refl. }
      rewrite CONS. cbn [negb]. exact EF. }
  split; [exact G|].
  destruct G as [I AC]. destruct Em as [E1 E2].
  split.
  { split; [apply (bi_nodup_n b I)|]. intros s. split.
    - intros Hs. apply (In_nth _ _ []) in Hs as [i [Hi Es]]. fold (bsize b) in Hi. fold (bname b i) in Es.
      rewrite <- Es. apply E2. exact Hi.
    - intros [y [Hy <-]]. destruct (incident_edge g y WF WC HE Hy) as [p [c [He Hor]]].
      destruct (HEd _ (LE p c He)) as [i [j [_ [Hi [Hj [N1 N2]]]]]]. cbn in N1, N2.
      destruct Hor as [->| ->]; [rewrite <- N1|rewrite <- N2]; apply nth_In; assumption. }
  split; [apply (bi_nodup_e b I)|]. split.
  { intros pn cn. split.
    - intros [i [j [Hin [Hi [Hj [<- <-]]]]]]. apply LG. apply (E1 (i, j) Hin).
    - intros [p [c [He [-> ->]]]]. apply (HEd (name g p, name g c)). apply LE. exact He. }
  split; [exact A1|].
  intros i y Hi Hy Ni. destruct (A3 i Hi) as [B1 _]. rewrite B1.
  - rewrite Ni. apply AY. exact Hy.
  - apply EQ. right. rewrite Ni. destruct (F3 y Hy) as [rw [H1 H2]]. rewrite <- H2.
    rewrite map_map. cbn [norm_row dr_name]. apply in_map. exact H1.
Qed.

Theorem df_any_row_order g r x md rows :
  Wf g -> Ranked g r -> DistinctNames g -> WeaklyConnected g -> x < dsize g -> (exists p c, Edge g p c) ->
  Permutation (dag_to_dataframe g x md) rows ->
  exists b ret, dataframe_to_dag rows = Ret (b, Some ret)
    /\ SameNames g (b_names b)
    /\ NoDup (b_edges b)
    /\ (forall pn cn, HasEdge b pn cn <-> exists p c, Edge g p c /\ pn = name g p /\ cn = name g c)
    /\ length (b_attrs b) = bsize b
    /\ (forall i y, i < bsize b -> y < dsize g -> bname b i = name g y ->
          nth i (b_attrs b) [] = norm (non_null (export_attrs md (nattrs g y))))
    /\ RebuiltLike g x b.
Proof.
  intros WF RK DN WC Hx HE P.
  assert (EQ : forall rw, In rw rows <-> In rw (dag_to_dataframe g x md)).
  { intros q. split; [apply Permutation_in; apply Permutation_sym; exact P|apply Permutation_in; exact P]. }
  destruct (df_same_rows g r x md rows WF RK DN WC Hx HE EQ) as [b [ret [RT [GB [SN [ND [HH [LA AT]]]]]]]].
  exists b, ret. split; [exact RT|]. split; [exact SN|]. split; [exact ND|]. split; [exact HH|].
  split; [exact LA|]. split; [exact AT|].
  apply (rebuilt_like g r x b WF RK DN WC Hx GB SN HH).
Qed.
