(* C18, horizontal round trip for ALL trees: the text-only decoder `h_decode` (Spec/PC18.v) returns,
   from the rows of `hyield_rows` (Algo/HRender.v) and the band widths alone, a tree that matches
   the tree that had to be drawn — any fan-out and depth, empty BinaryNode slots, with and without
   intermediate node names, every style whose icons are recognisable (`hglyphs_distinct`).

   Part A works on an abstract layout (`lay`): what a block looks like once its rows are cut into
   cells.  It proves that the decoder's passes (h_scan over every connector column, h_all_claimed,
   find_root, h_build) return the layout's tree.
   Part B shows that the rows of the model parse into the layout of the tree (`lay_of`), using
   `hbranch_connectors` / `hbranch_good` of Algo/RenderProofs.v. *)
From BT Require Import Base.Prelude Base.Str Base.Rose Algo.Render Algo.HRender Spec.PC18 Algo.RenderProofs.

(* ============================================================================================== *)
(* Part A.  abstract layouts *)

(* a leaf cell, a separating row (no node on it), or an inner node with its branch row and the
   pieces stacked to its right *)
Inductive lay := LLeaf (nm : str) | LGap | LNode (nm : str) (mid : nat) (ks : list lay).

Section LayInd.
  Variable P : lay -> Prop.
  Hypothesis HL : forall nm, P (LLeaf nm).
  Hypothesis HG : P LGap.
  Hypothesis HN : forall nm mid ks, Forall P ks -> P (LNode nm mid ks).
  Fixpoint lay_ind' (l : lay) : P l :=
    match l with
    | LLeaf nm => HL nm
    | LGap => HG
    | LNode nm mid ks =>
        HN nm mid ks ((fix go (x : list lay) : Forall P x :=
                         match x with
                         | [] => Forall_nil P
                         | k :: r => Forall_cons k (lay_ind' k) (go r)
                         end) ks)
    end.
End LayInd.

Definition lmid (l : lay) : nat := match l with LNode _ m _ => m | _ => 0 end.
Definition notgap (l : lay) : bool := match l with LGap => false | _ => true end.

Fixpoint lnrows (l : lay) : nat :=
  match l with
  | LNode _ _ ks => (fix go (x : list lay) : nat := match x with [] => 0 | k :: r => lnrows k + go r end) ks
  | _ => 1
  end.
Definition knrows (ks : list lay) : nat :=
  (fix go (x : list lay) : nat := match x with [] => 0 | k :: r => lnrows k + go r end) ks.
Lemma lnrows_node nm mid ks : lnrows (LNode nm mid ks) = knrows ks.
Proof. reflexivity. Qed.
Lemma knrows_cons k r : knrows (k :: r) = lnrows k + knrows r.
Proof. reflexivity. Qed.

Fixpoint lheight (l : lay) : nat :=
  match l with
  | LNode _ _ ks => S ((fix go (x : list lay) : nat := match x with [] => 0 | k :: r => Nat.max (lheight k) (go r) end) ks)
  | _ => 1
  end.
Definition kheight (ks : list lay) : nat :=
  (fix go (x : list lay) : nat := match x with [] => 0 | k :: r => Nat.max (lheight k) (go r) end) ks.
Lemma lheight_node nm mid ks : lheight (LNode nm mid ks) = S (kheight ks).
Proof. reflexivity. Qed.
Lemma kheight_cons k r : kheight (k :: r) = Nat.max (lheight k) (kheight r).
Proof. reflexivity. Qed.

(* rows (inside the block) of the branch rows of the pieces that are nodes *)
Fixpoint Bof (off : nat) (ks : list lay) : list nat :=
  match ks with
  | [] => []
  | k :: r => (if notgap k then [off + lmid k] else []) ++ Bof (off + lnrows k) r
  end.

Fixpoint consi (f : nat -> hcell) (i : nat) (res : list (list hcell)) : list (list hcell) :=
  match res with [] => [] | r :: rs => (f i :: r) :: consi f (S i) rs end.

Section LayoutOfStyle.
  Variable st : hstyle.
  Let gl := glyphs_of_hs st.

  Definition pcell (nm : str) (B : list nat) (mid i : nat) : hcell :=
    if Nat.eqb i mid then HInt nm (conn st B mid i) else HPad (conn st B mid i).

  Fixpoint lrows (l : lay) : list (list hcell) :=
    match l with
    | LLeaf nm => [[HLeaf nm]]
    | LGap => [[]]
    | LNode nm mid ks =>
        consi (pcell nm (Bof 0 ks) mid) 0
              ((fix go (x : list lay) : list (list hcell) :=
                  match x with [] => [] | k :: r => lrows k ++ go r end) ks)
    end.
  Definition krows (ks : list lay) : list (list hcell) :=
    (fix go (x : list lay) : list (list hcell) := match x with [] => [] | k :: r => lrows k ++ go r end) ks.
  Lemma lrows_node nm mid ks : lrows (LNode nm mid ks) = consi (pcell nm (Bof 0 ks) mid) 0 (krows ks).
  Proof. reflexivity. Qed.
  Lemma krows_cons k r : krows (k :: r) = lrows k ++ krows r.
  Proof. reflexivity. Qed.

  (* what the scan of connector column j finds: parent row and child rows of every inner node of
     relative depth j, rows counted from [off] *)
  Fixpoint lruns (l : lay) (j off : nat) : list (nat * list nat) :=
    match l with
    | LNode nm mid ks =>
        match j with
        | 0 => [(off + mid, map (Nat.add off) (Bof 0 ks))]
        | S j' => (fix go (x : list lay) (o : nat) : list (nat * list nat) :=
                     match x with [] => [] | k :: r => lruns k j' o ++ go r (o + lnrows k) end) ks off
        end
    | _ => []
    end.
  Definition kruns (ks : list lay) (j off : nat) : list (nat * list nat) :=
    (fix go (x : list lay) (o : nat) : list (nat * list nat) :=
       match x with [] => [] | k :: r => lruns k j o ++ go r (o + lnrows k) end) ks off.
  Lemma lruns_0 nm mid ks off : lruns (LNode nm mid ks) 0 off = [(off + mid, map (Nat.add off) (Bof 0 ks))].
  Proof. reflexivity. Qed.
  Lemma lruns_S nm mid ks j off : lruns (LNode nm mid ks) (S j) off = kruns ks j off.
  Proof. reflexivity. Qed.
  Lemma kruns_cons k r j off : kruns (k :: r) j off = lruns k j off ++ kruns r j (off + lnrows k).
  Proof. reflexivity. Qed.

  (* the decoded tree *)
  Fixpoint ldec (l : lay) : tree :=
    match l with
    | LLeaf nm => mk_named nm []
    | LGap => mk_named [] []
    | LNode nm _ ks =>
        mk_named nm ((fix go (x : list lay) : list tree :=
                        match x with [] => [] | k :: r => if notgap k then ldec k :: go r else go r end) ks)
    end.
  Definition kdec (ks : list lay) : list tree :=
    (fix go (x : list lay) : list tree :=
       match x with [] => [] | k :: r => if notgap k then ldec k :: go r else go r end) ks.
  Lemma ldec_node nm mid ks : ldec (LNode nm mid ks) = mk_named nm (kdec ks).
  Proof. reflexivity. Qed.
  Lemma kdec_cons k r : kdec (k :: r) = if notgap k then ldec k :: kdec r else kdec r.
  Proof. reflexivity. Qed.

  (* well-formed: the branch row is the midpoint of the first and last child row; a node with
     several children has them at least two rows apart *)
  Fixpoint wf (l : lay) : Prop :=
    match l with
    | LNode nm mid ks =>
        let B := Bof 0 ks in
        B <> [] /\ mid = (hd 0 B + List.last B 0) / 2
        /\ (length B = 1 \/ hd 0 B + 2 <= List.last B 0)
        /\ (fix go (x : list lay) : Prop := match x with [] => True | k :: r => wf k /\ go r end) ks
    | _ => True
    end.
  Lemma wf_node nm mid ks :
    wf (LNode nm mid ks) <->
    (Bof 0 ks <> [] /\ mid = (hd 0 (Bof 0 ks) + List.last (Bof 0 ks) 0) / 2
     /\ (length (Bof 0 ks) = 1 \/ hd 0 (Bof 0 ks) + 2 <= List.last (Bof 0 ks) 0)
     /\ Forall wf ks).
  Proof.
    cbn [wf]. cbv zeta.
    assert (E : (fix go (x : list lay) : Prop := match x with [] => True | k :: r => wf k /\ go r end) ks
                <-> Forall wf ks).
    { induction ks as [|k r IH]; split; intros H.
      - constructor.
      - exact I.
      - destruct H as [H1 H2]. constructor; [exact H1|apply IH; exact H2].
      - inversion H; subst. split; [assumption|apply IH; assumption]. }
    rewrite E. reflexivity.
  Qed.

  (* ---------------------------------------------------------------------------------------------- *)
  (* sizes *)

  Lemma consi_length f : forall res i, length (consi f i res) = length res.
  Proof. induction res as [|r rs IH]; intros i; cbn; [reflexivity|]. rewrite IH. reflexivity. Qed.

  Lemma lrows_length : forall l, length (lrows l) = lnrows l.
  Proof.
    induction l as [nm| |nm mid ks IH] using lay_ind'; try reflexivity.
    rewrite lrows_node, consi_length, lnrows_node.
    induction IH as [|k r Hk Hr IHr]; [reflexivity|].
    rewrite krows_cons, knrows_cons, app_length, Hk, IHr. reflexivity.
  Qed.

  Lemma krows_length ks : length (krows ks) = knrows ks.
  Proof.
    induction ks as [|k r IH]; [reflexivity|].
    rewrite krows_cons, knrows_cons, app_length, lrows_length, IH. reflexivity.
  Qed.

  Lemma Bof_shift : forall ks a b, Bof (a + b) ks = map (Nat.add a) (Bof b ks).
  Proof.
    induction ks as [|k r IH]; intros a b; [reflexivity|].
    cbn [Bof]. rewrite map_app.
    replace (a + b + lnrows k) with (a + (b + lnrows k)) by lia. rewrite IH. f_equal.
    destruct (notgap k); [|reflexivity]. cbn [map]. f_equal. lia.
  Qed.

  Lemma incr_cons a l : (forall x, In x l -> a < x) -> incr l -> incr (a :: l).
  Proof.
    intros H HI. destruct l as [|b l]; [exact I|]. split; [apply H; left; reflexivity|exact HI].
  Qed.

  (* rows of the children lie inside the block, in increasing order *)
  Lemma Bof_props : forall ks off,
    Forall (fun k => lmid k < lnrows k) ks ->
    (forall x, In x (Bof off ks) -> off <= x < off + knrows ks) /\ incr (Bof off ks).
  Proof.
    induction ks as [|k r IH]; intros off HF.
    - split; [intros x []|exact I].
    - inversion HF as [|? ? Hk Hr]; subst.
      destruct (IH (off + lnrows k) Hr) as [I1 I2].
      cbn [Bof]. rewrite knrows_cons. split.
      + intros x Hx. apply in_app_or in Hx as [Hx|Hx].
        * destruct (notgap k); [|destruct Hx]. destruct Hx as [<-|[]]. lia.
        * apply I1 in Hx. lia.
      + destruct (notgap k); [|exact I2]. cbn [app]. apply incr_cons; [|exact I2].
        intros x Hx. apply I1 in Hx. lia.
  Qed.

  Lemma incr_bounds : forall B, incr B -> forall x, In x B -> hd 0 B <= x <= List.last B 0.
  Proof.
    intros [|b0 B] HI x Hx; [destruct Hx|]. cbn [hd]. split.
    - destruct Hx as [<-|Hx]; [lia|]. pose proof (incr_lt b0 B HI x Hx). lia.
    - apply (incr_le_last b0 B HI x Hx).
  Qed.

  Lemma last_in (B : list nat) : B <> [] -> In (List.last B 0) B.
  Proof.
    intros HN. destruct (exists_last HN) as [l' [z ->]]. rewrite last_last.
    apply in_or_app. right. left. reflexivity.
  Qed.

  Lemma hd_in (B : list nat) : B <> [] -> In (hd 0 B) B.
  Proof. destruct B; [contradiction|]. intros _. left. reflexivity. Qed.

  Lemma wf_mid : forall l, wf l -> lmid l < lnrows l.
  Proof.
    induction l as [nm| |nm mid ks IH] using lay_ind'; intros HW; cbn [lmid lnrows]; try lia.
    apply wf_node in HW as [HB [HM [_ HF]]]. fold (knrows ks).
    assert (HK : Forall (fun k => lmid k < lnrows k) ks).
    { rewrite Forall_forall in *. intros k Hk. apply (IH k Hk). apply (HF k Hk). }
    destruct (Bof_props ks 0 HK) as [P1 P2].
    pose proof (P1 _ (last_in _ HB)) as HL.
    pose proof (incr_bounds _ P2 _ (hd_in _ HB)) as HH.
    assert ((hd 0 (Bof 0 ks) + List.last (Bof 0 ks) 0) / 2 <= List.last (Bof 0 ks) 0).
    { apply Nat.div_le_upper_bound; lia. }
    lia.
  Qed.

  Lemma wf_kids_mid ks : Forall wf ks -> Forall (fun k => lmid k < lnrows k) ks.
  Proof. intros H. rewrite Forall_forall in *. intros k Hk. apply wf_mid. apply (H k Hk). Qed.

  (* ---------------------------------------------------------------------------------------------- *)
  (* columns *)

  Lemma h_column_app a b d : h_column (a ++ b) d = h_column a d ++ h_column b d.
  Proof. unfold h_column. apply map_app. Qed.

  Lemma h_column_length rows d : length (h_column rows d) = length rows.
  Proof. unfold h_column. apply map_length. Qed.

  Lemma h_column_consi_S f d : forall res i, h_column (consi f i res) (S d) = h_column res d.
  Proof. induction res as [|r rs IH]; intros i; [reflexivity|]. cbn [consi h_column map nth_error]. f_equal. apply IH. Qed.

  Lemma h_column_consi_0 f : forall res i,
    h_column (consi f i res) 0 = map (fun k => Some (f k)) (seq i (length res)).
  Proof.
    induction res as [|r rs IH]; intros i; [reflexivity|].
    cbn [consi h_column map nth_error length seq]. f_equal. apply IH.
  Qed.

  Lemma h_column_krows ks d :
    h_column (krows ks) d = flat_map (fun k => h_column (lrows k) d) ks.
  Proof.
    induction ks as [|k r IH]; [reflexivity|]. rewrite krows_cons, h_column_app, IH. reflexivity.
  Qed.

  (* ---------------------------------------------------------------------------------------------- *)
  (* the scanner over stacked pieces: a scan that succeeds on a column ends outside a connector,
     and continues on what is stacked below *)

  Ltac scan_leaf IH HL :=
    match goal with
    | HS : None = Some _ |- _ => discriminate HS
    | HS : h_scan _ None _ _ _ _ = Some _ |- _ => apply IH; [exact HL|exact HS]
    | HS : ?L = Some _ |- _ =>
        match L with context [h_scan ?g None ?i ?c ?n None] =>
        let E := fresh "E" in
        destruct (h_scan g None i c n None) eqn:E; [|discriminate HS];
        injection HS as <-;
        rewrite (IH _ _ _ _ _ _ HL E);
        match goal with |- context [h_scan ?g2 None ?i2 ?c2 ?n2 None] =>
          destruct (h_scan g2 None i2 c2 n2 None); reflexivity end
        end
    end.

  Ltac scan_split HS :=
    match type of HS with
    | context [match ?x with _ => _ end] =>
        lazymatch x with
        | h_scan _ _ _ _ _ _ => fail
        | _ => destruct x eqn:?
        end
    end.

  Lemma h_scan_app (g : hglyphs) : forall c1 n1 i cur r1 c2 n2,
    length c1 = length n1 ->
    h_scan g None i c1 n1 cur = Some r1 ->
    h_scan g None i (c1 ++ c2) (n1 ++ n2) cur =
    match h_scan g None (i + length c1) c2 n2 None with
    | Some r2 => Some (r1 ++ r2)
    | None => None
    end.
  Proof.
    induction c1 as [|c c1 IH]; intros [|ch n1] i cur r1 c2 n2 HL HS; try discriminate.
    - cbn [h_scan] in HS. destruct cur; [discriminate|]. injection HS as <-.
      cbn [app length]. rewrite Nat.add_0_r. destruct (h_scan g None i c2 n2 None); reflexivity.
    - cbn [length] in HL. injection HL as HL.
      cbn [length]. replace (i + S (length c1)) with (S i + length c1) by lia.
      cbn [app]. cbn [h_scan] in HS |- *.
      repeat first [ scan_leaf IH HL | scan_split HS ].
  Qed.

  (* single steps of the scanner (text-only mode) *)
  Hypothesis Hf32 : hs_first st <> 32%N.
  Hypothesis Hsl : hs_subseq st <> hs_last st.

  Lemma step_blank i c n :
    h_scan gl None i (Some (HPad 32%N) :: c) (false :: n) None = h_scan gl None (S i) c n None.
  Proof. reflexivity. Qed.

  Lemma step_open i c n :
    h_scan gl None i (Some (HPad (hs_first st)) :: c) (true :: n) None
    = h_scan gl None (S i) c n (Some (HR None None [i])).
  Proof.
    cbn [h_scan]. replace (N.eqb (hs_first st) 32%N) with false by (symmetry; apply N.eqb_neq; exact Hf32).
    cbn [gl glyphs_of_hs g_first andb]. rewrite N.eqb_refl. reflexivity.
  Qed.

  Lemma step_single nm i c n :
    h_scan gl None i (Some (HInt nm (hs_branch st)) :: c) (true :: n) None
    = match h_scan gl None (S i) c n None with Some r => Some ((i, [i]) :: r) | None => None end.
  Proof. cbn [h_scan gl glyphs_of_hs g_branch andb]. rewrite N.eqb_refl. reflexivity. Qed.

  Lemma step_stem i c n run :
    h_scan gl None i (Some (HPad (hs_stem st)) :: c) (false :: n) (Some run)
    = h_scan gl None (S i) c n (Some run).
  Proof. cbn [h_scan gl glyphs_of_hs g_stem]. rewrite N.eqb_refl. reflexivity. Qed.

  Lemma step_sub i c n p ks :
    h_scan gl None i (Some (HPad (hs_subseq st)) :: c) (true :: n) (Some (HR None p ks))
    = h_scan gl None (S i) c n (Some (HR None p (ks ++ [i]))).
  Proof.
    cbn [h_scan gl glyphs_of_hs g_last g_subseq hr_rem hr_par hr_kids option_map].
    replace (N.eqb (hs_subseq st) (hs_last st)) with false by (symmetry; apply N.eqb_neq; exact Hsl).
    rewrite N.eqb_refl. reflexivity.
  Qed.

  Lemma step_mid_child nm i c n ks :
    h_scan gl None i (Some (HInt nm (hs_middle st)) :: c) (true :: n) (Some (HR None None ks))
    = h_scan gl None (S i) c n (Some (HR None (Some i) (ks ++ [i]))).
  Proof.
    cbn [h_scan gl glyphs_of_hs g_middle hr_rem hr_par hr_kids option_map]. rewrite N.eqb_refl. reflexivity.
  Qed.

  Lemma step_split nm i c n ks :
    h_scan gl None i (Some (HInt nm (hs_split st)) :: c) (false :: n) (Some (HR None None ks))
    = h_scan gl None (S i) c n (Some (HR None (Some i) ks)).
  Proof.
    cbn [h_scan gl glyphs_of_hs g_split hr_rem hr_par hr_kids option_map]. rewrite N.eqb_refl. reflexivity.
  Qed.

  Lemma step_close i c n p ks :
    h_scan gl None i (Some (HPad (hs_last st)) :: c) (true :: n) (Some (HR None (Some p) ks))
    = match h_scan gl None (S i) c n None with Some r => Some ((p, ks ++ [i]) :: r) | None => None end.
  Proof.
    cbn [h_scan gl glyphs_of_hs g_last hr_rem hr_par hr_kids option_map]. rewrite N.eqb_refl. reflexivity.
  Qed.

  (* ---------------------------------------------------------------------------------------------- *)
  (* one connector column *)

  Ltac nb :=
    repeat match goal with
    | |- context [Nat.eqb ?a ?b] =>
        first [ replace (Nat.eqb a b) with true by (symmetry; apply Nat.eqb_eq; lia)
              | replace (Nat.eqb a b) with false by (symmetry; apply Nat.eqb_neq; lia) ]
    | |- context [Nat.ltb ?a ?b] =>
        first [ replace (Nat.ltb a b) with true by (symmetry; apply Nat.ltb_lt; lia)
              | replace (Nat.ltb a b) with false by (symmetry; apply Nat.ltb_ge; lia) ]
    | |- context [Nat.leb ?a ?b] =>
        first [ replace (Nat.leb a b) with true by (symmetry; apply Nat.leb_le; lia)
              | replace (Nat.leb a b) with false by (symmetry; apply Nat.leb_gt; lia) ]
    end.

  Lemma filter_none {A} (f : A -> bool) l : (forall x, In x l -> f x = false) -> filter f l = [].
  Proof.
    induction l as [|a l IH]; intros H; [reflexivity|]. cbn [filter].
    rewrite (H a) by (left; reflexivity). apply IH. intros x Hx. apply H. right. exact Hx.
  Qed.
  Lemma filter_all {A} (f : A -> bool) l : (forall x, In x l -> f x = true) -> filter f l = l.
  Proof.
    induction l as [|a l IH]; intros H; [reflexivity|]. cbn [filter].
    rewrite (H a) by (left; reflexivity). f_equal. apply IH. intros x Hx. apply H. right. exact Hx.
  Qed.

  Lemma filter_lt_S : forall B i, incr B ->
    filter (fun x => Nat.ltb x (S i)) B
    = filter (fun x => Nat.ltb x i) B ++ (if memb i B then [i] else []).
  Proof.
    induction B as [|a B IH]; intros i HI; [reflexivity|].
    pose proof (incr_tail a B HI) as HT. pose proof (incr_lt a B HI) as HL.
    cbn [filter]. unfold memb. cbn [existsb]. fold (memb i B).
    destruct (lt_eq_lt_dec a i) as [[Hlt|Heq]|Hgt].
    - nb. cbn [orb]. rewrite (IH i HT). reflexivity.
    - subst a. nb. cbn [orb].
      rewrite !filter_none; [reflexivity| |].
      + intros x Hx. apply HL in Hx. apply Nat.ltb_ge. lia.
      + intros x Hx. apply HL in Hx. apply Nat.ltb_ge. lia.
    - nb. cbn [orb]. rewrite memb_false by (intros x Hx; apply HL in Hx; lia).
      rewrite !filter_none; [reflexivity| |].
      + intros x Hx. apply HL in Hx. apply Nat.ltb_ge. lia.
      + intros x Hx. apply HL in Hx. apply Nat.ltb_ge. lia.
  Qed.

  Definition ccol (nm : str) (B : list nat) (mid i k : nat) : list (option hcell) :=
    map (fun x => Some (pcell nm B mid x)) (seq i k).
  Definition cnxt (B : list nat) (i k : nat) : list bool := map (fun x => memb x B) (seq i k).
  Lemma ccol_S nm B mid i k : ccol nm B mid i (S k) = Some (pcell nm B mid i) :: ccol nm B mid (S i) k.
  Proof. reflexivity. Qed.
  Lemma cnxt_S B i k : cnxt B i (S k) = memb i B :: cnxt B (S i) k.
  Proof. reflexivity. Qed.

  (* a node with one child: the child sits on the parent's row *)
  Lemma scan_conn_single nm m off : forall k i,
    m < i + k ->
    h_scan gl None (off + i) (ccol nm [m] m i k) (cnxt [m] i k) None
    = Some (if Nat.leb i m then [(off + m, [off + m])] else []).
  Proof.
    induction k as [|k IH]; intros i Hk.
    - cbn. nb. reflexivity.
    - rewrite ccol_S, cnxt_S. unfold pcell, conn, memb. cbn [existsb hd List.last]. rewrite orb_false_r.
      destruct (Nat.eq_dec i m) as [->|Hne].
      + nb. rewrite step_single. replace (S (off + m)) with (off + S m) by lia.
        rewrite IH by lia. nb. reflexivity.
      + nb. replace (Nat.ltb m i && Nat.ltb i m) with false
          by (symmetry; apply andb_false_iff; destruct (Nat.ltb m i) eqn:E; [right; apply Nat.ltb_ge; apply Nat.ltb_lt in E; lia|left; reflexivity]).
        rewrite step_blank. replace (S (off + i)) with (off + S i) by lia.
        rewrite IH by lia. destruct (Nat.leb i m) eqn:E.
        * apply Nat.leb_le in E. nb. reflexivity.
        * apply Nat.leb_gt in E. nb. reflexivity.
  Qed.

  Section Wide.
    Variables (nm : str) (B : list nat) (off : nat).
    Hypothesis HI : incr B.
    Hypothesis HN : B <> [].
    Let lo := hd 0 B.
    Let hi := List.last B 0.
    Let mid := (lo + hi) / 2.
    Hypothesis HW : lo + 2 <= hi.

    Lemma wide_mid : lo < mid < hi.
    Proof. apply mid_bounds. exact HW. Qed.

    Lemma wide_bounds x : In x B -> lo <= x <= hi.
    Proof. apply incr_bounds. exact HI. Qed.

    Lemma conn_wide i :
      conn st B mid i =
      if memb i B then
        (if Nat.eqb i mid then hs_middle st
         else if Nat.eqb i lo then hs_first st else if Nat.eqb i hi then hs_last st else hs_subseq st)
      else if Nat.ltb lo i && Nat.ltb i hi then (if Nat.eqb i mid then hs_split st else hs_stem st)
           else 32%N.
    Proof.
      unfold conn. fold lo hi. destruct (memb i B); [|reflexivity].
      destruct (Nat.eqb i mid); [|reflexivity].
      unfold lo, hi in HW. destruct B as [|b0 [|b1 B']]; [contradiction| |reflexivity].
      cbn in HW. lia.
    Qed.

    Definition cpar (i : nat) : option nat := if Nat.ltb mid i then Some (off + mid) else None.
    Definition ckids (i : nat) : list nat := map (Nat.add off) (filter (fun x => Nat.ltb x i) B).

    Lemma scan_after : forall k i, hi < i ->
      h_scan gl None (off + i) (ccol nm B mid i k) (cnxt B i k) None = Some [].
    Proof.
      induction k as [|k IH]; intros i Hi; [reflexivity|].
      rewrite ccol_S, cnxt_S. unfold pcell. rewrite conn_wide.
      rewrite memb_false by (intros x Hx; apply wide_bounds in Hx; lia).
      pose proof wide_mid. nb. cbn [andb].
      rewrite step_blank. replace (S (off + i)) with (off + S i) by lia. apply IH. lia.
    Qed.

    Lemma scan_inside : forall k i, lo < i <= hi -> hi < i + k ->
      h_scan gl None (off + i) (ccol nm B mid i k) (cnxt B i k) (Some (HR None (cpar i) (ckids i)))
      = Some [(off + mid, map (Nat.add off) B)].
    Proof.
      pose proof wide_mid as HM.
      induction k as [|k IH]; intros i Hi Hk; [lia|].
      rewrite ccol_S, cnxt_S. unfold pcell. rewrite conn_wide.
      assert (HK : ckids (S i) = ckids i ++ (if memb i B then [off + i] else [])).
      { unfold ckids. rewrite (filter_lt_S B i HI), map_app. destruct (memb i B); reflexivity. }
      destruct (Nat.eq_dec i hi) as [Ehi|Nhi].
      - (* the last child closes the connector *)
        subst i. rewrite memb_true in * by (apply last_in; exact HN). nb.
        unfold cpar. nb. rewrite step_close.
        replace (S (off + hi)) with (off + S hi) by lia. rewrite scan_after by lia.
        rewrite <- HK. unfold ckids. rewrite filter_all; [reflexivity|].
        intros x Hx. apply wide_bounds in Hx. apply Nat.ltb_lt. lia.
      - assert (Hi' : lo < S i <= hi) by lia.
        specialize (IH (S i) Hi' ltac:(lia)). rewrite Nat.add_succ_r in IH.
        destruct (memb i B) eqn:EM; destruct (Nat.eq_dec i mid) as [Emid|Nmid].
        + (* a child on the parent's row *)
          subst i. nb. unfold cpar at 1. nb. rewrite step_mid_child.
          rewrite <- HK. replace (Some (off + mid)) with (cpar (S mid)) by (unfold cpar; nb; reflexivity).
          exact IH.
        + (* another child *)
          nb. rewrite step_sub. rewrite <- HK.
          replace (cpar i) with (cpar (S i)); [exact IH|].
          unfold cpar. destruct (Nat.ltb mid i) eqn:E.
          * apply Nat.ltb_lt in E. nb. reflexivity.
          * apply Nat.ltb_ge in E. nb. reflexivity.
        + (* the parent's row between two children *)
          subst i. nb. cbn [andb]. unfold cpar at 1. nb. rewrite step_split.
          rewrite app_nil_r in HK. rewrite <- HK.
          replace (Some (off + mid)) with (cpar (S mid)) by (unfold cpar; nb; reflexivity).
          exact IH.
        + (* a stem *)
          nb. cbn [andb]. rewrite step_stem. rewrite app_nil_r in HK. rewrite <- HK.
          replace (cpar i) with (cpar (S i)); [exact IH|].
          unfold cpar. destruct (Nat.ltb mid i) eqn:E.
          * apply Nat.ltb_lt in E. nb. reflexivity.
          * apply Nat.ltb_ge in E. nb. reflexivity.
    Qed.

    Lemma scan_before : forall k i, i <= lo -> hi < i + k ->
      h_scan gl None (off + i) (ccol nm B mid i k) (cnxt B i k) None
      = Some [(off + mid, map (Nat.add off) B)].
    Proof.
      pose proof wide_mid as HM.
      induction k as [|k IH]; intros i Hi Hk; [lia|].
      rewrite ccol_S, cnxt_S. unfold pcell. rewrite conn_wide.
      replace (S (off + i)) with (off + S i) by lia.
      destruct (Nat.eq_dec i lo) as [Elo|Nlo].
      - subst i. rewrite memb_true by (apply hd_in; exact HN). nb. rewrite step_open.
        replace (S (off + lo)) with (off + S lo) by lia.
        replace (Some (HR None None [off + lo])) with (Some (HR None (cpar (S lo)) (ckids (S lo)))).
        + apply scan_inside; lia.
        + f_equal. f_equal; [unfold cpar; nb; reflexivity|].
          unfold ckids. rewrite (filter_lt_S B lo HI). rewrite memb_true by (apply hd_in; exact HN).
          rewrite filter_none; [reflexivity|].
          intros x Hx. apply wide_bounds in Hx. apply Nat.ltb_ge. lia.
      - rewrite memb_false by (intros x Hx; apply wide_bounds in Hx; lia).
        nb. cbn [andb]. rewrite step_blank. replace (S (off + i)) with (off + S i) by lia.
        apply IH; lia.
    Qed.
  End Wide.

  (* the connector column of a well-formed block, from its first row *)
  Lemma scan_conn nm B off n :
    incr B -> B <> [] ->
    (length B = 1 \/ hd 0 B + 2 <= List.last B 0) -> List.last B 0 < n ->
    h_scan gl None off (ccol nm B ((hd 0 B + List.last B 0) / 2) 0 n) (cnxt B 0 n) None
    = Some [(off + (hd 0 B + List.last B 0) / 2, map (Nat.add off) B)].
  Proof.
    intros HI HN [H1|H2] Hn.
    - destruct B as [|m [|? ?]]; try discriminate. cbn [hd List.last] in *. rewrite mid_same.
      pose proof (scan_conn_single nm m off n 0 ltac:(lia)) as HS.
      rewrite Nat.add_0_r in HS. rewrite HS. cbn [map]. reflexivity.
    - pose proof (scan_before nm B off HI HN H2 n 0 ltac:(lia) ltac:(lia)) as HS.
      rewrite Nat.add_0_r in HS. exact HS.
  Qed.

  (* ---------------------------------------------------------------------------------------------- *)
  (* which rows carry a node of the next depth *)

  Lemma map_seq_ext2 {A} (f g : nat -> A) : forall n a b,
    (forall i, i < n -> f (a + i) = g (b + i)) -> map f (seq a n) = map g (seq b n).
  Proof.
    induction n as [|n IH]; intros a b H; [reflexivity|]. cbn [seq map]. f_equal.
    - specialize (H 0 ltac:(lia)). rewrite !Nat.add_0_r in H. exact H.
    - apply IH. intros i Hi. specialize (H (S i) ltac:(lia)).
      replace (S a + i) with (a + S i) by lia. replace (S b + i) with (b + S i) by lia. exact H.
  Qed.

  Lemma heads_lay : forall l,
    map is_node_cell (h_column (lrows l) 0)
    = map (fun i => notgap l && Nat.eqb i (lmid l)) (seq 0 (lnrows l)).
  Proof.
    intros [nm| |nm mid ks]; try reflexivity.
    rewrite lrows_node, h_column_consi_0, map_map, krows_length, lnrows_node.
    apply map_ext. intros i. unfold pcell. cbn [notgap lmid andb]. destruct (Nat.eqb i mid); reflexivity.
  Qed.

  Lemma memb_app x a b : memb x (a ++ b) = memb x a || memb x b.
  Proof. unfold memb. apply existsb_app. Qed.

  Lemma heads_kids : forall ks off, Forall (fun k => lmid k < lnrows k) ks ->
    map is_node_cell (h_column (krows ks) 0) = map (fun i => memb i (Bof off ks)) (seq off (knrows ks)).
  Proof.
    induction ks as [|k r IH]; intros off HF; [reflexivity|].
    inversion HF as [|? ? Hk Hr]; subst.
    destruct (Bof_props r (off + lnrows k) Hr) as [P1 _].
    rewrite krows_cons, h_column_app, map_app, heads_lay, knrows_cons, seq_app, map_app.
    f_equal.
    - apply map_seq_ext2. intros i Hi. cbn [Bof Nat.add]. rewrite memb_app.
      rewrite (memb_false (off + i) (Bof (off + lnrows k) r)) by (intros x Hx; apply P1 in Hx; lia).
      rewrite orb_false_r. destruct (notgap k); [|reflexivity].
      unfold memb. cbn [existsb andb]. rewrite orb_false_r.
      destruct (Nat.eq_dec i (lmid k)) as [->|Hne]; [rewrite !Nat.eqb_refl; reflexivity|].
      replace (Nat.eqb i (lmid k)) with false by (symmetry; apply Nat.eqb_neq; lia).
      symmetry. apply Nat.eqb_neq. lia.
    - rewrite (IH (off + lnrows k) Hr). apply map_ext_in. intros x Hx. apply in_seq in Hx.
      cbn [Bof]. destruct (notgap k); cbn [app]; [|reflexivity].
      unfold memb. cbn [existsb].
      replace (Nat.eqb x (off + lmid k)) with false by (symmetry; apply Nat.eqb_neq; lia). reflexivity.
  Qed.

  (* ---------------------------------------------------------------------------------------------- *)
  (* A1: the scan of every connector column of a block *)

  Definition scan_ok (l : lay) : Prop :=
    forall j off,
      h_scan gl None off (h_column (lrows l) j) (map is_node_cell (h_column (lrows l) (S j))) None
      = Some (lruns l j off).

  Lemma scan_kids ks : Forall scan_ok ks -> forall j off,
    h_scan gl None off (h_column (krows ks) j) (map is_node_cell (h_column (krows ks) (S j))) None
    = Some (kruns ks j off).
  Proof.
    induction 1 as [|k r Hk Hr IH]; intros j off; [reflexivity|].
    rewrite krows_cons, !h_column_app, map_app, kruns_cons.
    rewrite (h_scan_app gl _ _ off None (lruns k j off)).
    - rewrite h_column_length, lrows_length, IH. reflexivity.
    - rewrite map_length, !h_column_length. reflexivity.
    - apply Hk.
  Qed.

  Lemma scan_lay : forall l, wf l -> scan_ok l.
  Proof.
    induction l as [nm| |nm mid ks IH] using lay_ind'; intros HW j off.
    - destruct j as [|[|j]]; reflexivity.
    - destruct j as [|j]; reflexivity.
    - apply wf_node in HW as [HB [HM [HWd HF]]].
      assert (HS : Forall scan_ok ks).
      { rewrite Forall_forall in *. intros k Hk. apply (IH k Hk). apply (HF k Hk). }
      destruct j as [|j].
      + rewrite lruns_0, lrows_node, h_column_consi_0, h_column_consi_S.
        rewrite (heads_kids ks 0) by (apply wf_kids_mid; exact HF). rewrite krows_length.
        destruct (Bof_props ks 0 (wf_kids_mid ks HF)) as [P1 P2].
        pose proof (scan_conn nm (Bof 0 ks) off (knrows ks) P2 HB HWd) as HC.
        unfold ccol, cnxt in HC. rewrite <- HM in HC. apply HC.
        apply (P1 _ (last_in _ HB)).
      + rewrite lruns_S, lrows_node, !h_column_consi_S. apply scan_kids. exact HS.
  Qed.

  Lemma scan_all_lay l : wf l -> forall n d,
    h_scan_all gl None (lrows l) d n = Some (map (fun j => lruns l j 0) (seq d n)).
  Proof.
    intros HW. induction n as [|n IH]; intros d; [reflexivity|].
    rewrite h_scan_all_S. cbn [option_map]. rewrite (scan_lay l HW d 0), IH. reflexivity.
  Qed.

  (* ---------------------------------------------------------------------------------------------- *)
  (* A2: every node cell is claimed; the root *)

  Lemma count_mid nm B mid : forall n a,
    length (filter is_node_cell (map (fun x => Some (pcell nm B mid x)) (seq a n)))
    = if Nat.leb a mid && Nat.ltb mid (a + n) then 1 else 0.
  Proof.
    induction n as [|n IH]; intros a.
    - cbn [seq map filter length]. rewrite Nat.add_0_r.
      destruct (Nat.leb a mid) eqn:E; [|reflexivity]. apply Nat.leb_le in E. nb. reflexivity.
    - cbn [seq map filter]. unfold pcell at 1.
      destruct (Nat.eqb a mid) eqn:E; [apply Nat.eqb_eq in E|apply Nat.eqb_neq in E];
        cbn [is_node_cell length]; rewrite IH.
      + subst a. nb. reflexivity.
      + replace (a + S n) with (S a + n) by lia.
        destruct (le_lt_dec (S a) mid); nb; reflexivity.
  Qed.

  Lemma find_root_mid nm B mid : forall n a,
    find_root a (map (fun x => Some (pcell nm B mid x)) (seq a n))
    = if Nat.leb a mid && Nat.ltb mid (a + n) then [mid] else [].
  Proof.
    induction n as [|n IH]; intros a.
    - cbn [seq map find_root]. rewrite Nat.add_0_r.
      destruct (Nat.leb a mid) eqn:E; [|reflexivity]. apply Nat.leb_le in E. nb. reflexivity.
    - cbn [seq map find_root]. unfold pcell at 1.
      destruct (Nat.eqb a mid) eqn:E; [apply Nat.eqb_eq in E|apply Nat.eqb_neq in E];
        cbn [is_node_cell app]; rewrite IH.
      + subst a. nb. reflexivity.
      + replace (a + S n) with (S a + n) by lia.
        destruct (le_lt_dec (S a) mid); nb; reflexivity.
  Qed.

  Lemma count_heads_lay l : wf l ->
    length (filter is_node_cell (h_column (lrows l) 0)) = if notgap l then 1 else 0.
  Proof.
    intros HW. destruct l as [nm| |nm mid ks]; try reflexivity.
    pose proof (wf_mid _ HW) as HM. cbn [lmid] in HM. rewrite lnrows_node in HM.
    rewrite lrows_node, h_column_consi_0, count_mid, krows_length. cbn [notgap]. nb. reflexivity.
  Qed.

  Lemma find_root_lay l : wf l -> notgap l = true -> find_root 0 (h_column (lrows l) 0) = [lmid l].
  Proof.
    intros HW HG. destruct l as [nm| |nm mid ks]; try reflexivity; [discriminate|].
    pose proof (wf_mid _ HW) as HM. cbn [lmid] in HM |- *. rewrite lnrows_node in HM.
    rewrite lrows_node, h_column_consi_0, find_root_mid, krows_length. nb. reflexivity.
  Qed.

  Lemma count_kids : forall ks off, Forall wf ks ->
    length (filter is_node_cell (h_column (krows ks) 0)) = length (Bof off ks).
  Proof.
    induction ks as [|k r IH]; intros off HF; [reflexivity|]. inversion HF; subst.
    rewrite krows_cons, h_column_app, filter_app, app_length, count_heads_lay by assumption.
    cbn [Bof]. rewrite app_length, (IH (off + lnrows k)) by assumption.
    destruct (notgap k); reflexivity.
  Qed.

  Definition count_ok (l : lay) : Prop :=
    forall j off, length (filter is_node_cell (h_column (lrows l) (S j))) = length (flat_map snd (lruns l j off)).

  Lemma count_lay : forall l, wf l -> count_ok l.
  Proof.
    induction l as [nm| |nm mid ks IH] using lay_ind'; intros HW j off.
    - destruct j; reflexivity.
    - destruct j; reflexivity.
    - apply wf_node in HW as [HB [HM [HWd HF]]].
      destruct j as [|j].
      + rewrite lruns_0, lrows_node, h_column_consi_S, (count_kids ks 0 HF).
        cbn [flat_map snd]. rewrite app_nil_r, map_length. reflexivity.
      + rewrite lruns_S, lrows_node, h_column_consi_S.
        assert (HC : Forall count_ok ks).
        { rewrite Forall_forall in *. intros k Hk. apply (IH k Hk). apply (HF k Hk). }
        clear -HC. revert off. induction HC as [|k r Hk Hr IHr]; intros off; [reflexivity|].
        rewrite krows_cons, h_column_app, filter_app, app_length, kruns_cons, flat_map_app, app_length.
        rewrite (Hk j off), (IHr (off + lnrows k)). reflexivity.
  Qed.

  Lemma nth_runs_map l H d :
    nth d (map (fun j => lruns l j 0) (seq 0 H)) [] = if Nat.ltb d H then lruns l d 0 else [].
  Proof.
    destruct (Nat.ltb d H) eqn:E.
    - apply Nat.ltb_lt in E.
      rewrite (nth_indep _ [] (lruns l 0 0)) by (rewrite map_length, seq_length; exact E).
      rewrite (map_nth (fun j => lruns l j 0)), seq_nth by exact E. reflexivity.
    - apply Nat.ltb_ge in E. apply nth_overflow. rewrite map_length, seq_length. exact E.
  Qed.

  Lemma claimed_lay l H : wf l ->
    h_all_claimed (lrows l) (map (fun j => lruns l j 0) (seq 0 H)) = true.
  Proof.
    intros HW. unfold h_all_claimed. apply forallb_forall. intros d Hd. apply in_seq in Hd.
    rewrite map_length, seq_length in Hd. rewrite nth_runs_map.
    replace (Nat.ltb d H) with true by (symmetry; apply Nat.ltb_lt; lia).
    apply Nat.eqb_eq. apply count_lay. exact HW.
  Qed.

  (* ---------------------------------------------------------------------------------------------- *)
  (* A3: rebuilding the tree *)

  Fixpoint koffs (ks : list lay) (s : nat) : list (lay * nat) :=
    match ks with [] => [] | k :: r => (k, s) :: koffs r (s + lnrows k) end.

  Lemma koffs_bounds : forall ks s k o,
    In (k, o) (koffs ks s) -> In k ks /\ s <= o /\ o + lnrows k <= s + knrows ks.
  Proof.
    induction ks as [|k0 r IH]; intros s k o H; [destruct H|].
    cbn [koffs] in H. rewrite knrows_cons. destruct H as [H|H].
    - injection H as <- <-. split; [left; reflexivity|lia].
    - apply IH in H as [H1 [H2 H3]]. split; [right; exact H1|lia].
  Qed.

  Lemma kheight_ge ks k : In k ks -> lheight k <= kheight ks.
  Proof.
    induction ks as [|k0 r IH]; intros H; [destruct H|]. rewrite kheight_cons.
    destruct H as [->|H]; [lia|]. specialize (IH H). lia.
  Qed.

  Definition keys_ok (l : lay) : Prop :=
    forall j off p v, In (p, v) (lruns l j off) -> off <= p < off + lnrows l.

  Lemma keys_kids ks : Forall keys_ok ks ->
    forall j off p v, In (p, v) (kruns ks j off) -> off <= p < off + knrows ks.
  Proof.
    induction 1 as [|k r Hk Hr IH]; intros j off p v H; [destruct H|].
    rewrite kruns_cons in H. rewrite knrows_cons. apply in_app_or in H as [H|H].
    - apply Hk in H. lia.
    - apply IH in H. lia.
  Qed.

  Lemma keys_range : forall l, wf l -> keys_ok l.
  Proof.
    induction l as [nm| |nm mid ks IH] using lay_ind'; intros HW j off p v H; try (destruct H).
    pose proof (wf_mid _ HW) as HM. cbn [lmid] in HM.
    apply wf_node in HW as [HB [HMid [HWd HF]]].
    destruct j as [|j].
    - rewrite lruns_0 in H. destruct H as [H|[]]. injection H as <- _. lia.
    - rewrite lruns_S in H. rewrite lnrows_node. apply (keys_kids ks) in H; [exact H|].
      rewrite Forall_forall in *. intros k Hk. apply (IH k Hk). apply (HF k Hk).
  Qed.

  Lemma assoc_in {A} p (v : A) : forall l, assoc_nat p l = Some v -> In (p, v) l.
  Proof.
    induction l as [|[q w] l IH]; intros H; [discriminate|]. cbn [assoc_nat] in H.
    destruct (Nat.eqb p q) eqn:E.
    - apply Nat.eqb_eq in E. subst q. injection H as ->. left. reflexivity.
    - right. apply IH. exact H.
  Qed.

  Lemma assoc_app_hit {A} p (v : A) l1 l2 : assoc_nat p l1 = Some v -> assoc_nat p (l1 ++ l2) = Some v.
  Proof.
    induction l1 as [|[q w] l1 IH]; intros H; [discriminate|]. cbn [assoc_nat app] in *.
    destruct (Nat.eqb p q); [exact H|apply IH; exact H].
  Qed.

  Lemma assoc_app_skip {A} p (l1 l2 : list (nat * A)) :
    (forall q w, In (q, w) l1 -> q <> p) -> assoc_nat p (l1 ++ l2) = assoc_nat p l2.
  Proof.
    induction l1 as [|[q w] l1 IH]; intros H; [reflexivity|]. cbn [assoc_nat app].
    replace (Nat.eqb p q) with false.
    - apply IH. intros q' w' Hq. apply (H q' w'). right. exact Hq.
    - symmetry. apply Nat.eqb_neq. intros E. apply (H q w); [left; reflexivity|congruence].
  Qed.

  Lemma kruns_assoc ks : Forall wf ks -> forall j off s k o p v,
    In (k, o) (koffs ks s) ->
    assoc_nat p (lruns k j (off + o)) = Some v -> assoc_nat p (kruns ks j (off + s)) = Some v.
  Proof.
    induction 1 as [|k0 r Hk Hr IH]; intros j off s k o p v HIn HA; [destruct HIn|].
    cbn [koffs] in HIn. rewrite kruns_cons. destruct HIn as [E|HIn].
    - injection E as <- <-. apply assoc_app_hit. exact HA.
    - rewrite assoc_app_skip.
      + replace (off + s + lnrows k0) with (off + (s + lnrows k0)) by lia.
        apply (IH j off (s + lnrows k0) k o p v HIn HA).
      + intros q w Hq Eq. subst q.
        apply (keys_range k0 Hk) in Hq.
        apply assoc_in in HA. apply koffs_bounds in HIn as [Hin [Hs _]].
        rewrite Forall_forall in Hr. apply (keys_range k (Hr k Hin)) in HA. lia.
  Qed.

  Lemma nth_krows : forall ks s (X : list (list hcell)) k o i,
    length X = s -> In (k, o) (koffs ks s) -> i < lnrows k ->
    nth (o + i) (X ++ krows ks) [] = nth i (lrows k) [].
  Proof.
    induction ks as [|k0 r IH]; intros s X k o i HX HIn Hi; [destruct HIn|].
    cbn [koffs] in HIn. rewrite krows_cons. destruct HIn as [E|HIn].
    - injection E as <- <-. rewrite app_nth2 by lia. replace (s + i - length X) with i by lia.
      apply app_nth1. rewrite lrows_length. exact Hi.
    - rewrite app_assoc. apply (IH (s + lnrows k0)); [|exact HIn|exact Hi].
      rewrite app_length, lrows_length, HX. reflexivity.
  Qed.

  Lemma consi_nth f : forall res a i, i < length res -> nth i (consi f a res) [] = f (a + i) :: nth i res [].
  Proof.
    induction res as [|r rs IH]; intros a i Hi; [cbn in Hi; lia|].
    destruct i as [|i]; cbn [consi nth].
    - rewrite Nat.add_0_r. reflexivity.
    - cbn [length] in Hi. rewrite IH by lia. replace (S a + i) with (a + S i) by lia. reflexivity.
  Qed.

  Lemma lruns_beyond : forall l j off, lheight l <= j -> lruns l j off = [].
  Proof.
    induction l as [nm| |nm mid ks IH] using lay_ind'; intros j off Hj; try reflexivity.
    rewrite lheight_node in Hj. destruct j as [|j]; [lia|]. rewrite lruns_S.
    assert (Hk : kheight ks <= j) by lia. clear Hj. revert off.
    induction IH as [|k r Hk' Hr IHr]; intros off; [reflexivity|].
    rewrite kheight_cons in Hk. rewrite kruns_cons, (Hk' j off), IHr by lia. reflexivity.
  Qed.

  Section Build.
    Variables (rows : list (list hcell)) (runs : list (list (nat * list nat))).

    (* the block of l sits at rows off.. and cell columns e.. of the picture *)
    Definition Emb (l : lay) (off e : nat) : Prop :=
      (forall i j, i < lnrows l ->
                   nth_error (nth (off + i) rows []) (e + j) = nth_error (nth i (lrows l) []) j)
      /\ (forall j p v, assoc_nat p (lruns l j off) = Some v -> assoc_nat p (nth (e + j) runs []) = Some v).

    Lemma Emb_kid nm mid ks off e k o :
      wf (LNode nm mid ks) -> Emb (LNode nm mid ks) off e -> In (k, o) (koffs ks 0) ->
      Emb k (off + o) (S e).
    Proof.
      intros HW [E1 E2] HIn. apply wf_node in HW as [_ [_ [_ HF]]].
      pose proof (koffs_bounds _ _ _ _ HIn) as [Hin [_ Hb]]. cbn [Nat.add] in Hb.
      split.
      - intros i j Hi.
        specialize (E1 (o + i) (S j)). rewrite lnrows_node in E1. specialize (E1 ltac:(lia)).
        replace (off + o + i) with (off + (o + i)) by lia.
        replace (S e + j) with (e + S j) by lia. rewrite E1.
        rewrite lrows_node, consi_nth by (rewrite krows_length; lia). cbn [nth_error].
        rewrite <- (nth_krows ks 0 [] k o i eq_refl HIn Hi). reflexivity.
      - intros j p v HA.
        replace (S e + j) with (e + S j) by lia. apply E2. rewrite lruns_S.
        pose proof (kruns_assoc ks HF j off 0 k o p v HIn HA) as HK.
        rewrite Nat.add_0_r in HK. exact HK.
    Qed.

    Lemma build_kids f e off : forall ks s,
      (forall k o, In (k, o) (koffs ks s) -> notgap k = true ->
                   h_build f rows runs e (off + o + lmid k) = Some (ldec k)) ->
      opt_all (map (h_build f rows runs e) (Bof (off + s) ks)) = Some (kdec ks).
    Proof.
      induction ks as [|k r IH]; intros s H; [reflexivity|].
      cbn [Bof]. rewrite map_app, kdec_cons.
      replace (off + s + lnrows k) with (off + (s + lnrows k)) by lia.
      assert (HR : opt_all (map (h_build f rows runs e) (Bof (off + (s + lnrows k)) r)) = Some (kdec r)).
      { apply IH. intros k' o' Hin Hg. apply H; [right; exact Hin|exact Hg]. }
      destruct (notgap k) eqn:EG.
      - cbn [map app opt_all]. rewrite (H k s (or_introl eq_refl) EG), HR. reflexivity.
      - cbn [map app]. exact HR.
    Qed.

    Lemma koffs_in ks s k o : In (k, o) (koffs ks s) -> In k ks.
    Proof. intros H. apply koffs_bounds in H. apply H. Qed.

    Lemma build_lay : forall l, wf l -> notgap l = true -> forall fuel off e,
      lheight l <= fuel -> Emb l off e ->
      h_build fuel rows runs e (off + lmid l) = Some (ldec l).
    Proof.
      induction l as [nm| |nm mid ks IH] using lay_ind'; intros HW HG fuel off e Hf HE; [| discriminate |].
      - destruct fuel as [|f]; [cbn in Hf; lia|]. destruct HE as [E1 _].
        specialize (E1 0 0 ltac:(cbn; lia)). cbn [lmid h_build]. rewrite !Nat.add_0_r in E1.
        rewrite Nat.add_0_r, E1. reflexivity.
      - destruct fuel as [|f]; [rewrite lheight_node in Hf; lia|].
        pose proof (wf_mid _ HW) as HM. cbn [lmid] in HM |- *. rewrite lnrows_node in HM.
        pose proof HE as [E1 E2].
        specialize (E1 mid 0 ltac:(rewrite lnrows_node; exact HM)). rewrite Nat.add_0_r in E1.
        rewrite lrows_node, consi_nth in E1 by (rewrite krows_length; exact HM).
        cbn [nth_error Nat.add] in E1. unfold pcell in E1. rewrite Nat.eqb_refl in E1.
        cbn [h_build]. rewrite E1.
        specialize (E2 0 (off + mid) (map (Nat.add off) (Bof 0 ks))). rewrite Nat.add_0_r in E2.
        rewrite E2 by (rewrite lruns_0; cbn [assoc_nat]; rewrite Nat.eqb_refl; reflexivity).
        rewrite <- Bof_shift.
        rewrite (build_kids f (S e) off ks 0); [reflexivity|].
        intros k o HIn HGk.
        pose proof (koffs_in _ _ _ _ HIn) as Hin.
        pose proof HW as HW'. apply wf_node in HW' as [_ [_ [_ HF]]].
        rewrite Forall_forall in IH, HF.
        apply (IH k Hin (HF k Hin) HGk f (off + o) (S e)).
        + pose proof (kheight_ge ks k Hin). rewrite lheight_node in Hf. lia.
        + apply (Emb_kid nm mid ks off e k o HW HE HIn).
    Qed.
  End Build.

  (* ---------------------------------------------------------------------------------------------- *)
  (* the decoder on rows that parse into a well-formed layout *)

  Theorem decode_lay l inter bw out :
    wf l -> notgap l = true -> lheight l <= length bw ->
    opt_all (map (h_parse_row gl inter bw) out) = Some (lrows l) ->
    h_decode gl inter bw None out = Some (ldec l).
  Proof.
    intros HW HG HH HP. unfold h_decode. rewrite HP, (scan_all_lay l HW), (claimed_lay l _ HW).
    rewrite (find_root_lay l HW HG).
    change (lmid l) with (0 + lmid l). apply build_lay; [exact HW|exact HG|lia|].
    split.
    - intros i j Hi. reflexivity.
    - intros j p v HA. cbn [Nat.add]. rewrite nth_runs_map.
      destruct (Nat.ltb j (length bw)) eqn:E; [exact HA|].
      apply Nat.ltb_ge in E. rewrite lruns_beyond in HA by lia. discriminate.
  Qed.
End LayoutOfStyle.

(* ============================================================================================== *)
(* Part B.  the rows of the model parse into the layout of the tree *)

(* ---- str.strip / str.rstrip on padded names ---- *)

Lemma lstrip_app (u v cs : str) :
  lstrip (u ++ v) cs = match lstrip u cs with [] => lstrip v cs | _ => lstrip u cs ++ v end.
Proof.
  induction u as [|a u IH]; [reflexivity|]. cbn [app lstrip].
  destruct (memN a cs); [exact IH|reflexivity].
Qed.

Lemma lstrip_all (u cs : str) : (forall c, In c u -> memN c cs = true) -> lstrip u cs = [].
Proof.
  induction u as [|a u IH]; intros H; [reflexivity|]. cbn [lstrip].
  rewrite (H a) by (left; reflexivity). apply IH. intros c Hc. apply H. right. exact Hc.
Qed.

Lemma lstrip_length (u cs : str) : length (lstrip u cs) <= length u.
Proof.
  induction u as [|a u IH]; [cbn; lia|]. cbn [lstrip]. destruct (memN a cs); cbn [length] in *; lia.
Qed.

Lemma rstrip_length (u cs : str) : length (rstrip u cs) <= length u.
Proof. unfold rstrip. rewrite rev_length. pose proof (lstrip_length (rev u) cs). rewrite rev_length in *. lia. Qed.

Lemma in_spaces c n : In c (spaces n) -> c = 32%N.
Proof. intros H. apply repeat_spec in H. exact H. Qed.

Lemma rstrip_app_blank (x cs : str) n : memN 32%N cs = true -> rstrip (x ++ spaces n) cs = rstrip x cs.
Proof.
  intros Hm. unfold rstrip. rewrite rev_app_distr, lstrip_app.
  rewrite lstrip_all; [reflexivity|].
  intros c Hc. apply in_rev in Hc. apply in_spaces in Hc. subst c. exact Hm.
Qed.

Lemma rstrip_all (x cs : str) : (forall c, In c x -> memN c cs = true) -> rstrip x cs = [].
Proof.
  intros H. unfold rstrip. rewrite lstrip_all; [reflexivity|]. intros c Hc. apply in_rev in Hc. apply H. exact Hc.
Qed.

Lemma rstrip_app_keep (x y cs : str) : rstrip y cs <> [] -> rstrip (x ++ y) cs = x ++ rstrip y cs.
Proof.
  unfold rstrip. intros H. rewrite rev_app_distr, lstrip_app.
  destruct (lstrip (rev y) cs) as [|c w] eqn:E; [contradiction|].
  rewrite rev_app_distr, rev_involutive. reflexivity.
Qed.

Lemma memN_blank c : memN c blank = true <-> c = 32%N.
Proof.
  unfold memN, blank. cbn [existsb]. rewrite orb_false_r. apply N.eqb_eq.
Qed.

(* blanks around a name do not change what `trim` leaves *)
Lemma trim_pad a b (n : str) : trim (spaces a ++ n ++ spaces b) = trim n.
Proof.
  assert (Hb : memN 32%N blank = true) by reflexivity.
  unfold trim, strip. rewrite lstrip_app.
  rewrite (lstrip_all (spaces a)) by (intros c Hc; apply in_spaces in Hc; subst c; exact Hb).
  rewrite lstrip_app.
  destruct (lstrip n blank) as [|c w] eqn:E.
  - rewrite (lstrip_all (spaces b)) by (intros c Hc; apply in_spaces in Hc; subst c; exact Hb). reflexivity.
  - apply rstrip_app_blank. exact Hb.
Qed.

Lemma center_form s w : exists a b, center s w = spaces a ++ s ++ spaces b.
Proof. unfold center. eexists. eexists. reflexivity. Qed.

Lemma trim_center n w : trim (center n w) = trim n.
Proof. destruct (center_form n w) as [a [b ->]]. apply trim_pad. Qed.

(* the cell of a leaf whose name does not end in whitespace decodes to the trimmed name *)
Lemma trim_leaf n w : rstrip_ws n = n -> trim (rstrip_ws (center n w)) = trim n.
Proof.
  intros Hr. destruct (center_form n w) as [a [b ->]]. unfold rstrip_ws in *.
  rewrite app_assoc, rstrip_app_blank by reflexivity.
  destruct n as [|c n'].
  - rewrite app_nil_r, rstrip_all; [reflexivity|].
    intros c Hc. apply in_spaces in Hc. subst c. reflexivity.
  - rewrite rstrip_app_keep by (rewrite Hr; discriminate). rewrite Hr.
    rewrite <- (app_nil_r (c :: n')) at 1. change (@nil N) with (spaces 0) at 1. apply trim_pad.
Qed.

Lemma hole_cell w : rstrip_ws (center [32; 32]%N w) = [].
Proof.
  destruct (center_form [32; 32]%N w) as [a [b ->]]. unfold rstrip_ws. apply rstrip_all.
  intros c Hc. apply in_app_or in Hc as [Hc|Hc]; [apply in_spaces in Hc; subst c; reflexivity|].
  apply in_app_or in Hc as [Hc|Hc]; [|apply in_spaces in Hc; subst c; reflexivity].
  destruct Hc as [<-|[<-|[]]]; reflexivity.
Qed.

Lemma all_eqb_spaces n : all_eqb 32%N (spaces n) = true.
Proof. induction n as [|n IH]; [reflexivity|]. cbn. exact IH. Qed.

(* ---- cutting one row into cells ---- *)

Section ParseCells.
  Variables (st : hstyle) (inter : bool).
  Hypothesis Hb : hs_branch st <> 32%N.
  Let b := hs_branch st.
  Let gl := glyphs_of_hs st.

  Lemma eqb_32_b : N.eqb 32%N b = false.
  Proof. apply N.eqb_neq. intros E. apply Hb. symmetry. exact E. Qed.
  Lemma eqb_b_32' : N.eqb b 32%N = false.
  Proof. apply N.eqb_neq. exact Hb. Qed.

  Lemma hnode_str_length c w : (inter = true -> length c = w) ->
    length (hnode_str st inter c) = if inter then w + 4 else 3.
  Proof.
    intros H. unfold hnode_str. destruct inter; [|reflexivity].
    rewrite !app_length, (H eq_refl). cbn [length]. lia.
  Qed.

  (* a blank cell followed by its connector *)
  Lemma parse_pad w bw L g rest :
    L = (if inter then w + 4 else 3) ->
    h_parse_row gl inter (w :: bw) (spaces L ++ g :: rest)
    = option_map (cons (HPad g)) (h_parse_row gl inter bw rest).
  Proof.
    intros HL.
    assert (Hs : exists s', spaces L ++ g :: rest = 32%N :: s').
    { destruct L as [|L']; [destruct inter; lia|]. eexists. reflexivity. }
    destruct Hs as [s' Es]. rewrite Es. cbn [h_parse_row]. cbn [g_branch gl glyphs_of_hs].
    fold b. rewrite eqb_32_b. rewrite <- Es, <- HL.
    assert (F : firstn L (spaces L ++ g :: rest) = spaces L)
      by (rewrite <- (repeat_length 32%N L) at 1; apply firstn_app_exact).
    assert (S' : skipn L (spaces L ++ g :: rest) = g :: rest)
      by (rewrite <- (repeat_length 32%N L) at 1; apply skipn_app_exact).
    rewrite F, S'. unfold spaces at 1. rewrite repeat_length, Nat.eqb_refl, all_eqb_spaces. cbn [andb].
    destruct (h_parse_row gl inter bw rest); reflexivity.
  Qed.

  (* an inner node cell followed by its connector *)
  Lemma parse_node w bw c g rest :
    (inter = true -> length c = w) ->
    h_parse_row gl inter (w :: bw) (hnode_str st inter c ++ g :: rest)
    = option_map (cons (HInt (if inter then trim c else []) g)) (h_parse_row gl inter bw rest).
  Proof.
    intros HL. unfold hnode_str. fold b. destruct inter eqn:EI.
    - specialize (HL eq_refl). subst w.
      set (cell := [b; 32%N] ++ c ++ [32%N; b]).
      assert (Lc : length cell = length c + 4) by (unfold cell; rewrite !app_length; cbn [length]; lia).
      change (cell ++ g :: rest) with (b :: (32%N :: c ++ [32%N; b]) ++ g :: rest).
      cbn [h_parse_row]. cbn [g_branch gl glyphs_of_hs]. fold b. rewrite N.eqb_refl.
      change (b :: (32%N :: c ++ [32%N; b]) ++ g :: rest) with (cell ++ g :: rest).
      replace (Nat.leb (length (cell ++ g :: rest)) (length c + 2)) with false
        by (symmetry; apply Nat.leb_gt; rewrite app_length; cbn [length]; lia).
      rewrite <- Lc. rewrite firstn_app_exact, skipn_app_exact, Nat.eqb_refl.
      assert (N1 : nth 1 cell 0%N = 32%N) by reflexivity.
      assert (N2 : nth (length c + 2) cell 0%N = 32%N).
      { unfold cell. replace (length c + 2) with (S (S (length c))) by lia. cbn [nth app].
        rewrite app_nth2 by lia. replace (length c - length c) with 0 by lia. reflexivity. }
      assert (N3 : nth (length c + 3) cell 0%N = b).
      { unfold cell. replace (length c + 3) with (S (S (S (length c)))) by lia. cbn [nth app].
        rewrite app_nth2 by lia. replace (S (length c) - length c) with 1 by lia. reflexivity. }
      rewrite N1, N2, N3, !N.eqb_refl. cbn [andb].
      assert (HN : firstn (length c) (skipn 2 cell) = c).
      { unfold cell. cbn [skipn app]. apply firstn_app_exact. }
      rewrite HN. destruct (h_parse_row gl true bw rest); reflexivity.
    - cbn [app h_parse_row]. cbn [g_branch gl glyphs_of_hs]. fold b. rewrite N.eqb_refl. cbn [nth].
      rewrite eqb_b_32'. cbn [firstn skipn list_eqb]. rewrite !N.eqb_refl. cbn [andb].
      destruct (h_parse_row gl false bw rest); reflexivity.
  Qed.

  (* the cell of a leaf: the rest of the row *)
  Lemma parse_leaf_cell w bw x :
    (inter = true -> length x <= w) ->
    h_parse_row gl inter (w :: bw) (b :: 32%N :: x) = Some [HLeaf (trim x)].
  Proof.
    intros HL. cbn [h_parse_row]. cbn [g_branch gl glyphs_of_hs]. fold b. rewrite N.eqb_refl. cbn [nth].
    rewrite N.eqb_refl. cbn [skipn]. destruct inter; [|reflexivity].
    specialize (HL eq_refl). cbn [length].
    replace (Nat.leb (S (S (length x))) (w + 2)) with true by (symmetry; apply Nat.leb_le; lia).
    reflexivity.
  Qed.

  (* a prefix column in front of rows that are already cut *)
  Lemma parse_zip (P : nat -> str) (pc : nat -> hcell) w bw :
    (forall i rest, h_parse_row gl inter (w :: bw) (P i ++ rest)
                    = option_map (cons (pc i)) (h_parse_row gl inter bw rest)) ->
    forall res cres a,
      map (h_parse_row gl inter bw) res = map Some cres ->
      map (h_parse_row gl inter (w :: bw)) (zip_with (@app N) (map P (seq a (length res))) res)
      = map Some (consi pc a cres).
  Proof.
    intros HP. induction res as [|r res IH]; intros [|cr cres] a HM; try discriminate; [reflexivity|].
    cbn [map] in HM. injection HM as H1 H2.
    cbn [length seq map zip_with consi]. rewrite HP, H1. cbn [option_map]. f_equal. apply IH. exact H2.
  Qed.
End ParseCells.

(* ---- the layout of a tree ---- *)

(* two children of one row each: hassemble inserts a separating row *)
Definition gap_test (sub : list hblock) : bool :=
  match sub with
  | [b0; b1] => Nat.eqb (length (fst (fst b0)) + snd (fst b1) - snd (fst b0)) 1
  | _ => false
  end.

Definition with_gap (gap : bool) (ls : list lay) : list lay :=
  if gap then match ls with [l0; l1] => [l0; LGap; l1] | _ => ls end else ls.

Fixpoint lay_of (st : hstyle) (inter : bool) (ws : list nat) (d : nat) (t : tree) {struct t} : lay :=
  match t with
  | T g n a ks =>
      if is_hole t || negb (existsb real ks) then LLeaf (if is_hole t then [] else trim n)
      else
        LNode (if inter then trim n else [])
              (blk_mid (hbranch st inter ws d t))
              (with_gap (gap_test (map (hbranch st inter ws (S d)) ks))
                        ((fix go (x : list tree) : list lay :=
                            match x with [] => [] | k :: r => lay_of st inter ws (S d) k :: go r end) ks))
  end.

Lemma lay_of_eq st inter ws d g n a ks :
  lay_of st inter ws d (T g n a ks) =
  if is_hole (T g n a ks) || negb (existsb real ks)
  then LLeaf (if is_hole (T g n a ks) then [] else trim n)
  else LNode (if inter then trim n else [])
             (blk_mid (hbranch st inter ws d (T g n a ks)))
             (with_gap (gap_test (map (hbranch st inter ws (S d)) ks))
                       (map (lay_of st inter ws (S d)) ks)).
Proof.
  cbn [lay_of].
  replace ((fix go (x : list tree) : list lay :=
              match x with [] => [] | k :: r => lay_of st inter ws (S d) k :: go r end) ks)
    with (map (lay_of st inter ws (S d)) ks); [reflexivity|].
  induction ks as [|k r IH]; [reflexivity|]. cbn [map]. rewrite IH. reflexivity.
Qed.

Lemma lay_of_notgap st inter ws d t : notgap (lay_of st inter ws d t) = true.
Proof.
  destruct t as [g n a ks]. rewrite lay_of_eq.
  destruct (is_hole (T g n a ks) || negb (existsb real ks)); reflexivity.
Qed.

Lemma lay_of_mid st inter ws d t : lmid (lay_of st inter ws d t) = blk_mid (hbranch st inter ws d t).
Proof.
  destruct t as [g n a ks]. rewrite lay_of_eq, hbranch_eq. cbv zeta.
  destruct (is_hole (T g n a ks) || negb (existsb real ks)); reflexivity.
Qed.

(* ---- what hassemble computes, in terms of the children's branch rows ---- *)

Definition sub_idx (sub : list hblock) : list nat := map (fun x : hblock => snd (fst x)) sub.
Definition sub_nrow (sub : list hblock) : list nat := map (fun x : hblock => length (fst (fst x))) sub.

Lemma child_rows_nogap sub :
  gap_test sub = false ->
  child_rows sub = bidx 0 (sub_idx sub) (sub_nrow sub)
  /\ block_result sub = concat (map (fun x : hblock => fst (fst x)) sub).
Proof.
  intros H. unfold child_rows, block_result, sub_idx, sub_nrow.
  destruct sub as [|b0 [|b1 [|b2 r]]]; try (split; reflexivity).
  cbn [gap_test] in H. rewrite H. split; reflexivity.
Qed.

Lemma child_rows_gap sub :
  gap_test sub = true ->
  exists b0 b1, sub = [b0; b1] /\ child_rows sub = [0; 2]
                /\ block_result sub = [nth 0 (fst (fst b0) ++ fst (fst b1)) []; [];
                                       nth 1 (fst (fst b0) ++ fst (fst b1)) []].
Proof.
  intros H. destruct sub as [|b0 [|b1 [|b2 r]]]; try discriminate.
  exists b0, b1. unfold child_rows, block_result. cbn [gap_test] in H. rewrite H.
  cbn [map concat]. rewrite app_nil_r. repeat split; reflexivity.
Qed.

Lemma hassemble_mid_nogap st inter c sub :
  sub <> [] -> gap_test sub = false ->
  blk_mid (hassemble st inter c sub)
  = (hd 0 (sub_idx sub) + (sum_list (sub_nrow sub) + List.last (sub_idx sub) 0 - List.last (sub_nrow sub) 0)) / 2.
Proof.
  intros HN HG. unfold sub_idx, sub_nrow.
  destruct sub as [|b0 [|b1 [|b2 r]]]; [contradiction|reflexivity| |].
  - cbn [gap_test] in HG. unfold hassemble, blk_mid.
    cbn [map fst snd hd List.last sum_list fold_right].
    replace (Nat.eqb (length (fst (fst b0)) + (length (fst (fst b1)) + 0) + snd (fst b1)
                      - length (fst (fst b1)) - snd (fst b0)) 1) with false; [reflexivity|].
    rewrite <- HG. f_equal. lia.
  - unfold hassemble, blk_mid. cbn [fst snd]. reflexivity.
Qed.

Lemma hassemble_mid_gap st inter c sub :
  gap_test sub = true -> blk_mid (hassemble st inter c sub) = 1.
Proof.
  intros HG. destruct sub as [|b0 [|b1 [|b2 r]]]; try discriminate.
  cbn [gap_test] in HG. unfold hassemble, blk_mid.
  cbn [map fst snd hd List.last sum_list fold_right].
  replace (Nat.eqb (length (fst (fst b0)) + (length (fst (fst b1)) + 0) + snd (fst b1)
                    - length (fst (fst b1)) - snd (fst b0)) 1) with true.
  - cbn [fst snd]. replace (snd (fst b0) + 2 - snd (fst b0)) with 2 by lia. reflexivity.
  - rewrite <- HG. f_equal. lia.
Qed.

Lemma incr_three B : incr B -> 3 <= length B -> hd 0 B + 2 <= List.last B 0.
Proof.
  intros HI HL. destruct B as [|b0 [|b1 [|b2 B']]]; cbn [length] in HL; try lia.
  destruct HI as [H01 [H12 HI]].
  pose proof (incr_le_last b2 B' HI b2 (or_introl eq_refl)) as H2.
  change (List.last (b0 :: b1 :: b2 :: B') 0) with (List.last (b2 :: B') 0). cbn [hd]. lia.
Qed.

Lemma bidx_length idx : forall nrow off, length idx = length nrow -> length (bidx off idx nrow) = length idx.
Proof.
  induction idx as [|m idx IH]; intros [|n nrow] off H; try discriminate; [reflexivity|].
  cbn [bidx length]. f_equal. apply IH. cbn in H. lia.
Qed.

(* the branch row of an assembled block is the midpoint of its first and last child row *)
Lemma hassemble_wf_facts st inter c sub :
  sub <> [] -> Forall blk_good sub ->
  let B := child_rows sub in
  B <> [] /\ blk_mid (hassemble st inter c sub) = (hd 0 B + List.last B 0) / 2
  /\ (length B = 1 \/ hd 0 B + 2 <= List.last B 0).
Proof.
  intros HN HG. cbv zeta. destruct (gap_test sub) eqn:EG.
  - destruct (child_rows_gap sub EG) as [b0 [b1 [_ [-> _]]]].
    rewrite (hassemble_mid_gap st inter c sub EG). cbn [hd List.last].
    split; [discriminate|]. split; [reflexivity|right; lia].
  - destruct (child_rows_nogap sub EG) as [-> _].
    rewrite (hassemble_mid_nogap st inter c sub HN EG).
    assert (HLen : length (sub_idx sub) = length (sub_nrow sub))
      by (unfold sub_idx, sub_nrow; rewrite !map_length; reflexivity).
    assert (HF : Forall2 (fun m n => m < n) (sub_idx sub) (sub_nrow sub)) by (apply blk_good_F2; exact HG).
    destruct (bidx_props (sub_idx sub) (sub_nrow sub) 0 HLen HF) as [BI [BB [BL BH]]].
    pose proof (bidx_length (sub_idx sub) (sub_nrow sub) 0 HLen) as HBL.
    assert (HI : sub_idx sub <> []) by (unfold sub_idx; destruct sub; [contradiction|discriminate]).
    destruct (sub_idx sub) as [|m0 idx'] eqn:EI; [contradiction|].
    split; [intros E; rewrite E in HBL; discriminate|].
    split; [rewrite BL, BH; cbn [hd]; rewrite Nat.add_0_r; reflexivity|].
    (* how many children *)
    destruct sub as [|b0 [|b1 [|b2 r]]]; [contradiction| | |].
    + left. rewrite HBL. cbn in EI. injection EI as _ <-. reflexivity.
    + right. cbn [gap_test] in EG. apply Nat.eqb_neq in EG.
      unfold sub_idx in EI. cbn [map] in EI. injection EI as <- <-.
      unfold sub_nrow. cbn [map bidx hd List.last].
      inversion HG as [|? ? [_ [A0 _]] _]; subst. unfold blk_rows, blk_mid in A0.
      unfold hblock, str in *. lia.
    + right. apply incr_three; [exact BI|].
      rewrite HBL. unfold sub_idx in EI. cbn [map] in EI. injection EI as <- <-. cbn [length]. lia.
Qed.

(* ---- the layout of a tree is well-formed and as tall as the model's block ---- *)

Section LayOfTree.
  Variables (st : hstyle) (inter : bool) (ws : list nat).
  Let gl := glyphs_of_hs st.
  Let lay_at (d : nat) (t : tree) : lay := lay_of st inter ws d t.
  Let blk_at (d : nat) (t : tree) : hblock := hbranch st inter ws d t.

  Lemma lay_of_hole d t : is_hole t = true -> lay_of st inter ws d t = LLeaf [].
  Proof. destruct t as [g n a ks]. intros H. rewrite lay_of_eq, H. reflexivity. Qed.

  Lemma Bof_bidx d : forall ks off,
    (forall k, In k ks -> lnrows (lay_of st inter ws d k) = blk_rows (hbranch st inter ws d k)) ->
    Bof off (map (lay_of st inter ws d) ks)
    = bidx off (sub_idx (map (hbranch st inter ws d) ks)) (sub_nrow (map (hbranch st inter ws d) ks)).
  Proof.
    induction ks as [|k r IH]; intros off H; [reflexivity|].
    cbn [map Bof sub_idx sub_nrow bidx]. rewrite lay_of_notgap, lay_of_mid. cbn [app].
    rewrite (H k (or_introl eq_refl)). unfold blk_mid, blk_rows. f_equal; [apply Nat.add_comm|].
    apply IH. intros k' Hk'. apply H. right. exact Hk'.
  Qed.

  Lemma knrows_map d : forall ks,
    (forall k, In k ks -> lnrows (lay_of st inter ws d k) = blk_rows (hbranch st inter ws d k)) ->
    knrows (map (lay_of st inter ws d) ks) = sum_list (sub_nrow (map (hbranch st inter ws d) ks)).
  Proof.
    induction ks as [|k r IH]; intros H; [reflexivity|].
    cbn [map sub_nrow sum_list fold_right]. rewrite knrows_cons, (H k (or_introl eq_refl)).
    unfold blk_rows. f_equal. apply IH. intros k' Hk'. apply H. right. exact Hk'.
  Qed.

  Lemma in_with_gap_intro gp (ls : list lay) l : In l ls -> In l (with_gap gp ls).
  Proof.
    intros H. unfold with_gap. destruct gp; [|exact H].
    destruct ls as [|l0 [|l1 [|l2 r]]]; try exact H. cbn in *. intuition.
  Qed.

  Lemma in_with_gap_elim gp (ls : list lay) l : In l (with_gap gp ls) -> l = LGap \/ In l ls.
  Proof.
    unfold with_gap. destruct gp; [|auto].
    destruct ls as [|l0 [|l1 [|l2 r]]]; auto. cbn. intuition.
  Qed.

  Lemma blk_rows_connectors g n a ks d :
    is_hole (T g n a ks) = false -> existsb real ks = true ->
    blk_rows (hbranch st inter ws d (T g n a ks))
    = length (block_result (map (hbranch st inter ws (S d)) ks)).
  Proof.
    intros Hh Hr. unfold blk_rows. rewrite (hbranch_connectors st inter ws g n a ks d Hh Hr).
    rewrite zip_with_length. unfold hprefix_spec. cbv zeta. rewrite map_length, seq_length.
    apply Nat.min_id.
  Qed.

  (* the pieces of an inner node against the blocks of its children *)
  Lemma inner_facts d ks :
    (forall k, In k ks -> lnrows (lay_of st inter ws (S d) k) = blk_rows (hbranch st inter ws (S d) k)
                          /\ wf (lay_of st inter ws (S d) k)) ->
    let sub := map (hbranch st inter ws (S d)) ks in
    let pieces := with_gap (gap_test sub) (map (lay_of st inter ws (S d)) ks) in
    Bof 0 pieces = child_rows sub /\ knrows pieces = length (block_result sub) /\ Forall wf pieces.
  Proof.
    intros HK sub pieces. unfold pieces. destruct (gap_test sub) eqn:EG.
    - destruct (child_rows_gap sub EG) as [b0 [b1 [ES [EC EB]]]]. rewrite EC, EB.
      unfold sub in ES, EG. destruct ks as [|k0 [|k1 [|k2 r]]]; try discriminate.
      cbn [map] in ES, EG |- *. injection ES as <- <-. cbn [with_gap].
      cbn [gap_test] in EG.
      destruct (hbranch_good st inter ws k0 (S d)) as [G0 _].
      destruct (hbranch_good st inter ws k1 (S d)) as [G1 _].
      apply (gap_test_iff _ _ G0 G1) in EG as [R0 R1].
      destruct G0 as [_ [M0 _]]. destruct G1 as [_ [M1 _]].
      destruct (HK k0 (or_introl eq_refl)) as [N0 W0].
      destruct (HK k1 (or_intror (or_introl eq_refl))) as [N1 W1].
      split; [|split].
      + cbn [Bof notgap lmid lnrows app]. rewrite !lay_of_notgap, !lay_of_mid, N0, R0. cbn [app].
        replace (blk_mid (hbranch st inter ws (S d) k0)) with 0 by lia.
        replace (blk_mid (hbranch st inter ws (S d) k1)) with 0 by lia. reflexivity.
      + rewrite !knrows_cons, N0, N1, R0, R1. reflexivity.
      + repeat constructor; assumption.
    - cbn [with_gap]. destruct (child_rows_nogap sub EG) as [-> ->]. split; [|split].
      + apply Bof_bidx. intros k Hk. apply (HK k Hk).
      + rewrite knrows_map by (intros k Hk; apply (HK k Hk)).
        unfold sub. rewrite concat_rows_length. reflexivity.
      + apply Forall_forall. intros l Hl. apply in_map_iff in Hl as [k [<- Hk]]. apply (HK k Hk).
  Qed.

  Lemma inner_split g n a ks :
    is_hole (T g n a ks) || negb (existsb real ks) = false ->
    is_hole (T g n a ks) = false /\ existsb real ks = true /\ ks <> [].
  Proof.
    intros E. apply orb_false_iff in E as [E1 E2]. apply negb_false_iff in E2.
    repeat split; try assumption. intros ->. discriminate.
  Qed.

  Theorem lay_of_wf : forall t d,
    lnrows (lay_of st inter ws d t) = blk_rows (hbranch st inter ws d t) /\ wf (lay_of st inter ws d t).
  Proof.
    induction t as [g n a ks IH] using tree_ind'. intros d.
    rewrite lay_of_eq.
    destruct (is_hole (T g n a ks) || negb (existsb real ks)) eqn:E.
    - rewrite hbranch_eq. cbv zeta. rewrite E. split; [reflexivity|exact I].
    - destruct (inner_split g n a ks E) as [Hh [Hr Hne]].
      assert (HK : forall k, In k ks ->
                   lnrows (lay_of st inter ws (S d) k) = blk_rows (hbranch st inter ws (S d) k)
                   /\ wf (lay_of st inter ws (S d) k)).
      { intros k Hk. rewrite Forall_forall in IH. apply (IH k Hk). }
      destruct (inner_facts d ks HK) as [FB [FN FW]].
      split.
      + rewrite lnrows_node, FN. symmetry. apply blk_rows_connectors; assumption.
      + apply wf_node. rewrite FB.
        assert (HS : map (hbranch st inter ws (S d)) ks <> []) by (destruct ks; [contradiction|discriminate]).
        assert (HG : Forall blk_good (map (hbranch st inter ws (S d)) ks)).
        { apply Forall_forall. intros x Hx. apply in_map_iff in Hx as [k [<- Hk]].
          apply (hbranch_good st inter ws k (S d)). }
        destruct (hassemble_wf_facts st inter (center n (pad_at ws d)) _ HS HG) as [W1 [W2 W3]].
        split; [exact W1|]. split; [|split; [exact W3|exact FW]].
        rewrite <- W2. rewrite hbranch_eq. cbv zeta. rewrite E, Hh. reflexivity.
  Qed.

  (* ---- height ---- *)

  Lemma kheight_le M : forall ps, (forall p, In p ps -> lheight p <= M) -> kheight ps <= M.
  Proof.
    induction ps as [|p r IH]; intros H; [cbn; lia|]. rewrite kheight_cons.
    pose proof (H p (or_introl eq_refl)). assert (kheight r <= M) by (apply IH; intros q Hq; apply H; right; exact Hq).
    lia.
  Qed.

  Lemma fold_height_ge (l : list tree) x :
    In x l -> height x <= fold_right (fun k a => Nat.max (height k) a) 0 l.
  Proof.
    induction l as [|y l IH]; intros H; [destruct H|]. cbn [fold_right].
    destruct H as [->|H]; [lia|]. specialize (IH H). lia.
  Qed.

  Lemma height_pos t : 1 <= height t.
  Proof. destruct t. cbn [height]. lia. Qed.

  Theorem lay_of_height : forall t d, lheight (lay_of st inter ws d t) <= height (compact t).
  Proof.
    induction t as [g n a ks IH] using tree_ind'. intros d.
    rewrite lay_of_eq.
    destruct (is_hole (T g n a ks) || negb (existsb real ks)) eqn:E.
    - cbn [lheight]. apply height_pos.
    - destruct (inner_split g n a ks E) as [Hh [Hr Hne]].
      rewrite lheight_node, compact_eq. cbn [height]. apply le_n_S.
      set (M := fold_right (fun k a => Nat.max (height k) a) 0 (compact_kids ks)).
      assert (HM : 1 <= M).
      { apply existsb_exists in Hr as [k [Hk Rk]]. unfold real in Rk. apply negb_true_iff in Rk.
        pose proof (fold_height_ge _ _ (compact_kids_in k ks Hk Rk)) as HF. fold M in HF.
        pose proof (height_pos (compact k)). lia. }
      apply kheight_le. intros p Hp. apply in_with_gap_elim in Hp as [->|Hp]; [exact HM|].
      apply in_map_iff in Hp as [k [<- Hk]].
      destruct (is_hole k) eqn:EK.
      + rewrite (lay_of_hole (S d) k EK). exact HM.
      + rewrite Forall_forall in IH. specialize (IH k Hk (S d)).
        pose proof (fold_height_ge _ _ (compact_kids_in k ks Hk EK)) as HF. fold M in HF. lia.
  Qed.

  (* ---- the decoded tree matches the tree that had to be drawn ---- *)

  Definition hm_kids : list tree -> list tree -> bool :=
    fix go (x y : list tree) : bool :=
      match x, y with
      | [], [] => true
      | p :: x', q :: y' => h_match inter p q && go x' y'
      | _, _ => false
      end.

  Lemma h_match_eq dg dn da dks g n a ks :
    h_match inter (T dg dn da dks) (T g n a ks) =
    if is_hole (T g n a ks) then str_eqb dn [] && match dks with [] => true | _ => false end
    else if negb (existsb real ks)
         then str_eqb dn (trim n) && match dks with [] => true | _ => false end
         else str_eqb dn (if inter then trim n else []) && hm_kids dks ks.
  Proof. reflexivity. Qed.

  Lemma hm_kids_map (f : tree -> tree) : forall ks,
    (forall k, In k ks -> h_match inter (f k) k = true) -> hm_kids (map f ks) ks = true.
  Proof.
    induction ks as [|k r IH]; intros H; [reflexivity|]. cbn [map hm_kids].
    rewrite (H k (or_introl eq_refl)), IH; [reflexivity|]. intros k' Hk'. apply H. right. exact Hk'.
  Qed.

  Lemma kdec_map d : forall ks,
    kdec (map (lay_of st inter ws d) ks) = map (fun k => ldec (lay_of st inter ws d k)) ks.
  Proof.
    induction ks as [|k r IH]; [reflexivity|]. cbn [map]. rewrite kdec_cons, lay_of_notgap, IH. reflexivity.
  Qed.

  Lemma kdec_with_gap gp d ks :
    kdec (with_gap gp (map (lay_of st inter ws d) ks)) = map (fun k => ldec (lay_of st inter ws d k)) ks.
  Proof.
    unfold with_gap. destruct gp; [|apply kdec_map].
    destruct ks as [|k0 [|k1 [|k2 r]]]; try apply kdec_map.
    cbn [map]. rewrite !kdec_cons, !lay_of_notgap. reflexivity.
  Qed.

  Theorem lay_of_match : forall t d, h_match inter (ldec (lay_of st inter ws d t)) t = true.
  Proof.
    induction t as [g n a ks IH] using tree_ind'. intros d.
    rewrite lay_of_eq.
    destruct (is_hole (T g n a ks) || negb (existsb real ks)) eqn:E.
    - cbn [ldec]. unfold mk_named. rewrite h_match_eq.
      destruct (is_hole (T g n a ks)) eqn:Hh; [reflexivity|].
      cbn [orb] in E. rewrite E, str_eqb_refl. reflexivity.
    - destruct (inner_split g n a ks E) as [Hh [Hr Hne]].
      rewrite ldec_node. unfold mk_named. rewrite h_match_eq, Hh, Hr. cbn [negb].
      rewrite str_eqb_refl, kdec_with_gap. cbn [andb]. apply hm_kids_map.
      intros k Hk. rewrite Forall_forall in IH. apply (IH k Hk).
  Qed.
End LayOfTree.

(* ---- the rows of a block, cut into cells, are the rows of its layout ---- *)

Section ParseBlock.
  Variables (st : hstyle) (inter : bool) (ws : list nat).
  Hypothesis Hb : hs_branch st <> 32%N.
  Let gl := glyphs_of_hs st.

  Lemma parse_nil bw : h_parse_row gl inter bw [] = Some [].
  Proof. destruct bw; reflexivity. Qed.

  Lemma kheight_ge' ks k : In k ks -> lheight k <= kheight ks.
  Proof.
    induction ks as [|k0 r IH]; intros H; [destruct H|]. rewrite kheight_cons.
    destruct H as [->|H]; [lia|]. specialize (IH H). lia.
  Qed.

  Definition no_trailing_ws (t : tree) : Prop :=
    is_hole t = false -> forall x, In x (pre (compact t)) -> rstrip_ws (tname x) = tname x.

  Lemma no_trailing_kid g n a ks k :
    no_trailing_ws (T g n a ks) -> is_hole (T g n a ks) = false -> In k ks -> no_trailing_ws k.
  Proof.
    intros H Hh Hk Hkh x Hx. apply (H Hh). rewrite compact_eq. cbn [pre]. right.
    apply in_flat_map. exists (compact k). split; [|exact Hx]. apply compact_kids_in; assumption.
  Qed.

  Lemma kids_parse d bw ks :
    (forall k, In k ks ->
       map (h_parse_row gl inter bw) (fst (fst (hbranch st inter ws d k)))
       = map Some (lrows st (lay_of st inter ws d k))) ->
    let sub := map (hbranch st inter ws d) ks in
    map (h_parse_row gl inter bw) (block_result sub)
    = map Some (krows st (with_gap (gap_test sub) (map (lay_of st inter ws d) ks))).
  Proof.
    intros HK sub. destruct (gap_test sub) eqn:EG.
    - destruct (child_rows_gap sub EG) as [b0 [b1 [ES [_ EB]]]]. rewrite EB.
      unfold sub in ES, EG. destruct ks as [|k0 [|k1 [|k2 r]]]; try discriminate.
      cbn [map] in ES, EG |- *. injection ES as <- <-. cbn [with_gap gap_test] in *.
      destruct (hbranch_good st inter ws k0 d) as [G0 _].
      destruct (hbranch_good st inter ws k1 d) as [G1 _].
      apply (gap_test_iff _ _ G0 G1) in EG as [R0 R1]. unfold blk_rows in R0, R1.
      pose proof (HK k0 (or_introl eq_refl)) as P0.
      pose proof (HK k1 (or_intror (or_introl eq_refl))) as P1.
      destruct (fst (fst (hbranch st inter ws d k0))) as [|x0 [|? ?]]; try discriminate.
      destruct (fst (fst (hbranch st inter ws d k1))) as [|x1 [|? ?]]; try discriminate.
      rewrite !krows_cons. cbn [krows lrows].
      destruct (lrows st (lay_of st inter ws d k0)) as [|c0 [|? ?]]; try discriminate.
      destruct (lrows st (lay_of st inter ws d k1)) as [|c1 [|? ?]]; try discriminate.
      cbn [map] in P0, P1. injection P0 as P0. injection P1 as P1.
      cbn [app nth map]. rewrite P0, P1, parse_nil. reflexivity.
    - cbn [with_gap]. destruct (child_rows_nogap sub EG) as [_ ->]. unfold sub. clear EG sub.
      induction ks as [|k r IH]; [reflexivity|].
      cbn [map concat]. rewrite krows_cons, !map_app. f_equal.
      + apply HK. left. reflexivity.
      + apply IH. intros k' Hk'. apply HK. right. exact Hk'.
  Qed.

  Theorem parse_block : forall t d bw,
    (inter = true -> fits ws d t) ->
    (forall i, inter = true -> nth i bw 0 = pad_at ws (d + i)) ->
    lheight (lay_of st inter ws d t) <= length bw ->
    no_trailing_ws t ->
    map (h_parse_row gl inter bw) (fst (fst (hbranch st inter ws d t)))
    = map Some (lrows st (lay_of st inter ws d t)).
  Proof.
    induction t as [g n a ks IH] using tree_ind'. intros d bw HFit HBw HH HNm.
    destruct bw as [|w bw'].
    { exfalso. destruct (lay_of st inter ws d (T g n a ks)); cbn in HH; lia. }
    assert (Hw : inter = true -> w = pad_at ws d).
    { intros Hi. specialize (HBw 0 Hi). rewrite Nat.add_0_r in HBw. exact HBw. }
    revert HH. rewrite lay_of_eq, hbranch_eq. cbv zeta.
    destruct (is_hole (T g n a ks) || negb (existsb real ks)) eqn:E; intros HH.
    - (* a leaf or an empty slot *)
      cbn [fst map lrows]. f_equal.
      destruct (is_hole (T g n a ks)) eqn:Hh.
      + rewrite hole_cell. apply (parse_leaf_cell st inter Hb w bw' []). intros _. cbn. lia.
      + cbn [orb] in E.
        assert (Hn : rstrip_ws n = n).
        { apply (HNm Hh (compact (T g n a ks))). rewrite compact_eq. left. reflexivity. }
        rewrite (parse_leaf_cell st inter Hb w bw').
        * rewrite (trim_leaf n _ Hn). reflexivity.
        * intros Hi. specialize (HFit Hi). apply (fits_eq _ _ _ _ _ _ Hh) in HFit as [HF _].
          pose proof (rstrip_length (center n (pad_at ws d)) py_ws) as HL. unfold rstrip_ws.
          rewrite center_length in HL by exact HF. rewrite (Hw Hi). exact HL.
    - (* an inner node *)
      destruct (inner_split g n a ks E) as [Hh [Hr Hne]]. rewrite Hh.
      pose proof (hbranch_connectors st inter ws g n a ks d Hh Hr) as HC. cbv zeta in HC.
      rewrite hbranch_eq in HC. cbv zeta in HC. rewrite E, Hh in HC. rewrite HC. clear HC.
      assert (HK0 : forall k, In k ks ->
                   lnrows (lay_of st inter ws (S d) k) = blk_rows (hbranch st inter ws (S d) k)
                   /\ wf (lay_of st inter ws (S d) k)).
      { intros k Hk. apply lay_of_wf. }
      destruct (inner_facts st inter ws d ks HK0) as [FB [FN _]].
      rewrite lrows_node, FB. rewrite lheight_node in HH. cbn [length] in HH.
      assert (HKP : forall k, In k ks ->
                    map (h_parse_row gl inter bw') (fst (fst (hbranch st inter ws (S d) k)))
                    = map Some (lrows st (lay_of st inter ws (S d) k))).
      { intros k Hk. rewrite Forall_forall in IH. apply (IH k Hk).
        - intros Hi. specialize (HFit Hi). apply (fits_eq _ _ _ _ _ _ Hh) in HFit as [_ HF].
          rewrite Forall_forall in HF. apply (HF k Hk).
        - intros i Hi. specialize (HBw (S i) Hi). cbn [nth] in HBw. rewrite HBw. f_equal. lia.
        - pose proof (kheight_ge' _ _ (in_with_gap_intro (gap_test (map (hbranch st inter ws (S d)) ks)) _ _
                                        (in_map (lay_of st inter ws (S d)) ks k Hk))). lia.
        - apply (no_trailing_kid g n a ks k HNm Hh Hk). }
      pose proof (kids_parse (S d) bw' ks HKP) as HR. cbv zeta in HR.
      unfold hprefix_spec. cbv zeta.
      apply (parse_zip st inter
               (fun i => (if Nat.eqb i (blk_mid (hassemble st inter (center n (pad_at ws d))
                                                          (map (hbranch st inter ws (S d)) ks)))
                          then hnode_str st inter (center n (pad_at ws d))
                          else spaces (length (hnode_str st inter (center n (pad_at ws d)))))
                         ++ [conn st (child_rows (map (hbranch st inter ws (S d)) ks))
                                  (blk_mid (hassemble st inter (center n (pad_at ws d))
                                                      (map (hbranch st inter ws (S d)) ks))) i])
               _ w bw'); [|exact HR].
      intros i rest. rewrite <- app_assoc. cbn [app]. unfold pcell.
      assert (HLc : inter = true -> length (center n (pad_at ws d)) = w).
      { intros Hi. specialize (HFit Hi). apply (fits_eq _ _ _ _ _ _ Hh) in HFit as [HF _].
        rewrite center_length by exact HF. symmetry. apply Hw. exact Hi. }
      match goal with |- context [Nat.eqb i ?m] => destruct (Nat.eqb i m) end.
      + rewrite (parse_node st inter Hb w bw' _ _ rest HLc). rewrite trim_center. reflexivity.
      + rewrite (parse_pad st inter Hb w bw' _ _ rest (hnode_str_length st inter Hb _ w HLc)). reflexivity.
  Qed.
End ParseBlock.

(* ============================================================================================== *)
(* the horizontal round trip for all trees *)

Lemma opt_all_map_Some {A} (l : list A) : opt_all (map Some l) = Some l.
Proof. induction l as [|x l IH]; [reflexivity|]. cbn [map opt_all]. rewrite IH. reflexivity. Qed.

(* no existing node's name ends in a whitespace character (str.rstrip() would cut it off a leaf) *)
Definition names_rstripped (t : tree) : bool :=
  forallb (fun x => str_eqb (rstrip_ws (tname x)) (tname x)) (pre (compact t)).

Lemma band_widths_length inter t : length (band_widths inter t) = height (compact t).
Proof. unfold band_widths. rewrite map_length, seq_length. reflexivity. Qed.

(* the text of hyield_tree decodes back to the tree, with the text-only decoder: every tree (any
   fan-out and depth, empty slots), with and without intermediate names, every style whose
   first-child / last-child / subsequent-child icons are recognisable *)
Theorem hroundtrip_all st inter t :
  hglyphs_distinct (glyphs_of_hs st) = true -> names_rstripped t = true ->
  exists rows dec,
    hyield_rows st inter t = Ret rows
    /\ h_decode (glyphs_of_hs st) inter (band_widths inter t) None rows = Some dec
    /\ h_match inter dec t = true.
Proof.
  intros Hd Hn.
  destruct (star_facts st Hd) as [F1 [F2 [F3 _]]]. apply N.eqb_neq in F3.
  set (ws := padding_depths inter t).
  exists (fst (fst (hbranch st inter ws 1 t))), (ldec (lay_of st inter ws 1 t)).
  split; [|split].
  - unfold hyield_rows. fold ws. destruct (hbranch_good st inter ws t 1) as [[G _] _].
    destruct (hbranch st inter ws 1 t) as [[rows mid] ok]. cbn [snd] in G. subst ok. reflexivity.
  - apply (decode_lay st F2 F3).
    + apply lay_of_wf.
    + apply lay_of_notgap.
    + rewrite band_widths_length. apply lay_of_height.
    + rewrite (parse_block st inter ws F1); [apply opt_all_map_Some| | | |].
      * intros Hi. unfold ws. rewrite Hi. apply padding_depths_fits.
      * intros i Hi. unfold ws. rewrite Hi.
        change (band_widths true t) with (padding_depths true t).
        unfold pad_at. cbn [Nat.add Nat.sub]. rewrite Nat.sub_0_r. reflexivity.
      * rewrite band_widths_length. apply lay_of_height.
      * intros _ x Hx. unfold names_rstripped in Hn. rewrite forallb_forall in Hn.
        apply str_eqb_eq. apply Hn. exact Hx.
  - apply lay_of_match.
Qed.

(* the same as the spec's boolean: for EVERY style (for a style whose icons are not recognisable
   the predicate asks nothing of the text-only pass) *)
Theorem hdecodable_all st inter t :
  names_rstripped t = true ->
  exists rows, hyield_rows st inter t = Ret rows /\ h_decodable (glyphs_of_hs st) inter t rows = true.
Proof.
  intros Hn. destruct (hglyphs_distinct (glyphs_of_hs st)) eqn:Hd.
  - destruct (hroundtrip_all st inter t Hd Hn) as [rows [dec [E [D M]]]].
    exists rows. split; [exact E|]. unfold h_decodable. rewrite Hd, D, M. reflexivity.
  - destruct (hyield_rows_spec st inter t) as [rows [E _]]. exists rows. split; [exact E|].
    unfold h_decodable. rewrite Hd. reflexivity.
Qed.

(* the call as a whole: start node, max_depth, style check *)
Theorem hyield_tree_decodable st inter t start md rows :
  hyield_tree (Some st) inter t start md = Ret rows ->
  exists s, get_subtree t start md = Some s
            /\ (names_rstripped s = true -> h_decodable (glyphs_of_hs st) inter s rows = true).
Proof.
  unfold hyield_tree. destruct (get_subtree t start md) as [s|]; [|discriminate].
  intros E. exists s. split; [reflexivity|]. intros Hn.
  destruct (hdecodable_all st inter s Hn) as [rows' [E' D]]. rewrite E in E'. injection E' as <-. exact D.
Qed.
