(* C06, textual half, second round: the Newick pair OUTSIDE the documented alphabet, exactly.

   1. Names containing the quote character ' (kept out of newick_alphabet so far, only a refuted example):
      the writer replaces every ' by a double quote inside the quoted label, the parser returns the label
      between the quotes, so for EVERY non-empty name the re-import carries `requote name`.  Theorem
      newick_roundtrip_quote: for the whole option space of C06_newick_roundtrip_float, the export of t
      is re-imported as the tree `rq_tree t` (every ' in a node name replaced by the double quote), provided that tree is
      inside the alphabet (the guard no longer mentions quotes in names; it asks that the REWRITTEN sibling
      names are distinct).  The old theorems are the special case rq_tree t = t; the boundary is exact:
      with names compared, the re-import equals the original iff no name contains a quote.
      The same with quotes in the requested string attribute VALUES as well (newick_roundtrip_quote_values,
      rq_all t rewrites names and string values); attribute KEYS stay quote-free.
   2. Integer lengths: the class of integer length values that are literals reading back as themselves is
      exactly the positive ones; a negative integer -p is written -p and read by float(): the value is
      the FLOAT -p.0 for every p of at most 15 digits; a falsy or absent length anywhere below the start
      node makes the exporter raise.  *)
From BT Require Import Base.Prelude Base.Str Base.Rose Algo.TextIO Spec.PC06Text Algo.TextIOProofs.

Local Open Scope N_scope.

(* ------------------------------------------------------------------------------------------ *)
(* requote                                                                                     *)

Definition dq : N := 34.                                   (* the double quote *)

(* string attribute values rewritten the same way *)
Definition rq_val (v : val) : val := match v with VStr s => VStr (requote s) | _ => v end.
Definition rq_attrs (a : attrs) : attrs := map (fun kv => (fst kv, rq_val (snd kv))) a.
Definition rqa (b : bool) (a : attrs) : attrs := if b then rq_attrs a else a.

(* rqt b t: every quote in a node name replaced by the double quote; with b = true also in every string
   attribute value *)
Fixpoint rqt (b : bool) (t : tree) : tree :=
  match t with T g n a ks => T g (requote n) (rqa b a) (map (rqt b) ks) end.
Definition rq_tree (t : tree) : tree := rqt false t.       (* names only *)
Definition rq_all (t : tree) : tree := rqt true t.         (* names and string values *)

Lemma requote_no_quote n : no_quote (requote n) = true.
Proof.
  unfold no_quote, memN, q, requote. apply negb_true_iff.
  induction n as [|c n IH]; [reflexivity|].
  cbn [map existsb]. rewrite IH, orb_false_r.
  destruct (N.eqb c 39) eqn:E; [reflexivity|]. rewrite N.eqb_sym. exact E.
Qed.

Lemma requote_length n : length (requote n) = length n.
Proof. apply map_length. Qed.

Lemma requote_nonempty n : n <> [] -> requote n <> [].
Proof. destruct n; [contradiction|discriminate]. Qed.

Lemma requote_idem n : requote (requote n) = requote n.
Proof. apply requote_id. apply requote_no_quote. Qed.

Lemma no_special_no_quote n : has_special n = false -> no_quote n = true.
Proof.
  unfold has_special, no_quote, memN, q. intros H. apply negb_true_iff.
  induction n as [|c n IH]; [reflexivity|].
  cbn [existsb] in H |- *. apply orb_false_iff in H as [Hc Hn]. rewrite (IH Hn), orb_false_r.
  destruct (not_special_chars c Hc) as (_ & _ & _ & _ & _ & H6 & _ & _). rewrite N.eqb_sym. exact H6.
Qed.

(* requote changes a name iff the name contains a quote *)
Lemma requote_fix_iff n : requote n = n <-> no_quote n = true.
Proof.
  split; [|apply requote_id].
  intros E. rewrite <- E. apply requote_no_quote.
Qed.

(* ------------------------------------------------------------------------------------------ *)
(* the parser on a serialized label, for EVERY string                                          *)

Lemma run_name_q la pf n rest ab cu be d ctr :
  nw_run la pf (serialize n ++ rest) (St ab cu be d ctr []) = nw_run la pf rest (St ab cu be d ctr (requote n)).
Proof.
  unfold serialize. destruct (has_special n) eqn:Hs.
  - pose proof (requote_no_quote n) as Hq.
    replace ((39 :: requote n ++ [39]) ++ rest) with (39 :: (requote n ++ [39]) ++ rest) by reflexivity.
    unfold St at 1. cbn [nw_run p_skip]. unfold nw_step. cbv beta iota. cbn [N.eqb Pos.eqb orb].
    rewrite <- app_assoc. cbn [app]. rewrite (find_quote_app (requote n) rest Hq). cbn [is_nil negb].
    replace (requote n ++ 39 :: rest) with ((requote n ++ [39]) ++ rest) by (rewrite <- app_assoc; reflexivity).
    replace (S (length (requote n))) with (length (requote n ++ [39])) by (rewrite app_length; cbn; lia).
    rewrite run_skip. reflexivity.
  - rewrite (requote_id n (no_special_no_quote n Hs)).
    rewrite run_plain_chars by exact Hs. reflexivity.
Qed.

(* ------------------------------------------------------------------------------------------ *)
(* attribute values with quotes: the items inside the brackets                                 *)


Lemma decimal_val_float s v : decimal_val s = Some v -> exists n d, v = VFloat n d.
Proof.
  unfold decimal_val.
  repeat match goal with
         | |- context [match ?x with _ => _ end] =>
             match x with
             | context [match _ with _ => _ end] => fail 1
             | _ => destruct x
             end
         end; intros H; try discriminate; inversion H; eexists; eexists; reflexivity.
Qed.

Lemma length_val_not_str s x : length_val s <> Ret (VStr x).
Proof.
  unfold length_val. destruct (forallb is_digit s); [discriminate|].
  destruct (decimal_val s) as [v|] eqn:E.
  - destruct (decimal_val_float s v E) as (n & d & ->). discriminate.
  - destruct (negb (forallb floatish s)); [discriminate|].
    destruct (negb (existsb is_digit s) && _); discriminate.
Qed.


Lemma attr_get_rq k a : attr_get k (rq_attrs a) = option_map rq_val (attr_get k a).
Proof.
  unfold attr_get, rq_attrs. induction a as [|[k0 v0] a IH]; [reflexivity|].
  cbn [map find fst snd]. destruct (str_eqb k0 k); [reflexivity|exact IH].
Qed.

Definition rq_kvs (kvs : list (str * str)) : list (str * str) := map (fun kv => (fst kv, requote (snd kv))) kvs.

Lemma nilb_requote s : nilb (requote s) = nilb s.
Proof. destruct s; reflexivity. Qed.

Lemma kvs_on_rq a ks : kvs_on ks (rq_attrs a) = rq_kvs (kvs_on ks a).
Proof.
  unfold kvs_on, rq_kvs. induction ks as [|k ks IH]; [reflexivity|].
  cbn [flat_map]. rewrite map_app, IH. f_equal.
  unfold kv_pick. rewrite attr_get_rq.
  destruct (attr_get k a) as [[| z | s | b | x y]|]; try reflexivity.
  cbn [option_map rq_val]. rewrite nilb_requote. destruct (nilb s); reflexivity.
Qed.

Lemma len_get_rq len a v s : attr_get len (rq_attrs a) = Some v -> lit_ok v s -> attr_get len a = Some v.
Proof.
  rewrite attr_get_rq. destruct (attr_get len a) as [v0|]; [|discriminate].
  cbn [option_map]. intros E L. inversion E as [E']. destruct v0; try reflexivity.
  cbn [rq_val] in *. subst v. destruct L as (_ & Hpy & _ & _ & Hlv). cbn [py_str] in Hpy.
  inversion Hpy; subst. exfalso. exact (length_val_not_str _ _ Hlv).
Qed.

Lemma run_token_val_q la pf x rest ab cu be d ctr has cum :
  nw_run la pf (serialize x ++ rest) (mkP ab cu be d ctr PVal has cum [] 0)
  = nw_run la pf rest (mkP ab cu be d ctr PVal has cum (requote x) 0).
Proof.
  unfold serialize. destruct (has_special x) eqn:Hs.
  - pose proof (requote_no_quote x) as Hq.
    replace ((39 :: requote x ++ [39]) ++ rest) with (39 :: (requote x ++ [39]) ++ rest) by reflexivity.
    cbn [nw_run p_skip]. unfold nw_step. cbv beta iota. cbn [N.eqb Pos.eqb orb].
    rewrite <- app_assoc. cbn [app]. rewrite (find_quote_app (requote x) rest Hq).
    replace (requote x ++ 39 :: rest) with ((requote x ++ [39]) ++ rest) by (rewrite <- app_assoc; reflexivity).
    replace (S (length (requote x))) with (length (requote x ++ [39])) by (rewrite app_length; cbn; lia).
    cbn [is_nil negb]. rewrite run_skip. reflexivity.
  - rewrite (requote_id x (no_special_no_quote x Hs)).
    rewrite run_chars_val by assumption. reflexivity.
Qed.

Definition key_okp (kv : str * str) : Prop := key_ok (fst kv) = true.

Lemma items_run_q la pf kvs : forall rest cu be d ctr g n a0 ab,
  kvs <> [] -> Forall key_okp kvs -> fresh_keys (rq_kvs kvs) a0 ->
  nw_run la pf (join [58] (map item kvs) ++ 93 :: rest)
         (mkP [] (cu ++ [T g n a0 ab]) be d ctr PName true [] [] 0)
  = nw_run la pf rest (mkP [] (cu ++ [T g n (a0 ++ kv_attrs (rq_kvs kvs)) ab]) be d ctr PStr true [] [] 0).
Proof.
  induction kvs as [|[k s] kvs IH]; intros rest cu be d ctr g n a0 ab Hne Hok Hfr; [contradiction|].
  inversion Hok as [|? ? Hk Hoks]; subst. unfold key_okp in Hk. cbn [fst] in Hk.
  destruct (key_ok_facts k Hk) as (Hkne & Hkq & Hkr).
  cbn [rq_kvs map fst snd fresh_keys] in Hfr. fold (rq_kvs kvs) in Hfr. destruct Hfr as [Hfk Hfr].
  assert (Hset : set_last_attr k (VStr (requote s)) (cu ++ [T g n a0 ab])
                 = Ret (cu ++ [T g n (a0 ++ [(k, VStr (requote s))]) ab])).
  { unfold set_last_attr. rewrite Hkr. rewrite on_last_app. cbn [tset_attr].
    rewrite (set_attr_fresh k (VStr (requote s)) a0 Hfk). reflexivity. }
  destruct kvs as [|kv2 kvs].
  - cbn [map join]. unfold item. cbn [fst snd]. rewrite <- !app_assoc.
    rewrite (run_token_cum la pf k _ [] _ be d ctr PName true [] I Hkq).
    cbn [app nw_run p_skip]. unfold nw_step at 1. cbv beta iota. cbn [N.eqb Pos.eqb orb negb].
    destruct k as [|c0 k0]; [contradiction|]. cbn [is_nil negb].
    rewrite (run_token_val_q la pf s _ [] _ be d ctr true (c0 :: k0)).
    cbn [nw_run p_skip]. unfold nw_step at 1. cbv beta iota. cbn [N.eqb Pos.eqb orb negb].
    rewrite Hset. cbn [rq_kvs kv_attrs map fst snd]. reflexivity.
  - change (map item ((k, s) :: kv2 :: kvs)) with (item (k, s) :: map item (kv2 :: kvs)).
    change (join [58] (item (k, s) :: map item (kv2 :: kvs)))
      with (item (k, s) ++ [58] ++ join [58] (map item (kv2 :: kvs))).
    unfold item at 1. cbn [fst snd]. rewrite <- !app_assoc.
    rewrite (run_token_cum la pf k _ [] _ be d ctr PName true [] I Hkq).
    cbn [app nw_run p_skip]. unfold nw_step at 1. cbv beta iota. cbn [N.eqb Pos.eqb orb negb].
    destruct k as [|c0 k0]; [contradiction|]. cbn [is_nil negb].
    rewrite (run_token_val_q la pf s _ [] _ be d ctr true (c0 :: k0)).
    cbn [nw_run p_skip]. unfold nw_step at 1. cbv beta iota. cbn [N.eqb Pos.eqb orb negb].
    rewrite Hset.
    refine (eq_trans (IH rest cu be d ctr g n (a0 ++ [(c0 :: k0, VStr (requote s))]) ab ltac:(discriminate) Hoks Hfr) _).
    cbn [rq_kvs kv_attrs map fst snd]. rewrite <- app_assoc. reflexivity.
Qed.

Lemma map_fst_rq_kvs kvs : map fst (rq_kvs kvs) = map fst kvs.
Proof. unfold rq_kvs. rewrite map_map. reflexivity. Qed.

Lemma len_attr_rq inter len keys pf isroot g n a ks0 :
  node_good inter len keys pf isroot (T g n (rq_attrs a) ks0) ->
  len_attr len isroot (rq_attrs a) = len_attr len isroot a /\ len_text len isroot (rq_attrs a) = len_text len isroot a.
Proof.
  intros [_ Hl]. unfold len_attr, len_text. destruct (skip_len len isroot) eqn:E; [split; reflexivity|].
  destruct (Hl eq_refl) as (v & s & Hp & L). cbn [tattrs] in Hp.
  rewrite (len_get_rq len a v s Hp L), Hp. split; reflexivity.
Qed.

Lemma node_tail_v inter len keys pf (Hkeys : keys_good len keys)
      isroot g n a ks0 (ab : list tree) rest cu be d ctr cum0 nm ctr' :
  node_good inter len keys pf isroot (T g n (rq_attrs a) ks0) ->
  create_node on_last (laF inter len keys pf) false cum0 ctr ab cu = Ret (ctr', cu ++ [T None nm [] ab]) ->
  exists s',
    nw_run (laF inter len keys pf) pf (len_text len isroot a ++ attr_text keys pf a ++ rest) (St ab cu be d ctr cum0)
    = nw_run (laF inter len keys pf) pf rest s'
    /\ ready inter len keys pf s' cu be d ctr'
             (T None nm (len_attr len isroot (rq_attrs a) ++ kv_attrs (kvs_of keys (rq_attrs a))) ab).
Proof.
  intros Hnode Hcreate.
  destruct (len_attr_rq inter len keys pf isroot g n a ks0 Hnode) as [Ela _]. rewrite Ela.
  unfold kvs_of. rewrite kvs_on_rq. fold (kvs_of keys a).
  destruct Hnode as [Hn Hl].
  set (la := laF inter len keys pf) in *.
  destruct Hkeys as (Hkok & Hknd & Hklen).
  assert (Hkv : Forall key_okp (kvs_of keys a)).
  { unfold kvs_of. clear - Hkok. induction keys as [|k ks IH]; [constructor|].
    inversion Hkok as [|? ? Hk Hks]; subst.
    unfold kvs_on. cbn [flat_map]. apply Forall_app. split; [|apply IH; assumption].
    unfold kv_pick. destruct (attr_get k a) as [[| z | s | b | x y]|]; try constructor.
    destruct (nilb s) eqn:Es; [constructor|]. constructor; [|constructor]. exact Hk. }
  assert (Hsub : forall pre, names_nodup (pre ++ keys) = true ->
                             names_nodup (pre ++ map fst (kvs_of keys a)) = true).
  { unfold kvs_of. clear. induction keys as [|k ks IH]; intros pre H; [exact H|].
    unfold kvs_on. cbn [flat_map]. rewrite map_app. fold (kvs_on ks a).
    unfold kv_pick at 1.
    destruct (attr_get k a) as [[| z | s | b | x y]|]; cbn [map app];
      try (apply IH; apply (nodup_remove pre k ks H)).
    destruct (nilb s); cbn [map app fst].
    - apply IH. apply (nodup_remove pre k ks H).
    - replace (pre ++ k :: map fst (kvs_on ks a)) with ((pre ++ [k]) ++ map fst (kvs_on ks a))
        by (rewrite <- app_assoc; reflexivity).
      apply IH. rewrite <- app_assoc. exact H. }
  unfold len_text, len_attr, attr_text.
  destruct (skip_len len isroot) eqn:Esk.
  - cbn [app].
    destruct (kvs_of keys a) as [|kv kvs] eqn:Ekv.
    + cbn [app].
      eexists. split; [reflexivity|].
      unfold ready, St. cbn [p_state p_val p_skip p_below p_depth p_has p_cum p_ctr p_above p_cur rq_kvs kv_attrs map].
      repeat split.
      * exact Hcreate.
      * intros ->. reflexivity.
    + cbn [app]. rewrite <- !app_assoc. rewrite run_cons.
      assert (Hstep : forall rest', nw_step la pf 91 (pf ++ rest') (St ab cu be d ctr cum0)
                      = Ret (mkP [] (cu ++ [T None nm [] ab]) be d ctr' PName true [] [] (length pf))).
      { intros rest'. unfold nw_step, St. cbn [N.eqb Pos.eqb orb andb]. rewrite startswith_app.
        rewrite Hcreate. reflexivity. }
      rewrite Hstep. rewrite run_skip.
      rewrite <- Ekv in *.
      assert (Hne_kv : kvs_of keys a <> []) by (rewrite Ekv; discriminate).
      assert (Hfr : fresh_keys (rq_kvs (kvs_of keys a)) []).
      { apply fresh_from. rewrite map_fst_rq_kvs. exact (Hsub [] Hknd). }
      cbn [app].
      rewrite (items_run_q la pf (kvs_of keys a) rest cu be d ctr' None nm [] ab Hne_kv Hkv Hfr).
      eexists. split; [reflexivity|].
      unfold ready. cbn [p_state p_val p_skip p_below p_depth p_has p_cum p_ctr p_above p_cur app].
      repeat split.
      intros ->. cbn [app]. reflexivity.
  - unfold skip_len in Esk. apply orb_false_iff in Esk as [Elen Eroot].
    destruct (Hl eq_refl) as (v & s & Hp0 & L).
    cbn [tattrs] in Hp0. pose proof (len_get_rq len a v s Hp0 L) as Hp.
    destruct L as (_ & Hpy & Hdig & Hplain & Hlv).
    rewrite Hp, Hpy.
    destruct (Hklen Elen) as [Hlk Hlnotin].
    destruct (key_ok_facts len Hlk) as (_ & _ & Hlres).
    pose proof (laF_len inter len keys pf Elen) as Ela'. fold la in Ela'.
    assert (Hcolon : forall rest', nw_step la pf 58 rest' (St ab cu be d ctr cum0)
                     = Ret (mkP [] (cu ++ [T None nm [] ab]) be d ctr' PStr true [] [] 0)).
    { intros rest'. unfold nw_step, St. cbn [N.eqb Pos.eqb orb andb].
      rewrite Hcreate. reflexivity. }
    assert (Hsetlen : forall sel, (forall (f : tree -> tree) x, sel f (cu ++ [x]) = cu ++ [f x]) ->
               create_node sel la true (s) ctr' [] (cu ++ [T None nm [] ab])
               = Ret (ctr', cu ++ [T None nm [(len, v)] ab])).
    { intros sel Hsel. unfold create_node. destruct s as [|c0 r0]; [contradiction|].
      rewrite Ela', Hlres, Hlv. unfold attach. rewrite Hsel. reflexivity. }
    destruct (kvs_of keys a) as [|kv kvs] eqn:Ekv.
    + cbn [app]. rewrite run_cons, Hcolon.
      rewrite (run_chars_cum la pf s rest [] _ be d ctr' PStr true [] [] I Hplain).
      cbn [app].
      eexists. split; [reflexivity|].
      unfold ready. cbn [p_state p_val p_skip p_below p_depth p_has p_cum p_ctr p_above p_cur rq_kvs kv_attrs map].
      repeat split.
      * apply Hsetlen. intros f x. apply on_last_app.
      * intros ->. cbn [app]. apply (Hsetlen on_first). intros f x. reflexivity.
    + rewrite <- !app_assoc.
      cbn [app]. rewrite run_cons, Hcolon.
      rewrite (run_chars_cum la pf s _ [] _ be d ctr' PStr true [] [] I Hplain).
      cbn [app].
      cbn [nw_run p_skip].
      assert (Hstep : forall rest', nw_step la pf 91 (pf ++ rest')
                              (mkP [] (cu ++ [T None nm [] ab]) be d ctr' PStr true (s) [] 0)
                      = Ret (mkP [] (cu ++ [T None nm [(len, v)] ab]) be d ctr' PName true [] [] (length pf))).
      { intros rest'. unfold nw_step. cbn [N.eqb Pos.eqb orb andb]. rewrite startswith_app.
        rewrite (Hsetlen on_last (fun f x => on_last_app f cu x)). reflexivity. }
      rewrite Hstep. rewrite run_skip.
      rewrite <- Ekv in *.
      assert (Hne_kv : kvs_of keys a <> []) by (rewrite Ekv; discriminate).
      assert (Hnd : names_nodup ([len] ++ keys) = true).
      { cbn [app names_nodup]. rewrite Hlnotin, Hknd. reflexivity. }
      assert (Hfr : fresh_keys (rq_kvs (kvs_of keys a)) [(len, v)]).
      { apply fresh_from. rewrite map_fst_rq_kvs. exact (Hsub [len] Hnd). }
      cbn [app].
      rewrite (items_run_q la pf (kvs_of keys a) rest cu be d ctr' None nm _ ab Hne_kv Hkv Hfr).
      eexists. split; [reflexivity|].
      unfold ready. cbn [p_state p_val p_skip p_below p_depth p_has p_cum p_ctr p_above p_cur app].
      repeat split.
      intros ->. cbn [app]. reflexivity.
Qed.

(* the hypotheses the writer needs, read off the guard on the rewritten node *)
Definition vals_ok (keys : list str) (a : attrs) : Prop :=
  forallb (fun k => match attr_get k a with
                    | None => true | Some VNone => true
                    | Some (VStr s) => negb (nilb s)
                    | Some _ => false end) keys = true.

Lemma vals_ok_b b inter len keys pf isroot g n a ks :
  node_good inter len keys pf isroot (T g n (rqa b a) ks) -> vals_ok keys a.
Proof.
  intros [Hn _]. unfold node_in_alphabet in Hn. apply andb_true_iff in Hn as [_ Hn].
  cbn [oF o_keys tattrs] in Hn. unfold vals_ok.
  apply forallb_forall. intros k Hk. eapply forallb_forall in Hn; [|exact Hk].
  destruct b; cbn [rqa] in Hn.
  - rewrite attr_get_rq in Hn. destruct (attr_get k a) as [[| z | s | b | x y]|]; cbn [option_map rq_val] in Hn;
      try discriminate; try reflexivity.
    apply andb_true_iff in Hn as [Hn _]. rewrite nilb_requote in Hn. exact Hn.
  - destruct (attr_get k a) as [[| z | s | b | x y]|]; try discriminate; try reflexivity.
    apply andb_true_iff in Hn as [Hn _]. exact Hn.
Qed.

Lemma len_hyp_b b inter len keys pf isroot g n a ks :
  node_good inter len keys pf isroot (T g n (rqa b a) ks) ->
  skip_len len isroot = false -> exists v s, attr_get len a = Some v /\ lit_ok v s.
Proof.
  intros [_ Hl] E. destruct (Hl E) as (v & s & Hp & L). cbn [tattrs] in Hp. exists v, s. split; [|exact L].
  destruct b; cbn [rqa] in Hp; [exact (len_get_rq len a v s Hp L)|exact Hp].
Qed.

Lemma node_tail_b b inter len keys pf (Hkeys : keys_good len keys)
      isroot g n a ks0 (ab : list tree) rest cu be d ctr cum0 nm ctr' :
  node_good inter len keys pf isroot (T g n (rqa b a) ks0) ->
  create_node on_last (laF inter len keys pf) false cum0 ctr ab cu = Ret (ctr', cu ++ [T None nm [] ab]) ->
  exists s',
    nw_run (laF inter len keys pf) pf (len_text len isroot a ++ attr_text keys pf a ++ rest) (St ab cu be d ctr cum0)
    = nw_run (laF inter len keys pf) pf rest s'
    /\ ready inter len keys pf s' cu be d ctr'
             (T None nm (len_attr len isroot (rqa b a) ++ kv_attrs (kvs_of keys (rqa b a))) ab).
Proof.
  destruct b; cbn [rqa].
  - apply node_tail_v. exact Hkeys.
  - apply node_tail. exact Hkeys.
Qed.

(* ------------------------------------------------------------------------------------------ *)
(* the parser on the writer's text of t rebuilds rqt b t (whole option space)                    *)

Lemma node_run_q b inter len keys pf (Hkeys : keys_good len keys)
      isroot leaf g n a ks0 (ab : list tree) rest cu be d ctr :
  node_good inter len keys pf isroot (T g (requote n) (rqa b a) ks0) -> dup_names ab = false ->
  exists s',
    nw_run (laF inter len keys pf) pf
           ((name_text inter leaf n ++ len_text len isroot a) ++ attr_text keys pf a ++ rest)
           (St ab cu be d ctr [])
    = nw_run (laF inter len keys pf) pf rest s'
    /\ ready inter len keys pf s' cu be d (out_ctr inter leaf ctr)
             (T None (out_name inter leaf (requote n) ctr)
                (len_attr len isroot (rqa b a) ++ kv_attrs (kvs_of keys (rqa b a))) ab).
Proof.
  intros Hnode Hdup.
  pose proof Hnode as [Hn _]. unfold node_in_alphabet in Hn. apply andb_true_iff in Hn as [Hname _].
  cbn [tname] in Hname. destruct (name_ok_inv _ Hname) as [Hne Hq].
  unfold name_text, out_name, out_ctr. rewrite <- app_assoc.
  destruct (inter || leaf).
  - rewrite (run_name_q (laF inter len keys pf) pf n _ ab cu be d ctr).
    apply (node_tail_b b inter len keys pf Hkeys isroot g (requote n) a ks0 ab rest cu be d ctr
                     (requote n) (requote n) ctr Hnode).
    apply create_plain; assumption.
  - cbn [app].
    apply (node_tail_b b inter len keys pf Hkeys isroot g (requote n) a ks0 ab rest cu be d ctr [] _ (S ctr) Hnode).
    apply create_blank. exact Hdup.
Qed.

Definition core2q b inter len keys pf (isroot : bool) (t : tree) : Prop :=
  forall rest cu be d ctr, exists s' v ctr',
    rb inter len keys isroot ctr (rqt b t) v ctr'
    /\ nw_run (laF inter len keys pf) pf (text inter len keys pf isroot t ++ rest) (St [] cu be d ctr [])
       = nw_run (laF inter len keys pf) pf rest s'
    /\ ready inter len keys pf s' cu be d ctr' v.

Lemma forest2q b inter len keys pf ks :
  ks <> [] -> Forall (core2q b inter len keys pf false) ks ->
  forall rest cu be d ctr, exists ks' ctr',
    rbf inter len keys ctr (map (rqt b) ks) ks' ctr'
    /\ nw_run (laF inter len keys pf) pf
              (join [44] (map (text inter len keys pf false) ks) ++ 41 :: rest) (St [] cu be d ctr [])
       = nw_run (laF inter len keys pf) pf rest (St (cu ++ ks') (hd [] be) (tl be) (d - 1) ctr' []).
Proof.
  induction ks as [|k ks IH]; intros Hne Hc rest cu be d ctr; [contradiction|].
  inversion Hc as [|? ? Hk Hks]; subst.
  destruct ks as [|k2 ks].
  - cbn [map join]. destruct (Hk (41 :: rest) cu be d ctr) as (s' & v & c' & R & E & Rd).
    exists [v], c'. split; [econstructor; [exact R|constructor]|].
    rewrite E. apply (ready_close inter len keys pf s' cu be d c' _ rest Rd).
  - change (map (text inter len keys pf false) (k :: k2 :: ks))
      with (text inter len keys pf false k :: map (text inter len keys pf false) (k2 :: ks)).
    change (join [44] (text inter len keys pf false k :: map (text inter len keys pf false) (k2 :: ks)))
      with (text inter len keys pf false k ++ [44] ++ join [44] (map (text inter len keys pf false) (k2 :: ks))).
    rewrite <- !app_assoc. cbn [app].
    destruct (Hk (44 :: join [44] (map (text inter len keys pf false) (k2 :: ks)) ++ 41 :: rest) cu be d ctr)
      as (s' & v & c' & R & E & Rd).
    destruct (IH ltac:(discriminate) Hks rest (cu ++ [v]) be d c') as (ks' & c'' & Rf & Ef).
    exists (v :: ks'), c''. split.
    + change (map (rqt b) (k :: k2 :: ks)) with (rqt b k :: map (rqt b) (k2 :: ks)).
      econstructor; eassumption.
    + rewrite E. rewrite (ready_comma inter len keys pf s' cu be d c' _ _ Rd).
      etransitivity; [exact Ef|]. rewrite <- app_assoc. reflexivity.
Qed.

Lemma core2q_all b inter len keys pf (Hkeys : keys_good len keys) t :
  forall isroot, good2 inter len keys pf isroot (rqt b t) -> core2q b inter len keys pf isroot t.
Proof.
  induction t as [g n a ks IH] using tree_ind'. intros isroot Hg.
  cbn [rqt] in Hg. inversion Hg as [? ? ? ? ? Hnode Hdup Hna Hkids]; subst.
  intros rest cu be d ctr. cbn [text rqt].
  destruct ks as [|k ks].
  - rewrite <- app_assoc.
    destruct (node_run_q b inter len keys pf Hkeys isroot true g n a [] [] rest cu be d ctr Hnode eq_refl)
      as (s' & E & R).
    eexists s', _, _. split; [apply (rb_node inter len keys isroot ctr g (requote n) (rqa b a) [] [] ctr); constructor|].
    split; [exact E|exact R].
  - assert (Hcore : Forall (core2q b inter len keys pf false) (k :: ks)).
    { apply Forall_forall. intros x Hx. eapply Forall_forall in IH; eauto. apply IH.
      eapply Forall_forall in Hkids; [exact Hkids|]. apply in_map. exact Hx. }
    rewrite <- !app_assoc. cbn [app]. rewrite run_cons, step_open.
    destruct (forest2q b inter len keys pf (k :: ks) ltac:(discriminate) Hcore
                       (name_text inter false n ++ len_text len isroot a ++ attr_text keys pf a ++ rest)
                       [] (cu :: be) (d + 1)%Z ctr) as (ks' & c1 & Rf & Ef).
    rewrite Ef. cbn [hd tl app]. replace (d + 1 - 1)%Z with d by lia. rewrite app_assoc.
    assert (Hdupv : dup_names ks' = false).
    { unfold dup_names. rewrite str_nodupb_names.
      rewrite (rbf_nodup inter len keys pf _ _ _ _ Rf Hdup Hna). reflexivity. }
    destruct (node_run_q b inter len keys pf Hkeys isroot false g n a (map (rqt b) (k :: ks)) ks' rest cu be d c1
                         Hnode Hdupv) as (s' & E & R).
    eexists s', _, _.
    split; [apply (rb_node inter len keys isroot ctr g (requote n) (rqa b a) (map (rqt b) (k :: ks)) ks' c1 Rf)|].
    split; [exact E|exact R].
Qed.

Lemma text_nonempty_q inter len keys pf isroot t :
  tname t <> [] -> text inter len keys pf isroot t <> [].
Proof.
  destruct t as [g n a ks]. cbn [tname text]. intros Hne. destruct ks; [|discriminate].
  unfold name_text. rewrite orb_true_r.
  unfold serialize. destruct (has_special n); [discriminate|].
  destruct n; [contradiction|discriminate].
Qed.

Theorem nw_parse_q b inter len keys pf (Hkeys : keys_good len keys) isroot t :
  good2 inter len keys pf isroot (rqt b t) ->
  exists v c', rb inter len keys isroot 0 (rqt b t) v c'
               /\ nw_parse (laF inter len keys pf) pf (text inter len keys pf isroot t) = Ret v.
Proof.
  intros Hg.
  assert (Hne : text inter len keys pf isroot t <> []).
  { apply text_nonempty_q. destruct t as [g n a ks]. cbn [rqt] in Hg.
    inversion Hg as [? ? ? ? ? [Hn _] _ _ _]; subst.
    unfold node_in_alphabet in Hn. apply andb_true_iff in Hn as [Hn _]. cbn [tname] in Hn |- *.
    apply name_ok_inv in Hn as [Hn _]. intros ->. apply Hn. reflexivity. }
  assert (Hp : forall s, s <> [] ->
               nw_parse (laF inter len keys pf) pf s
               = match nw_run (laF inter len keys pf) pf s p_init with
                 | Raise e => Raise e
                 | Ret st => nw_finish (laF inter len keys pf) st
                 end).
  { intros [|c0 s0] Hs; [contradiction|reflexivity]. }
  rewrite (Hp _ Hne). clear Hp Hne.
  destruct (core2q_all b inter len keys pf Hkeys t isroot Hg [] [] [] 1%Z 0%nat) as (s' & v & c' & R & E & Rd).
  exists v, c'. split; [exact R|].
  rewrite app_nil_r in E. change p_init with (St [] [] [] 1 0 []). rewrite E. cbn [nw_run].
  apply (ready_finish inter len keys pf s' [] c' _ Rd).
Qed.

(* ------------------------------------------------------------------------------------------ *)
(* the writer                                                                                  *)

Lemma name_str_q inter len keys pf isroot leaf n a :
  (skip_len len isroot = false -> exists v s, attr_get len a = Some v /\ lit_ok v s) ->
  name_str (cfgF inter len keys pf) isroot leaf n a = Ret (name_text inter leaf n ++ len_text len isroot a).
Proof.
  intros Hl. unfold name_str, len_text, skip_len, name_text in *. cbn [cfgF nw_inter nw_len nw_lsep].
  rewrite is_nil_nilb. destruct (nilb len) eqn:El; cbn [negb andb orb] in *.
  - rewrite app_nil_r. reflexivity.
  - destruct isroot; cbn [negb] in *; [rewrite app_nil_r; reflexivity|].
    destruct (Hl eq_refl) as (v & s & Hp & Htr & Hpy & _).
    rewrite lookup_attr_get, Hp, Htr, Hpy. reflexivity.
Qed.

Lemma attr_items_q a : forall ks, vals_ok ks a -> attr_items ks a = Ret (map item (kvs_on ks a)).
Proof.
  unfold vals_ok. induction ks as [|k ks IH]; intros H; [reflexivity|].
  cbn [forallb] in H. apply andb_true_iff in H as [Hk Hks].
  cbn [attr_items]. unfold kvs_on. cbn [flat_map]. fold (kvs_on ks a). rewrite map_app.
  rewrite (IH Hks). rewrite lookup_attr_get. unfold kv_pick.
  destruct (attr_get k a) as [[| z | s | b | x y]|]; try discriminate; try reflexivity.
  cbn [truthy]. rewrite is_nil_nilb.
  destruct (nilb s); [discriminate|]. reflexivity.
Qed.

Lemma attr_str_q inter len keys pf a :
  vals_ok keys a -> attr_str (cfgF inter len keys pf) a = Ret (attr_text keys pf a).
Proof.
  intros Hn. unfold attr_str, attr_text, kvs_of. cbn [cfgF nw_attrs nw_asep nw_prefix].
  destruct keys as [|k0 ks0] eqn:Ek; [reflexivity|]. rewrite <- Ek in *.
  rewrite (attr_items_q a keys Hn).
  destruct (kvs_on keys a) as [|kv kvs] eqn:E; [reflexivity|].
  rewrite join_items_nil by discriminate. reflexivity.
Qed.

Lemma nw_write_q b inter len keys pf t :
  forall isroot, good inter len keys pf isroot (rqt b t) ->
                 nw_write (cfgF inter len keys pf) isroot t = Ret (text inter len keys pf isroot t).
Proof.
  induction t as [g n a ks IH] using tree_ind'. intros isroot Hg.
  cbn [rqt] in Hg. inversion Hg as [? ? ? ? ? Hnode Hdup Hkids]; subst.
  cbn [nw_write text].
  rewrite (name_str_q inter len keys pf isroot (is_nil ks) n a
             (len_hyp_b b inter len keys pf isroot g (requote n) a (map (rqt b) ks) Hnode)).
  rewrite (attr_str_q inter len keys pf a
             (vals_ok_b b inter len keys pf isroot g (requote n) a (map (rqt b) ks) Hnode)).
  destruct ks as [|k ks]; [reflexivity|].
  assert (Hgo : forall l,
             Forall (fun t => forall isroot, good inter len keys pf isroot (rqt b t) ->
                                             nw_write (cfgF inter len keys pf) isroot t
                                             = Ret (text inter len keys pf isroot t)) l ->
             Forall (good inter len keys pf false) (map (rqt b) l) ->
             (fix go (l : list tree) : res (list str) :=
                match l with
                | [] => Ret []
                | k0 :: r =>
                    match nw_write (cfgF inter len keys pf) false k0 with
                    | Raise e => Raise e
                    | Ret s => match go r with Raise e => Raise e | Ret ss => Ret (s :: ss) end
                    end
                end) l = Ret (map (text inter len keys pf false) l)).
  { intros l Hl Hgl. induction Hl as [|x l Hx Hl IHl]; [reflexivity|].
    cbn [map] in Hgl. inversion Hgl as [|? ? Hgx Hgl']; subst.
    rewrite (Hx false Hgx). rewrite (IHl Hgl'). reflexivity. }
  rewrite (Hgo (k :: ks) IH Hkids). reflexivity.
Qed.

(* ------------------------------------------------------------------------------------------ *)
(* the rebuilt tree is a function of the source tree                                           *)

Lemma rb_fun inter len keys :
  forall isroot c t v c', rb inter len keys isroot c t v c' ->
  forall v2 c2, rb inter len keys isroot c t v2 c2 -> v = v2 /\ c' = c2.
Proof.
  apply (rb_mut inter len keys
           (fun isroot c t v c' _ => forall v2 c2, rb inter len keys isroot c t v2 c2 -> v = v2 /\ c' = c2)
           (fun c ks ks' c' _ => forall ks2 c2, rbf inter len keys c ks ks2 c2 -> ks' = ks2 /\ c' = c2)).
  - intros isroot c g n a ks ks' c1 Hf IH v2 c2 H2. inversion H2 as [? ? ? ? ? ? ks2 c3 Hf2]; subst.
    destruct (IH _ _ Hf2) as [-> ->]. split; reflexivity.
  - intros c ks2 c2 H2. inversion H2; subst. split; reflexivity.
  - intros c k k' c' r r' c'' Hk IHk Hr IHr ks2 c2 H2.
    inversion H2 as [|? ? k2 c3 ? r2 c4 Hk2 Hr2]; subst.
    destruct (IHk _ _ Hk2) as [-> ->]. destruct (IHr _ _ Hr2) as [-> ->]. split; reflexivity.
Qed.

(* ------------------------------------------------------------------------------------------ *)
(* ROUND TRIP with quotes in names (b = false) and in names and string values (b = true)       *)

Lemma newick_roundtrip_rq_core b inter len keys pf isroot t :
  keys_good len keys -> good2 inter len keys pf isroot (rqt b t) ->
  exists s s' back,
    nw_write (cfgF inter len keys pf) isroot t = Ret s
    /\ nw_parse (laF inter len keys pf) pf s = Ret back
    /\ prop_newick_back (oF inter len keys pf) isroot (rqt b t) back = true
    /\ nw_write (cfgF inter len keys pf) isroot (rqt b t) = Ret s'
    /\ nw_parse (laF inter len keys pf) pf s' = Ret back.
Proof.
  intros Hk Hg.
  destruct (nw_parse_q b inter len keys pf Hk isroot t Hg) as (v & c' & R & P).
  destruct (nw_parse_full2 inter len keys pf Hk isroot (rqt b t) Hg) as (v2 & c2 & R2 & P2).
  destruct (rb_fun inter len keys _ _ _ _ _ R _ _ R2) as [<- <-].
  exists (text inter len keys pf isroot t), (text inter len keys pf isroot (rqt b t)), v.
  split; [apply (nw_write_q b); apply good2_good; exact Hg|]. split; [exact P|].
  split; [|split; [apply nw_write_full; apply good2_good; exact Hg|exact P2]].
  unfold prop_newick_back. cbn [oF o_inter]. fold (oF inter len keys pf).
  pose proof (rb_nz inter len keys pf isroot 0%nat (rqt b t) v c' R Hg) as E. unfold nz in E.
  destruct inter; rewrite E; apply tree_eqb_refl.
Qed.

Theorem newick_roundtrip_rq b inter len keys pf isroot t :
  newick_alphabet_ext (oF inter len keys pf) isroot (rqt b t) = true ->
  lengths_canonical len isroot (rqt b t) = true ->
  exists s s' back,
    nw_write (cfgF inter len keys pf) isroot t = Ret s
    /\ nw_parse (laF inter len keys pf) pf s = Ret back
    /\ prop_newick_back (oF inter len keys pf) isroot (rqt b t) back = true
    /\ nw_write (cfgF inter len keys pf) isroot (rqt b t) = Ret s'
    /\ nw_parse (laF inter len keys pf) pf s' = Ret back.
Proof.
  intros H Hc. destruct (alphabet_ext_gen inter len keys pf isroot (rqt b t) H Hc) as (Hk & Hg).
  apply newick_roundtrip_rq_core; assumption.
Qed.

(* names only: float lengths, attributes, suppressed names, any prefix, root or inner start *)
Theorem newick_roundtrip_quote inter len keys pf isroot t :
  newick_alphabet_ext (oF inter len keys pf) isroot (rq_tree t) = true ->
  lengths_canonical len isroot (rq_tree t) = true ->
  exists s s' back,
    nw_write (cfgF inter len keys pf) isroot t = Ret s
    /\ nw_parse (laF inter len keys pf) pf s = Ret back
    /\ prop_newick_back (oF inter len keys pf) isroot (rq_tree t) back = true
    /\ nw_write (cfgF inter len keys pf) isroot (rq_tree t) = Ret s'
    /\ nw_parse (laF inter len keys pf) pf s' = Ret back.
Proof. exact (newick_roundtrip_rq false inter len keys pf isroot t). Qed.

(* names and requested string values *)
Theorem newick_roundtrip_quote_values inter len keys pf isroot t :
  newick_alphabet_ext (oF inter len keys pf) isroot (rq_all t) = true ->
  lengths_canonical len isroot (rq_all t) = true ->
  exists s s' back,
    nw_write (cfgF inter len keys pf) isroot t = Ret s
    /\ nw_parse (laF inter len keys pf) pf s = Ret back
    /\ prop_newick_back (oF inter len keys pf) isroot (rq_all t) back = true
    /\ nw_write (cfgF inter len keys pf) isroot (rq_all t) = Ret s'
    /\ nw_parse (laF inter len keys pf) pf s' = Ret back.
Proof. exact (newick_roundtrip_rq true inter len keys pf isroot t). Qed.

(* ------------------------------------------------------------------------------------------ *)
(* special case and exact boundary                                                             *)

Definition quote_free (t : tree) : bool := all_nodes (fun x => no_quote (tname x)) t.

Lemma rq_tree_id t : quote_free t = true -> rq_tree t = t.
Proof.
  unfold quote_free, rq_tree. induction t as [g n a ks IH] using tree_ind'. intros H.
  apply all_nodes_inv in H as [Hn Hks]. cbn [tname] in Hn.
  cbn [rqt rqa]. rewrite (requote_id n Hn). f_equal.
  induction IH as [|k ks Hk Hkss IHk]; [reflexivity|].
  inversion Hks as [|? ? H1 H2]; subst. cbn [map]. rewrite (Hk H1), (IHk H2). reflexivity.
Qed.

(* inside the old alphabet nothing is rewritten: the old theorems are the case rq_tree t = t *)
Lemma alphabet_quote_free o isroot t : newick_alphabet_ext o isroot t = true -> quote_free t = true.
Proof.
  unfold newick_alphabet_ext. intros H. repeat (apply andb_true_iff in H as [H _]).
  unfold quote_free. induction t as [g n a ks IH] using tree_ind'.
  apply all_nodes_inv in H as [H1 H2]. cbn [all_nodes]. apply andb_true_iff. split.
  - unfold node_in_alphabet in H1. apply andb_true_iff in H1 as [H1 _].
    unfold name_ok in H1. apply andb_true_iff in H1 as [_ H1]. exact H1.
  - apply forallb_forall. intros k Hk. eapply Forall_forall in IH; eauto. apply IH.
    eapply Forall_forall in H2; eauto.
Qed.

Fixpoint names (t : tree) : list str := match t with T _ n _ ks => n :: flat_map names ks end.

Lemma tree_eqb_names a : forall b, tree_eqb a b = true -> names a = names b.
Proof.
  induction a as [g n at1 ks IH] using tree_ind'. intros [h m at2 ls] H.
  cbn [tree_eqb] in H. apply andb_true_iff in H as [H Hgo]. apply andb_true_iff in H as [Hn _].
  apply str_eqb_eq in Hn. subst m. cbn [names]. f_equal.
  revert ls Hgo. induction IH as [|k ks Hk Hks IHk]; intros [|l ls] Hgo; try discriminate; [reflexivity|].
  apply andb_true_iff in Hgo as [H1 H2]. cbn [flat_map]. rewrite (Hk l H1), (IHk ls H2). reflexivity.
Qed.

Lemma names_sort t : names (sort_tree t) = names t.
Proof.
  induction t as [g n a ks IH] using tree_ind'. cbn [sort_tree names]. f_equal.
  induction IH as [|k ks Hk Hks IHk]; [reflexivity|]. cbn [map flat_map]. rewrite Hk, IHk. reflexivity.
Qed.

Lemma names_view o t : o_inter o = true -> forall isroot, names (nw_view o isroot t) = names t.
Proof.
  intros Ho. induction t as [g n a ks IH] using tree_ind'. intros isroot.
  cbn [nw_view names]. rewrite Ho. cbn [orb]. f_equal.
  induction IH as [|k ks Hk Hks IHk]; [reflexivity|]. cbn [map flat_map]. rewrite (Hk false), IHk. reflexivity.
Qed.

Lemma names_rq b t : names (rqt b t) = map requote (names t).
Proof.
  induction t as [g n a ks IH] using tree_ind'. cbn [rqt names map]. f_equal.
  induction IH as [|k ks Hk Hks IHk]; [reflexivity|].
  cbn [map flat_map]. rewrite map_app, Hk, IHk. reflexivity.
Qed.

Lemma map_requote_fix l : map requote l = l -> Forall (fun n => no_quote n = true) l.
Proof.
  induction l as [|n l IH]; intros H; [constructor|].
  cbn [map] in H. injection H as H1 H2. constructor.
  - apply requote_fix_iff. exact H1.
  - apply IH. exact H2.
Qed.

Lemma quote_free_names t : Forall (fun n => no_quote n = true) (names t) -> quote_free t = true.
Proof.
  unfold quote_free. induction t as [g n a ks IH] using tree_ind'. cbn [names]. intros H.
  inversion H as [|? ? Hn Hks]; subst. cbn [all_nodes tname]. rewrite Hn. cbn [andb].
  apply forallb_forall. intros k Hk. eapply Forall_forall in IH; eauto. apply IH.
  apply Forall_forall. intros x Hx. eapply Forall_forall in Hks; [exact Hks|].
  apply in_flat_map. exists k. split; assumption.
Qed.

(* with node names compared (intermediate_node_name = True): the re-import equals the ORIGINAL iff no
   name contains the quote character *)
Theorem newick_quote_boundary len keys pf isroot t :
  newick_alphabet_ext (oF true len keys pf) isroot (rq_tree t) = true ->
  lengths_canonical len isroot (rq_tree t) = true ->
  exists s back,
    nw_write (cfgF true len keys pf) isroot t = Ret s
    /\ nw_parse (laF true len keys pf) pf s = Ret back
    /\ (prop_newick_back (oF true len keys pf) isroot t back = true <-> quote_free t = true).
Proof.
  intros H Hc.
  destruct (newick_roundtrip_quote true len keys pf isroot t H Hc) as (s & s' & back & Hw & Hp & Hb & _).
  exists s, back. split; [exact Hw|]. split; [exact Hp|]. split.
  - intros Ht. unfold prop_newick_back in Hb, Ht. cbn [oF o_inter] in Hb, Ht.
    apply tree_eqb_names in Hb. apply tree_eqb_names in Ht.
    rewrite names_sort in Hb, Ht. rewrite names_view in Hb, Ht by reflexivity.
    rewrite <- Ht in Hb. unfold rq_tree in Hb. rewrite names_rq in Hb.
    apply quote_free_names. apply map_requote_fix. exact Hb.
  - intros Hq. rewrite (rq_tree_id t Hq) in Hb. exact Hb.
Qed.

(* names and values: what is inside the claim, what is outside *)
Definition val_qf (v : val) : bool := match v with VStr s => no_quote s | _ => true end.
Definition quote_free_all (t : tree) : bool :=
  all_nodes (fun x => no_quote (tname x) && forallb (fun kv => val_qf (snd kv)) (tattrs x)) t.

Lemma rq_attrs_id a : forallb (fun kv => val_qf (snd kv)) a = true -> rq_attrs a = a.
Proof.
  unfold rq_attrs. induction a as [|[k v] a IH]; intros H; [reflexivity|].
  cbn [forallb snd] in H. apply andb_true_iff in H as [Hv Ha]. cbn [map fst snd]. rewrite (IH Ha). f_equal.
  destruct v; try reflexivity. cbn [val_qf] in Hv. cbn [rq_val]. rewrite (requote_id _ Hv). reflexivity.
Qed.

Lemma rq_all_id t : quote_free_all t = true -> rq_all t = t.
Proof.
  unfold quote_free_all, rq_all. induction t as [g n a ks IH] using tree_ind'. intros H.
  apply all_nodes_inv in H as [Hn Hks]. cbn [tname tattrs] in Hn. apply andb_true_iff in Hn as [Hn Ha].
  cbn [rqt rqa]. rewrite (requote_id n Hn), (rq_attrs_id a Ha). f_equal.
  induction IH as [|k ks Hk Hkss IHk]; [reflexivity|].
  inversion Hks as [|? ? H1 H2]; subst. cbn [map]. rewrite (Hk H1), (IHk H2). reflexivity.
Qed.

Theorem newick_quote_values_boundary len keys pf isroot t :
  newick_alphabet_ext (oF true len keys pf) isroot (rq_all t) = true ->
  lengths_canonical len isroot (rq_all t) = true ->
  exists s back,
    nw_write (cfgF true len keys pf) isroot t = Ret s
    /\ nw_parse (laF true len keys pf) pf s = Ret back
    /\ (prop_newick_back (oF true len keys pf) isroot t back = true -> quote_free t = true)
    /\ (quote_free_all t = true -> prop_newick_back (oF true len keys pf) isroot t back = true).
Proof.
  intros H Hc.
  destruct (newick_roundtrip_quote_values true len keys pf isroot t H Hc) as (s & s' & back & Hw & Hp & Hb & _).
  exists s, back. split; [exact Hw|]. split; [exact Hp|]. split.
  - intros Ht. unfold prop_newick_back in Hb, Ht. cbn [oF o_inter] in Hb, Ht.
    apply tree_eqb_names in Hb. apply tree_eqb_names in Ht.
    rewrite names_sort in Hb, Ht. rewrite names_view in Hb, Ht by reflexivity.
    rewrite <- Ht in Hb. unfold rq_all in Hb. rewrite names_rq in Hb.
    apply quote_free_names. apply map_requote_fix. exact Hb.
  - intros Hq. rewrite (rq_all_id t Hq) in Hb. exact Hb.
Qed.

(* ------------------------------------------------------------------------------------------ *)
(* integer lengths: the exact class                                                            *)

Lemma span_digits_all ds : forallb is_digit ds = true -> TextIO.span_digits ds = (ds, []).
Proof.
  induction ds as [|c r IH]; intros H; [reflexivity|].
  cbn [forallb] in H. apply andb_true_iff in H as [Hc Hr].
  cbn [TextIO.span_digits]. rewrite Hc, (IH Hr). reflexivity.
Qed.

Lemma decimal_val_neg_digits ds :
  ds <> [] -> forallb is_digit ds = true ->
  decimal_val (45 :: ds)
  = if Nat.leb (length ds) 15 then Some (VFloat (- Z.of_N (N_of_digits ds)) 1) else None.
Proof.
  intros Hne Hd. destruct ds as [|c0 r0]; [contradiction|].
  unfold decimal_val. cbn [N.eqb Pos.eqb]. rewrite (span_digits_all _ Hd).
  cbv beta iota. rewrite app_nil_r. cbn [length]. rewrite Nat.add_0_r.
  destruct (S (length r0) <=? 15)%nat; reflexivity.
Qed.

Lemma digit_floatish c : is_digit c = true -> floatish c = true.
Proof. unfold floatish. intros ->. reflexivity. Qed.

Lemma length_val_neg_digits ds :
  ds <> [] -> forallb is_digit ds = true ->
  length_val (45 :: ds)
  = if Nat.leb (length ds) 15 then Ret (VFloat (- Z.of_N (N_of_digits ds)) 1) else Raise Unmodelled.
Proof.
  intros Hne Hd. unfold length_val. replace (forallb is_digit (45 :: ds)) with false by reflexivity.
  rewrite (decimal_val_neg_digits ds Hne Hd).
  destruct (Nat.leb (length ds) 15); [reflexivity|].
  assert (Hf : forallb floatish (45 :: ds) = true).
  { cbn [forallb]. change (floatish 45) with true. cbn [andb].
    apply forallb_forall. intros c Hc. apply digit_floatish. eapply forallb_forall in Hd; eauto. }
  rewrite Hf. cbn [negb].
  assert (He : existsb is_digit (45 :: ds) = true).
  { destruct ds as [|c0 r0]; [contradiction|]. cbn [forallb] in Hd. apply andb_true_iff in Hd as [Hc _].
    cbn [existsb]. rewrite Hc. rewrite orb_true_r. reflexivity. }
  rewrite He. reflexivity.
Qed.

Theorem neg_int_length_back p :
  length_val (str_of_Z (Zneg p))
  = if Nat.leb (length (str_of_N (Npos p))) 15 then Ret (VFloat (Zneg p) 1) else Raise Unmodelled.
Proof.
  cbn [str_of_Z]. rewrite length_val_neg_digits.
  - rewrite N_of_digits_str. reflexivity.
  - apply str_of_N_nonempty.
  - unfold str_of_N. apply uint_digits_digit.
Qed.

Theorem lit_okb_int z : lit_okb (VInt z) = Z.ltb 0 z.
Proof.
  destruct z as [|p|p].
  - reflexivity.
  - unfold lit_okb. cbn [truthy py_str str_of_Z Z.eqb negb andb Z.ltb Z.compare].
    rewrite length_val_pos.
    assert (Hn : is_nil (str_of_N (N.pos p)) = false).
    { destruct (str_of_N (N.pos p)) as [|c r] eqn:E; [exfalso; exact (str_of_N_nonempty p E)|reflexivity]. }
    rewrite Hn. unfold str_of_N at 1. rewrite uint_digits_plain. cbn [negb andb val_same].
    apply Z.eqb_refl.
  - unfold lit_okb. cbn [truthy py_str Z.eqb negb andb Z.ltb Z.compare]. rewrite neg_int_length_back.
    destruct (Nat.leb _ 15); cbn [val_same]; rewrite ?andb_false_r; reflexivity.
Qed.

Definition neg_len_tree (p : positive) : tree :=
  T None [114] [] [ T None [98] [([76], VInt (Zneg p))] [] ].

Lemma neg_len_write p :
  nw_write (NwCfg true [76] [58] [] [] [58]) true (neg_len_tree p)
  = Ret ([40; 98; 58; 45] ++ str_of_N (Npos p) ++ [41; 114]).
Proof. unfold neg_len_tree. cbn -[str_of_N]. rewrite !app_nil_r. reflexivity. Qed.

Lemma digits_plain ds : forallb is_digit ds = true -> has_special ds = false.
Proof.
  unfold has_special. induction ds as [|c r IH]; intros H; [reflexivity|].
  cbn [forallb] in H. apply andb_true_iff in H as [Hc Hr]. cbn [existsb]. rewrite (IH Hr), orb_false_r.
  unfold is_digit in Hc. apply andb_true_iff in Hc as [H1 H2]. apply N.leb_le in H1. apply N.leb_le in H2.
  unfold memN, nw_specials. cbn [existsb].
  repeat (apply orb_false_iff; split); try reflexivity; apply N.eqb_neq; lia.
Qed.

Lemma neg_len_parse p :
  nw_parse [76] [] ([40; 98; 58; 45] ++ str_of_N (Npos p) ++ [41; 114])
  = if Nat.leb (length (str_of_N (Npos p))) 15
    then Ret (T None [114] [] [ T None [98] [([76], VFloat (Zneg p) 1)] [] ])
    else Raise Unmodelled.
Proof.
  assert (Hd : forallb is_digit (str_of_N (Npos p)) = true) by (unfold str_of_N; apply uint_digits_digit).
  pose proof (neg_int_length_back p) as Hlv. cbn [str_of_Z] in Hlv.
  set (ds := str_of_N (Npos p)) in *.
  assert (Hs : has_special (45 :: ds) = false).
  { unfold has_special. cbn [existsb]. change (memN 45 nw_specials) with false. cbn [orb].
    apply (digits_plain ds Hd). }
  unfold nw_parse. cbn [app].
  change p_init with (St [] [] [] 1 0 []).
  rewrite run_cons, step_open.
  change (98 :: 58 :: 45 :: ds ++ [41; 114]) with ([98] ++ 58 :: 45 :: ds ++ [41; 114]).
  rewrite (run_plain_chars [76] [] [98] _ [] [] [[]] (1 + 1)%Z 0%nat [] eq_refl).
  cbn [app]. rewrite run_cons.
  unfold nw_step at 1, St at 1. cbn [N.eqb Pos.eqb orb andb create_node attach app is_nil negb].
  change (45 :: ds ++ [41; 114]) with ((45 :: ds) ++ [41; 114]).
  rewrite (run_chars_cum [76] [] (45 :: ds) _ _ _ _ _ _ PStr true [] [] I Hs).
  cbn [app nw_run p_skip]. unfold nw_step at 1. cbn [N.eqb Pos.eqb orb andb].
  unfold create_node at 1. cbn [reserved_key N.eqb Pos.eqb orb str_eqb key_name].
  cbn [andb]. rewrite Hlv. destruct (Nat.leb (length ds) 15); reflexivity.
Qed.

Theorem neg_int_length_tree p :
  exists s, nw_write (NwCfg true [76] [58] [] [] [58]) true (neg_len_tree p) = Ret s
    /\ forall back, nw_parse [76] [] s = Ret back ->
                    prop_newick_back (NwOpt true [76] [] [] true) true (neg_len_tree p) back = false.
Proof.
  eexists. split; [apply neg_len_write|]. intros back. rewrite neg_len_parse.
  destruct (Nat.leb _ 15); [|discriminate]. intros E. inversion E; subst. reflexivity.
Qed.


(* a falsy or absent length on any node below the start node: the exporter raises *)
Fixpoint bad_len (la : str) (isroot : bool) (t : tree) : bool :=
  match t with
  | T _ _ a ks => (negb isroot && negb (truthy (lookup la a))) || existsb (bad_len la false) ks
  end.

Theorem write_raises_on_falsy_length c t :
  is_nil (nw_len c) = false ->
  forall isroot, bad_len (nw_len c) isroot t = true -> exists e, nw_write c isroot t = Raise e.
Proof.
  intros Hl. induction t as [g n a ks IH] using tree_ind'. intros isroot H.
  cbn [bad_len] in H. cbn [nw_write].
  destruct (negb isroot && negb (truthy (lookup (nw_len c) a))) eqn:Eh.
  - apply andb_true_iff in Eh as [E1 E2]. unfold name_str. rewrite Hl, E1. cbn [negb andb].
    apply negb_true_iff in E2. rewrite E2. eexists; reflexivity.
  - cbn [orb] in H.
    destruct (name_str c isroot (is_nil ks) n a) as [nm|e]; [|eexists; reflexivity].
    destruct (attr_str c a) as [ast|e]; [|eexists; reflexivity].
    destruct ks as [|k ks]; [discriminate|].
    assert (Hgo : forall l,
               Forall (fun t => forall isroot, bad_len (nw_len c) isroot t = true ->
                                               exists e, nw_write c isroot t = Raise e) l ->
               existsb (bad_len (nw_len c) false) l = true ->
               exists e,
               (fix go (l : list tree) : res (list str) :=
                  match l with
                  | [] => Ret []
                  | k0 :: r =>
                      match nw_write c false k0 with
                      | Raise e => Raise e
                      | Ret s => match go r with Raise e => Raise e | Ret ss => Ret (s :: ss) end
                      end
                  end) l = Raise e).
    { intros l Hl'. induction Hl' as [|x l Hx Hl' IHl]; intros He; [discriminate|].
      cbn [existsb] in He. destruct (bad_len (nw_len c) false x) eqn:Ex.
      - destruct (Hx false Ex) as [e ->]. eexists; reflexivity.
      - cbn [orb] in He. destruct (IHl He) as [e ->].
        destruct (nw_write c false x); eexists; reflexivity. }
    destruct (Hgo (k :: ks) IH H) as [e ->]. eexists; reflexivity.
Qed.

(* the node itself: ValueError *)
Lemma write_falsy_length_here c g n a ks :
  is_nil (nw_len c) = false -> truthy (lookup (nw_len c) a) = false ->
  nw_write c false (T g n a ks) = Raise ValueError.
Proof.
  intros Hl Ht. cbn [nw_write]. unfold name_str. rewrite Hl, Ht. reflexivity.
Qed.
