(* Model of the tabular exporters of bigtree/tree/export.py:802-1160
     tree_to_dataframe (802-905), tree_to_polars (908-1021), tree_to_dict (1024-1103),
     tree_to_nested_dict (1106-1160)
   and of the matching constructors of bigtree/tree/construct.py
     add_path_to_tree (48-128), dict_to_tree (762-849), nested_dict_to_tree (852-927),
     dataframe_to_tree (930-1038), polars_to_tree (1169-1275).
   No proofs in this file.

   Python values
   * a `dict` is a list of (key, value) pairs in insertion order with `dict_set` = `d[k] = v`
     (an existing key keeps its position and gets the new value);
   * a pandas / polars frame built from a list of dicts is the list of rows, every row holding every
     column (union of the keys in order of first appearance), a missing cell being null = VNone;
   * node attributes (`node.__dict__` minus name, _sep and the private link fields) are `tattrs`.

   Domain notes (the generators stay inside, see harness/engines/export.py):
   * `node.get_attr(k)` is `getattr(node, k)`: for k = "name" the model returns the name, for every
     other key it looks into the attributes; keys that are properties or methods of Node
     (`depth`, `path_name`, `children` ...) are not modelled;
   * max_depth / skip_depth are natural numbers (Python would accept negative ints);
   * the exporters start with `tree = tree.copy()`, a deepcopy that follows the parent link and thus
     copies the WHOLE tree; the function then works on the copy of the start node, so `node.depth`,
     `node.path_name`, `node.parent` are those inside the whole tree.  The model therefore takes
     the root and the position of the start node. *)
From BT Require Import Base.Prelude Base.Str Base.Rose.

(* ------------------------------------------------------------------------------------------ *)
(* Python dict primitives *)

Section Dict.
  Context {V : Type}.
  Fixpoint dict_set (k : str) (v : V) (d : list (str * V)) : list (str * V) :=
    match d with
    | [] => [(k, v)]
    | (k', v') :: r => if str_eqb k k' then (k, v) :: r else (k', v') :: dict_set k v r
    end.
  (* d.update(items) / a sequence of assignments *)
  Definition dict_update (d : list (str * V)) (items : list (str * V)) : list (str * V) :=
    fold_left (fun acc kv => dict_set (fst kv) (snd kv) acc) items d.
  Definition dict_of (items : list (str * V)) : list (str * V) := dict_update [] items.
  Fixpoint dict_get (k : str) (d : list (str * V)) : option V :=
    match d with
    | [] => None
    | (k', v) :: r => if str_eqb k k' then Some v else dict_get k r
    end.
  Definition dict_has (k : str) (d : list (str * V)) : bool :=
    match dict_get k d with Some _ => true | None => false end.
  (* {k: v for k, v in d.items() if k != key} *)
  Definition dict_del (k : str) (d : list (str * V)) : list (str * V) :=
    filter (fun kv => negb (str_eqb (fst kv) k)) d.
End Dict.

Definition record := list (str * val).

(* sorted(items, key=lambda item: item[0]) -- stable insertion sort on the key *)
Section Sort.
  Context {V : Type}.
  Fixpoint insert_key (x : str * V) (l : list (str * V)) : list (str * V) :=
    match l with
    | [] => [x]
    | y :: r => if str_ltb (fst x) (fst y) then x :: l else y :: insert_key x r
    end.
  Definition sort_items (l : list (str * V)) : list (str * V) := fold_right insert_key [] l.
End Sort.

Definition s_name : str := [110; 97; 109; 101]%N.          (* "name" *)
Definition s_children : str := [99; 104; 105; 108; 100; 114; 101; 110]%N.   (* "children" *)
Definition s_path : str := [112; 97; 116; 104]%N.           (* "path" *)
Definition s_us : str := [95]%N.                            (* "_" *)

Definition is_null (v : val) : bool := match v with VNone => true | _ => false end.

(* ------------------------------------------------------------------------------------------ *)
(* Node members used by the exporters *)

(* basenode.py:621 get_attr: getattr(self, k) or None *)
Definition get_attr (t : tree) (k : str) : val :=
  if str_eqb k s_name then VStr (tname t)
  else match dict_get k (tattrs t) with Some v => v | None => VNone end.

(* basenode.py:592 describe(exclude_attributes=["name"], exclude_prefix="_"):
   the items of __dict__ sorted by key, without "name" and without keys starting with "_" *)
Definition public_key (k : str) : bool := negb (str_eqb k s_name) && negb (startswith k s_us).
Definition describe (t : tree) : record :=
  filter (fun kv => public_key (fst kv)) (sort_items (tattrs t)).

(* node.py:113 path_name, for a node whose names from the root down to itself are `names` *)
Definition path_name (sep : str) (names : list str) : str := sep ++ join sep names.

(* ------------------------------------------------------------------------------------------ *)
(* Options *)

Record opts := Opts {
  o_name_key : str;                  (* name_key / name_col *)
  o_parent_key : str;                (* parent_key / parent_col *)
  o_path_col : str;                  (* frames only *)
  o_attr_dict : list (str * str);    (* node attribute -> output key, a Python dict *)
  o_all_attrs : bool;
  o_max_depth : nat;
  o_skip_depth : nat;
  o_leaf_only : bool
}.

Definition nonempty (s : str) : bool := match s with [] => false | _ => true end.

(* export.py:871-875 / 1080-1084: the three gates *)
Definition depth_gate (o : opts) (depth : nat) : bool :=
  (Nat.eqb (o_max_depth o) 0 || Nat.leb depth (o_max_depth o)) &&
  (Nat.eqb (o_skip_depth o) 0 || Nat.ltb (o_skip_depth o) depth).
Definition gates (o : opts) (depth : nat) (t : tree) : bool :=
  depth_gate o depth && (negb (o_leaf_only o) || is_leaf t).

(* export.py:889-896 / 1092-1101: all_attrs -> describe(...), else the attr_dict loop *)
Definition attr_items (o : opts) (t : tree) : record :=
  if o_all_attrs o then describe t
  else map (fun kv => (snd kv, get_attr t (fst kv))) (o_attr_dict o).

Definition parent_val (anc : list str) : val :=
  match rev anc with [] => VNone | p :: _ => VStr p end.

Definition opt_item (k : str) (v : val) : record := if nonempty k then [(k, v)] else [].

(* the assignments to data_child of tree_to_dict (export.py:1085-1101), anc = names of the ancestors *)
Definition dict_child (o : opts) (anc : list str) (t : tree) : record :=
  dict_of (opt_item (o_name_key o) (VStr (tname t))
           ++ opt_item (o_parent_key o) (parent_val anc)
           ++ attr_items o t).

(* the assignments to data_child of tree_to_dataframe / tree_to_polars (export.py:876-896, 995-1015) *)
Definition frame_child (o : opts) (sep : str) (anc : list str) (t : tree) : record :=
  dict_of (opt_item (o_path_col o) (VStr (path_name sep (anc ++ [tname t])))
           ++ opt_item (o_name_key o) (VStr (tname t))
           ++ opt_item (o_parent_key o) (parent_val anc)
           ++ attr_items o t).

(* _recursive_append (export.py:863-899, 1072-1103): visit the node, emit when the gates hold, and
   recurse into ALL children whatever the gates said *)
Section Walk.
  Context {X : Type}.
  Variable emit : list str -> tree -> X.
  Variable o : opts.
  Fixpoint walk (anc : list str) (t : tree) : list X :=
    match t with
    | T _ n _ ks =>
        (if gates o (S (length anc)) t then [emit anc t] else [])
        ++ flat_map (walk (anc ++ [n])) ks
    end.
End Walk.

(* the start node inside the whole (copied) tree: names of its ancestors, and the node *)
Fixpoint locate (anc : list str) (t : tree) (p : pos) : option (list str * tree) :=
  match p with
  | [] => Some (anc, t)
  | i :: p' => match nth_error (tkids t) i with
               | Some k => locate (anc ++ [tname t]) k p'
               | None => None
               end
  end.

(* tree_to_dict: data_dict[node.path_name] = data_child *)
Definition tree_to_dict (root : tree) (sep : str) (p : pos) (o : opts) : res (list (str * record)) :=
  match locate [] root p with
  | None => Raise Unmodelled
  | Some (anc, t) =>
      Ret (dict_of (walk (fun a n => (path_name sep (a ++ [tname n]), dict_child o a n)) o anc t))
  end.

(* pd.DataFrame(data_list) / pl.DataFrame(data_list) as observed through its row dicts *)
Definition frame_columns (rows : list record) : list str :=
  map fst (dict_of (concat rows)).
(* a frame without columns shows no row dicts (pandas: to_dict("records") = []) *)
Definition frame_of (rows : list record) : list record :=
  match frame_columns rows with
  | [] => []
  | cols =>
      map (fun r => map (fun c => (c, match dict_get c r with Some v => v | None => VNone end)) cols)
          rows
  end.

Definition tree_to_dataframe (root : tree) (sep : str) (p : pos) (o : opts) : res (list record) :=
  match locate [] root p with
  | None => Raise Unmodelled
  | Some (anc, t) => Ret (frame_of (walk (frame_child o sep) o anc t))
  end.
(* export.py:908-1021 is the same code line by line, ending in pl.DataFrame(data_list) *)
Definition tree_to_polars := tree_to_dataframe.

(* tree_to_nested_dict (export.py:1106-1160).  A nested dict is represented as a tree whose
   attribute list is the dict without child_key and whose children are the list under child_key
   (key absent <-> no children).  Only the max_depth gate exists here and the recursion into the
   children sits INSIDE the gate. *)
Definition nested_child (o : opts) (t : tree) : record :=
  dict_of ((o_name_key o, VStr (tname t)) :: attr_items o t).

Fixpoint nested_go (o : opts) (depth : nat) (t : tree) : list tree :=
  match t with
  | T _ n _ ks =>
      if Nat.eqb (o_max_depth o) 0 || Nat.leb depth (o_max_depth o)
      then [T None [] (nested_child o t) (flat_map (nested_go o (S depth)) ks)]
      else []
  end.

Definition tree_to_nested_dict (root : tree) (p : pos) (o : opts) : res tree :=
  match locate [] root p with
  | None => Raise Unmodelled
  | Some (anc, t) =>
      match nested_go o (S (length anc)) t with
      | d :: _ => Ret d
      | [] => Raise KeyError               (* data_dict[child_key] on the empty dict *)
      end
  end.

(* ------------------------------------------------------------------------------------------ *)
(* Constructors *)

Definition is_empty (s : str) : bool := negb (nonempty s).

(* path.lstrip(sep).rstrip(sep).split(sep) -- construct.py:100 *)
Definition strip_path (path sep : str) : str := rstrip (lstrip path sep) sep.
Definition branch_of (path sep : str) : list str := split (strip_path path sep) sep.

(* node.set_attrs(d): __dict__.update(d) *)
Definition set_attrs (t : tree) (d : record) : tree :=
  match t with T g n a ks => T g n (dict_update a d) ks end.

Definition new_node (n : str) : tree := T None n [] [].

(* the loop of add_path_to_tree (construct.py:107-128) with duplicate_name_allowed=True:
   find_child_by_name (first child of that name) or a new last child; attributes on the last node *)
Fixpoint add_branch (names : list str) (na : record) (t : tree) : tree :=
  match names with
  | [] => set_attrs t na
  | n :: rest =>
      match t with
      | T g m a ks =>
          T g m a ((fix go (l : list tree) : list tree :=
                      match l with
                      | [] => [add_branch rest na (new_node n)]
                      | k :: r => if str_eqb (tname k) n then add_branch rest na k :: r
                                  else k :: go r
                      end) ks)
      end
  end.

(* add_path_to_tree(tree=root, path, sep, node_attrs): ValueError on an empty path, TreeError on a
   different root name; a component that is the empty string is never found among the children and
   Node("") raises TreeError (node.py:80) *)
Definition add_path_to_tree (t : tree) (path sep : str) (na : record) : res tree :=
  if is_empty path then Raise ValueError else
  match branch_of path sep with
  | [] => Raise TreeError
  | b0 :: rest =>
      if negb (str_eqb b0 (tname t)) then Raise TreeError
      else if existsb is_empty rest then Raise TreeError
      else Ret (add_branch rest na t)
  end.

Fixpoint add_paths (sep : str) (items : list (str * record)) (t : tree) : res tree :=
  match items with
  | [] => Ret t
  | (p, a) :: r => match add_path_to_tree t p sep a with
                   | Ret t' => add_paths sep r t'
                   | Raise e => Raise e
                   end
  end.

(* path_attrs.get(k, {}) or ... : an empty dict is falsy *)
Definition get_or (k : str) (d : list (str * record)) (other : record) : record :=
  match dict_get k d with
  | Some (x :: r) => x :: r
  | _ => other
  end.

(* dict_to_tree (construct.py:818-849) *)
Definition dict_to_tree (d : list (str * record)) (sep : str) : res tree :=
  match d with
  | [] => Raise ValueError
  | (p0, _) :: _ =>
      let root_name := hd [] (branch_of p0 sep) in
      let root_attrs :=
        get_or root_name d (get_or (sep ++ root_name) d
          (get_or (root_name ++ sep) d (get_or (sep ++ root_name ++ sep) d []))) in
      if is_empty root_name then Raise TreeError else
      add_paths sep (map (fun pa => (fst pa, dict_del s_name (snd pa))) d)
                (T None root_name (dict_del s_name root_attrs) [])
  end.

(* nested_dict_to_tree (construct.py:899-927): pop name_key, pop child_key, the rest are attributes;
   Node(name, parent=...) refuses a second child of the same name (node.py:159) *)
Fixpoint dup_names (l : list tree) : bool :=
  match l with
  | [] => false
  | k :: r => existsb (fun x => str_eqb (tname x) (tname k)) r || dup_names r
  end.

Fixpoint nested_dict_to_tree (name_key : str) (d : tree) : res tree :=
  match d with
  | T _ _ fields kids =>
      match dict_get name_key fields with
      | Some (VStr n) =>
          if is_empty n then Raise TreeError else
          (fix go (l : list tree) (acc : list tree) : res tree :=
             match l with
             | [] => Ret (T None n (dict_del name_key fields) (rev acc))
             | k :: r =>
                 match nested_dict_to_tree name_key k with
                 | Ret k' => if existsb (fun x => str_eqb (tname x) (tname k')) acc
                             then Raise TreeError else go r (k' :: acc)
                 | Raise e => Raise e
                 end
             end) kids []
      | Some _ => Raise Unmodelled          (* a name that is not a str *)
      | None => Raise KeyError
      end
  end.

(* dataframe_to_tree / polars_to_tree with path_col="" and attribute_cols=[] (construct.py:990-1038,
   1229-1275): first column = paths, the other columns = attributes; paths stripped; rows with the
   same path and different attributes are refused; null cells are not set *)
Definition row_attrs (path_col : str) (r : record) : record :=
  filter (fun kv => negb (is_null (snd kv)) && negb (str_eqb (fst kv) s_name)
                    && negb (str_eqb (fst kv) path_col)) r.

Fixpoint record_eqb (a b : record) : bool :=
  match a, b with
  | [], [] => true
  | (k, v) :: a', (k', v') :: b' => str_eqb k k' && val_eqb v v' && record_eqb a' b'
  | _, _ => false
  end.

(* assert_dataframe_no_duplicate_attribute: some path occurs in two different rows *)
Fixpoint dup_conflict (rows : list (str * record)) : bool :=
  match rows with
  | [] => false
  | (p, a) :: r => existsb (fun qb => str_eqb (fst qb) p && negb (record_eqb (snd qb) a)) r
                   || dup_conflict r
  end.

Definition dataframe_to_tree (rows : list record) (sep : str) : res tree :=
  match rows with
  | [] => Raise ValueError
  | [] :: _ => Raise ValueError                       (* no columns *)
  | ((path_col, _) :: _) :: _ =>
      let stripped :=
        map (fun r => (match dict_get path_col r with
                       | Some (VStr p) => strip_path p sep
                       | _ => []
                       end, dict_del path_col r)) rows in
      if existsb (fun r => match dict_get path_col r with Some (VStr _) => false | _ => true end) rows
      then Raise Unmodelled else
      if dup_conflict stripped then Raise ValueError else
      match stripped with
      | [] => Raise ValueError
      | (p0, _) :: _ =>
          let root_name := hd [] (split p0 sep) in
          let root_attrs :=
            match filter (fun pa => str_eqb (fst pa) root_name) stripped with
            | (_, a) :: _ => row_attrs path_col a
            | [] => []
            end in
          if is_empty root_name then Raise TreeError else
          add_paths sep (map (fun pa => (fst pa, row_attrs path_col (snd pa))) stripped)
                    (T None root_name root_attrs [])
      end
  end.
Definition polars_to_tree := dataframe_to_tree.

(* ------------------------------------------------------------------------------------------ *)
(* duplicate_name_allowed=False (construct.py:107-121): every component below the root is looked up
   by NAME in the whole tree (search.find_name: pre-order, SearchError on two hits); a hit whose path
   differs from the path being added raises DuplicatedNodeError; no hit creates the node below the
   previous component.  tree_sep is the separator of the tree under construction: `sep` in
   dict_to_tree, still the default "/" in dataframe_to_tree / polars_to_tree (set at the end). *)
Definition named_paths (n : str) (t : tree) : list (list str) :=
  filter (fun p => match rev p with x :: _ => str_eqb x n | [] => false end) (paths t).

Fixpoint grow_nodup (tree_sep : str) (pref rest : list str) (t : tree) : res tree :=
  match rest with
  | [] => Ret t
  | n :: rest' =>
      let here := pref ++ [n] in
      match named_paths n t with
      | _ :: _ :: _ => Raise SearchError
      | [p] => if str_eqb (path_name tree_sep p) (path_name tree_sep here)
               then grow_nodup tree_sep here rest' t else Raise DuplicatedNodeError
      | [] => grow_nodup tree_sep here rest' (add_branch (tl here) [] t)
      end
  end.

Definition add_path_to_tree_nd (tree_sep : str) (t : tree) (path sep : str) (na : record) : res tree :=
  if is_empty path then Raise ValueError else
  match branch_of path sep with
  | [] => Raise TreeError
  | b0 :: rest =>
      if negb (str_eqb b0 (tname t)) then Raise TreeError
      else if existsb is_empty rest then Raise TreeError
      else match grow_nodup tree_sep [b0] rest t with
           | Ret t' => Ret (add_branch rest na t')
           | Raise e => Raise e
           end
  end.

Fixpoint add_paths_nd (tree_sep sep : str) (items : list (str * record)) (t : tree) : res tree :=
  match items with
  | [] => Ret t
  | (p, a) :: r => match add_path_to_tree_nd tree_sep t p sep a with
                   | Ret t' => add_paths_nd tree_sep sep r t'
                   | Raise e => Raise e
                   end
  end.

Definition dict_to_tree_nd (d : list (str * record)) (sep : str) : res tree :=
  match d with
  | [] => Raise ValueError
  | (p0, _) :: _ =>
      let root_name := hd [] (branch_of p0 sep) in
      let root_attrs :=
        get_or root_name d (get_or (sep ++ root_name) d
          (get_or (root_name ++ sep) d (get_or (sep ++ root_name ++ sep) d []))) in
      if is_empty root_name then Raise TreeError else
      add_paths_nd sep sep (map (fun pa => (fst pa, dict_del s_name (snd pa))) d)
                   (T None root_name (dict_del s_name root_attrs) [])
  end.

Definition s_slash : str := [47]%N.

Definition dataframe_to_tree_nd (rows : list record) (sep : str) : res tree :=
  match rows with
  | [] => Raise ValueError
  | [] :: _ => Raise ValueError
  | ((path_col, _) :: _) :: _ =>
      let stripped :=
        map (fun r => (match dict_get path_col r with
                       | Some (VStr p) => strip_path p sep
                       | _ => []
                       end, dict_del path_col r)) rows in
      if existsb (fun r => match dict_get path_col r with Some (VStr _) => false | _ => true end) rows
      then Raise Unmodelled else
      if dup_conflict stripped then Raise ValueError else
      match stripped with
      | [] => Raise ValueError
      | (p0, _) :: _ =>
          let root_name := hd [] (split p0 sep) in
          let root_attrs :=
            match filter (fun pa => str_eqb (fst pa) root_name) stripped with
            | (_, a) :: _ => row_attrs path_col a
            | [] => []
            end in
          if is_empty root_name then Raise TreeError else
          add_paths_nd s_slash sep (map (fun pa => (fst pa, row_attrs path_col (snd pa))) stripped)
                       (T None root_name root_attrs [])
      end
  end.

(* ------------------------------------------------------------------------------------------ *)
(* The round trips observed by the harness: full export of the whole tree (all_attrs=True, default
   keys) fed to the matching constructor with the tree's separator *)

Definition full_opts : opts := Opts s_name [] s_path [] true 0 0 false.

Definition bind {A B} (r : res A) (f : A -> res B) : res B :=
  match r with Ret a => f a | Raise e => Raise e end.
Definition res_map {A B} (f : A -> B) (r : res A) : res B :=
  match r with Ret a => Ret (f a) | Raise e => Raise e end.

Definition rt_dict (t : tree) (sep : str) : res tree :=
  bind (tree_to_dict t sep [] full_opts) (fun d => dict_to_tree d sep).
Definition rt_nested (t : tree) : res tree :=
  bind (tree_to_nested_dict t [] full_opts) (nested_dict_to_tree s_name).
Definition rt_frame (t : tree) (sep : str) : res tree :=
  bind (tree_to_dataframe t sep [] full_opts) (fun d => dataframe_to_tree d sep).

(* the variants the harness also runs: nested round trip with a caller-chosen name key, path round
   trips with duplicate_name_allowed=False *)
Definition full_opts_named (nk : str) : opts := Opts nk [] s_path [] true 0 0 false.
Definition rt_nested_with (nk : str) (t : tree) : res tree :=
  bind (tree_to_nested_dict t [] (full_opts_named nk)) (nested_dict_to_tree nk).
Definition rt_dict_nd (t : tree) (sep : str) : res tree :=
  bind (tree_to_dict t sep [] full_opts) (fun d => dict_to_tree_nd d sep).
Definition rt_frame_nd (t : tree) (sep : str) : res tree :=
  bind (tree_to_dataframe t sep [] full_opts) (fun d => dataframe_to_tree_nd d sep).
