(* C18, fourth round: tree_to_dot — the guard "the nodes have pairwise different path names"
   (`paths_distinct`, a predicate on the computed path strings) of C18_dot_ids_injective_partial /
   C18_dot_ids_injective_few is derived from the shape of the tree: for a one-character separator it
   holds for EVERY tree in which the children of one node have pairwise different names and no
   non-root name contains the separator (any fan-out and depth, names repeated across branches,
   empty BinaryNode slots).  Both halves of the structural guard are shown necessary. *)
From BT Require Import Base.Prelude Base.Str Base.Rose Algo.Render Algo.Dot Spec.PC18 Algo.RenderProofs
     Algo.C18More3.

(* the children of every node have pairwise different names, none of which contains c *)
Fixpoint sibs_wf (c : N) (t : tree) : bool :=
  match t with
  | T _ _ _ ks =>
      nodup_str (map tname ks)
      && forallb (fun k => negb (existsb (N.eqb c) (tname k))) ks
      && forallb (sibs_wf c) ks
  end.

Definition tail_ok (c : N) (s : str) : Prop := s = [] \/ exists r, s = c :: r.

Lemma existsb_false_notin (c : N) (s : str) : existsb (N.eqb c) s = false -> ~ In c s.
Proof.
  induction s as [|x s IH]; intros H; [intros []|]. cbn [existsb] in H.
  apply Bool.orb_false_iff in H as [H1 H2]. intros [->|Hin].
  - rewrite N.eqb_refl in H1. discriminate.
  - exact (IH H2 Hin).
Qed.

(* a name without c followed by nothing or by c: the name is determined *)
Lemma split_unique (c : N) : forall a b s1 s2,
  ~ In c a -> ~ In c b -> tail_ok c s1 -> tail_ok c s2 -> a ++ s1 = b ++ s2 -> a = b.
Proof.
  induction a as [|x a IH]; intros b s1 s2 Ha Hb T1 T2 E.
  - destruct b as [|y b]; [reflexivity|]. exfalso. cbn in E.
    destruct T1 as [->|[r ->]]; [discriminate|]. injection E as Ey _. apply Hb. left. symmetry. exact Ey.
  - destruct b as [|y b].
    + exfalso. cbn in E. destruct T2 as [->|[r ->]]; [discriminate|]. injection E as Ex _.
      apply Ha. left. exact Ex.
    + cbn in E. injection E as -> E. f_equal. apply (IH b s1 s2); auto.
      * intros Hin. apply Ha. right. exact Hin.
      * intros Hin. apply Hb. right. exact Hin.
Qed.

Lemma lp_kids_in sep path : forall ks x,
  In x (map snd (lp_kids sep path ks)) -> exists k, In k ks /\ In x (map snd (label_paths sep path k)).
Proof.
  induction ks as [|k r IH]; intros x H; [destruct H|].
  rewrite lp_kids_cons, map_app in H. apply in_app_or in H as [H|H].
  - exists k. split; [left; reflexivity|exact H].
  - destruct (IH x H) as [k' [Hk Hx]]. exists k'. split; [right; exact Hk|exact Hx].
Qed.

(* every path name below a node starts with the node's path name, followed by nothing or by c *)
Lemma lp_prefix (c : N) : forall t pp x,
  In x (map snd (label_paths [c] pp t)) -> exists s, x = pp ++ c :: tname t ++ s /\ tail_ok c s.
Proof.
  induction t as [g n a ks IH] using tree_ind'. intros pp x H.
  rewrite label_paths_eq in H. cbn [map snd] in H. destruct H as [<-|H].
  - exists []. split; [cbn [tname app]; rewrite app_nil_r; reflexivity|left; reflexivity].
  - apply lp_kids_in in H as [k [Hk Hx]]. rewrite Forall_forall in IH.
    destruct (IH k Hk _ x Hx) as [s [-> _]]. exists (c :: tname k ++ s).
    split; [|right; eexists; reflexivity]. cbn [tname app]. rewrite <- !app_assoc. reflexivity.
Qed.

Lemma sibs_wf_paths_NoDup (c : N) : forall t pp,
  sibs_wf c t = true -> NoDup (map snd (label_paths [c] pp t)).
Proof.
  induction t as [g n a ks IH] using tree_ind'. intros pp W.
  cbn [sibs_wf] in W. apply andb_prop in W as [W W3]. apply andb_prop in W as [W1 W2].
  apply nodup_str_NoDup in W1. rewrite forallb_forall in W2, W3. rewrite Forall_forall in IH.
  rewrite label_paths_eq. cbn [map snd]. constructor.
  - intros Hin. apply lp_kids_in in Hin as [k [Hk Hx]]. apply lp_prefix in Hx as [s [E _]].
    apply (f_equal (@length N)) in E. rewrite !app_length in E. cbn [length] in E.
    rewrite !app_length in E. cbn [length] in E. lia.
  - set (path := pp ++ [c] ++ n).
    assert (G : forall l, (forall k, In k l -> In k ks) -> NoDup (map tname l) ->
                          NoDup (map snd (lp_kids [c] path l))).
    { induction l as [|k r IHl]; intros Sub ND; [constructor|].
      rewrite lp_kids_cons, map_app. cbn [map] in ND. inversion ND as [|? ? Hnot NDr]; subst.
      apply NoDup_app_intro.
      - apply IH; [apply Sub; left; reflexivity|]. apply W3. apply Sub. left. reflexivity.
      - apply IHl; [intros k' Hk'; apply Sub; right; exact Hk'|exact NDr].
      - intros x Hx Hx'. apply lp_kids_in in Hx' as [k' [Hk' Hx']].
        apply lp_prefix in Hx as [s1 [E1 T1]]. apply lp_prefix in Hx' as [s2 [E2 T2]].
        rewrite E1 in E2. apply app_inv_head in E2. injection E2 as E2.
        apply Hnot. apply in_map_iff. exists k'. split; [|exact Hk']. symmetry.
        apply (split_unique c (tname k) (tname k') s1 s2); auto.
        + apply existsb_false_notin. apply Bool.negb_true_iff. apply W2. apply Sub. left. reflexivity.
        + apply existsb_false_notin. apply Bool.negb_true_iff. apply W2. apply Sub. right. exact Hk'. }
    apply G; [auto|exact W1].
Qed.

(* the structural guard implies the guard on the path strings *)
Theorem sibs_wf_paths_distinct c t : sibs_wf c (compact t) = true -> paths_distinct [c] t = true.
Proof.
  intros W. unfold paths_distinct. apply nodup_str_NoDup. apply sibs_wf_paths_NoDup. exact W.
Qed.

(* tree_to_dot: ids injective and the whole graph clause under structural guards only *)
Theorem dot_ids_injective_shape c t :
  labels_at_most_ten t = true -> sibs_wf c (compact t) = true -> no_label_has_colon t = true ->
  graph_ids_distinct (dot_nodes [c] t) = true.
Proof. intros H1 H2 H3. apply dot_ids_injective_few; [exact H1|apply sibs_wf_paths_distinct; exact H2|exact H3]. Qed.

Theorem dot_graph_shape c t :
  labels_at_most_ten t = true -> sibs_wf c (compact t) = true -> no_label_has_colon t = true ->
  prop_C18_g t (dot_nodes [c] t) (dot_edges [c] t) = true.
Proof. intros H1 H2 H3. apply dot_graph_few; [exact H1|apply sibs_wf_paths_distinct; exact H2|exact H3]. Qed.

Theorem dot_graph_shape_nodigit c t :
  no_label_ends_in_digit t = true -> sibs_wf c (compact t) = true -> no_label_has_colon t = true ->
  prop_C18_g t (dot_nodes [c] t) (dot_edges [c] t) = true.
Proof.
  intros H1 H2 H3. pose proof (sibs_wf_paths_distinct c t H2) as HP. unfold prop_C18_g.
  rewrite (dot_ids_injective_partial [c] t H1 HP H3), (dot_nodes_plain [c] t H3).
  destruct (dot_vertices_edges_exact [c] t) as [-> ->]. reflexivity.
Qed.
